// C02 (known finding reproduction): well-formed requests only.  Several client threads open a connection, send one request to the
// *synchronous* echo application and read the reply, in a tight loop, over SCGI (no keep-alive: the worker thread that finished
// a response closes its descriptor while the event loop thread accepts the next connection, which gets the same descriptor number).
// A reply that is missing / a connection closed without a reply on this all-valid workload shows the descriptor-reuse race in
// booster::aio (a queued io_event_canceler of the closed descriptor hits the new owner of the number).
// Output: counts; exit 0 always (the driver turns lost>0 into the KNOWN-FINDING line); never used as a violation oracle.
#define VIO_DEFINE_WRAPPERS
#include "vservice.h"
#include <thread>

static vs::Fixture g_fx;
static void mount_apps(cppcms::service &srv) {
    srv.applications_pool().mount(cppcms::create_pool<vs::EchoApp>(), cppcms::mount_point("/sync"));
}
int main() {
    if (!g_fx.start("{\"service\":{\"worker_threads\":8},\"http\":{\"script_names\":[\"/sync\"]}}", mount_apps)) return 3;
    int threads = (int)vr::envl("RACE_THREADS", 12), per = (int)vr::envl("RACE_REQUESTS", 4000);
    std::atomic<long> okc{0}, lost_closed{0}, lost_timeout{0}, wrong{0};
    std::vector<std::thread> th;
    for (int t = 0; t < threads; t++) th.emplace_back([&, t] {
        for (int i = 0; i < per; i++) {
            std::string tag = "r" + std::to_string(t) + "_" + std::to_string(i);
            std::vector<std::pair<std::string, std::string>> env = {{"CONTENT_LENGTH", "0"}, {"SCGI", "1"}, {"REQUEST_METHOD", "GET"}, {"SCRIPT_NAME", "/sync"}, {"PATH_INFO", "/" + tag}, {"QUERY_STRING", "t=" + tag}};
            vc::Conn c; c.timeout_ms = 3000;
            if (!g_fx.connect(c, 's')) { wrong++; continue; }
            c.send_all(vc::scgi_encode(env, ""));
            bool closed = c.drain();
            vc::CgiReply r = vc::parse_cgi_reply(c.buf);
            if (!closed && c.buf.empty()) { lost_timeout++; continue; }
            if (!r.complete) { lost_closed++; continue; }
            vs::Echo e = vs::echo_parse(r.body);
            if (e.ok && e.path == "/" + tag) okc++; else wrong++;
        }
    });
    for (auto &x : th) x.join();
    bool alive = g_fx.alive();
    g_fx.stop();
    printf("RACE total=%ld ok=%ld closed_without_reply=%ld no_reply_timeout=%ld wrong=%ld alive=%d\n", (long)threads * per, okc.load(), lost_closed.load(), lost_timeout.load(), wrong.load(), (int)alive);
    VR.evaluations = (long)threads * per; VR.classes["race.ok"] = okc; VR.classes["race.closed_without_reply"] = lost_closed; VR.classes["race.no_reply_timeout"] = lost_timeout; VR.classes["race.wrong"] = wrong;
    VR.finish();
    return 0;
}
