// C14 — independent reference for UTF-8 well-formedness, written from the ABNF of RFC 3629 section 4 (not from the
// decoders under test: those compute the code point first and test its range/width afterwards; this one is a table of
// lead bytes with the allowed range of the second byte).  Shared by c14_sweep.cpp and c14_text.cpp.
//
//   UTF8-1 = %x00-7F
//   UTF8-2 = %xC2-DF UTF8-tail
//   UTF8-3 = %xE0 %xA0-BF UTF8-tail / %xE1-EC 2( UTF8-tail ) / %xED %x80-9F UTF8-tail / %xEE-EF 2( UTF8-tail )
//   UTF8-4 = %xF0 %x90-BF 2( UTF8-tail ) / %xF1-F3 3( UTF8-tail ) / %xF4 %x80-8F 2( UTF8-tail )
//   UTF8-tail = %x80-BF
#pragma once
#include <cstdint>
#include <cstddef>
#include <string>

namespace c14 {

enum Status {
    VALID = 0,          // a well-formed sequence starts the buffer
    PREFIX = 1,         // the whole buffer is a proper prefix of a well-formed sequence (truncated)
    ILLEGAL = 2,        // bad lead byte, a non-tail byte where a tail is required, or a complete but forbidden sequence
    ILLEGAL_RANOUT = 3  // buffer ends early AND what is there is already forbidden (E0 80, ED A0, F0 8F, F4 90 ...)
};
struct Dec { Status st; uint32_t cp; int len; };

struct Lead { unsigned char len, lo, hi; };
struct LeadTable {
    Lead t[256];
    LeadTable() {
        for (int b = 0; b < 256; b++) {
            Lead l = {0, 0, 0};
            if (b <= 0x7F) l.len = 1;
            else if (b >= 0xC2 && b <= 0xDF) { l.len = 2; l.lo = 0x80; l.hi = 0xBF; }
            else if (b == 0xE0) { l.len = 3; l.lo = 0xA0; l.hi = 0xBF; }
            else if (b >= 0xE1 && b <= 0xEC) { l.len = 3; l.lo = 0x80; l.hi = 0xBF; }
            else if (b == 0xED) { l.len = 3; l.lo = 0x80; l.hi = 0x9F; }
            else if (b == 0xEE || b == 0xEF) { l.len = 3; l.lo = 0x80; l.hi = 0xBF; }
            else if (b == 0xF0) { l.len = 4; l.lo = 0x90; l.hi = 0xBF; }
            else if (b >= 0xF1 && b <= 0xF3) { l.len = 4; l.lo = 0x80; l.hi = 0xBF; }
            else if (b == 0xF4) { l.len = 4; l.lo = 0x80; l.hi = 0x8F; }
            t[b] = l;   // 80..C1 and F5..FF: len 0 = can never start a sequence
        }
    }
};
inline Lead const *lead_table() { static LeadTable T; return T.t; }

inline bool is_tail(unsigned char b) { return b >= 0x80 && b <= 0xBF; }

// classify the first character of the buffer s[0..n), n >= 1
inline Dec ref_decode(unsigned char const *s, size_t n, Lead const *T = lead_table()) {
    Dec d = {ILLEGAL, 0, 0};
    Lead L = T[s[0]];
    if (L.len == 0) return d;
    if (L.len == 1) { d.st = VALID; d.cp = s[0]; d.len = 1; return d; }
    size_t avail = n < L.len ? n : L.len;
    for (size_t i = 1; i < avail; i++) if (!is_tail(s[i])) return d;           // hard: a non-tail byte is present
    bool second_ok = avail < 2 || (s[1] >= L.lo && s[1] <= L.hi);
    if (n < L.len) { d.st = second_ok ? PREFIX : ILLEGAL_RANOUT; return d; }
    if (!second_ok) return d;                                                  // over-long / surrogate / > U+10FFFF
    d.st = VALID; d.len = L.len;
    switch (L.len) {
    case 2: d.cp = ((uint32_t)(s[0] - 0xC0) << 6) + (s[1] - 0x80); break;
    case 3: d.cp = ((uint32_t)(s[0] - 0xE0) << 12) + ((uint32_t)(s[1] - 0x80) << 6) + (s[2] - 0x80); break;
    default: d.cp = ((uint32_t)(s[0] - 0xF0) << 18) + ((uint32_t)(s[1] - 0x80) << 12) + ((uint32_t)(s[2] - 0x80) << 6) + (s[3] - 0x80); break;
    }
    return d;
}

// "HTML-safe" mode of cppcms/encoding.h: C0 controls other than TAB LF CR, DEL and C1 controls are not allowed
inline bool html_ok(uint32_t cp) {
    if (cp == 0x09 || cp == 0x0A || cp == 0x0D) return true;
    if (cp < 0x20) return false;
    if (cp == 0x7F) return false;
    if (cp >= 0x80 && cp <= 0x9F) return false;
    return true;
}

// whole string: well-formed (and html-safe when html) ?  count = number of code points (meaningful when valid)
inline bool ref_validate(unsigned char const *s, size_t n, bool html, size_t &count, Lead const *T = lead_table()) {
    count = 0;
    size_t i = 0;
    while (i < n) {
        Dec d = ref_decode(s + i, n - i, T);
        if (d.st != VALID) return false;
        if (html && !html_ok(d.cp)) return false;
        i += d.len; count++;
    }
    return true;
}
inline bool ref_validate(std::string const &s, bool html, size_t &count) { return ref_validate((unsigned char const *)s.data(), s.size(), html, count); }

// Reference segmentation for filtering: scanning left to right, a character that is valid (in the given mode) is kept;
// anything else forms a gap.  Resynchronisation is at the next byte after an ill-formed byte (bytes inside an ill-formed
// sequence are tails or bad leads, except a following lead byte, which must get its chance to start a character:
// this is also what Unicode's "maximal subpart" practice keeps).  A well-formed but html-forbidden character (a control)
// is dropped as a whole.
struct Piece { bool keep; std::string bytes; };
template <class F> inline void ref_segments(std::string const &in, bool html, F f) {
    unsigned char const *s = (unsigned char const *)in.data();
    size_t n = in.size(), i = 0;
    while (i < n) {
        Dec d = ref_decode(s + i, n - i);
        if (d.st == VALID) { f(html ? html_ok(d.cp) : true, in.substr(i, d.len)); i += d.len; }
        else { f(false, in.substr(i, 1)); i += 1; }
    }
}
inline std::string ref_filter_remove(std::string const &in, bool html) {
    std::string out;
    ref_segments(in, html, [&](bool keep, std::string const &b) { if (keep) out += b; });
    return out;
}

inline std::string encode_cp(uint32_t v) {   // plain encoder for generators (any value < 2^21, also surrogates: used to build bad input)
    std::string o;
    if (v <= 0x7F) o += char(v);
    else if (v <= 0x7FF) { o += char(0xC0 | (v >> 6)); o += char(0x80 | (v & 0x3F)); }
    else if (v <= 0xFFFF) { o += char(0xE0 | (v >> 12)); o += char(0x80 | ((v >> 6) & 0x3F)); o += char(0x80 | (v & 0x3F)); }
    else { o += char(0xF0 | (v >> 18)); o += char(0x80 | ((v >> 12) & 0x3F)); o += char(0x80 | ((v >> 6) & 0x3F)); o += char(0x80 | (v & 0x3F)); }
    return o;
}

} // namespace c14
