// C07 — the cache never returns invalidated, expired or superseded data.
//   base  : operation histories through impl::base_cache (thread_shared / process_shared), lock-step with cm::SimpleModel
//   iface : page-building sessions through cppcms::cache_interface (http::context over the tests' dummy connection), nested
//           triggers_recorders, frames with/without notriggers, pages (plain and gzip); every stored entry is inspected through
//           the base interface so that the recorded trigger sets are compared exactly
//   enum  : all base histories of a fixed depth over keys {a,b} x triggers {a,b,t}
// Virtual clock: time() is interposed at link time (c07_model.h).
#include "c07_model.h"
#include <cppcms/service.h>
#include <cppcms/json.h>
#include <cppcms/cache_interface.h>
#include <cppcms/cache_pool.h>
#include <cppcms/http_context.h>
#include <cppcms/http_response.h>
#include <tests/dummy_api.h>
#include <zlib.h>
#include <limits>

using namespace cm;
using vr::Outcome; using vr::ok; using vr::bad;

static const long long DL_HUGE = 1LL << 50;   // STORE with dl >= DL_HUGE: deadline = the largest time_t

static time_t abs_deadline(long long rel) { return rel >= DL_HUGE ? std::numeric_limits<time_t>::max() : (time_t)(g_now + rel); }

// process_shared: shared-memory pressure ("not enough memory" evictions, bad_alloc) is excluded by a counting argument: the
// top buddy chunk (half of the segment) is only split when no free 64 KiB-aligned region exists in the lower half; every live
// block spoils at most one region, so fewer live blocks than regions keeps the top chunk intact (max_available >= size/2).
static const size_t REGION = 64 * 1024;
static bool pressure_excluded(Case const &c, SimpleModel const &M) {
    if (c.backend == 0) return true;
    size_t regions = ((size_t)c.seg_kib * 1024 / 2) / REGION;
    size_t blocks = 64;
    for (auto &kv : M.m) { blocks += 5 + 4 * kv.second.trigs.size(); if (kv.second.val.size() + 64 > REGION) return false; }
    return regions > 1 && blocks < regions - 1 && M.m.size() < 1500 && (size_t)c.limit * 16 + 64 <= REGION;
}

// ------------------------------------------------------------------------------------------------ base interface
#define STEP_CHECK(o, i, op) do { Outcome o_ = (o); if (!o_.ok()) return bad(o_.sig, "step " + std::to_string(i) + " " + (op).str() + ": " + o_.msg + " | " + c.str(40)); } while (0)

static Outcome run_base(Case const &c) {
    VR.eval();
    g_now = T0;
    cache_ptr cache = get_cache(c.backend, c.seg_kib, c.limit);
    SimpleModel M; M.limit = (unsigned)c.limit;
    bool nt = false;
    bool sweep_each = c.nkeys <= 4;
    std::set<int> touched;
    const char *cfgcls = c.backend ? (c.limit ? "base.process.limited" : "base.process.unlimited") : (c.limit ? "base.thread.limited" : "base.thread.unlimited");
    FC.add(cfgcls);

    auto check_key = [&](int ki, bool explicit_fetch) -> Outcome {
        std::string k = name(ki);
        Fetched f = do_fetch(cache, k);
        const char *p = M.take_pending(k);
        if (p) { nt = true; FC.add("fetch.after_", p); }
        if (explicit_fetch) FC.add(f.hit ? "fetch.hit" : "fetch.miss");
        return M.check_fetch(k, f, g_now, true);
    };

    for (size_t i = 0; i < c.ops.size(); i++) {
        Op const &op = c.ops[i];
        if (!M.pressure && (!pressure_excluded(c, M) || (c.backend && op.kind == STORE && (size_t)op.vlen + 64 > REGION))) { M.pressure = true; VR.cls("base.process.pressure_not_excluded"); }
        switch (op.kind) {
        case STORE: {
            std::string k = name(op.key); sset T; for (int t : op.trigs) T.insert(name(t));
            SEntry e; e.val = value(op.vseed, op.vlen); e.trigs = T; e.deadline = abs_deadline(op.dl);
            if (M.store(k, e, g_now)) { nt = true; FC.add("store.key_is_trigger_of_live_entry"); }
            if (T.count(k)) FC.add("store.own_key_in_triggers");
            cache->store(k, e.val, T, e.deadline);
            touched.insert(op.key);
            break; }
        case FETCH: touched.insert(op.key); STEP_CHECK(check_key(op.key, true), i, op); break;
        case RISE: M.rise(name(op.key)); cache->rise(name(op.key)); break;
        case REMOVE: M.remove(name(op.key)); cache->remove(name(op.key)); break;
        case CLEAR: M.clear(); cache->clear(); break;
        case TICK: { time_t b = g_now; g_now += (time_t)op.dl; M.tick(b, g_now); break; }
        case STATS: break;
        default: break;   // interface-level ops are ignored here
        }
        unsigned keys = 0, trigs = 0; cache->stats(keys, trigs);
        Outcome so = M.check_stats(keys, trigs);
        // the sweep comes first so that a wrong entry is reported as such (the stats mismatch is its consequence)
        if (sweep_each || !so.ok()) for (int ki : touched) STEP_CHECK(check_key(ki, false), i, op);
        STEP_CHECK(so, i, op);
    }
    for (int ki : touched) { Op fin; fin.kind = FETCH; fin.key = ki; STEP_CHECK(check_key(ki, false), c.ops.size(), fin); }
    if (nt) { if (g_enum) VR.nontrivial_extra++; else VR.nontrivial(c.hash()); }
    if (!g_enum) FC.flush();
    if (VR.want_sample()) VR.sample("base " + c.str(10));
    return ok();
}

// ------------------------------------------------------------------------------------------------ cache_interface
static std::string gunzip(std::string const &in, bool &good) {
    z_stream zs; memset(&zs, 0, sizeof zs); good = false;
    if (inflateInit2(&zs, 16 + MAX_WBITS) != Z_OK) return "";
    std::string out; char buf[16384];
    zs.next_in = (Bytef *)in.data(); zs.avail_in = (uInt)in.size();
    int r;
    do {
        zs.next_out = (Bytef *)buf; zs.avail_out = sizeof buf;
        r = inflate(&zs, Z_NO_FLUSH);
        if (r != Z_OK && r != Z_STREAM_END) { inflateEnd(&zs); return out; }
        out.append(buf, sizeof buf - zs.avail_out);
    } while (r != Z_STREAM_END && (zs.avail_in > 0 || zs.avail_out == 0));
    good = r == Z_STREAM_END;
    inflateEnd(&zs);
    return out;
}
static bool value_eq(SEntry const &e, std::string const &v) {
    if (!e.gz) return e.val == v;
    bool good; std::string p = gunzip(v, good);
    return good && p == e.val;
}

static cppcms::service &get_service(Case const &c) {
    static std::map<int, std::unique_ptr<cppcms::service>> per_limit;
    static int seg = -1;
    int want = c.backend ? c.seg_kib : 0;
    if (seg == -1) seg = want;
    if (seg != want) throw std::runtime_error("one back-end per process");
    for (auto &kv : per_limit) kv.second->cache_pool().get()->clear();
    auto it = per_limit.find(c.limit);
    if (it == per_limit.end()) {
        cppcms::json::value cfg;
        cfg["cache"]["backend"] = c.backend ? "process_shared" : "thread_shared";
        cfg["cache"]["limit"] = c.limit;
        if (c.backend) cfg["cache"]["memory"] = c.seg_kib;
        it = per_limit.insert(std::make_pair(c.limit, std::unique_ptr<cppcms::service>(new cppcms::service(cfg)))).first;
    }
    return *it->second;
}

struct Session {
    std::string output;
    booster::shared_ptr<cppcms::http::context> ctx;
    std::vector<std::unique_ptr<cppcms::triggers_recorder>> recs;
    // model side
    sset page_trigs; std::vector<sset> rec_sets; std::string body;
    bool gzip = false, copying = false, page_done = false;
    Session(cppcms::service &srv, bool gz) : gzip(gz) {
        std::map<std::string, std::string> env;
        env["HTTP_HOST"] = "www.example.com"; env["SCRIPT_NAME"] = "/foo"; env["PATH_INFO"] = "/bar"; env["REQUEST_METHOD"] = "GET";
        if (gz) env["HTTP_ACCEPT_ENCODING"] = "gzip, deflate";
        booster::shared_ptr<dummy_api> api(new dummy_api(srv, env, output));
        ctx.reset(new cppcms::http::context(api));
        ctx->response().io_mode(cppcms::http::response::normal);
    }
    ~Session() { recs.clear(); ctx.reset(); }
    cppcms::cache_interface &ci() { return ctx->cache(); }
    void add_trigger(std::string const &t) { page_trigs.insert(t); for (auto &r : rec_sets) r.insert(t); }
};

static Outcome run_iface(Case const &c) {
    VR.eval();
    g_now = T0;
    cppcms::service &srv = get_service(c);
    cache_ptr cache = srv.cache_pool().get();
    cache->clear();
    SimpleModel M; M.limit = (unsigned)c.limit;
    bool nt = false;
    std::set<std::string> touched;
    std::unique_ptr<Session> S;
    std::set<std::string> inherited;     // triggers that reached the current page through a fetched frame
    VR.cls(c.backend ? "iface.process" : (c.limit ? "iface.thread.limited" : "iface.thread.unlimited"));

    auto peek = [&](std::string const &k) -> Outcome {
        Fetched f = do_fetch(cache, k);
        const char *p = M.take_pending(k);
        if (p) { nt = true; FC.add("fetch.after_", p); if (k.compare(0, 3, "_U:") == 0 || k.compare(0, 3, "_Z:") == 0) FC.add("iface.page_checked_after_", p); }
        return M.check_fetch(k, f, g_now, true, value_eq);
    };
    auto need_session = [&]() { if (!S) { S.reset(new Session(srv, false)); inherited.clear(); } };
    auto deadline_of = [&](long long timeout, SEntry &e) { if (timeout < 0) { e.inf = true; e.deadline = std::numeric_limits<time_t>::max(); } else e.deadline = (time_t)(g_now + timeout); };

    for (size_t i = 0; i < c.ops.size(); i++) {
        Op const &op = c.ops[i];
        if (!M.pressure && !pressure_excluded(c, M)) { M.pressure = true; VR.cls("iface.process.pressure_not_excluded"); }
        switch (op.kind) {
        case PAGE_BEGIN: {
            S.reset(); S.reset(new Session(srv, op.flag & 1)); inherited.clear();
            std::string k = name(op.key), rk = (S->gzip ? "_Z:" : "_U:") + k;
            touched.insert(rk);
            bool hit = S->ci().fetch_page(k);
            Fetched f; f.hit = hit;
            if (hit) {
                S->ctx->response().finalize();
                size_t p = S->output.find("\r\n\r\n");
                if (p == std::string::npos) return bad("iface:page-output-without-headers", "step " + std::to_string(i));
                f.val = S->output.substr(p + 4);
                bool enc = S->output.substr(0, p).find("gzip") != std::string::npos;
                if (enc != S->gzip) return bad("iface:page-content-encoding", "step " + std::to_string(i) + " " + op.str() + ": cached page served with" + (enc ? "" : "out") + " gzip encoding to a client that does" + (S->gzip ? "" : " not") + " accept it | " + c.str(40));
                S->page_done = true;
            } else S->copying = true;
            const char *pd = M.take_pending(rk);
            if (pd) { nt = true; FC.add("fetch.after_", pd); FC.add("iface.fetch_page_after_", pd); }
            VR.cls(hit ? "iface.fetch_page.hit" : "iface.fetch_page.miss");
            STEP_CHECK(M.check_fetch(rk, f, g_now, false, value_eq), i, op);
            break; }
        case WRITE:
            need_session();
            if (S->copying && !S->page_done) { std::string t = value(op.vseed, op.vlen); S->ctx->response().out().write(t.data(), t.size()); S->body += t; }
            break;
        case ADD_TRIGGER: need_session(); S->ci().add_trigger(name(op.key)); S->add_trigger(name(op.key)); break;
        case FETCH_FRAME: {
            need_session();
            std::string k = name(op.key); touched.insert(k);
            Fetched f; f.val = "<untouched>";
            bool notr = op.flag & 1;
            f.hit = S->ci().fetch_frame(k, f.val, notr);
            const char *pd = M.take_pending(k);
            if (pd) { nt = true; FC.add("fetch.after_", pd); }
            VR.cls(f.hit ? "iface.fetch_frame.hit" : "iface.fetch_frame.miss");
            STEP_CHECK(M.check_fetch(k, f, g_now, false, value_eq), i, op);
            if (f.hit && !notr) { for (auto &t : M.m[k].trigs) { S->add_trigger(t); inherited.insert(t); } VR.cls("iface.frame_triggers_inherited"); }
            break; }
        case STORE_FRAME: case REC_POP_STORE: {
            need_session();
            std::string k = name(op.key); touched.insert(k);
            sset T; for (int t : op.trigs) T.insert(name(t));
            bool notr = op.flag & 1;
            if (op.kind == REC_POP_STORE && !S->recs.empty()) {
                size_t idx = (size_t)(op.flag >> 1) % S->recs.size();
                sset D = S->recs[idx]->detach();
                if (D != S->rec_sets[idx]) return bad("iface:recorder-set-differs", "step " + std::to_string(i) + " " + op.str() + ": recorder detached " + show_set(D) + " expected " + show_set(S->rec_sets[idx]) + " | " + c.str(40));
                S->recs.erase(S->recs.begin() + idx); S->rec_sets.erase(S->rec_sets.begin() + idx);
                for (auto &t : D) { T.insert(t); }
                VR.cls(S->recs.empty() ? "iface.recorder_store" : "iface.recorder_store_nested");
                if (!D.empty()) VR.cls("iface.recorder_store_nonempty");
            }
            SEntry e; e.val = value(op.vseed, op.vlen); e.trigs = T; deadline_of(op.dl, e);
            if (!notr) { for (auto &t : T) S->add_trigger(t); S->add_trigger(k); }
            if (M.store(k, e, g_now)) { nt = true; VR.cls("store.key_is_trigger_of_live_entry"); }
            if (op.trigs.empty() && op.kind == STORE_FRAME && (op.vseed & 1)) S->ci().store_frame(k, e.val, (int)op.dl, notr);   // the short overload
            else S->ci().store_frame(k, e.val, T, (int)op.dl, notr);
            break; }
        case REC_PUSH: need_session(); if (S->recs.size() < 4) { S->recs.emplace_back(new cppcms::triggers_recorder(S->ci())); S->rec_sets.push_back(sset()); } break;
        case REC_DROP: need_session(); if (!S->recs.empty()) { size_t idx = (size_t)(op.flag >> 1) % S->recs.size(); S->recs.erase(S->recs.begin() + idx); S->rec_sets.erase(S->rec_sets.begin() + idx); } break;
        case RESET: need_session(); S->ci().reset(); S->page_trigs.clear(); inherited.clear(); break;
        case PAGE_STORE: {
            need_session();
            if (!S->copying || S->page_done) break;
            std::string k = name(op.key), rk = (S->gzip ? "_Z:" : "_U:") + k;
            touched.insert(rk);
            S->add_trigger(k);
            SEntry e; e.val = S->body; e.gz = S->gzip; e.trigs = S->page_trigs; deadline_of(op.dl, e);
            bool has_inherited = false; for (auto &t : inherited) if (S->page_trigs.count(t)) has_inherited = true;
            if (has_inherited) VR.cls("iface.page_stored_with_inherited_triggers");
            VR.cls(S->gzip ? "iface.page_stored.gzip" : "iface.page_stored.plain");
            if (M.store(rk, e, g_now)) { nt = true; VR.cls("store.key_is_trigger_of_live_entry"); }
            S->ci().store_page(k, (int)op.dl);
            S->page_done = true;
            break; }
        case PAGE_END: S.reset(); break;
        case RISE: need_session(); M.rise(name(op.key)); S->ci().rise(name(op.key)); break;
        case CLEAR: need_session(); M.clear(); S->ci().clear(); break;
        case REMOVE: M.remove(name(op.key)); cache->remove(name(op.key)); break;
        case FETCH: touched.insert(name(op.key)); STEP_CHECK(peek(name(op.key)), i, op); break;
        case TICK: { time_t b = g_now; g_now += (time_t)op.dl; M.tick(b, g_now); break; }
        case STATS: { need_session(); unsigned k1 = 0, t1 = 0; if (!S->ci().stats(k1, t1)) return bad("iface:stats-says-no-cache", "stats() returned false"); STEP_CHECK(M.check_stats(k1, t1), i, op); break; }
        default: break;
        }
        unsigned keys = 0, trigs = 0; cache->stats(keys, trigs);
        for (auto &k : touched) STEP_CHECK(peek(k), i, op);
        STEP_CHECK(M.check_stats(keys, trigs), i, op);
    }
    S.reset();
    if (nt) VR.nontrivial(c.hash());
    FC.flush();
    if (VR.want_sample()) VR.sample("iface " + c.str(14));
    return ok();
}

// ------------------------------------------------------------------------------------------------ generators
struct GenCfg { int backend, seg_kib; };

static rc::Gen<int> skewed(int n, int hot) {
    // half of the draws from a small hot set so that re-stores, shared triggers and hits are frequent
    if (n <= hot) return vr::range<int>(0, n);
    return rc::gen::weightedOneOf<int>({{5, vr::range<int>(0, hot)}, {4, vr::range<int>(0, n)}});
}
static rc::Gen<long long> gen_rel_deadline() {
    return rc::gen::weightedOneOf<long long>({{8, rc::gen::just((long long)1000)}, {6, rc::gen::element<long long>(1, 2, 3)}, {2, rc::gen::just((long long)0)},
                                              {2, rc::gen::element<long long>(-1, -3)}, {1, rc::gen::just((long long)DL_HUGE)}});
}
static rc::Gen<long long> gen_tick() { return rc::gen::weightedOneOf<long long>({{8, rc::gen::element<long long>(1, 1, 1, 2, 3)}, {1, rc::gen::just((long long)10)}, {1, rc::gen::just((long long)2000)}}); }

static rc::Gen<Case> gen_base(GenCfg g) {
    return rc::gen::exec([g]() {
        Case c; c.backend = g.backend; c.seg_kib = g.seg_kib; c.mode = 0;
        c.limit = *rc::gen::weightedOneOf<int>({{6, rc::gen::just(0)}, {1, rc::gen::just(1)}, {1, rc::gen::just(2)}, {1, rc::gen::just(5)}, {2, rc::gen::just(1000)}});
        c.nkeys = *rc::gen::element(2, 3, 8, 8, 32, 256);
        int ntr = c.nkeys + c.nkeys / 2 + 1;
        int len = *rc::gen::weightedElement<int>({{5, 30}, {3, 90}, {1, 200}});
        int K = c.nkeys, hotk = K <= 8 ? K : 6;
        auto opgen = rc::gen::exec([K, ntr, hotk]() {
            Op o;
            o.kind = *rc::gen::weightedElement<int>({{34, STORE}, {26, FETCH}, {12, RISE}, {8, REMOVE}, {2, CLEAR}, {12, TICK}, {6, STATS}});
            switch (o.kind) {
            case STORE: {
                o.key = *skewed(K, hotk);
                int nt = *rc::gen::weightedElement<int>({{4, 0}, {4, 1}, {3, 2}, {1, 4}, {1, 9}});
                for (int i = 0; i < nt; i++) o.trigs.push_back(*skewed(ntr, 5));
                if (*rc::gen::weightedElement<int>({{9, 0}, {1, 1}})) o.trigs.push_back(o.key);   // own key listed explicitly
                o.dl = *gen_rel_deadline();
                o.vlen = *rc::gen::weightedOneOf<int>({{2, rc::gen::just(0)}, {8, vr::range<int>(1, 24)}, {2, vr::range<int>(24, 300)}, {1, vr::range<int>(300, 5000)}});
                o.vseed = *vr::range<int>(0, 1000000);
                break; }
            case FETCH: case REMOVE: o.key = *skewed(K, hotk); break;
            case RISE: o.key = *skewed(ntr, 5); break;
            case TICK: o.dl = *gen_tick(); break;
            default: break;
            }
            return o;
        });
        c.ops = *rc::gen::resize(len, rc::gen::container<std::vector<Op>>(opgen));   // 0..len operations; shrinks by dropping operations
        return c;
    });
}

static rc::Gen<Case> gen_iface(GenCfg g) {
    return rc::gen::exec([g]() {
        Case c; c.backend = g.backend; c.seg_kib = g.seg_kib; c.mode = 1;
        c.limit = *rc::gen::weightedElement<int>({{7, 0}, {1, 2}, {1, 5}, {2, 1000}});
        c.nkeys = *rc::gen::element(3, 6, 12);
        int K = c.nkeys, ntr = K + 3, pages = 3;
        int len = *rc::gen::weightedElement<int>({{5, 40}, {2, 100}});
        auto opgen = rc::gen::exec([K, ntr, pages]() {
            Op o;
            o.kind = *rc::gen::weightedElement<int>({{10, PAGE_BEGIN}, {8, WRITE}, {8, ADD_TRIGGER}, {16, FETCH_FRAME}, {14, STORE_FRAME}, {7, REC_PUSH},
                                                     {7, REC_POP_STORE}, {2, REC_DROP}, {2, RESET}, {10, PAGE_STORE}, {2, PAGE_END}, {10, RISE}, {1, CLEAR},
                                                     {2, REMOVE}, {3, FETCH}, {8, TICK}, {2, STATS}});
            switch (o.kind) {
            case PAGE_BEGIN: o.key = *vr::range<int>(0, pages); o.flag = *rc::gen::weightedElement<int>({{3, 0}, {1, 1}}); break;
            case PAGE_STORE: o.key = *vr::range<int>(0, pages); o.dl = *rc::gen::weightedElement<long long>({{5, -1}, {1, 0}, {2, 2}, {2, 1000}}); break;
            case WRITE: o.vlen = *vr::range<int>(0, 120); o.vseed = *vr::range<int>(0, 100000); break;
            case ADD_TRIGGER: case RISE: o.key = *skewed(ntr, 5); break;
            case FETCH_FRAME: o.key = *vr::range<int>(0, K); o.flag = *rc::gen::weightedElement<int>({{4, 0}, {1, 1}}); break;
            case STORE_FRAME: case REC_POP_STORE: {
                o.key = *vr::range<int>(0, K);
                int nt = *rc::gen::weightedElement<int>({{4, 0}, {4, 1}, {2, 2}, {1, 4}});
                for (int i = 0; i < nt; i++) o.trigs.push_back(*skewed(ntr, 5));
                o.dl = *rc::gen::weightedElement<long long>({{5, -1}, {1, 0}, {1, 1}, {2, 3}, {2, 1000}});
                o.vlen = *vr::range<int>(0, 60); o.vseed = *vr::range<int>(0, 100000);
                o.flag = *rc::gen::weightedElement<int>({{4, 0}, {1, 1}}) | (*vr::range<int>(0, 4) << 1);
                break; }
            case REC_DROP: o.flag = *vr::range<int>(0, 4) << 1; break;
            case REMOVE: case FETCH: o.key = *vr::range<int>(0, K); break;
            case TICK: o.dl = *gen_tick(); break;
            default: break;
            }
            return o;
        });
        c.ops = *rc::gen::resize(len, rc::gen::container<std::vector<Op>>(opgen));   // 0..len operations; shrinks by dropping operations
        return c;
    });
}

// ------------------------------------------------------------------------------------------------ enumeration
static std::vector<Op> enum_alphabet(bool with_fetch, bool reduced) {
    std::vector<Op> A;
    for (int k = 0; k < 2; k++) {
        int other = 1 - k;
        std::vector<std::vector<int>> Ts = {{}, {k}, {other}, {2}, {other, 2}};
        if (reduced) Ts.erase(Ts.begin() + 1);      // own key listed explicitly: only in the full alphabet
        for (auto &T : Ts) for (long long dl : {-1LL, 0LL, 1LL, 1000LL}) {
            if (reduced && dl == 1) continue;         // now+1 equals "now" one tick later: only in the full alphabet
            Op o; o.kind = STORE; o.key = k; o.trigs = T; o.dl = dl; o.vlen = 3; A.push_back(o);
        }
    }
    for (int t = 0; t < 3; t++) { Op o; o.kind = RISE; o.key = t; A.push_back(o); }
    for (int k = 0; k < 2; k++) { Op o; o.kind = REMOVE; o.key = k; A.push_back(o); }
    { Op o; o.kind = CLEAR; A.push_back(o); }
    for (long long dt : {1LL, 2LL}) { Op o; o.kind = TICK; o.dl = dt; A.push_back(o); }
    if (with_fetch) for (int k = 0; k < 2; k++) { Op o; o.kind = FETCH; o.key = k; A.push_back(o); }
    return A;
}
// all sequences of exactly `depth` operations (checks run after every step, so shorter histories are covered as prefixes)
static bool enumerate(int backend, int seg_kib, int limit, int depth, long stride, long offset) {
    std::vector<Op> A = enum_alphabet(limit > 0, vr::envl("C07_REDUCED", 0) != 0);
    size_t n = A.size();
    std::vector<size_t> idx((size_t)depth, 0);
    long count = 0, ncases = 0;
    g_enum = true;
    Case c; c.backend = backend; c.seg_kib = seg_kib; c.limit = limit; c.nkeys = 2; c.ops.resize((size_t)depth);
    std::string cls = std::string("enum.") + (backend ? "process" : "thread") + ".limit" + std::to_string(limit) + ".depth" + std::to_string(depth);
    for (;;) {
        if (stride <= 1 || count % stride == offset) {
            for (int d = 0; d < depth; d++) { c.ops[d] = A[idx[d]]; c.ops[d].vseed = d * 7 + 1; }
            ncases++;
            if (!vr::run_direct("base", c, run_base)) { FC.flush(); VR.cls(cls, ncases & 8191); return false; }
            if ((ncases & 8191) == 0) { FC.flush(); VR.cls(cls, 8192); VR.flush(); }
        }
        count++;
        int d = depth - 1;
        while (d >= 0 && ++idx[d] == n) { idx[d] = 0; d--; }
        if (d < 0) break;
    }
    FC.flush(); VR.cls(cls, ncases & 8191);
    return true;
}

// regression cases kept in replays/C07/*.case are run by props/c07.py through --replay
int main(int argc, char **argv) {
    VR.max_samples = 3;      // the evidence keeps 12 samples in all: leave room for several units
    GenCfg g; g.backend = (int)vr::envl("C07_BACKEND", 0); g.seg_kib = g.backend ? (int)vr::envl("C07_SEG_KIB", 262144) : 0;
    std::vector<std::unique_ptr<vr::PropBase>> props;
    props.push_back(vr::prop<Case>("base", gen_base(g), run_base));
    props.push_back(vr::prop<Case>("iface", gen_iface(g), run_iface));
    if (!vr::replay_arg(argc, argv)) {
        std::string mode = vr::env("C07_MODE", "rc");
        if (mode == "enum") {
            vr::install_crash_hooks();
            VR.disjoint = true;
            bool good = enumerate(g.backend, g.seg_kib, (int)vr::envl("C07_LIMIT", 0), (int)vr::envl("C07_DEPTH", 3), vr::envl("C07_STRIDE", 1), vr::envl("C07_OFFSET", 0));
            VR.finish();
            return good ? 0 : 1;
        }
    }
    return vr::rc_main(argc, argv, props);
}
