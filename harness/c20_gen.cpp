// C20 — part 4 (included by c20_routing.cpp): rapidcheck generators of configurations and inputs.
// Everything random is drawn through rapidcheck (Pk), hence from RC_PARAMS / VERIF_SEED.
#pragma once
#include "vrc.h"
#include "c20_model.cpp"

namespace c20 {

struct Pk {
    int operator()(int n) const { return n <= 1 ? 0 : *vr::range<int>(0, n); }
    bool pct(int p) const { return (*this)(100) < p; }
    template <class T> T const &of(std::vector<T> const &v) const { return v[(*this)((int)v.size())]; }
    // weighted index
    int w(std::initializer_list<int> ws) const {
        int tot = 0; for (int x : ws) tot += x;
        int r = (*this)(tot), i = 0;
        for (int x : ws) { if (r < x) return i; r -= x; i++; }
        return 0;
    }
    rx::Pick pick() const { Pk self = *this; return [self](int n) { return self(n); }; }
};

inline std::string strip_slash(std::string s, bool slash) { if (!slash && !s.empty() && s[0] == '/') s.erase(0, 1); return s; }

inline std::string edit_string(std::string s, Pk const &pk) {
    static const std::string chars = "a/0x. -b1Z_";
    char c = chars[pk((int)chars.size())];
    size_t pos = s.empty() ? 0 : (size_t)pk((int)s.size() + 1);
    switch (pk(9)) {
    case 0: s.insert(pos, 1, c); break;
    case 1: if (!s.empty()) s.erase(std::min(pos, s.size() - 1), 1); else s += c; break;
    case 2: if (!s.empty()) { size_t p = std::min(pos, s.size() - 1); s[p] = s[p] == c ? 'q' : c; } else s += c; break;
    case 3: s += '/'; break;
    case 4: s.insert(0, 1, c); break;
    case 5: s += '\n'; break;
    case 6: s += c; break;
    case 7: if (!s.empty()) s.erase(s.size() - 1); else s += c; break;
    default: {
        bool done = false;
        for (size_t i = 0; i < s.size() && !done; i++) { size_t p = (pos + i) % s.size(); if (isalpha((unsigned char)s[p])) { s[p] ^= 0x20; done = true; } }
        if (!done) s += c;
    }
    }
    return s;
}

// ------------------------------------------------------------------------------------------------------------
// routing mode
static const int kCapKinds[] = {rx::K_DIGITS, rx::K_WORD, rx::K_LOWER0, rx::K_ANY0, rx::K_A_AB, rx::K_NOSLASH, rx::K_D13, rx::K_SINT, rx::K_XNEST,
                                rx::K_OPTNEST, rx::K_LIT_OR_D, rx::K_AB_A, rx::K_DIGITS, rx::K_WORD, rx::K_ANY0, rx::K_A_AB};
static const int kOtherKinds[] = {rx::K_OPTLIT, rx::K_OPTSLASH, rx::K_DOT, rx::K_NC_DIGITS0, rx::K_NC_ANY0, rx::K_NC_WORD};

inline void add_segment(Pat &p, Pk const &pk, int &groups) {
    static const char *seps[] = {"/", "", "-", ".", "/x/"};
    std::string sep = seps[pk.w({60, 15, 10, 5, 10})];
    if (!sep.empty()) p.add(rx::K_LIT, sep);
    int kind = pk.pct(78) ? kCapKinds[pk(sizeof kCapKinds / sizeof *kCapKinds)] : kOtherKinds[pk(sizeof kOtherKinds / sizeof *kOtherKinds)];
    if (groups + rx::piece_groups(kind) > 8) kind = rx::K_NC_WORD;
    groups += rx::piece_groups(kind);
    p.add(kind, kind == rx::K_OPTLIT ? "x" : kind == rx::K_LIT_OR_D ? "new" : "");
}
inline Pat gen_route_pattern(Pk const &pk, bool slash) {
    static const std::vector<std::string> heads = {"/a", "/ab", "/b", "/a/b", "", "/", "/x", "/a"};
    Pat p;
    std::string h = strip_slash(pk.of(heads), slash);
    if (!h.empty()) p.add(rx::K_LIT, h);
    int groups = 0;
    int nseg = pk.w({22, 34, 24, 12, 4, 2, 2});
    for (int i = 0; i < nseg; i++) add_segment(p, pk, groups);
    if (pk.pct(22)) p.add(rx::K_OPTSLASH);
    if (pk.pct(6)) {
        p.has_alt = 1;
        Piece l; l.kind = rx::K_LIT; l.lit = strip_slash(pk.of(heads), slash) + "z"; p.alt.push_back(l);
        if (pk.pct(50) && groups < 8) { Piece c; c.kind = kCapKinds[pk(8)]; if (groups + rx::piece_groups(c.kind) <= 8) { if (c.kind == rx::K_LIT_OR_D) c.lit = "new"; p.alt.push_back(c); } }
    }
    p.build();
    return p;
}
inline Pat gen_method_pattern(Pk const &pk) {
    static const std::vector<std::string> names = {"GET", "POST", "PUT", "DELETE", "HEAD", "PATCH"};
    Pat p;
    switch (pk.w({50, 14, 10, 10, 8, 8})) {
    case 0: p.add(rx::K_LIT, pk.of(names)); break;
    case 1: p.add(rx::K_ALT2, "POST,PUT"); break;                                       // (POST|PUT)
    case 2: p.add(rx::K_LIT, "P"); p.add(rx::K_NC_ANY0); break;                         // P.*
    case 3: p.add(rx::K_LIT, "GET"); p.has_alt = 1; { Piece l; l.kind = rx::K_LIT; l.lit = "HEAD"; p.alt.push_back(l); } break;   // GET|HEAD
    case 4: p.add(rx::K_LIT, "get"); break;                                             // lower case => regex comparison
    default: p.add(rx::K_LIT, "P"); p.add(rx::K_ALT2, "OS,U"); p.add(rx::K_LIT, "T"); break;      // P(OS|U)T
    }
    p.build();
    return p;
}
inline std::vector<int> gen_sel(Pk const &pk, int n, int ng) {
    std::vector<int> s;
    for (int i = 0; i < n; i++) s.push_back(pk.pct(4) ? ng + 1 : pk(ng + 1));
    return s;
}
inline void gen_route_handler(Pk const &pk, Handler &h, bool slash, bool ctx) {
    h.pat = gen_route_pattern(pk, slash);
    int ng = h.pat.ng;
    int kind = ctx ? pk.w({46, 8, 18, 28}) : pk.w({80, 20});
    switch (kind) {
    case 0: {
        h.api = A_ASSIGN;
        int n = pk.pct(70) ? std::min(ng, 6) : pk(7);
        if (pk.pct(75) && n == std::min(ng, 6)) { for (int i = 1; i <= n; i++) h.sel.push_back(i); if (pk.pct(20) && n >= 2) std::swap(h.sel[0], h.sel[n - 1]); }
        else h.sel = gen_sel(pk, n, ng);
        break;
    }
    case 1: h.api = A_RGEN; break;
    case 2:
        h.api = A_GEN; h.reject = pk.w({60, 25, 15});
        if (pk.pct(15)) { h.pat.icase = 1; }
        break;
    default: {
        h.api = A_TYPED; h.typed = pk(5);
        int need = h.typed == T_S0 ? 0 : (h.typed == T_S1 || h.typed == T_I1) ? 1 : 2;
        h.sel = gen_sel(pk, need, ng);
        if (ng >= 1 && need >= 1 && pk.pct(70)) h.sel[0] = 1;
        if (h.typed >= T_I1 && pk.pct(75) && ng <= 6 && !h.pat.has_alt) {
            if (!h.pat.pc.empty() && h.pat.pc.back().kind == rx::K_OPTSLASH) h.pat.pc.pop_back();
            h.pat.add(rx::K_LIT, "/"); h.pat.add(pk.pct(50) ? rx::K_DIGITS : (pk.pct(50) ? rx::K_SINT : rx::K_D13)); h.pat.build();
            h.sel[0] = h.pat.ng;
        }
    }
    }
    if ((h.api == A_GEN || h.api == A_TYPED) && pk.pct(55)) { h.has_meth = 1; h.meth = gen_method_pattern(pk); }
}
inline void gen_route_mount(Pk const &pk, Handler &h, bool slash, int child, bool &child_slash) {
    static const std::vector<std::string> heads = {"/a", "/ab", "/b", "/m", "", "/a"};
    h.api = A_MOUNT; h.child = child; h.attach = pk(3);
    std::string hd = strip_slash(pk.of(heads), slash);
    if (!hd.empty()) h.pat.add(rx::K_LIT, hd);
    if (pk.pct(12)) { h.pat.add(rx::K_LIT, "/"); h.pat.add(rx::K_WORD); }
    int base = 0; for (auto &p : h.pat.pc) base += rx::piece_groups(p.kind);
    int sel;
    child_slash = true;
    switch (pk.w({30, 25, 20, 15, 10})) {
    case 0: h.pat.add(rx::K_REST2); sel = base + 1 + pk(2); break;
    case 1: h.pat.add(rx::K_REST1); sel = base + 1; break;
    case 2: h.pat.add(rx::K_RESTIN); sel = base + 2; child_slash = false; if (pk.pct(20)) { sel = base + 1; child_slash = true; } break;
    case 3: h.pat.add(rx::K_ANY0); sel = base + 1; child_slash = pk.pct(50); break;
    default: h.pat.add(rx::K_NC_ANY0); sel = 0; break;
    }
    h.pat.build();
    if (pk.pct(6)) sel = pk(h.pat.ng + 1);
    h.sel.push_back(sel);
}

inline Pat pat_of(std::initializer_list<std::pair<int, const char *>> pcs) { Pat p; for (auto &x : pcs) p.add(x.first, x.second); p.build(); return p; }
inline void gen_mount_point(Pk const &pk, MountP &m) {
    using namespace rx;
    static const std::vector<Pat> hosts = {pat_of({{K_LIT, "www.a.com"}}), pat_of({{K_OPT_DOTTED, ""}, {K_LIT, "a.com"}}), pat_of({{K_NC_ANY0, ""}}),
                                           pat_of({{K_LIT, "a.com"}}), pat_of({{K_WORD, ""}, {K_LIT, ".a.com"}})};
    static const std::vector<Pat> scripts = {pat_of({{K_LIT, "/app"}}), pat_of({}), pat_of({{K_LIT, "/app"}, {K_NC_ANY0, ""}}), pat_of({{K_ANY0, ""}, {K_LIT, ".cgi"}}),
                                             pat_of({{K_LIT, "/"}, {K_WORD, ""}, {K_LIT, ".cgi"}}), pat_of({{K_LIT, "/app"}, {K_REST1, ""}}), pat_of({{K_LIT, "/a"}, {K_REST2, ""}})};
    static const std::vector<Pat> paths = {pat_of({{K_LIT, "/site"}, {K_REST2, ""}}), pat_of({{K_LIT, "/site"}, {K_REST1, ""}}), pat_of({{K_ANY0, ""}}),
                                           pat_of({{K_LIT, "/s"}, {K_ANY0, ""}}), pat_of({{K_LIT, "/site"}, {K_RESTIN, ""}}), pat_of({{K_LIT, "/"}, {K_LOWER0, ""}, {K_REST1, ""}}),
                                           pat_of({{K_NC_ANY0, ""}}), pat_of({{K_LIT, "/a"}, {K_REST2, ""}})};
    m.ctor = pk.w({14, 14, 10, 10, 12, 8, 10, 14, 8});
    m.sel = pk.pct(70) ? 0 : 1;
    m.host = pk.of(hosts); m.script = pk.of(scripts); m.path = pk.of(paths);
    m.has_host = pk.pct(45); m.has_script = pk.pct(50); m.has_path = pk.pct(60);
    MpView v = mp_view(m);
    Pat const *selp = v.sel == 0 ? (v.path ? &m.path : nullptr) : (v.script ? &m.script : nullptr);
    int ng = selp ? selp->ng : 0;
    m.group = pk.pct(25) ? 0 : (ng ? 1 + pk(ng) : 0);
    if (pk.pct(3)) m.group = ng + 1;
}

struct TreeInfo { std::vector<int> parent, depth; };
inline TreeInfo tree_info(Case const &c) {
    TreeInfo t; t.parent.assign(c.nodes.size(), -1); t.depth.assign(c.nodes.size(), 1);
    for (size_t i = 0; i < c.nodes.size(); i++) for (auto &h : c.nodes[i].hs) if (h.api == A_MOUNT) { t.parent[h.child] = (int)i; t.depth[h.child] = t.depth[i] + 1; }
    return t;
}

inline std::string sample_node_path(Case const &c, int node, rx::Pick const &pick, int budget) {
    Node const &n = c.nodes[node];
    if (n.hs.empty()) return std::string();
    size_t hi = (size_t)pick((int)n.hs.size());
    if (budget > 0 && pick(100) < 45) {       // prefer descending into a mounted child
        std::vector<size_t> ms; for (size_t i = 0; i < n.hs.size(); i++) if (n.hs[i].api == A_MOUNT) ms.push_back(i);
        if (!ms.empty()) hi = ms[pick((int)ms.size())];
    }
    Handler const &h = n.hs[hi];
    std::string out;
    if (h.api == A_MOUNT && budget > 0 && h.sel[0] >= 1 && h.sel[0] <= h.pat.ng) {
        std::string sub = sample_node_path(c, h.child, pick, budget - 1);
        rx::sample(h.pat.ast, pick, out, h.sel[0], &sub);
    } else rx::sample(h.pat.ast, pick, out);
    return out;
}
inline std::string sample_pat(Pat const &p, rx::Pick const &pick, int hole = 0, std::string const *sub = nullptr) {
    std::string out; rx::sample(p.ast, pick, out, hole, sub); return out;
}

inline void gen_tree(Pk const &pk, Case &c, int root, int maxdepth, bool ctx, int maxnodes) {
    // breadth first: nodes are appended, children always get larger indices
    std::vector<int> depth(c.nodes.size(), 1);
    for (size_t i = root; i < c.nodes.size(); i++) {
        int d = depth[i];
        int nh = 1 + pk.w({14, 22, 22, 18, 14, 10});
        for (int k = 0; k < nh; k++) {
            Handler h;
            bool mount = ctx && d < maxdepth && (int)c.nodes.size() < maxnodes && pk.pct(d == 1 ? 40 : 30);
            if (mount) {
                int child = (int)c.nodes.size();
                bool cs = true;
                gen_route_mount(pk, h, c.nodes[i].slash != 0, child, cs);
                Node nn; nn.slash = cs; c.nodes.push_back(nn); depth.push_back(d + 1);
            } else gen_route_handler(pk, h, c.nodes[i].slash != 0, ctx);
            c.nodes[i].hs.push_back(h);
        }
    }
}

inline Req gen_route_req(Pk const &pk, Case const &c, std::vector<std::string> const &methods) {
    static const std::vector<std::string> dhosts = {"www.a.com", "a.com", "x.a.com", "xa.com", "www.a.com.evil.org", "b.org", ""};
    static const std::vector<std::string> dscripts = {"/app", "", "/app2", "/x/app", "/foo.cgi", "/a", "/app/x"};
    static const std::vector<std::string> dpaths = {"", "/", "/a", "/ab", "/a/b", "/b/1", "/site", "/site/a/1", "/x"};
    rx::Pick pick = pk.pick();
    Req q;
    q.method = pk.of(methods);
    int origin = pk.w({55, 33, 12});
    q.origin = origin;
    if (c.mode == 1) {
        q.path = origin == 2 ? pk.of(dpaths) : sample_node_path(c, 0, pick, 0);
        if (origin == 1) q.path = edit_string(q.path, pk);
        return q;
    }
    MountP const &m = c.mps[pk((int)c.mps.size())];
    MpView v = mp_view(m);
    std::string sub = origin == 2 ? pk.of(dpaths) : sample_node_path(c, m.root, pick, 3);
    q.host = v.host && pk.pct(80) ? sample_pat(m.host, pick) : pk.of(dhosts);
    std::string *selected = v.sel == 0 ? &q.path : &q.script, *other = v.sel == 0 ? &q.script : &q.path;
    Pat const *selp = v.sel == 0 ? (v.path ? &m.path : nullptr) : (v.script ? &m.script : nullptr);
    Pat const *othp = v.sel == 0 ? (v.script ? &m.script : nullptr) : (v.path ? &m.path : nullptr);
    if (!selp) *selected = sub;
    else if (v.group >= 1 && v.group <= selp->ng) *selected = sample_pat(*selp, pick, v.group, &sub);
    else *selected = pk.pct(50) ? sample_pat(*selp, pick) : sub;
    if (othp && pk.pct(80)) *other = sample_pat(*othp, pick);
    else *other = v.sel == 0 ? pk.of(dscripts) : pk.of(dpaths);
    if (origin == 1) {
        switch (pk.w({60, 14, 10, 16})) {
        case 0: q.path = edit_string(q.path, pk); break;
        case 1: q.script = edit_string(q.script, pk); break;
        case 2: q.host = edit_string(q.host, pk); break;
        default: q.method = edit_string(q.method, pk);
        }
    }
    return q;
}

inline Case gen_route_case_impl(int nreq) {
    Pk pk;
    Case c;
    c.mode = pk.pct(12) ? 1 : 0;
    c.throws = 1;
    bool ctx = c.mode == 0;
    int nmp = ctx ? 1 + pk.w({40, 30, 20, 10}) : 1;
    int maxdepth = ctx ? 1 + pk.w({25, 35, 25, 15}) : 1;
    for (int i = 0; i < nmp; i++) {
        int root = (int)c.nodes.size();
        Node n; n.slash = 1; c.nodes.push_back(n);
        gen_tree(pk, c, root, maxdepth, ctx, root + (nmp == 1 ? 9 : 5));
        if (ctx) {
            MountP m; gen_mount_point(pk, m); m.root = root;
            if (i == nmp - 1 && pk.pct(35)) m.ctor = 0;
            c.mps.push_back(m);
        }
    }
    std::vector<std::string> methods = {"GET", "POST", "PUT", "DELETE", "HEAD", "", "GE", "get"};
    rx::Pick pick = pk.pick();
    for (auto &n : c.nodes) for (auto &h : n.hs) if (h.has_meth) methods.push_back(sample_pat(h.meth, pick));
    for (int i = 0; i < nreq; i++) c.reqs.push_back(gen_route_req(pk, c, methods));
    return c;
}
inline rc::Gen<Case> gen_route_case(int nreq) { return rc::gen::exec([nreq] { return gen_route_case_impl(nreq); }); }

// ------------------------------------------------------------------------------------------------------------
// mapper mode: every handler has a unique literal head and captures separated by literals outside the capture languages, so that
// the url generated for (key, parameters) has exactly one reading
inline std::string sample_param(int kind, Pk const &pk) {
    auto str = [&](const char *al, int mn, int mx) { std::string r; int n = mn + pk(mx - mn + 1); size_t l = strlen(al); for (int i = 0; i < n; i++) r += al[pk((int)l)]; return r; };
    switch (kind) {
    case rx::K_DIGITS: case rx::K_XNEST: return str("0179", 1, 4);
    case rx::K_D13: return str("0179", 1, 3);
    case rx::K_WORD: return str("abxz0A_9", 1, 3);
    case rx::K_LOWER0: return str("abz", 0, 3);
    case rx::K_A_AB: return pk.pct(50) ? "a" : "ab";
    case rx::K_NOSLASH: return str("ab0 -.%Z", 1, 4);
    case rx::K_SINT: return (pk.pct(40) ? "-" : "") + str("0179", 1, 4);
    case rx::K_ANY0: return str("ab/0 -.%Z_~", 0, 6);
    }
    return "a";
}
// capture kinds of the {j} placeholders of a mapper-mode handler, in placeholder order; walks pieces and murl in parallel
inline std::vector<int> placeholder_kinds(Handler const &h) {
    std::vector<int> kinds(6, -1);
    size_t mp = 0;
    for (auto &p : h.pat.pc) {
        if (rx::piece_groups(p.kind) == 0) continue;
        size_t b = h.murl.find('{', mp); if (b == std::string::npos) break;
        size_t e = h.murl.find('}', b); std::string k = h.murl.substr(b + 1, e - b - 1); mp = e + 1;
        if (isdigit((unsigned char)k[0])) { int j = atoi(k.c_str()); if (j >= 1 && j <= 6) kinds[j - 1] = p.kind; }
    }
    while (!kinds.empty() && kinds.back() < 0) kinds.pop_back();
    return kinds;
}
inline void gen_map_handler(Pk const &pk, Handler &h, bool slash, char letter, bool allow_default, std::vector<std::pair<std::string, int>> &used_keys) {
    static const int pkinds[] = {rx::K_DIGITS, rx::K_WORD, rx::K_LOWER0, rx::K_A_AB, rx::K_NOSLASH, rx::K_D13, rx::K_XNEST, rx::K_SINT, rx::K_DIGITS, rx::K_WORD};
    if (allow_default && pk.pct(18)) {            // the node's index page: "" or "/"
        std::string u = slash && pk.pct(50) ? "/" : "";
        if (!u.empty()) h.pat.add(rx::K_LIT, u);
        h.pat.build(); h.murl = u; h.has_key = 1; h.key = ""; h.api = pk.pct(50) ? A_ASSIGN : A_RGEN;
        used_keys.push_back({"", 0});
        return;
    }
    std::string head = std::string(slash ? "/" : "") + "h" + letter;
    h.pat.add(rx::K_LIT, head); h.murl = head;
    int n = pk.w({20, 34, 24, 10, 5, 4, 3});
    int kwpos = pk.pct(22) ? pk(n + 1) : -1;
    std::vector<int> perm(n); for (int i = 0; i < n; i++) perm[i] = i;
    for (int i = n - 1; i > 0; i--) if (pk.pct(40)) std::swap(perm[i], perm[pk(i + 1)]);
    int prev = -2;  // -2 head, -1 keyword
    int group = 0; std::vector<int> grp_of_param(n, 0); int kwgroup = 0;
    auto sep = [&](bool last_any) {
        std::string s = "/";
        if (prev != rx::K_NOSLASH && !last_any) s = pk.w({70, 15, 15}) == 0 ? "/" : (pk.pct(50) ? "/x/" : "-");
        if (prev == rx::K_NOSLASH) s = pk.pct(80) ? "/" : "/x/";
        h.pat.add(rx::K_LIT, s); h.murl += s;
    };
    for (int t = 0; t <= n; t++) {
        if (t == kwpos) { sep(false); h.pat.add(rx::K_LOWER0); h.murl += pk.pct(70) ? "{lang}" : "{terr}"; kwgroup = ++group; prev = -1; }
        if (t == n) break;
        int kind = pkinds[pk(sizeof pkinds / sizeof *pkinds)];
        bool last = t == n - 1 && kwpos != n;
        if (last && pk.pct(15)) kind = rx::K_ANY0;
        sep(kind == rx::K_ANY0);
        h.pat.add(kind);
        int j = perm[t] + 1;
        if (kind == rx::K_XNEST) { h.murl += "x{" + std::to_string(j) + "}"; group += 2; grp_of_param[j - 1] = group; }
        else { h.murl += "{" + std::to_string(j) + "}"; group += 1; grp_of_param[j - 1] = group; }
        prev = kind;
    }
    if (pk.pct(10) && prev != rx::K_ANY0) h.pat.add(rx::K_OPTSLASH);
    h.pat.build();
    // api
    std::vector<int> kinds = placeholder_kinds(h);
    bool int_ok = n >= 1 && (kinds[0] == rx::K_DIGITS || kinds[0] == rx::K_D13 || kinds[0] == rx::K_XNEST || kinds[0] == rx::K_SINT);
    switch (pk.w({56, 10, 12, 22})) {
    case 0: h.api = A_ASSIGN; h.sel = grp_of_param; if (kwgroup && (int)h.sel.size() < 6 && pk.pct(50)) h.sel.push_back(kwgroup); break;
    case 1: h.api = A_RGEN; break;
    case 2: h.api = A_GEN; h.reject = 0; break;
    default:
        h.api = A_TYPED;
        if (n == 0) h.typed = T_S0;
        else if (n == 1) { h.typed = int_ok && pk.pct(50) ? T_I1 : T_S1; h.sel = {grp_of_param[0]}; }
        else { h.typed = int_ok && pk.pct(50) ? T_IS2 : T_S2; h.sel = {grp_of_param[0], grp_of_param[1]}; }
    }
    if ((h.api == A_GEN || h.api == A_TYPED) && pk.pct(40)) { h.has_meth = 1; h.meth = gen_method_pattern(pk); }
    // key
    if (pk.pct(88)) {
        h.has_key = 1; h.key = std::string("k") + letter;
        if (pk.pct(18)) for (auto &uk : used_keys) {
            bool clash = false;
            for (auto &u2 : used_keys) if (u2.first == uk.first && u2.second == n) clash = true;
            if (!clash && !uk.first.empty()) { h.key = uk.first; break; }
        }
        used_keys.push_back({h.key, n});
    }
}
inline void gen_map_mount(Pk const &pk, Handler &h, bool slash, char letter, int child, bool &child_slash) {
    h.api = A_MOUNT; h.child = child; h.attach = pk(3); h.has_key = 1; h.key = std::string("c") + letter;
    std::string head = std::string(slash ? "/" : "") + h.key;
    child_slash = true;
    switch (pk.w({35, 25, 22, 18})) {
    case 0: h.pat.add(rx::K_LIT, head); h.pat.add(rx::K_REST2); h.sel = {1 + pk(2)}; h.murl = head + "{1}"; break;
    case 1: h.pat.add(rx::K_LIT, head); h.pat.add(rx::K_REST1); h.sel = {1}; h.murl = head + "{1}"; break;
    case 2: h.pat.add(rx::K_LIT, head); h.pat.add(rx::K_RESTIN); h.sel = {2}; h.murl = head + "/{1}"; child_slash = false; break;
    default: h.pat.add(rx::K_LIT, head + "/"); h.pat.add(rx::K_LOWER0); h.pat.add(rx::K_REST1); h.sel = {2}; h.murl = head + "/{terr}{1}"; break;
    }
    h.pat.build();
}
inline Case gen_map_case_impl(int nq) {
    Pk pk;
    Case c;
    c.mode = 2; c.throws = pk.pct(75);
    static const std::vector<std::string> scripts = {"", "/app", "/cgi-bin/a.cgi"};
    c.script = pk.of(scripts);
    MountP m; m.root = 0;
    int mpkind = pk(4);
    c.mroot = c.script;
    if (mpkind == 1) { m.ctor = 2; m.script.add(rx::K_LIT, c.script); }
    else if (mpkind == 2) { m.ctor = 1; m.path.add(rx::K_LIT, "/site"); m.path.add(rx::K_REST2); m.group = 1; c.mroot += "/site"; }
    else if (mpkind == 3) { m.ctor = 3; m.script.add(rx::K_LIT, c.script); m.path.add(rx::K_LIT, "/site"); m.path.add(rx::K_REST1); m.group = 1; c.mroot += "/site"; }
    m.host.build(); m.script.build(); m.path.build();
    c.mps.push_back(m);
    int maxdepth = 1 + pk.w({15, 35, 30, 20});
    Node root; root.slash = 1; c.nodes.push_back(root);
    std::vector<int> depth(1, 1);
    for (size_t i = 0; i < c.nodes.size(); i++) {
        int d = depth[i];
        int nh = 1 + pk.w({15, 25, 25, 20, 15});
        int nch = (d < maxdepth && c.nodes.size() < 9) ? (d == maxdepth - 1 ? pk.w({30, 50, 20}) : 1 + pk.w({60, 40})) : 0;
        std::vector<std::pair<std::string, int>> used;
        int total = nh + nch, mounts_left = nch, handlers_left = nh;
        char hl = 'a', cl = 'a';
        for (int k = 0; k < total; k++) {
            bool mount = mounts_left > 0 && (handlers_left == 0 || pk(mounts_left + handlers_left) < mounts_left);
            Handler h;
            if (mount) {
                bool cs; int child = (int)c.nodes.size();
                gen_map_mount(pk, h, c.nodes[i].slash != 0, cl++, child, cs);
                Node nn; nn.slash = cs; c.nodes.push_back(nn); depth.push_back(d + 1);
                mounts_left--;
            } else {
                bool have_default = false; for (auto &u : used) if (u.first.empty()) have_default = true;
                gen_map_handler(pk, h, c.nodes[i].slash != 0, hl++, !have_default, used);
                handlers_left--;
            }
            c.nodes[i].hs.push_back(h);
        }
    }
    for (const char *k : {"lang", "terr"}) if (pk.pct(70)) {
        static const std::vector<std::string> vals = {"en", "", "b", "ru"};
        Value v; v.key = k; v.val = pk.of(vals); v.node = pk((int)c.nodes.size()); v.early = pk.pct(40);
        c.values.push_back(v);
    }
    // queries
    TreeInfo ti = tree_info(c);
    auto name_of = [&](int node) { int p = ti.parent[node]; for (auto &h : c.nodes[p].hs) if (h.api == A_MOUNT && h.child == node) return h.key; return std::string("?"); };
    std::vector<std::pair<int, int>> targets;
    for (size_t i = 0; i < c.nodes.size(); i++) for (size_t j = 0; j < c.nodes[i].hs.size(); j++) if (c.nodes[i].hs[j].api != A_MOUNT && c.nodes[i].hs[j].has_key) targets.push_back({(int)i, (int)j});
    for (int qi = 0; qi < nq; qi++) {
        MapQ q; q.from = pk((int)c.nodes.size());
        static const std::vector<std::string> ms = {"GET", "POST", "PUT", "HEAD"};
        q.method = pk.of(ms);
        if (targets.empty()) { q.key = "nokey"; c.qs.push_back(q); continue; }
        auto tg = pk.of(targets);
        // bias to deep targets
        for (int tries = 0; tries < 2; tries++) { auto t2 = pk.of(targets); if (ti.depth[t2.first] > ti.depth[tg.first]) tg = t2; }
        Handler const &h = c.nodes[tg.first].hs[tg.second];
        q.t_node = tg.first; q.t_idx = tg.second;
        if (h.has_meth) q.method = sample_pat(h.meth, pk.pick());
        std::vector<std::string> chain;       // names root -> target
        for (int n = tg.first; ti.parent[n] >= 0; n = ti.parent[n]) chain.insert(chain.begin(), name_of(n));
        std::vector<std::string> comps;
        bool absolute = pk.pct(45);
        if (absolute) comps = chain;
        else {
            std::vector<int> anc_f, anc_t;
            for (int n = q.from; n >= 0; n = ti.parent[n]) anc_f.push_back(n);
            for (int n = tg.first; n >= 0; n = ti.parent[n]) anc_t.push_back(n);
            int lca = 0;
            for (int a : anc_f) { bool f = false; for (int b : anc_t) if (a == b) f = true; if (f) { lca = a; break; } }
            for (int n = q.from; n != lca; n = ti.parent[n]) comps.push_back("..");
            std::vector<std::string> down;
            for (int n = tg.first; n != lca; n = ti.parent[n]) down.insert(down.begin(), name_of(n));
            comps.insert(comps.end(), down.begin(), down.end());
            if (pk.pct(15)) comps.insert(comps.begin(), ".");
        }
        std::string key = absolute ? "/" : "";
        for (auto &s : comps) key += s + "/";
        if (h.key.empty()) {
            // default url: "a/b/" or "a/b" (a trailing child name or ".." selects the default); own node: "" or "."
            if (!comps.empty() && pk.pct(50)) key.erase(key.size() - 1);
            else if (comps.empty() && !absolute && pk.pct(50)) key = ".";
        } else key += h.key;
        std::vector<int> kinds = placeholder_kinds(h);
        for (size_t j = 0; j < kinds.size(); j++) q.params.push_back(sample_param(kinds[j] < 0 ? rx::K_WORD : kinds[j], pk));
        for (size_t j = 0; j < q.params.size(); j++) {
            std::string const &p = q.params[j];
            bool dig = !p.empty() && p.size() <= 9 && (p == "0" || p[0] != '0');
            for (char ch : p) if (!isdigit((unsigned char)ch)) dig = false;
            if (dig && pk.pct(50)) q.int_mask |= 1 << j;
        }
        if (pk.pct(30)) {
            std::vector<std::string> kws;
            switch (pk(4)) { case 0: kws = {"lang"}; break; case 1: kws = {"terr"}; break; case 2: kws = {"lang", "terr"}; break; default: kws = {"terr", "lang"}; }
            if (q.params.size() + kws.size() <= 6) {
                key += ";";
                for (size_t j = 0; j < kws.size(); j++) { key += (j ? "," : "") + kws[j]; }
                for (size_t j = 0; j < kws.size(); j++) q.params.insert(q.params.begin() + j, sample_param(rx::K_LOWER0, pk));
                q.int_mask <<= kws.size();
            }
        }
        if (pk.pct(12)) {       // error / perturbed queries: the reference decides what they mean
            q.t_node = q.t_idx = -1;
            switch (pk(5)) {
            case 0: key += "x"; break;
            case 1: if (!q.params.empty()) { q.params.pop_back(); q.int_mask &= (1 << q.params.size()) - 1; } else q.params.push_back("1"); break;
            case 2: if (q.params.size() < 6) q.params.push_back("zz"); break;
            case 3: key = "../../../../../" + key; break;
            default: key = edit_string(key, pk); for (auto &ch : key) if (ch == '\n') ch = 'n'; break;
            }
        }
        q.key = key;
        c.qs.push_back(q);
    }
    return c;
}
inline rc::Gen<Case> gen_map_case(int nq) { return rc::gen::exec([nq] { return gen_map_case_impl(nq); }); }

} // namespace c20
