// C14 (part 2) — whole-string validators, counters, filters, single-byte code pages, the form text widget.  ASan/UBSan build.
//  mode "cp"  (C14_MODE=cp, C14_STRIDE/C14_OFFSET shard the name list): every registered single-byte code-page name, several
//             spellings, all 256 bytes and all 65 536 byte pairs through cppcms::encoding::valid; fall-back code pages (iconv/ICU).
//  mode "rc"  rapidcheck: long UTF-8 strings built from valid and invalid pieces (valid_utf8, valid(name|locale), utf8::validate,
//             booster decode loop, utf_to_utf, validate_or_filter with/without replacement), random single-byte strings,
//             fall-back encodings, widgets::text through an http::context.
// Oracles: the RFC 3629 table of c14_ref.h; for the code pages the property's byte rules plus glibc iconv as an independent table.
#include <string>
#include <sstream>
#include <map>
#include <set>
#include <vector>
#include <memory>
#include <locale>
#include <iostream>
#include <algorithm>
#include "vrc.h"
#include "c14_ref.h"
// request::prepare() (parsing of QUERY_STRING) is private and normally called by the connection; the widget test needs it.
#define private public
#include <cppcms/http_request.h>
#undef private
#include <cppcms/encoding.h>
#include <cppcms/service.h>
#include <cppcms/http_context.h>
#include <cppcms/form.h>
#include <cppcms/json.h>
#include <cppcms/util.h>
#include <cppcms/localization.h>
#include <utf_iterator.h>
#include <booster/locale/utf.h>
#include <booster/locale/encoding_utf.h>
#include <booster/locale/generator.h>
#include <dummy_api.h>      // /repo/tests: a cgi connection that needs no socket
#include <iconv.h>
#include <errno.h>

using vr::Outcome; using vr::ok; using vr::bad;
using namespace c14;
namespace enc = cppcms::encoding;

// ======================================================================================================================
// code pages
// ======================================================================================================================
enum Family { ISO, WIN, ASCII };
struct CodePage { const char *name; const char *alias; Family fam; };
static const CodePage PAGES[] = {
    {"iso-8859-1", "latin1", ISO}, {"iso-8859-2", 0, ISO}, {"iso-8859-3", 0, ISO}, {"iso-8859-4", 0, ISO}, {"iso-8859-5", 0, ISO},
    {"iso-8859-6", 0, ISO}, {"iso-8859-7", 0, ISO}, {"iso-8859-8", 0, ISO}, {"iso-8859-9", 0, ISO}, {"iso-8859-10", 0, ISO},
    {"iso-8859-11", 0, ISO}, {"iso-8859-13", 0, ISO}, {"iso-8859-14", 0, ISO}, {"iso-8859-15", 0, ISO}, {"iso-8859-16", 0, ISO},
    {"windows-1250", "cp1250", WIN}, {"windows-1251", "cp1251", WIN}, {"windows-1252", "cp1252", WIN}, {"windows-1253", "cp1253", WIN},
    {"windows-1255", "cp1255", WIN}, {"windows-1256", "cp1256", WIN}, {"windows-1257", "cp1257", WIN}, {"windows-1258", "cp1258", WIN},
    {"koi8-r", 0, WIN}, {"koi8-u", 0, WIN}, {"us-ascii", "ascii", ASCII},
};
static const int NPAGES = sizeof(PAGES) / sizeof(PAGES[0]);
// single-byte, ASCII-superset code pages that are NOT in the table of src/encoding.cpp: validated through the conversion fall-back
static const char *FALLBACK[] = {"windows-1254", "cp866", "windows-874", "cp437", "cp850"};
static const int NFALLBACK = sizeof(FALLBACK) / sizeof(FALLBACK[0]);

static bool ascii_text(unsigned b) { return (b >= 0x20 && b <= 0x7E) || b == 9 || b == 10 || b == 13; }
static bool c0_or_del(unsigned b) { return (b < 0x20 && b != 9 && b != 10 && b != 13) || b == 0x7F; }

struct ByteTable { bool okb[256]; bool have_iconv; };
// expected verdict per byte: the property's rules for 00..7F (and C1 for ISO-8859), glibc iconv for the remaining high bytes
static ByteTable const &byte_table(int page) {
    static std::map<int, ByteTable> cache;
    auto it = cache.find(page);
    if (it != cache.end()) return it->second;
    ByteTable T; T.have_iconv = false;
    CodePage const &P = PAGES[page];
    iconv_t cd = iconv_open("UTF-8", P.name);
    T.have_iconv = cd != (iconv_t)-1;
    for (int b = 0; b < 256; b++) {
        if (b < 0x80) { T.okb[b] = ascii_text(b); continue; }
        if (P.fam == ASCII) { T.okb[b] = false; continue; }
        if (P.fam == ISO && b < 0xA0) { T.okb[b] = false; continue; }
        bool conv = false; uint32_t cp = 0;
        if (T.have_iconv) {
            char in[1] = {(char)b}, out[8]; char *ip = in, *op = out; size_t il = 1, ol = sizeof out;
            iconv(cd, 0, 0, 0, 0);
            size_t r = iconv(cd, &ip, &il, &op, &ol);
            if (r != (size_t)-1) r = iconv(cd, 0, 0, &op, &ol);      // flush: glibc's CP1258 holds a base letter back for a combining mark
            if (r != (size_t)-1 && il == 0 && op > out) {
                Dec d = ref_decode((unsigned char const *)out, op - out);
                conv = d.st == VALID && d.len == op - out; cp = d.cp;
            }
        }
        T.okb[b] = conv && html_ok(cp);
    }
    if (T.have_iconv) iconv_close(cd);
    return cache[page] = T;
}

struct SbCase {
    int page = 0; std::string name, s; int repl = 0;
    void encode(vr::CaseWriter &w) const { w.i(page).s(name).s(s).i(repl); }
    static SbCase decode(vr::CaseReader &r) { SbCase c; c.page = (int)r.i(); c.name = r.s(); c.s = r.s(); c.repl = (int)r.i(); return c; }
};

static std::string byte_sig(CodePage const &P, unsigned b, bool accepted) {
    if (accepted) {
        if (c0_or_del(b)) return b == 0x7F ? "sbcs:accepts-DEL" : "sbcs:accepts-C0-control";
        if (P.fam == ISO && b >= 0x80 && b < 0xA0) return "sbcs:iso-accepts-C1-control";
        if (P.fam == ASCII) return "sbcs:ascii-accepts-high-byte";
        return "sbcs:accepts-byte-undefined-in-code-page";
    }
    if (b < 0x80) return "sbcs:rejects-ascii-text";
    return "sbcs:rejects-byte-defined-in-code-page";
}

static Outcome p_sbcs(SbCase const &c) {
    VR.eval();
    if (c.page < 0 || c.page >= NPAGES) return bad("harness:c14:bad-case", "page index");
    CodePage const &P = PAGES[c.page];
    ByteTable const &T = byte_table(c.page);
    std::string const &s = c.s;
    char const *b = s.data(), *e = b + s.size();
    bool expect = true, unknown = false;
    for (unsigned char ch : s) { if (!T.okb[ch]) expect = false; if (ch >= 0x80 && !T.have_iconv && P.fam != ASCII && !(P.fam == ISO && ch < 0xA0)) unknown = true; }
    if (unknown) { VR.cls("sbcs.skipped_no_iconv_table"); return ok(); }
    if (s.size() > 2) {   // strings of up to two bytes are the enumerated part (counted exactly there)
        bool nt = false; for (unsigned char ch : s) if (ch >= 0x7F || c0_or_del(ch)) nt = true;
        if (nt) VR.nontrivial(vr::fnv(s, 40 + c.page));
        VR.cls(expect ? "sbcs.random.valid" : "sbcs.random.invalid");
        if (c.name != P.name && !(P.alias && c.name == P.alias)) VR.cls("sbcs.random.respelled_name");
    }
    size_t n = 0;
    bool v = enc::valid(c.name, b, e, n);
    if (v != expect) {
        // attribute: a single byte judged wrongly, or context dependence ?
        for (size_t i = 0; i < s.size(); i++) {
            size_t k = 0; bool vb = enc::valid(c.name, b + i, b + i + 1, k);
            unsigned char ch = s[i];
            if (vb != T.okb[ch]) {
                char t[160]; snprintf(t, sizeof t, "encoding '%s': byte 0x%02X is %s, expected %s", c.name.c_str(), ch, vb ? "accepted" : "rejected", T.okb[ch] ? "accepted" : "rejected");
                return bad(byte_sig(P, ch, vb), t);
            }
        }
        return bad("sbcs:context-dependent", "encoding '" + c.name + "': every byte of " + vr::hex(s) + " is judged correctly on its own but the string is " + (v ? "accepted" : "rejected"));
    }
    if (v) V_CHECK(n == s.size(), "sbcs:wrong-count", "encoding '" + c.name + "' count=" + std::to_string(n) + " for " + std::to_string(s.size()) + " single-byte characters");
    { size_t k = 0; V_CHECK(enc::valid(c.name.c_str(), b, e, k) == v && (!v || k == n), "sbcs:cstring-overload-differs", c.name); }
    V_CHECK(enc::is_ascii_compatible(c.name), "sbcs:name-not-recognised", "is_ascii_compatible('" + c.name + "') is false: the name normaliser did not find the table for a spelling of " + P.name);
    // filtering: every byte is a character, so the result is defined exactly
    for (int pass = 0; pass < 2; pass++) {
        char repl = pass == 0 ? 0 : (char)c.repl;
        if (pass == 1 && c.repl == 0) break;
        std::string out = "\x01sentinel\xff";
        bool r = enc::validate_or_filter(c.name, b, e, out, repl);
        V_CHECK(r == expect, r ? "filter:sbcs:reports-invalid-as-valid" : "filter:sbcs:reports-valid-as-invalid", "encoding '" + c.name + "' input " + vr::hex(s));
        if (!r) {
            std::string ref;
            for (unsigned char ch : s) { if (T.okb[ch]) ref += char(ch); else if (repl) ref += repl; }
            V_CHECK(out == ref, repl ? "filter:sbcs:wrong-replacement" : "filter:sbcs:wrong-removal",
                    "encoding '" + c.name + "' input " + vr::hex(s) + " repl=" + std::to_string((int)repl) + " output " + vr::hex(out) + " expected " + vr::hex(ref));
            VR.cls(repl ? "sbcs.filter.replaced" : "sbcs.filter.removed");
        }
    }
    return ok();
}

// --- fall-back code pages: only what the property states for every single-byte charset (no table oracle)
struct FbCase {
    int idx = 0; std::string s;
    void encode(vr::CaseWriter &w) const { w.i(idx).s(s); }
    static FbCase decode(vr::CaseReader &r) { FbCase c; c.idx = (int)r.i(); c.s = r.s(); return c; }
};
static Outcome p_fallback(FbCase const &c) {
    VR.eval();
    if (c.idx < 0 || c.idx >= NFALLBACK) return bad("harness:c14:bad-case", "fallback index");
    std::string name = FALLBACK[c.idx];
    std::string const &s = c.s;
    char const *b = s.data(), *e = b + s.size();
    size_t n = 0; bool v = enc::valid(name, b, e, n);
    bool has_ctrl = false, all_ascii = true;
    for (unsigned char ch : s) { if (c0_or_del(ch)) has_ctrl = true; if (!ascii_text(ch)) all_ascii = false; }
    if (s.size() > 2 && !all_ascii) VR.nontrivial(vr::fnv(s, 80 + c.idx));
    if (has_ctrl) V_CHECK(!v, "sbcs:fallback-accepts-control", "encoding '" + name + "' accepted " + vr::hex(s));
    if (all_ascii) { V_CHECK(v, "sbcs:fallback-rejects-ascii-text", "encoding '" + name + "' rejected " + vr::hex(s)); V_CHECK(n == s.size(), "sbcs:fallback-wrong-count", name); }
    // judged byte by byte
    bool conj = true;
    for (size_t i = 0; i < s.size(); i++) { size_t k = 0; if (!enc::valid(name, b + i, b + i + 1, k)) conj = false; }
    V_CHECK(v == conj, "sbcs:fallback-context-dependent", "encoding '" + name + "' string " + vr::hex(s) + " valid=" + std::to_string(v) + " but conjunction of its bytes=" + std::to_string(conj));
    if (v) V_CHECK(n == s.size(), "sbcs:fallback-wrong-count", name + " count=" + std::to_string(n) + " bytes=" + std::to_string(s.size()));
    // filtering yields valid text, returns the verdict
    std::string out = "\x01sentinel";
    bool r = enc::validate_or_filter(name, b, e, out, 0);
    V_CHECK(r == v, "filter:fallback:verdict-differs-from-valid", name + " " + vr::hex(s));
    if (!r) {
        size_t k = 0;
        V_CHECK(enc::valid(name, out.data(), out.data() + out.size(), k), "filter:fallback:output-invalid", name + " input " + vr::hex(s) + " output " + vr::hex(out));
        VR.cls("fallback.filtered");
    }
    VR.cls(v ? "fallback.valid" : "fallback.invalid");
    return ok();
}

// ======================================================================================================================
// UTF-8 long strings
// ======================================================================================================================
struct U8Case {
    std::string s, name; int repl = '?';
    void encode(vr::CaseWriter &w) const { w.s(s).s(name).i(repl); }
    static U8Case decode(vr::CaseReader &r) { U8Case c; c.s = r.s(); c.name = r.s(); c.repl = (int)r.i(); return c; }
};

static std::locale const &locale_for(std::string const &encoding) {
    static std::map<std::string, std::locale> cache;
    auto it = cache.find(encoding);
    if (it != cache.end()) return it->second;
    booster::locale::generator g;
    return cache[encoding] = g("en_US." + encoding);
}

// split into literals (maximal runs without r) and the lengths of the r-runs that follow them
static void runs(std::string const &s, char r, std::vector<std::string> &lit, std::vector<size_t> &len) {
    size_t i = 0;
    while (true) {
        std::string l; while (i < s.size() && s[i] != r) l += s[i++];
        size_t k = 0; while (i < s.size() && s[i] == r) { k++; i++; }
        lit.push_back(l); len.push_back(k);
        if (i >= s.size()) break;
    }
}

static Outcome check_utf8_filter(std::string const &name, std::string const &s, bool rv_html, char repl) {
    char const *b = s.data(), *e = b + s.size();
    std::string const sentinel = "\x01sentinel\xff";
    std::string out = sentinel;
    bool r = enc::validate_or_filter(name, b, e, out, repl);
    V_CHECK(r == rv_html, r ? "filter:utf8:reports-invalid-as-valid" : "filter:utf8:reports-valid-as-invalid", "input " + vr::show(s, 200));
    if (r) return ok();
    size_t k = 0;
    V_CHECK(ref_validate(out, true, k), "filter:utf8:output-invalid", "input " + vr::hex(s.substr(0, 300)) + " repl=" + std::to_string((int)repl) + " output " + vr::hex(out.substr(0, 300)));
    if (!repl) {
        std::string ref = ref_filter_remove(s, true);
        V_CHECK(out == ref, "filter:utf8:valid-characters-not-preserved", "input " + vr::hex(s.substr(0, 300)) + " output " + vr::hex(out.substr(0, 300)) + " expected " + vr::hex(ref.substr(0, 300)));
        VR.cls("utf8.filter.removed");
    } else {
        // every maximal run of dropped pieces is replaced by at least one and at most (number of dropped bytes) replacement characters
        std::string lo, hi; bool in_gap = false;
        ref_segments(s, true, [&](bool keep, std::string const &bytes) {
            if (keep) { lo += bytes; hi += bytes; in_gap = false; }
            else { if (!in_gap) lo += repl; hi.append(bytes.size(), repl); in_gap = true; }
        });
        std::vector<std::string> l1, l2, l3; std::vector<size_t> n1, n2, n3;
        runs(lo, repl, l1, n1); runs(out, repl, l2, n2); runs(hi, repl, l3, n3);
        bool same = l1 == l2 && l2 == l3;
        if (same) for (size_t i = 0; i < n1.size(); i++) if (n2[i] < n1[i] || n2[i] > n3[i]) same = false;
        V_CHECK(same, "filter:utf8:wrong-replacement", "input " + vr::hex(s.substr(0, 300)) + " repl='" + std::string(1, repl) + "' output " + vr::hex(out.substr(0, 300)) + " minimal expected " + vr::hex(lo.substr(0, 300)));
        VR.cls("utf8.filter.replaced");
    }
    std::string out2 = sentinel;
    V_CHECK(enc::validate_or_filter(name, out.data(), out.data() + out.size(), out2, repl), "filter:utf8:not-idempotent", "filtered text is reported invalid again: " + vr::hex(out.substr(0, 300)));
    return ok();
}

// what kind of ill-formedness comes first (histogram only: shows that the generator reaches every class)
static const char *first_error_class(std::string const &in) {
    unsigned char const *s = (unsigned char const *)in.data(); size_t n = in.size(), i = 0;
    while (i < n) {
        Dec d = ref_decode(s + i, n - i);
        if (d.st == VALID) { i += d.len; continue; }
        unsigned char l = s[i]; int nx = i + 1 < n ? s[i + 1] : -1;
        if (l >= 0x80 && l <= 0xBF) return "lone_tail";
        if (l == 0xC0 || l == 0xC1) return "overlong_2byte";
        if (l >= 0xF5) return "lead_F5_FF";
        if (l == 0xE0 && nx >= 0x80 && nx <= 0x9F) return "overlong_3byte";
        if (l == 0xED && nx >= 0xA0 && nx <= 0xBF) return "surrogate";
        if (l == 0xF0 && nx >= 0x80 && nx <= 0x8F) return "overlong_4byte";
        if (l == 0xF4 && nx >= 0x90 && nx <= 0xBF) return "above_10FFFF";
        return d.st == PREFIX ? "truncated_at_end_of_string" : "truncated_inside_string";
    }
    return "none";
}

static Outcome p_utf8(U8Case const &c) {
    VR.eval();
    std::string const &s = c.s;
    char const *b = s.data(), *e = b + s.size();
    size_t rc_html = 0, rc_plain = 0;
    bool rv_html = ref_validate(s, true, rc_html), rv_plain = ref_validate(s, false, rc_plain);
    bool multibyte = false, ctl = false;
    for (unsigned char ch : s) { if (ch >= 0x80) multibyte = true; if (c0_or_del(ch)) ctl = true; }
    if (multibyte || ctl) VR.nontrivial(vr::fnv(s, 21));
    VR.cls(rv_html ? (multibyte ? "utf8.valid.multibyte" : "utf8.valid.ascii") : (rv_plain ? "utf8.wellformed_but_html_control" : "utf8.illformed"));
    VR.cls(s.size() < 16 ? "utf8.size<16" : s.size() < 256 ? "utf8.size<256" : s.size() < 2048 ? "utf8.size<2048" : "utf8.size>=2048");
    if (!rv_plain) VR.cls(std::string("utf8.first_error.") + first_error_class(s));
    std::string in = "input " + vr::hex(s.substr(0, 400)) + (s.size() > 400 ? "..." : "");

    // public whole-string API
    { size_t n = 0; bool v = enc::valid_utf8(b, e, n);
      V_CHECK(v == rv_html, v ? "utf8:valid_utf8:accepts-invalid" : "utf8:valid_utf8:rejects-valid", in);
      if (v) V_CHECK(n == rc_html, "utf8:valid_utf8:wrong-count", in + " count=" + std::to_string(n) + " code points=" + std::to_string(rc_html)); }
    { size_t n = 0; bool v = enc::valid(c.name, b, e, n);
      V_CHECK(v == rv_html, v ? "utf8:valid(name):accepts-invalid" : "utf8:valid(name):rejects-valid", "name '" + c.name + "' " + in);
      if (v) V_CHECK(n == rc_html, "utf8:valid(name):wrong-count", in); }
    { size_t n = 0; bool v = enc::valid(c.name.c_str(), b, e, n);
      V_CHECK(v == rv_html && (!v || n == rc_html), "utf8:valid(cstr):differs", in); }
    { size_t n = 0; bool v = enc::valid(locale_for("UTF-8"), b, e, n);
      V_CHECK(v == rv_html && (!v || n == rc_html), "utf8:valid(locale):differs", in); }
    V_CHECK(enc::is_ascii_compatible(c.name), "utf8:name-not-recognised", "is_ascii_compatible('" + c.name + "')");
    // header-level validators, html off
    { size_t n = 0; bool v = cppcms::utf8::validate(b, e, n, false);
      V_CHECK(v == rv_plain, v ? "utf8:validate:accepts-invalid" : "utf8:validate:rejects-valid", in);
      if (v) V_CHECK(n == rc_plain, "utf8:validate:wrong-count", in);
      V_CHECK(cppcms::utf8::validate(b, e, false) == rv_plain && cppcms::utf8::validate(b, e, true) == rv_html, "utf8:validate:nocount-overload-differs", in); }
    // support library decoder, character by character
    {
        typedef booster::locale::utf::utf_traits<char> tr;
        char const *p = b; size_t n = 0; bool good = true;
        while (p != e) {
            char const *q = p;
            booster::locale::utf::code_point cp = tr::decode(p, e);
            V_CHECK(p > q && p <= e, "utf8:booster-decode:iterator-out-of-range", in);
            if (cp == booster::locale::utf::illegal || cp == booster::locale::utf::incomplete) { good = false; break; }
            n++;
        }
        V_CHECK(good == rv_plain, good ? "utf8:booster-decode:accepts-invalid-string" : "utf8:booster-decode:rejects-valid-string", in);
        if (good) V_CHECK(n == rc_plain, "utf8:booster-decode:wrong-count", in);
        bool threw = false; std::string conv;
        try { conv = booster::locale::conv::utf_to_utf<char>(b, e, booster::locale::conv::stop); } catch (booster::locale::conv::conversion_error const &) { threw = true; }
        V_CHECK(threw == !rv_plain, "utf8:utf_to_utf:stop-verdict", in);
        if (!threw) V_CHECK(conv == s, "utf8:utf_to_utf:changes-valid-text", in);
        std::string sk = booster::locale::conv::utf_to_utf<char>(b, e, booster::locale::conv::skip);
        size_t k = 0;
        V_CHECK(ref_validate(sk, false, k), "utf8:utf_to_utf:skip-output-invalid", in + " output " + vr::hex(sk.substr(0, 300)));
        if (rv_plain) V_CHECK(sk == s, "utf8:utf_to_utf:skip-changes-valid-text", in);
        // and through UTF-32: the code points themselves
        if (rv_plain && s.size() <= 512) {
            std::basic_string<char32_t> u = booster::locale::conv::utf_to_utf<char32_t>(b, e, booster::locale::conv::stop);
            std::string back; for (char32_t ch : u) back += encode_cp((uint32_t)ch);
            V_CHECK(u.size() == rc_plain && back == s, "utf8:utf_to_utf:utf32-code-points-differ", in);
        }
    }
    // filtering
    { Outcome o = check_utf8_filter(c.name, s, rv_html, 0); if (!o.ok()) return o; }
    if (c.repl) { Outcome o = check_utf8_filter(c.name, s, rv_html, (char)c.repl); if (!o.ok()) return o; }
    if (VR.want_sample()) VR.sample(std::string(rv_html ? "valid " : rv_plain ? "control " : "illformed ") + std::to_string(s.size()) + "B name=" + c.name + " " + vr::show(s, 100));
    return ok();
}

// ======================================================================================================================
// widgets::text through an http::context (src/form.cpp: base_text::load / validate)
// ======================================================================================================================
struct WCase {
    int loc = 0; std::string s; int low = 0, high = -1;
    void encode(vr::CaseWriter &w) const { w.i(loc).s(s).i(low).i(high); }
    static WCase decode(vr::CaseReader &r) { WCase c; c.loc = (int)r.i(); c.s = r.s(); c.low = (int)r.i(); c.high = (int)r.i(); return c; }
};
// locale index -> (locale name, page index or -1 for UTF-8)
struct WLoc { const char *locale; int page; };
static const WLoc WLOCS[] = {{"en_US.UTF-8", -1}, {"ru_RU.windows-1251", 16}, {"en_US.ISO-8859-1", 0}, {"ru_RU.KOI8-R", 23}, {"he_IL.ISO-8859-8", 7}};
static const int NWLOCS = sizeof(WLOCS) / sizeof(WLOCS[0]);
static cppcms::service &the_service() {
    static std::unique_ptr<cppcms::service> srv;
    if (!srv) {
        cppcms::json::value cfg;
        for (int i = 0; i < NWLOCS; i++) cfg["localization"]["locales"][i] = WLOCS[i].locale;
        srv.reset(new cppcms::service(cfg));
    }
    return *srv;
}
static std::string pct_all(std::string const &s) {
    static const char *d = "0123456789ABCDEF"; std::string r;
    for (unsigned char c : s) { r += '%'; r += d[c >> 4]; r += d[c & 15]; }
    return r;
}
static Outcome p_widget(WCase const &c) {
    VR.eval();
    if (c.loc < 0 || c.loc >= NWLOCS) return bad("harness:c14:bad-case", "locale index");
    WLoc const &L = WLOCS[c.loc];
    // expected
    bool text_ok; size_t count = 0;
    if (L.page < 0) text_ok = ref_validate(c.s, true, count);
    else { ByteTable const &T = byte_table(L.page); text_ok = true; count = c.s.size(); for (unsigned char ch : c.s) { if (!T.okb[ch]) text_ok = false; if (ch >= 0x80 && !T.have_iconv) { VR.cls("widget.skipped_no_iconv_table"); return ok(); } } }
    bool len_ok = count >= (size_t)c.low && (c.high < 0 || count <= (size_t)c.high);
    bool expect = text_ok && len_ok;
    bool nonascii = false; for (unsigned char ch : c.s) if (ch >= 0x80 || c0_or_del(ch)) nonascii = true;
    if (nonascii) VR.nontrivial(vr::fnv(c.s, 30 + c.loc));
    VR.cls(!text_ok ? "widget.invalid_text" : len_ok ? "widget.valid_within_limits" : "widget.valid_text_outside_limits");
    if (text_ok && count != c.s.size()) VR.cls("widget.codepoints!=bytes");

    std::map<std::string, std::string> env; std::string output;
    env["REQUEST_METHOD"] = "GET"; env["QUERY_STRING"] = "field=" + pct_all(c.s);
    booster::shared_ptr<dummy_api> api(new dummy_api(the_service(), env, output));
    booster::shared_ptr<cppcms::http::context> ctx(new cppcms::http::context(api));
    ctx->request().prepare();
    ctx->locale(std::string(L.locale));
    V_CHECK(ctx->request().get("field") == c.s, "harness:c14:query-string-transport", "the value did not reach request().get() unchanged");
    cppcms::widgets::text w; w.name("field"); w.limits(c.low, c.high);
    w.load(*ctx);
    bool loaded_valid = w.valid();
    V_CHECK(loaded_valid == text_ok, loaded_valid ? "widget:load:accepts-invalid-text" : "widget:load:rejects-valid-text",
            std::string("locale ") + L.locale + " value " + vr::hex(c.s.substr(0, 300)));
    bool v = w.validate();
    V_CHECK(v == w.valid(), "widget:validate-result-differs-from-valid()", "");
    V_CHECK(v == expect, text_ok ? "widget:length-limit-not-in-code-points" : "widget:validate:accepts-invalid-text",
            std::string("locale ") + L.locale + " value " + vr::hex(c.s.substr(0, 300)) + " code points=" + std::to_string(count) + " bytes=" + std::to_string(c.s.size()) +
            " limits=[" + std::to_string(c.low) + "," + std::to_string(c.high) + "] validate()=" + std::to_string(v));
    V_CHECK(w.value() == c.s, "widget:value-changed", "");
    return ok();
}

// ======================================================================================================================
// generators (every random choice comes from rapidcheck: piece = (kind, 32 random bits) expanded deterministically)
// ======================================================================================================================
enum Kind { K_ASCII, K_V2, K_V3, K_V4, K_WS, K_CTRL, K_OVERLONG, K_SURR, K_BIG, K_TAIL, K_TRUNC, K_RAND, K_BADLEAD, NKIND };
struct Ent { uint64_t x; uint32_t next(uint32_t n) { x = x * 6364136223846793005ULL + 1442695040888963407ULL; return (uint32_t)((x >> 33) % n); } };

static uint32_t pick_cp(Ent &g, int len) {
    static const uint32_t b2[] = {0xA0, 0xA1, 0xFF, 0x100, 0x3A9, 0x7FF}, b3[] = {0x800, 0x801, 0xD7FF, 0xE000, 0xFFFD, 0xFFFE, 0xFFFF, 0x20AC, 0xFEFF},
                          b4[] = {0x10000, 0x10001, 0x1F600, 0xFFFFF, 0x100000, 0x10FFFE, 0x10FFFF};
    bool edge = g.next(3) == 0;
    switch (len) {
    case 2: return edge ? b2[g.next(6)] : 0xA0 + g.next(0x800 - 0xA0);
    case 3: if (edge) return b3[g.next(9)]; else { uint32_t v = 0x800 + g.next(0x10000 - 0x800 - 0x800); return v >= 0xD800 ? v + 0x800 : v; }
    default: return edge ? b4[g.next(7)] : 0x10000 + g.next(0x100000);
    }
}
static std::string build_piece(int kind, uint32_t r) {
    Ent g = {r * 0x9E3779B97F4A7C15ULL + 12345};
    std::string o;
    switch (kind) {
    case K_ASCII: { int n = 1 + g.next(16); for (int i = 0; i < n; i++) o += char(0x20 + g.next(0x5F)); break; }
    case K_V2: o = encode_cp(pick_cp(g, 2)); break;
    case K_V3: o = encode_cp(pick_cp(g, 3)); break;
    case K_V4: o = encode_cp(pick_cp(g, 4)); break;
    case K_WS: o += "\t\n\r"[g.next(3)]; break;
    case K_CTRL: switch (g.next(4)) {
        case 0: o += char(0); break;
        case 1: { static const char c0[] = {1, 2, 8, 11, 12, 14, 27, 31}; o += c0[g.next(8)]; break; }
        case 2: o += char(0x7F); break;
        default: o += char(0xC2); o += char(0x80 + g.next(0x20)); break; }   // C1 controls U+0080..U+009F
        break;
    case K_OVERLONG: switch (g.next(3)) {
        case 0: { uint32_t v = g.next(0x80); o += char(0xC0 | (v >> 6)); o += char(0x80 | (v & 0x3F)); break; }
        case 1: { uint32_t v = g.next(2) ? g.next(0x800) : 0x7FF; o += char(0xE0); o += char(0x80 | (v >> 6)); o += char(0x80 | (v & 0x3F)); break; }
        default: { uint32_t v = g.next(2) ? g.next(0x10000) : 0xFFFF; o += char(0xF0); o += char(0x80 | (v >> 12)); o += char(0x80 | ((v >> 6) & 0x3F)); o += char(0x80 | (v & 0x3F)); break; } }
        break;
    case K_SURR: { static const uint32_t sb[] = {0xD800, 0xDBFF, 0xDC00, 0xDFFF}; o = encode_cp(g.next(2) ? sb[g.next(4)] : 0xD800 + g.next(0x800)); break; }
    case K_BIG: { uint32_t v = g.next(3) == 0 ? 0x110000 : 0x110000 + g.next(0x200000 - 0x110000); o = encode_cp(v); break; }   // F4 90.. to F7 BF..
    case K_TAIL: { int n = 1 + g.next(3); for (int i = 0; i < n; i++) o += char(0x80 + g.next(0x40)); break; }
    case K_TRUNC: { int len = 2 + g.next(3); o = encode_cp(pick_cp(g, len)); o.resize(1 + g.next(len - 1)); break; }
    case K_RAND: { int n = 1 + g.next(4); for (int i = 0; i < n; i++) o += char(g.next(256)); break; }
    default: { static const unsigned char bl[] = {0xC0, 0xC1, 0xF5, 0xF8, 0xFC, 0xFE, 0xFF}; o += char(bl[g.next(7)]); int n = g.next(4); for (int i = 0; i < n; i++) o += char(0x80 + g.next(0x40)); break; }
    }
    return o;
}

typedef std::vector<std::pair<int, uint32_t>> Pieces;
static rc::Gen<Pieces> gen_pieces(int mode, int maxpieces) {
    rc::Gen<int> kind = rc::gen::just(0);
    if (mode == 0) kind = rc::gen::weightedElement<int>({{4, K_ASCII}, {3, K_V2}, {3, K_V3}, {2, K_V4}, {1, K_WS}});
    else kind = rc::gen::weightedElement<int>({{5, K_ASCII}, {3, K_V2}, {3, K_V3}, {2, K_V4}, {1, K_WS}, {1, K_CTRL}, {1, K_OVERLONG}, {1, K_SURR}, {1, K_BIG}, {1, K_TAIL}, {1, K_TRUNC}, {1, K_RAND}, {1, K_BADLEAD}});
    auto count = rc::gen::weightedOneOf<int>({{6, vr::range<int>(0, 12)}, {3, vr::range<int>(12, 80)}, {1, vr::range<int>(80, maxpieces)}});
    auto piece = rc::gen::pair(kind, vr::range<uint32_t>(0, 0xFFFFFFFFu));
    return rc::gen::mapcat(count, [piece](int n) { return rc::gen::container<Pieces>(n, piece); });
}
static std::string assemble(Pieces const &ps, bool count_classes = false) {
    std::string s;
    for (auto const &p : ps) { s += build_piece(p.first, p.second); }
    (void)count_classes;
    return s;
}
// mode 0: valid pieces only; mode 1: valid pieces + exactly one bad piece somewhere; mode 2: free mix.  Then optionally cut the tail.
static rc::Gen<std::string> gen_utf8_text(int maxpieces) {
    auto bad_kind = rc::gen::element<int>(K_CTRL, K_OVERLONG, K_SURR, K_BIG, K_TAIL, K_TRUNC, K_RAND, K_BADLEAD);
    auto m0 = rc::gen::map(gen_pieces(0, maxpieces), [](Pieces p) { return assemble(p); });
    auto m1 = rc::gen::map(rc::gen::tuple(gen_pieces(0, maxpieces), bad_kind, vr::range<uint32_t>(0, 0xFFFFFFFFu), vr::range<int>(0, 1000)),
                           [](std::tuple<Pieces, int, uint32_t, int> t) {
                               Pieces p = std::get<0>(t);
                               p.insert(p.begin() + (std::get<3>(t) % (p.size() + 1)), std::make_pair(std::get<1>(t), std::get<2>(t)));
                               return assemble(p);
                           });
    auto m2 = rc::gen::map(gen_pieces(2, maxpieces), [](Pieces p) { return assemble(p); });
    auto base = rc::gen::weightedOneOf<std::string>({{3, m0}, {3, m1}, {4, m2}});
    return rc::gen::map(rc::gen::pair(base, rc::gen::weightedElement<int>({{7, 0}, {1, 1}, {1, 2}, {1, 3}})),
                        [](std::pair<std::string, int> p) { if ((size_t)p.second <= p.first.size()) p.first.resize(p.first.size() - p.second); return p.first; });
}
// spelling variants of an encoding name: letters change case, separators are dropped / replaced / inserted (the normaliser keeps [a-z0-9])
static rc::Gen<std::string> gen_spelling(std::string const &canonical) {
    return rc::gen::map(rc::gen::container<std::vector<int>>(canonical.size() * 2 + 2, vr::range<int>(0, 12)), [canonical](std::vector<int> v) {
        std::string o; static const char sep[] = "-_ .:";
        for (size_t i = 0; i < canonical.size(); i++) {
            char ch = canonical[i]; int a = v[2 * i], b2 = v[2 * i + 1];
            if (isalnum((unsigned char)ch)) { o += (a % 2) ? (char)toupper(ch) : ch; if (b2 == 11) o += sep[a % 5]; }
            else { if (a < 4) o += ch; else if (a < 8) o += sep[b2 % 5]; /* else dropped */ }
        }
        return o;
    });
}
static rc::Gen<U8Case> gen_u8case(int maxpieces) {
    auto name = rc::gen::oneOf(rc::gen::element<std::string>("UTF-8", "utf-8", "utf8", "UTF8", "Utf_8"), gen_spelling("utf-8"));
    auto repl = rc::gen::weightedOneOf<int>({{2, rc::gen::just(0)}, {3, rc::gen::just((int)'?')}, {3, vr::range<int>(0x20, 0x7F)}});
    return rc::gen::map(rc::gen::tuple(gen_utf8_text(maxpieces), name, repl), [](std::tuple<std::string, std::string, int> t) {
        U8Case c; c.s = std::get<0>(t); c.name = std::get<1>(t); c.repl = std::get<2>(t); return c; });
}
// single-byte text: mostly bytes the code page defines, some that it does not
static rc::Gen<std::string> gen_sb_text(int page) {
    ByteTable const &T = byte_table(page);
    std::string good, badb;
    for (int b = 0; b < 256; b++) (T.okb[b] ? good : badb) += char(b);
    auto gb = vr::byte_of(good), bb = vr::byte_of(badb);
    auto clean = rc::gen::mapcat(vr::range<int>(0, 200), [gb](int n) { return rc::gen::container<std::vector<unsigned char>>(n, gb); });
    auto mixed = rc::gen::mapcat(vr::range<int>(0, 200), [gb, bb](int n) { return rc::gen::container<std::vector<unsigned char>>(n, rc::gen::weightedOneOf<unsigned char>({{12, gb}, {1, bb}})); });
    auto wild = rc::gen::mapcat(vr::range<int>(0, 64), [](int n) { return rc::gen::container<std::vector<unsigned char>>(n, rc::gen::arbitrary<unsigned char>()); });
    return rc::gen::map(rc::gen::weightedOneOf<std::vector<unsigned char>>({{3, clean}, {5, mixed}, {1, wild}}), [](std::vector<unsigned char> v) { return std::string(v.begin(), v.end()); });
}
static rc::Gen<SbCase> gen_sbcase() {
    return rc::gen::mapcat(rc::gen::pair(vr::range<int>(0, NPAGES), vr::range<int>(0, 4)), [](std::pair<int, int> pa) {
        int page = pa.first;
        std::string canonical = (pa.second == 0 && PAGES[page].alias) ? PAGES[page].alias : PAGES[page].name;
        auto repl = rc::gen::weightedOneOf<int>({{2, rc::gen::just(0)}, {3, rc::gen::just((int)'?')}, {3, vr::range<int>(0x20, 0x7F)}});
        return rc::gen::map(rc::gen::tuple(gen_spelling(canonical), gen_sb_text(page), repl), [page](std::tuple<std::string, std::string, int> t) {
            SbCase c; c.page = page; c.name = std::get<0>(t); c.s = std::get<1>(t); c.repl = std::get<2>(t); return c; });
    });
}
static rc::Gen<FbCase> gen_fbcase() {
    auto ch = rc::gen::weightedOneOf<unsigned char>({{8, rc::gen::map(vr::range<int>(0x20, 0x7F), [](int c) { return (unsigned char)c; })},
                                                     {4, rc::gen::map(vr::range<int>(0xA0, 0x100), [](int c) { return (unsigned char)c; })},
                                                     {1, rc::gen::arbitrary<unsigned char>()}});
    auto text = rc::gen::mapcat(vr::range<int>(0, 24), [ch](int n) { return rc::gen::container<std::vector<unsigned char>>(n, ch); });
    return rc::gen::map(rc::gen::pair(vr::range<int>(0, NFALLBACK), text), [](std::pair<int, std::vector<unsigned char>> p) { FbCase c; c.idx = p.first; c.s.assign(p.second.begin(), p.second.end()); return c; });
}
static rc::Gen<WCase> gen_wcase() {
    return rc::gen::mapcat(rc::gen::weightedElement<int>({{6, 0}, {1, 1}, {1, 2}, {1, 3}, {1, 4}}), [](int loc) {
        rc::Gen<std::string> text = loc == 0 ? gen_utf8_text(40) : gen_sb_text(WLOCS[loc].page);
        return rc::gen::map(rc::gen::tuple(text, vr::range<int>(0, 8), vr::range<int>(0, 8)), [loc](std::tuple<std::string, int, int> t) {
            WCase c; c.loc = loc; c.s = std::get<0>(t);
            // limits around the number of code points and around the number of bytes
            size_t cps = 0; if (loc != 0 || !ref_validate(c.s, true, cps)) cps = c.s.size();
            int a = std::get<1>(t), b2 = std::get<2>(t);
            int around[] = {0, (int)cps - 1, (int)cps, (int)cps + 1, (int)c.s.size(), (int)c.s.size() - 1, 1, 0};
            c.low = std::max(0, around[a]);
            int highs[] = {-1, (int)cps - 1, (int)cps, (int)cps + 1, (int)c.s.size(), (int)c.s.size() - 1, -1, (int)cps};
            c.high = highs[b2] < 0 ? -1 : highs[b2];
            return c; });
    });
}

// ======================================================================================================================
// enumeration of the code pages (mode cp) and hand-listed boundary cases
// ======================================================================================================================
static std::vector<std::string> fixed_spellings(CodePage const &P) {
    std::vector<std::string> v; std::string n = P.name;
    v.push_back(n);
    std::string up = n; for (auto &c : up) c = toupper(c); v.push_back(up);
    std::string us = up; for (auto &c : us) if (c == '-') c = '_'; v.push_back(us);
    std::string compact; for (char c : n) if (isalnum((unsigned char)c)) compact += c; v.push_back(compact);
    if (P.alias) { v.push_back(P.alias); std::string au = P.alias; for (auto &c : au) c = toupper(c); v.push_back(au); }
    return v;
}
static bool enumerate_pages(long stride, long offset) {
    long long nt = 0;
    for (int page = 0; page < NPAGES; page++) {
        if (page % stride != offset) continue;
        CodePage const &P = PAGES[page];
        ByteTable const &T = byte_table(page);
        VR.cls(T.have_iconv ? "cp.pages_with_iconv_table" : "cp.pages_without_iconv_table");
        int accepted_high = 0; for (int b = 0x80; b < 256; b++) if (T.okb[b]) accepted_high++;
        if (VR.want_sample()) VR.sample(std::string(P.name) + ": " + std::to_string(accepted_high) + " of 128 high bytes defined (iconv table " + (T.have_iconv ? "present" : "missing") + ")");
        std::vector<std::string> names = fixed_spellings(P);
        for (size_t ni = 0; ni < names.size(); ni++) {
            SbCase c; c.page = page; c.name = names[ni]; c.repl = '?';
            c.s = ""; if (!vr::run_direct("sbcs", c, p_sbcs)) return false;
            for (int b = 0; b < 256; b++) {
                c.s.assign(1, char(b)); VR.cls("cp.single_byte"); if (b >= 0x7F || c0_or_del(b)) nt++;
                if (!vr::run_direct("sbcs", c, p_sbcs)) return false;
            }
            // all pairs for the canonical name and the alias (both are separate map entries), a slice for the other spellings
            bool full = ni == 0 || (P.alias && names[ni] == P.alias) || vr::thorough();
            for (int a = 0; a < 256; a++) for (int b = 0; b < 256; b++) {
                if (!full && ((a * 7 + b) % 61) != (int)ni) continue;
                c.s.assign(1, char(a)); c.s += char(b); c.repl = (a + b) % 3 ? '?' : 0;
                VR.cls("cp.byte_pair"); if (a >= 0x7F || b >= 0x7F || c0_or_del(a) || c0_or_del(b)) nt++;
                if (!vr::run_direct("sbcs", c, p_sbcs)) return false;
            }
        }
    }
    for (int i = 0; i < NFALLBACK; i++) {
        if ((NPAGES + i) % stride != offset) continue;
        FbCase c; c.idx = i;
        for (int b = 0; b < 256; b++) { c.s.assign(1, char(b)); VR.cls("cp.fallback.single_byte"); nt++; if (!vr::run_direct("fallback", c, p_fallback)) return false; }
        for (int a = 0; a < 256; a++) for (int b = 0; b < 256; b++) {
            if (!vr::thorough() && ((a * 5 + b) % 16) != 0) continue;
            c.s.assign(1, char(a)); c.s += char(b); VR.cls("cp.fallback.byte_pair"); nt++;
            if (!vr::run_direct("fallback", c, p_fallback)) return false;
        }
    }
    VR.nontrivial_extra += nt;
    return true;
}

static bool boundary_cases() {
    static const char *hexes[] = {
        "", "41", "00", "7f", "09", "0a0d", "c280", "c29f", "c2a0", "dfbf", "e0a080", "e09fbf", "ed9fbf", "eda080", "edbfbf", "ee8080", "efbfbf",
        "f0908080", "f08fbfbf", "f48fbfbf", "f4908080", "f5808080", "c080", "c1bf", "c2", "e0a0", "f09080", "80", "bf", "fe", "ff", "f8888080", "fc8480808080",
        "41c2", "41e282", "e282ac", "e28241", "f0c3a9", "e0c3a9", "c3c3a9", "80c3a9", "41ff42", "41014243", "c3a9c28041", "f09f9880f09f98", "efbbbf41",
    };
    for (const char *h : hexes) {
        U8Case c; c.s = vr::unhex(h); c.name = "UTF-8"; c.repl = '?';
        VR.cls("utf8.boundary_list");
        if (!vr::run_direct("utf8", c, p_utf8)) return false;
        WCase w; w.loc = 0; w.s = c.s; w.low = 0; w.high = -1;
        if (!vr::run_direct("widget", w, p_widget)) return false;
        size_t cps = 0;
        if (ref_validate(c.s, true, cps) && cps != c.s.size()) {       // limits in code points, not bytes
            w.low = (int)cps; w.high = (int)cps; if (!vr::run_direct("widget", w, p_widget)) return false;
            w.low = 0; w.high = (int)cps - 1; if (!vr::run_direct("widget", w, p_widget)) return false;
            w.low = (int)cps + 1; w.high = -1; if (!vr::run_direct("widget", w, p_widget)) return false;
        }
    }
    return true;
}

int main(int argc, char **argv) {
    std::vector<std::unique_ptr<vr::PropBase>> props;
    int maxpieces = vr::thorough() ? 1400 : 700;      // about 2.5 bytes per piece on average: up to ~2 / ~4 KiB
    props.push_back(vr::prop<U8Case>("utf8", gen_u8case(maxpieces), p_utf8));
    props.push_back(vr::prop<SbCase>("sbcs", gen_sbcase(), p_sbcs));
    props.push_back(vr::prop<FbCase>("fallback", gen_fbcase(), p_fallback));
    props.push_back(vr::prop<WCase>("widget", gen_wcase(), p_widget));
    if (vr::replay_arg(argc, argv)) return vr::rc_main(argc, argv, props);
    vr::install_crash_hooks();
    std::string mode = vr::env("C14_MODE", "rc");
    if (mode == "cp") {
        VR.disjoint = true;
        bool good = enumerate_pages(vr::envl("C14_STRIDE", 1), vr::envl("C14_OFFSET", 0));
        VR.finish();
        return good ? 0 : 1;
    }
    bool good = true;
    if (vr::envl("C14_BOUNDARY", 0)) good = boundary_cases();
    VR.flush();
    int r = vr::rc_main(argc, argv, props);      // units select one property each with --only <name> and their own RC_PARAMS
    return (good && r == 0) ? 0 : 1;
}
