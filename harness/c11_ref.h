// C11 — shared by c11_parse.cpp (libFuzzer) and c11_values.cpp (rapidcheck):
//   * an independent RFC 8259 reference parser (recursive descent, strtod, explicit UTF-8 check) that also knows the
//     three leniencies the cppcms parser has today and that the property statement tolerates (// line comments, numbers
//     in any form the classic-locale stream extraction reads, a trailing comma before ] or }) — a document that uses one of
//     them is "lenient": no completeness claim is made for it, but an accepted tree must still be the right one;
//   * a tree model (Node), its canonical dump, comparison with a cppcms::json::value read through the public API;
//   * the document oracle check_document() = language equivalence + tree equality + untouched target + write-back;
//   * a grammar-driven document / value-tree generator parameterised by the source of random choices
//     (rapidcheck picks in c11_values, the libFuzzer-provided mutation seed in c11_parse's custom mutator).
#pragma once
#include "vreport.h"
#include <cppcms/json.h>
#include <cmath>
#include <cfloat>
#include <cstring>
#include <cstdlib>
#include <limits>
#include <locale>
#include <map>
#include <set>
#include <sstream>

namespace c11 {
namespace json = cppcms::json;

static const int MAX_DEPTH = 512;   // documented bound: json_max_depth in src/json.cpp, tests/json_test.cpp deepa(512)/deepa(513)

enum Type { T_NULL, T_BOOL, T_NUM, T_STR, T_ARR, T_OBJ };
struct Node {
    Type t = T_NULL; bool b = false; double n = 0;
    std::string s;                                   // T_STR: the string (UTF-8); T_NUM in generated documents: optional spelling
    std::vector<Node> a;
    std::vector<std::pair<std::string, Node>> o;     // document order, keys unique unless stated otherwise
};

inline uint64_t bits(double d) { uint64_t u; memcpy(&u, &d, 8); return u; }
inline double from_bits(uint64_t u) { double d; memcpy(&d, &u, 8); return d; }

// ---- UTF-8 (RFC 3629, table of well-formed byte sequences) ---------------------------------------------------------
inline void utf8_put(std::string &out, uint32_t cp) {
    if (cp < 0x80) out += char(cp);
    else if (cp < 0x800) { out += char(0xC0 | (cp >> 6)); out += char(0x80 | (cp & 0x3F)); }
    else if (cp < 0x10000) { out += char(0xE0 | (cp >> 12)); out += char(0x80 | ((cp >> 6) & 0x3F)); out += char(0x80 | (cp & 0x3F)); }
    else { out += char(0xF0 | (cp >> 18)); out += char(0x80 | ((cp >> 12) & 0x3F)); out += char(0x80 | ((cp >> 6) & 0x3F)); out += char(0x80 | (cp & 0x3F)); }
}
inline bool utf8_valid(std::string const &s) {
    size_t i = 0, n = s.size();
    while (i < n) {
        unsigned char c = s[i];
        if (c < 0x80) { i++; continue; }
        size_t len; unsigned lo = 0x80, hi = 0xBF;
        if (c >= 0xC2 && c <= 0xDF) len = 1;
        else if (c == 0xE0) { len = 2; lo = 0xA0; }
        else if (c >= 0xE1 && c <= 0xEC) len = 2;
        else if (c == 0xED) { len = 2; hi = 0x9F; }
        else if (c == 0xEE || c == 0xEF) len = 2;
        else if (c == 0xF0) { len = 3; lo = 0x90; }
        else if (c >= 0xF1 && c <= 0xF3) len = 3;
        else if (c == 0xF4) { len = 3; hi = 0x8F; }
        else return false;
        if (n - i <= len) return false;
        unsigned char c1 = s[i + 1];
        if (c1 < lo || c1 > hi) return false;
        for (size_t k = 2; k <= len; k++) { unsigned char ck = s[i + k]; if (ck < 0x80 || ck > 0xBF) return false; }
        i += len + 1;
    }
    return true;
}
// decode a *valid* UTF-8 string into code points
inline std::vector<uint32_t> utf8_cps(std::string const &s) {
    std::vector<uint32_t> r;
    for (size_t i = 0; i < s.size();) {
        unsigned char c = s[i];
        if (c < 0x80) { r.push_back(c); i += 1; }
        else if (c < 0xE0) { r.push_back(((c & 0x1F) << 6) | (s[i + 1] & 0x3F)); i += 2; }
        else if (c < 0xF0) { r.push_back(((c & 0x0F) << 12) | ((s[i + 1] & 0x3F) << 6) | (s[i + 2] & 0x3F)); i += 3; }
        else { r.push_back(((c & 0x07) << 18) | ((s[i + 1] & 0x3F) << 12) | ((s[i + 2] & 0x3F) << 6) | (s[i + 3] & 0x3F)); i += 4; }
    }
    return r;
}

// ---- canonical dump (also produced by tools on the Python side for the cross-check of this reference) -------------
inline void dump(Node const &n, std::string &o) {
    char b[32];
    switch (n.t) {
    case T_NULL: o += "n "; break;
    case T_BOOL: o += n.b ? "t " : "f "; break;
    case T_NUM: snprintf(b, sizeof b, "d%016llx ", (unsigned long long)bits(n.n)); o += b; break;
    case T_STR: o += "s" + vr::hex(n.s) + " "; break;
    case T_ARR: o += "a" + std::to_string(n.a.size()) + " "; for (auto &c : n.a) dump(c, o); break;
    case T_OBJ: o += "o" + std::to_string(n.o.size()) + " "; for (auto &kv : n.o) { o += "k" + vr::hex(kv.first) + " "; dump(kv.second, o); } break;
    }
}
inline std::string dump(Node const &n) { std::string o; dump(n, o); return o; }
inline bool undump(std::istream &in, Node &n, int depth = 0) {
    std::string t;
    if (!(in >> t) || t.empty() || depth > 5000) return false;
    switch (t[0]) {
    case 'n': n.t = T_NULL; return true;
    case 't': n.t = T_BOOL; n.b = true; return true;
    case 'f': n.t = T_BOOL; n.b = false; return true;
    case 'd': n.t = T_NUM; n.n = from_bits(strtoull(t.c_str() + 1, 0, 16)); return true;
    case 's': n.t = T_STR; n.s = vr::unhex(t.substr(1)); return true;
    case 'a': { n.t = T_ARR; size_t k = strtoul(t.c_str() + 1, 0, 10); n.a.resize(k); for (auto &c : n.a) if (!undump(in, c, depth + 1)) return false; return true; }
    case 'o': { n.t = T_OBJ; size_t k = strtoul(t.c_str() + 1, 0, 10); n.o.resize(k);
                for (auto &kv : n.o) { std::string kt; if (!(in >> kt) || kt.empty() || kt[0] != 'k') return false; kv.first = vr::unhex(kt.substr(1)); if (!undump(in, kv.second, depth + 1)) return false; }
                return true; }
    }
    return false;
}
inline bool undump(std::string const &text, Node &n) { std::istringstream in(text); return undump(in, n); }

inline int depth_of(Node const &n) {
    int d = 0;
    if (n.t == T_ARR) { for (auto &c : n.a) d = std::max(d, depth_of(c)); return d + 1; }
    if (n.t == T_OBJ) { for (auto &kv : n.o) d = std::max(d, depth_of(kv.second)); return d + 1; }
    return 0;
}

// numbers "to within the printed precision": the writer prints 16 significant digits, i.e. a relative rounding error of at most
// 5e-16, and reading the text back adds at most half an ulp (1.2e-16).
inline bool close_enough(double orig, double back) { return orig == back || std::fabs(orig - back) <= 1e-15 * std::fabs(orig); }

// KNOWN DEFECT CLASS (reported, see proposed_fixes/C11-largest-doubles.diff): the writer prints 16 significant digits, which rounds DBL_MAX and
// its predecessor (and their negatives) up to 1.797693134862316e+308, a decimal beyond the double range that no parser reads back.
inline bool prints_out_of_range(double x) { return x > 1.797693134862315e308 || x < -1.797693134862315e308; }
static const char *const SIG_LARGEST = "write:largest-doubles-print-as-out-of-range";

// compare two model trees; objects as key->value maps.  exact: numbers bit-for-bit.
inline bool same(Node const &x, Node const &y, bool exact, std::string &why) {   // on a mismatch `why` = path (built while unwinding) + description
    if (x.t != y.t) { why = ": type " + std::to_string(x.t) + " vs " + std::to_string(y.t); return false; }
    switch (x.t) {
    case T_NULL: return true;
    case T_BOOL: if (x.b != y.b) { why = ": boolean differs"; return false; } return true;
    case T_NUM:
        if (exact ? bits(x.n) != bits(y.n) : !close_enough(x.n, y.n)) {
            char b[160]; snprintf(b, sizeof b, ": number %.17g (%016llx) vs %.17g (%016llx)", x.n, (unsigned long long)bits(x.n), y.n, (unsigned long long)bits(y.n));
            why = b; return false;
        }
        return true;
    case T_STR: if (x.s != y.s) { why = ": string " + vr::show(x.s, 80) + " vs " + vr::show(y.s, 80); return false; } return true;
    case T_ARR:
        if (x.a.size() != y.a.size()) { why = ": array size " + std::to_string(x.a.size()) + " vs " + std::to_string(y.a.size()); return false; }
        for (size_t i = 0; i < x.a.size(); i++) if (!same(x.a[i], y.a[i], exact, why)) { if (why.size() < 400) why = "[" + std::to_string(i) + "]" + why; return false; }
        return true;
    case T_OBJ: {
        if (x.o.size() != y.o.size()) { why = ": object size " + std::to_string(x.o.size()) + " vs " + std::to_string(y.o.size()); return false; }
        if (x.o.size() == 1) {   // spines of single-member objects: no map needed
            if (x.o[0].first != y.o[0].first) { why = ": key " + vr::show(x.o[0].first, 60) + " vs " + vr::show(y.o[0].first, 60); return false; }
            if (!same(x.o[0].second, y.o[0].second, exact, why)) { if (why.size() < 400) why = "." + vr::show(x.o[0].first, 20) + why; return false; }
            return true;
        }
        std::map<std::string, Node const *> m;
        for (auto &kv : y.o) m[kv.first] = &kv.second;
        for (auto &kv : x.o) {
            auto it = m.find(kv.first);
            if (it == m.end()) { why = ": key " + vr::show(kv.first, 60) + " missing"; return false; }
            if (!same(kv.second, *it->second, exact, why)) { if (why.size() < 400) why = "." + vr::show(kv.first, 20) + why; return false; }
        }
        return true; }
    }
    return true;
}

inline bool has_unprintable(Node const &n) {
    if (n.t == T_NUM && prints_out_of_range(n.n)) return true;
    for (auto &c : n.a) if (has_unprintable(c)) return true;
    for (auto &kv : n.o) if (has_unprintable(kv.second)) return true;
    return false;
}

// read a cppcms value through its public API into the model.  Returns false for undefined members.
inline bool from_value(json::value const &v, Node &n, std::string &why) {
    switch (v.type()) {
    case json::is_null: n.t = T_NULL; return true;
    case json::is_boolean: n.t = T_BOOL; n.b = v.boolean(); return true;
    case json::is_number: n.t = T_NUM; n.n = v.number(); return true;
    case json::is_string: n.t = T_STR; n.s = v.str(); return true;
    case json::is_array: {
        n.t = T_ARR; json::array const &a = v.array(); n.a.resize(a.size());
        for (size_t i = 0; i < a.size(); i++) if (!from_value(a[i], n.a[i], why)) return false;
        return true; }
    case json::is_object: {
        n.t = T_OBJ; json::object const &o = v.object(); n.o.resize(o.size()); size_t i = 0;
        for (json::object::const_iterator p = o.begin(); p != o.end(); ++p, ++i) { n.o[i].first = p->first.str(); if (!from_value(p->second, n.o[i].second, why)) return false; }
        return true; }
    default: why = "undefined member in tree"; return false;
    }
}
// invariants of any tree the parser hands out
inline bool tree_invariants(Node const &n, std::string &sig, std::string &why) {
    struct W {
        static bool go(Node const &n, std::string &why) {
            if (n.t == T_STR && !utf8_valid(n.s)) { why = "string " + vr::show(n.s, 80); return false; }
            for (auto &c : n.a) if (!go(c, why)) return false;
            for (auto &kv : n.o) { if (!utf8_valid(kv.first)) { why = "key " + vr::show(kv.first, 80); return false; } if (!go(kv.second, why)) return false; }
            return true;
        }
    };
    if (!W::go(n, why)) { sig = "parse:tree-string-invalid-utf8"; return false; }
    int d = depth_of(n);
    if (d > MAX_DEPTH) { sig = "parse:depth-bound-exceeded"; why = "tree of depth " + std::to_string(d) + " accepted"; return false; }
    return true;
}

// ---- the reference parser --------------------------------------------------------------------------------------------
enum Verdict { V_ACCEPT, V_REJECT, V_DUP, V_DEEP, V_NONFINITE };
inline const char *verdict_name(Verdict v) { static const char *n[] = {"accept", "reject", "dupkey", "too-deep", "nonfinite"}; return n[v]; }
struct Stats {
    unsigned tokens = 0, strings = 0, numbers = 0, maxdepth = 0;
    bool esc = false, uesc = false, pair = false, nonascii = false, rawctl7f = false, comment = false, trailing_comma = false, lenient_number = false,
         frac = false, exp = false, neg = false, object = false, array = false, nonfinite = false;
};
struct Parsed {
    Verdict v = V_ACCEPT;
    bool lenient = false;    // one of the tolerated leniencies was needed (comments, stream-extraction number forms, trailing comma)
    std::string why;         // for V_REJECT: the kind of malformation
    Node root;
    size_t end = 0;          // offset just behind the value (before trailing blanks)
    Stats st;
    bool strict_accept() const { return v == V_ACCEPT && !lenient; }
};

class Parser {
public:
    Parser(const char *b, const char *e, Parsed &r) : b_(b), p_(b), e_(e), r_(r) {}
    void run(bool full) {
        bool ok = value(r_.root, 0);
        if (ok) {
            r_.end = p_ - b_;
            if (full) { ws(); if (p_ != e_) ok = fail(V_REJECT, "trailing-garbage"); }
        }
        if (ok && r_.st.nonfinite) r_.v = V_NONFINITE;
        if (r_.v != V_ACCEPT && r_.v != V_NONFINITE) r_.root = Node();
    }
private:
    const char *b_, *p_, *e_;
    Parsed &r_;
    bool fail(Verdict v, const char *why) { r_.v = v; r_.why = why; return false; }
    void ws() {
        for (;;) {
            if (p_ == e_) return;
            char c = *p_;
            if (c == ' ' || c == '\t' || c == '\r' || c == '\n') { p_++; continue; }
            if (c == '/' && e_ - p_ >= 2 && p_[1] == '/') {      // leniency 1: line comment
                r_.lenient = true; r_.st.comment = true;
                p_ += 2; while (p_ != e_ && *p_ != '\n') p_++;
                if (p_ != e_) p_++;
                continue;
            }
            return;
        }
    }
    bool value(Node &out, int open) {
        ws();
        if (p_ == e_) return fail(V_REJECT, r_.st.tokens ? "truncated" : "empty");
        char c = *p_;
        if (c == '[') return array(out, open);
        if (c == '{') return object(out, open);
        if (c == '"') { out.t = T_STR; r_.st.tokens++; return string(out.s); }
        if (c == '-' || (c >= '0' && c <= '9')) { out.t = T_NUM; r_.st.tokens++; return number(out.n); }
        if (keyword("true")) { out.t = T_BOOL; out.b = true; r_.st.tokens++; return true; }
        if (keyword("false")) { out.t = T_BOOL; out.b = false; r_.st.tokens++; return true; }
        if (keyword("null")) { out.t = T_NULL; r_.st.tokens++; return true; }
        return fail(V_REJECT, "bad-token");
    }
    bool keyword(const char *k) {
        size_t n = strlen(k);
        if ((size_t)(e_ - p_) >= n && memcmp(p_, k, n) == 0) { p_ += n; return true; }
        return false;
    }
    bool array(Node &out, int open) {
        if (open + 1 > MAX_DEPTH) return fail(V_DEEP, "depth");
        out.t = T_ARR; p_++; r_.st.tokens++; r_.st.array = true;
        if ((unsigned)open + 1 > r_.st.maxdepth) r_.st.maxdepth = open + 1;
        ws();
        if (p_ != e_ && *p_ == ']') { p_++; r_.st.tokens++; return true; }
        for (;;) {
            out.a.emplace_back();
            if (!value(out.a.back(), open + 1)) return false;
            ws();
            if (p_ == e_) return fail(V_REJECT, "truncated");
            if (*p_ == ',') {
                p_++; r_.st.tokens++; ws();
                if (p_ != e_ && *p_ == ']') { r_.lenient = true; r_.st.trailing_comma = true; p_++; r_.st.tokens++; return true; }   // leniency 3
                continue;
            }
            if (*p_ == ']') { p_++; r_.st.tokens++; return true; }
            return fail(V_REJECT, "structure");
        }
    }
    bool object(Node &out, int open) {
        if (open + 1 > MAX_DEPTH) return fail(V_DEEP, "depth");
        out.t = T_OBJ; p_++; r_.st.tokens++; r_.st.object = true;
        if ((unsigned)open + 1 > r_.st.maxdepth) r_.st.maxdepth = open + 1;
        std::set<std::string> seen;
        ws();
        if (p_ != e_ && *p_ == '}') { p_++; r_.st.tokens++; return true; }
        for (;;) {
            if (p_ == e_) return fail(V_REJECT, "truncated");
            if (*p_ != '"') return fail(V_REJECT, "structure");
            std::string key; r_.st.tokens++;
            if (!string(key)) return false;
            if (!seen.insert(key).second) return fail(V_DUP, "duplicate-key");
            ws();
            if (p_ == e_) return fail(V_REJECT, "truncated");
            if (*p_ != ':') return fail(V_REJECT, "structure");
            p_++; r_.st.tokens++;
            out.o.emplace_back(); out.o.back().first = key;
            if (!value(out.o.back().second, open + 1)) return false;
            ws();
            if (p_ == e_) return fail(V_REJECT, "truncated");
            if (*p_ == ',') {
                p_++; r_.st.tokens++; ws();
                if (p_ != e_ && *p_ == '}') { r_.lenient = true; r_.st.trailing_comma = true; p_++; r_.st.tokens++; return true; }   // leniency 3
                continue;
            }
            if (*p_ == '}') { p_++; r_.st.tokens++; return true; }
            return fail(V_REJECT, "structure");
        }
    }
    static int hexv(char c) { if (c >= '0' && c <= '9') return c - '0'; if (c >= 'a' && c <= 'f') return c - 'a' + 10; if (c >= 'A' && c <= 'F') return c - 'A' + 10; return -1; }
    bool hex4(unsigned &x) {
        if (e_ - p_ < 4) return false;
        x = 0;
        for (int i = 0; i < 4; i++) { int h = hexv(p_[i]); if (h < 0) return false; x = x * 16 + h; }
        p_ += 4; return true;
    }
    bool string(std::string &out) {
        r_.st.strings++;
        p_++;   // opening quote
        for (;;) {
            if (p_ == e_) return fail(V_REJECT, "eof-in-string");
            unsigned char c = *p_++;
            if (c == '"') break;
            if (c < 0x20) return fail(V_REJECT, "control-char-in-string");
            if (c == 0x7f) r_.st.rawctl7f = true;
            if (c >= 0x80) r_.st.nonascii = true;
            if (c != '\\') { out += char(c); continue; }
            if (p_ == e_) return fail(V_REJECT, "eof-in-string");
            char e = *p_++;
            r_.st.esc = true;
            switch (e) {
            case '"': out += '"'; break;
            case '\\': out += '\\'; break;
            case '/': out += '/'; break;
            case 'b': out += '\b'; break;
            case 'f': out += '\f'; break;
            case 'n': out += '\n'; break;
            case 'r': out += '\r'; break;
            case 't': out += '\t'; break;
            case 'u': {
                unsigned x;
                r_.st.uesc = true;
                if (!hex4(x)) return fail(V_REJECT, "bad-unicode-escape");
                if (x >= 0xDC00 && x <= 0xDFFF) return fail(V_REJECT, "unpaired-surrogate");
                if (x >= 0xD800 && x <= 0xDBFF) {
                    unsigned y;
                    if (e_ - p_ < 2 || p_[0] != '\\' || p_[1] != 'u') return fail(V_REJECT, "unpaired-surrogate");
                    p_ += 2;
                    if (!hex4(y)) return fail(V_REJECT, "bad-unicode-escape");
                    if (y < 0xDC00 || y > 0xDFFF) return fail(V_REJECT, "unpaired-surrogate");
                    utf8_put(out, 0x10000 + ((x - 0xD800) << 10) + (y - 0xDC00));
                    r_.st.pair = true;
                } else utf8_put(out, x);
                if (x >= 0x80) r_.st.nonascii = true;
                break; }
            default: return fail(V_REJECT, "bad-escape");
            }
        }
        if (!utf8_valid(out)) return fail(V_REJECT, "invalid-utf8");
        return true;
    }
    bool number(double &out) {
        r_.st.numbers++;
        // strict RFC 8259 number:  -? (0 | [1-9][0-9]*) (\.[0-9]+)? ([eE][+-]?[0-9]+)?
        const char *q = p_;
        bool frac = false, ex = false;
        if (q != e_ && *q == '-') q++;
        size_t strict_len = 0;
        if (q != e_ && *q >= '0' && *q <= '9') {
            if (*q == '0') q++; else while (q != e_ && *q >= '0' && *q <= '9') q++;
            if (e_ - q >= 2 && *q == '.' && q[1] >= '0' && q[1] <= '9') { q++; while (q != e_ && *q >= '0' && *q <= '9') q++; frac = true; }
            if (q != e_ && (*q == 'e' || *q == 'E')) {
                const char *x = q + 1;
                if (x != e_ && (*x == '+' || *x == '-')) x++;
                if (x != e_ && *x >= '0' && *x <= '9') { while (x != e_ && *x >= '0' && *x <= '9') x++; q = x; ex = true; }
            }
            strict_len = q - p_;
        }
        // what the classic-locale stream extraction would take from here (leniency 2); only characters of this set can belong to it
        const char *m = p_;
        while (m != e_ && ((*m >= '0' && *m <= '9') || *m == '+' || *m == '-' || *m == '.' || *m == 'e' || *m == 'E')) m++;
        bool next_extends = strict_len && (p_ + strict_len != m);   // a strict token directly followed by one of [0-9+-.eE]
        if (strict_len && !next_extends) {
            std::string tok(p_, strict_len);
            out = strtod(tok.c_str(), 0);
            if (!std::isfinite(out)) r_.st.nonfinite = true;
            if (frac) r_.st.frac = true;
            if (ex) r_.st.exp = true;
            if (tok[0] == '-') r_.st.neg = true;
            p_ += strict_len;
            return true;
        }
        std::string run(p_, m - p_);
        std::istringstream is(run);
        is.imbue(std::locale::classic());
        double v = 0;
        is >> v;
        if (is.fail()) return fail(V_REJECT, "bad-number");
        size_t used = is.eof() ? run.size() : (size_t)is.tellg();
        if (used == strict_len && strict_len) {   // cannot happen (a strict token followed by more number characters is never read alone), kept for safety
            out = strtod(std::string(p_, strict_len).c_str(), 0); p_ += strict_len; return true;
        }
        r_.lenient = true; r_.st.lenient_number = true;
        out = v; p_ += used;
        return true;
    }
};
inline Parsed parse(std::string const &doc, bool full) { Parsed r; Parser p(doc.data(), doc.data() + doc.size(), r); p.run(full); return r; }

// ---- locale with ',' as decimal point and '.' grouping (only C/POSIX locales are installed) --------------------------
struct CommaPunct : std::numpunct<char> {
    char do_decimal_point() const override { return ','; }
    char do_thousands_sep() const override { return '.'; }
    std::string do_grouping() const override { return "\3"; }
};
inline std::locale const &comma_locale() { static std::locale l(std::locale::classic(), new CommaPunct); return l; }

// The locale dimension: locales assembled from custom facets only (no installed system locale is needed).
//   dp: decimal point  0 '.'  1 ','  2 other ('\'' unless that is the separator, then ';')
//   ts: thousands separator  0 ','  1 '.'  2 ' '  3 '\''
//   grp: grouping  0 ""  1 "\3"  2 "\2"  3 "\3\2"  4 "\1"
//   names: 1 = truename/falsename changed (JSON spelling of true/false must not depend on it)
//   extra: bit 0 = a ctype<char> that widens digits to letters, bit 1 = a num_put<char> that prints every number as "#"
struct LocSpec {
    int dp = 0, ts = 0, grp = 0, names = 0, extra = 0;
    char decimal() const { static const char d[] = {'.', ',', '\''}; char c = d[dp % 3]; if (dp % 3 == 2 && sep() == c) c = ';'; return c; }
    char sep() const { static const char t[] = {',', '.', ' ', '\''}; return t[ts % 4]; }
    std::string grouping() const { static const char *g[] = {"", "\3", "\2", "\3\2", "\1"}; return g[grp % 5]; }
    std::string name() const {
        std::string n = "dp" + std::string(1, decimal()) + " sep" + std::string(1, sep()) + " grp";
        for (char c : grouping()) n += char('0' + c);
        if (names) n += " names";
        if (extra & 1) n += " ctype";
        if (extra & 2) n += " num_put";
        return n;
    }
    bool is_classic_like() const { return decimal() == '.' && grouping().empty() && !extra; }
};
struct SpecPunct : std::numpunct<char> {
    LocSpec sp;
    explicit SpecPunct(LocSpec const &s) : sp(s) {}
    char do_decimal_point() const override { return sp.decimal(); }
    char do_thousands_sep() const override { return sp.sep(); }
    std::string do_grouping() const override { return sp.grouping(); }
    std::string do_truename() const override { return sp.names ? "yes" : "true"; }
    std::string do_falsename() const override { return sp.names ? "no" : "false"; }
};
struct DigitCtype : std::ctype<char> {      // digits are widened to 'A'..'J': any number formatted under this locale is unreadable
    char do_widen(char c) const override { return (c >= '0' && c <= '9') ? char('A' + (c - '0')) : c; }
    const char *do_widen(const char *lo, const char *hi, char *to) const override { for (; lo != hi; ++lo, ++to) *to = do_widen(*lo); return hi; }
};
struct HashNumPut : std::num_put<char> {
    iter_type do_put(iter_type out, std::ios_base &, char, double) const override { *out++ = '#'; return out; }
    iter_type do_put(iter_type out, std::ios_base &, char, long) const override { *out++ = '#'; return out; }
};
inline std::locale make_locale(LocSpec const &sp) {
    std::locale l(std::locale::classic(), new SpecPunct(sp));
    if (sp.extra & 1) l = std::locale(l, new DigitCtype);
    if (sp.extra & 2) l = std::locale(l, new HashNumPut);
    return l;
}
// does a 16-significant-digit %g rendering of x show at least four integer digits in non-exponent form (i.e. would digit grouping apply)?
inline bool groupable(double x) { double a = std::fabs(x); return a >= 1000.0 && a < 1e16; }

// ---- the document oracle ------------------------------------------------------------------------------------------------
struct Fail { std::string sig, msg; bool ok() const { return sig.empty(); } };
#define C11_CHECK(cond, sig, msg) do { if (!(cond)) return ::c11::Fail{(sig), std::string(msg) + " [" #cond "]"}; } while (0)

inline json::value const &sentinel() {
    static json::value s;
    static bool init = false;
    if (!init) { init = true; s["k"][0] = 1.5; s["k"][1] = "x"; s["z"] = json::null(); }
    return s;
}
inline std::string sentinel_dump() { static std::string d; if (d.empty()) { Node n; std::string w; from_value(sentinel(), n, w); d = dump(n); } return d; }
inline bool is_sentinel(json::value const &v) {
    Node n; std::string w;
    if (!from_value(v, n, w)) return false;
    return dump(n) == sentinel_dump() && v == sentinel();
}

struct DocInfo { Parsed full, prefix; bool accepted_full = false, accepted_prefix = false; };

// one parse result of cppcms against the reference verdict
inline Fail judge(Parsed const &P, bool accepted, json::value const &v, std::string const &doc, const char *how) {
    std::string ctx = std::string(" via ") + how + " doc=" + vr::show(doc, 300);
    if (P.strict_accept())
        C11_CHECK(accepted, "parse:rejects-valid-document", "an RFC 8259 document with unique keys, finite numbers and depth " + std::to_string(P.st.maxdepth) + " is refused" + ctx);
    if (!accepted) return Fail();
    Node got; std::string why, sig;
    C11_CHECK(from_value(v, got, why), "parse:tree-has-undefined", why + ctx);
    if (!tree_invariants(got, sig, why)) return Fail{sig, why + ctx};
    switch (P.v) {
    case V_ACCEPT:
        C11_CHECK(same(P.root, got, true, why), "parse:wrong-tree", "reference tree vs cppcms tree: " + why + ctx);
        break;
    case V_DUP: return Fail{"parse:duplicate-key-accepted", "a document with a repeated object key is accepted" + ctx};
    case V_DEEP: return Fail{"parse:depth-bound-exceeded", "a document nested deeper than 512 is accepted" + ctx};
    case V_REJECT: return Fail{"parse:accepts-malformed:" + P.why, "cppcms accepts a text that is not JSON (" + P.why + ")" + ctx};
    case V_NONFINITE: break;   // number beyond the double range: outside the statement
    }
    return Fail();
}

inline Fail check_document(std::string const &doc, DocInfo &info) {
    info.full = parse(doc, true);
    info.prefix = parse(doc, false);
    const char *b = doc.data(), *e = doc.data() + doc.size();
    long newlines = 0; for (char c : doc) if (c == '\n') newlines++;

    // 1. stream, whole document
    json::value v1 = sentinel();
    int line = -12345;
    bool a1;
    {
        std::istringstream in(doc);
        a1 = v1.load(in, true, &line);
        info.accepted_full = a1;
        Fail f = judge(info.full, a1, v1, doc, "load(istream,full)");
        if (!f.ok()) return f;
        if (!a1) {
            C11_CHECK(is_sentinel(v1), "parse:failed-load-modified-target", "after a failed load the target no longer holds its previous value; doc=" + vr::show(doc, 300));
            C11_CHECK(line >= 1 && line <= newlines + 1, "parse:error-line-out-of-range", "line=" + std::to_string(line) + " doc=" + vr::show(doc, 300));
        } else
            C11_CHECK(in.rdbuf()->sgetc() == std::char_traits<char>::eof(), "parse:full-load-left-input", "doc=" + vr::show(doc, 300));
    }
    // 2. character range, whole document: same answer, same tree, range consumed
    {
        json::value v2 = sentinel();
        const char *p = b;
        bool a2 = v2.load(p, e, true);
        C11_CHECK(a2 == a1, "parse:range-and-stream-disagree", "load(begin,end,full)=" + std::to_string(a2) + " load(istream,full)=" + std::to_string(a1) + " doc=" + vr::show(doc, 300));
        if (a2) {
            C11_CHECK(v2 == v1, "parse:range-and-stream-disagree", "different trees; doc=" + vr::show(doc, 300));
            C11_CHECK(p == e, "parse:end-of-parsed-range-wrong", "full load stopped at offset " + std::to_string(p - b) + " of " + std::to_string(doc.size()) + " doc=" + vr::show(doc, 300));
        } else
            C11_CHECK(is_sentinel(v2), "parse:failed-load-modified-target", "load(begin,end,full); doc=" + vr::show(doc, 300));
    }
    // 3. character range, leading value only
    json::value v3 = sentinel();
    bool a3;
    {
        const char *p = b;
        a3 = v3.load(p, e, false);
        info.accepted_prefix = a3;
        Fail f = judge(info.prefix, a3, v3, doc, "load(begin,end,!full)");
        if (!f.ok()) return f;
        if (a3) {
            if (info.prefix.v == V_ACCEPT)
                C11_CHECK((size_t)(p - b) == info.prefix.end, "parse:end-of-parsed-range-wrong", "value ends at offset " + std::to_string(info.prefix.end) + ", begin moved to " + std::to_string(p - b) + " doc=" + vr::show(doc, 300));
        } else
            C11_CHECK(is_sentinel(v3), "parse:failed-load-modified-target", "load(begin,end,!full); doc=" + vr::show(doc, 300));
    }
    // 4. operator>> on a stream whose locale has ',' as decimal point and digit grouping
    {
        json::value v4 = sentinel();
        std::istringstream in(doc);
        in.imbue(comma_locale());
        in >> v4;
        bool a4 = !in.fail();
        C11_CHECK(a4 == a3, "parse:stream-locale-changes-result", "operator>> under a comma-decimal locale gives " + std::to_string(a4) + ", classic " + std::to_string(a3) + " doc=" + vr::show(doc, 300));
        if (a4) C11_CHECK(v4 == v3, "parse:stream-locale-changes-result", "different trees under a comma-decimal locale; doc=" + vr::show(doc, 300));
        else C11_CHECK(is_sentinel(v4), "parse:failed-load-modified-target", "operator>>; doc=" + vr::show(doc, 300));
    }
    // 5. what was accepted can be written and read back
    if (a1 && info.full.v == V_ACCEPT && has_unprintable(info.full.root)) VR.excl(SIG_LARGEST);
    else if (a1 && info.full.v == V_ACCEPT) {
        std::string out = v1.save();
        Parsed q = parse(out, true);
        C11_CHECK(q.strict_accept(), "write:output-not-json:" + (q.v == V_REJECT ? q.why : std::string(verdict_name(q.v))), "save() of a parsed tree is not an RFC 8259 document: " + vr::show(out, 300));
        std::string why;
        C11_CHECK(same(info.full.root, q.root, false, why), "write:roundtrip-differs", why + " text=" + vr::show(out, 300));
    }
    return Fail();
}

// ---- generator ---------------------------------------------------------------------------------------------------------------
// Src: int range(int lo,int hi) inclusive; all random choices go through it.
struct PrngSrc {     // splitmix64, seeded from the value libFuzzer hands to the custom mutator
    uint64_t s;
    explicit PrngSrc(uint64_t seed) : s(seed * 0x9E3779B97F4A7C15ULL + 0x1234567) {}
    uint64_t next() { uint64_t z = (s += 0x9E3779B97F4A7C15ULL); z = (z ^ (z >> 30)) * 0xBF58476D1CE4E5B9ULL; z = (z ^ (z >> 27)) * 0x94D049BB133111EBULL; return z ^ (z >> 31); }
    int range(int lo, int hi) { return lo + (int)(next() % (uint64_t)(hi - lo + 1)); }
};

struct GenOpts {
    bool text_numbers = true;     // numbers spelled from a random digit grammar (may overflow); off for API-built trees
    bool avoid_unprintable = false; // API-built trees: keep out of the known defect class (counted in the evidence)
    int grouped_pct = 0;            // share of numbers with 4..16 integer digits printed in non-exponent form (what digit grouping touches)
    int max_nodes = 40;
};

template <class S>
struct Gen {
    S &r; GenOpts opt; int budget;
    Gen(S &s, GenOpts o = GenOpts()) : r(s), opt(o), budget(o.max_nodes) {}
    bool chance(int pct) { return r.range(0, 99) < pct; }
    uint64_t bits64() { uint64_t x = 0; for (int i = 0; i < 4; i++) x = (x << 16) | (uint64_t)r.range(0, 65535); return x; }
    template <size_t N> uint32_t pick(const uint32_t (&a)[N]) { return a[r.range(0, (int)N - 1)]; }

    uint32_t cp() {
        static const uint32_t punct[] = {' ', '0', '9', '_', '-', '.', ':', ',', '[', ']', '{', '}', '/', '\'', '+', 'u', 'e'};
        static const uint32_t special[] = {'"', '\\', '/', 0x7f};
        static const uint32_t two[] = {0x80, 0xE9, 0x5D0, 0x7FF, 0xA0};
        static const uint32_t three[] = {0x800, 0x2028, 0x2029, 0xD7FF, 0xE000, 0xFFFD, 0xFFFE, 0xFFFF, 0x20AC, 0xFEFF};
        static const uint32_t four[] = {0x10000, 0x1D11E, 0x1F600, 0x10FFFF, 0xFFFFF, 0x100000};
        switch (r.range(0, 13)) {
        case 0: case 1: case 2: case 3: return 'a' + r.range(0, 25);
        case 4: return 'A' + r.range(0, 25);
        case 5: return pick(punct);
        case 6: return pick(special);
        case 7: return r.range(0, 31);
        case 8: return chance(50) ? pick(two) : (uint32_t)r.range(0x80, 0x7FF);
        case 9: return pick(three);
        case 10: { uint32_t c = r.range(0x800, 0xFFFF); return (c >= 0xD800 && c <= 0xDFFF) ? 0xFFFD : c; }
        case 11: return pick(four);
        case 12: return (uint32_t)r.range(0x10000, 0x10FFFF);
        default: return '0' + r.range(0, 9);
        }
    }
    std::string str() {
        int k = r.range(0, 19), n;
        if (k < 3) n = 0; else if (k < 13) n = r.range(1, 6); else if (k < 19) n = r.range(7, 30); else n = r.range(31, 200);
        std::string s;
        for (int i = 0; i < n; i++) utf8_put(s, cp());
        return s;
    }
    std::string key() {
        if (chance(70)) { std::string s; int n = r.range(1, 4); for (int i = 0; i < n; i++) s += char('a' + r.range(0, 5)); return s; }
        return str();
    }
    // a finite double
    double dbl() {
        static const double edge[] = {0.0, -0.0, 1.0, -1.0, 0.5, 0.1, 1e21, 1e-7, 127, 128, 255, 256, 32767, 32768, 65535, 65536, 2147483647.0, 2147483648.0, 4294967295.0,
            4294967296.0, 9007199254740991.0, 9007199254740992.0, 9007199254740993.0, 9007199254740994.0, 9223372036854775807.0, 9223372036854775808.0, 18446744073709551615.0,
            1e15, 1e16, 1e17, 123456789012345680.0, DBL_MAX, DBL_MIN, 4.9406564584124654e-324, 2.2250738585072009e-308, 1.7976931348623157e308, 3.4028234663852886e38,
            1.0000000000000000838e23, 1e23, 1e22, 0.3, 2.0 / 3.0, 3.141592653589793, 1.0000000000000002, 0.99999999999999989, 5e-324, 1.5, -2.5, 1e308, 1e-308, 299792458.0};
        switch (r.range(0, 11)) {
        case 0: case 1: return r.range(-1000, 1000);
        case 2: { double d = edge[r.range(0, (int)(sizeof edge / sizeof edge[0]) - 1)]; return chance(30) ? -d : d; }
        case 3: case 4: { char b[64]; snprintf(b, sizeof b, "%d.%0*d", r.range(-9999, 9999), r.range(1, 6), r.range(0, 999)); return strtod(b, 0); }
        case 5: case 6: { for (;;) { double d = from_bits(bits64()); if (std::isfinite(d)) return d; } }
        case 7: { uint64_t u = bits64() & 0x000FFFFFFFFFFFFFULL; if (chance(50)) u >>= r.range(0, 51); if (chance(50)) u |= 0x8000000000000000ULL; return from_bits(u); }
        case 8: { char b[32]; snprintf(b, sizeof b, "1e%d", r.range(-323, 308)); double d = strtod(b, 0); int k = r.range(-3, 3); for (; k < 0; k++) d = nextafter(d, 0); for (; k > 0; k--) d = nextafter(d, INFINITY); return std::isfinite(d) ? d : DBL_MAX; }
        case 9: { double d = ldexp(1.0, r.range(-1074, 1023)); int k = r.range(-2, 2); for (; k < 0; k++) d = nextafter(d, 0); for (; k > 0; k--) d = nextafter(d, INFINITY); if (chance(50)) d = -d; return std::isfinite(d) ? d : DBL_MAX; }
        case 10: { double d = (double)(int64_t)bits64(); return chance(50) ? d : (double)(int32_t)bits64(); }
        default: { double d = (double)r.range(-100000, 100000) * std::pow(10.0, r.range(-12, 12)); return d; }
        }
    }
    // 4..16 integer digits, optionally a short binary fraction, either sign: printed by %.16g without exponent
    double grouped() {
        int d = r.range(4, 16);
        std::string t; t += char('1' + r.range(0, 8));
        for (int i = 1; i < d; i++) t += chance(25) ? '0' : char('0' + r.range(0, 9));
        double x = strtod(t.c_str(), 0);
        if (d <= 12 && chance(35)) { static const double fr[] = {0.5, 0.25, 0.125, 0.75, 0.0625}; x += fr[r.range(0, 4)]; }
        if (chance(15)) { static const double rnd[] = {1000, 9999, 10000, 100000, 999999, 1000000, 1234567, 1e9, 1e12, 1e15, 9999999999999998.0}; x = rnd[r.range(0, 10)]; }
        if (chance(40)) x = -x;
        return x;
    }
    // number spelled by a digit grammar (strict RFC form); value = strtod of the spelling (may be infinite)
    std::string number_text() {
        std::string t;
        if (chance(40)) t += '-';
        if (chance(25)) t += '0'; else { t += char('1' + r.range(0, 8)); int n = chance(85) ? r.range(0, 8) : r.range(9, 40); for (int i = 0; i < n; i++) t += char('0' + r.range(0, 9)); }
        if (chance(50)) { t += '.'; int n = chance(85) ? r.range(1, 8) : r.range(9, 40); for (int i = 0; i < n; i++) t += char('0' + r.range(0, 9)); }
        if (chance(40)) { t += chance(50) ? 'e' : 'E'; int s = r.range(0, 2); if (s == 1) t += '+'; else if (s == 2) t += '-';
                          int k = r.range(0, 9); if (k < 6) t += std::to_string(r.range(0, 30)); else if (k < 9) t += std::to_string(r.range(280, 330)); else t += "00" + std::to_string(r.range(0, 9)); }
        return t;
    }
    Node number() {
        Node n; n.t = T_NUM;
        if (opt.text_numbers && chance(30)) { n.s = number_text(); n.n = strtod(n.s.c_str(), 0); return n; }
        n.n = (opt.grouped_pct && chance(opt.grouped_pct)) ? grouped() : dbl();
        if (opt.avoid_unprintable && prints_out_of_range(n.n)) { VR.excl(SIG_LARGEST); n.n = n.n > 0 ? 1.797693134862315e308 : -1.797693134862315e308; }
        return n;
    }
    Node scalar() {
        Node n;
        switch (r.range(0, 8)) {
        case 0: n.t = T_NULL; break;
        case 1: n.t = T_BOOL; n.b = r.range(0, 1); break;
        case 2: case 3: case 4: n = number(); break;
        default: n.t = T_STR; n.s = str(); break;
        }
        return n;
    }
    Node value(int depth_left) {
        budget--;
        if (depth_left <= 0 || budget <= 0 || chance(35)) return scalar();
        Node n;
        int cnt = chance(80) ? r.range(0, 4) : r.range(5, 12);
        if (chance(50)) { n.t = T_ARR; for (int i = 0; i < cnt && budget > 0; i++) n.a.push_back(value(depth_left - 1)); }
        else {
            n.t = T_OBJ; std::set<std::string> seen;
            for (int i = 0; i < cnt && budget > 0; i++) { std::string k = key(); if (!seen.insert(k).second) continue; Node c = value(depth_left - 1); n.o.emplace_back(k, c); }
        }
        return n;
    }
    // wrap into k more containers
    Node wrap(Node inner, int k) {
        for (int i = 0; i < k; i++) {
            Node w; int how = r.range(0, 9);
            if (how < 5) { w.t = T_ARR; w.a.push_back(std::move(inner)); }
            else if (how < 8) { w.t = T_OBJ; w.o.emplace_back(chance(80) ? std::string("x") : key(), std::move(inner)); }
            else {
                // an element *behind* a deep one makes cppcms copy the whole finished subtree when the vector grows (value's move constructor is
                // not noexcept): fine for correctness, quadratic along a 500-deep spine, so it is kept rare there
                w.t = T_ARR; Node s1; s1.t = T_NUM; s1.n = (i % 2) ? 1000.0 * (i + 1) : i; w.a.push_back(s1); w.a.push_back(std::move(inner));
                if (how == 9 && (k <= 40 || chance(2))) { Node s2; s2.t = T_BOOL; w.a.push_back(s2); }
            }
            inner = std::move(w);
        }
        return inner;
    }
    // a tree with the nesting profile the property asks for (0..600, the bound 512 hit exactly)
    Node tree(int max_total_depth = 600) {
        int k = r.range(0, 99);
        Node inner;
        int extra = 0;
        if (k < 70) inner = value(r.range(0, 5));
        else if (k < 86) { inner = value(r.range(0, 3)); extra = r.range(1, 12); }
        else if (k < 92) { inner = scalar(); static const int tgt[] = {510, 511, 512, 513, 514}; extra = tgt[r.range(0, 4)]; if (chance(30)) { Node w; w.t = T_ARR; inner = w; extra--; } }
        else if (k < 96) { inner = value(r.range(0, 2)); extra = r.range(480, 600); }
        else { inner = value(r.range(0, 3)); extra = r.range(13, 479); }
        int d = depth_of(inner);
        if (d + extra > max_total_depth) extra = std::max(0, max_total_depth - d);
        return wrap(std::move(inner), extra);
    }

    // ---- printing with free formatting choices --------------------------------------------------------------------------
    struct Layout { bool blanks = false, comments = false, trailing_comma = false; int dup_at = -1; int objects_seen = 0; bool dup_done = false; };
    Layout lay;
    void gap(std::string &out) {
        if (!lay.blanks) return;
        int k = r.range(0, 11);
        static const char *w[] = {"", "", "", "", "", " ", " ", "\n", "\t", "\r\n", "  \n\t", " "};
        out += w[k];
        if (lay.comments && chance(8)) { out += "// c\"[{\\\n"; }
    }
    void hex4(std::string &out, unsigned x) {
        static const char *lo = "0123456789abcdef", *up = "0123456789ABCDEF";
        int style = r.range(0, 2);
        out += "\\u";
        for (int sh = 12; sh >= 0; sh -= 4) { const char *d = style == 0 ? lo : style == 1 ? up : (r.range(0, 1) ? lo : up); out += d[(x >> sh) & 15]; }
    }
    void print_string(std::string const &s, std::string &out) {
        out += '"';
        int bias = r.range(0, 9);   // per string: mostly raw / mostly escaped
        for (uint32_t c : utf8_cps(s)) {
            bool must = c < 0x20 || c == '"' || c == '\\';
            bool esc = must || (bias < 6 ? chance(8) : bias < 9 ? chance(50) : true);
            if (!esc) { utf8_put(out, c); continue; }
            const char *sh = 0;
            switch (c) { case '"': sh = "\\\""; break; case '\\': sh = "\\\\"; break; case '/': sh = "\\/"; break; case '\b': sh = "\\b"; break;
                         case '\f': sh = "\\f"; break; case '\n': sh = "\\n"; break; case '\r': sh = "\\r"; break; case '\t': sh = "\\t"; break; }
            if (sh && chance(70)) { out += sh; continue; }
            if (c < 0x10000) hex4(out, c);
            else { uint32_t v = c - 0x10000; hex4(out, 0xD800 + (v >> 10)); hex4(out, 0xDC00 + (v & 0x3FF)); }
        }
        out += '"';
    }
    void print_number(Node const &n, std::string &out) {
        if (!n.s.empty()) { out += n.s; return; }
        char b[64]; snprintf(b, sizeof b, "%.17g", n.n);
        std::string t = b;
        bool integral = std::floor(n.n) == n.n && std::fabs(n.n) < 1e15;
        std::string alt;
        switch (r.range(0, 7)) {
        case 2: alt = t; for (auto &ch : alt) if (ch == 'e') ch = 'E'; break;
        case 3: if (integral) { snprintf(b, sizeof b, "%.0f", n.n); alt = b; } break;
        case 4: if (integral) { snprintf(b, sizeof b, "%.1f", n.n); alt = b; } break;
        case 5: if (t.find('e') == std::string::npos && t.find('.') != std::string::npos) alt = t + "000"; break;
        case 6: if (integral) { snprintf(b, sizeof b, "%.0fe0", n.n); alt = b; } break;
        case 7: if (integral && n.n != 0 && std::fabs(n.n) < 1e12) { snprintf(b, sizeof b, "%.0f0E-1", n.n); alt = b; } break;
        default: break;
        }
        if (!alt.empty() && bits(strtod(alt.c_str(), 0)) == bits(n.n)) t = alt;
        out += t;
    }
    void print(Node const &n, std::string &out) {
        switch (n.t) {
        case T_NULL: out += "null"; break;
        case T_BOOL: out += n.b ? "true" : "false"; break;
        case T_NUM: print_number(n, out); break;
        case T_STR: print_string(n.s, out); break;
        case T_ARR:
            out += '['; gap(out);
            for (size_t i = 0; i < n.a.size(); i++) { print(n.a[i], out); gap(out); if (i + 1 < n.a.size()) { out += ','; gap(out); } }
            if (lay.trailing_comma && !n.a.empty() && chance(30)) { out += ','; gap(out); }
            out += ']';
            break;
        case T_OBJ: {
            int my = lay.objects_seen++;
            out += '{'; gap(out);
            for (size_t i = 0; i < n.o.size(); i++) {
                print_string(n.o[i].first, out); gap(out); out += ':'; gap(out); print(n.o[i].second, out); gap(out);
                if (i + 1 < n.o.size()) { out += ','; gap(out); }
            }
            if (my == lay.dup_at && !n.o.empty()) {   // repeat one of the keys (spelled independently) with another value
                out += ','; print_string(n.o[r.range(0, (int)n.o.size() - 1)].first, out); out += ':'; out += chance(50) ? "null" : "[]";
                lay.dup_done = true;
            }
            if (lay.trailing_comma && !n.o.empty() && chance(30)) { out += ','; gap(out); }
            out += '}';
            break; }
        }
    }
    static int count_objects(Node const &n) { int c = n.t == T_OBJ && !n.o.empty(); for (auto &x : n.a) c += count_objects(x); for (auto &kv : n.o) c += count_objects(kv.second); return c; }
};

// what a generated document is expected to do, known from its construction (independent of the reference parser)
enum Expect { E_NONE = 0, E_TREE = 1, E_REJECT_DUP = 2, E_REJECT_DEEP = 3 };
struct GenDoc { std::string text; int expect = E_NONE; std::string model; /* dump of the tree for E_TREE */ };

template <class S>
inline GenDoc make_document(S &src) {
    Gen<S> g(src);
    Node root = g.tree();
    GenDoc d;
    bool finite = true;
    struct F { static void go(Node const &n, bool &fin) { if (n.t == T_NUM && !std::isfinite(n.n)) fin = false; for (auto &c : n.a) go(c, fin); for (auto &kv : n.o) go(kv.second, fin); } };
    F::go(root, finite);
    g.lay.blanks = g.chance(60);
    int lenient = g.r.range(0, 19);
    g.lay.comments = lenient == 0 && g.lay.blanks;
    g.lay.trailing_comma = lenient == 1;
    int nobj = Gen<S>::count_objects(root);
    if (nobj && g.chance(12)) g.lay.dup_at = g.r.range(0, nobj - 1);   // index among all objects in print order; may hit an empty one -> no dup
    if (g.lay.blanks && g.chance(30)) g.gap(d.text);
    g.print(root, d.text);
    if (g.lay.blanks && g.chance(30)) g.gap(d.text);
    int depth = depth_of(root);
    if (g.lay.dup_done) d.expect = E_REJECT_DUP;
    else if (depth > MAX_DEPTH) d.expect = E_REJECT_DEEP;
    else if (!finite || g.lay.comments || g.lay.trailing_comma) d.expect = E_NONE;
    else { d.expect = E_TREE; d.model = dump(root); }
    return d;
}

// one single-byte edit: kind 0 replace, 1 insert, 2 delete
inline void byte_edit(std::string &s, int kind, size_t pos, unsigned char byte) {
    if (s.empty()) { if (kind == 1) s += char(byte); return; }
    pos %= s.size() + (kind == 1 ? 1 : 0);
    if (kind == 0) s[pos] = char(byte);
    else if (kind == 1) s.insert(s.begin() + pos, char(byte));
    else s.erase(s.begin() + pos);
}
// bytes that matter to a JSON parser
inline unsigned char json_byte(int k) {
    static const unsigned char a[] = {'"', '\\', '/', '[', ']', '{', '}', ':', ',', ' ', '\n', '\t', '\r', 0x00, 0x01, 0x1f, 0x1e, 0x7f, 0x80, 0xbf, 0xc0, 0xc2, 0xe0, 0xed, 0xf0, 0xf4, 0xf5, 0xff,
                                      '0', '1', '9', '-', '+', '.', 'e', 'E', 'u', 'd', 'D', '8', 'c', 'C', 'g', 'G', 'x', 'n', 't', 'f', 'a', '\'', 0x0c, 0x0b};
    return a[(unsigned)k % sizeof a];
}

} // namespace c11
