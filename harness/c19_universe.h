// C19 — shared by the rapidcheck harness (c19_archive.cpp) and the libFuzzer harness (c19_fuzz.cpp):
//  * a compile-time type universe (nested containers, smart pointers, json, user classes, a recursive class),
//  * for every type constructor an INDEPENDENT reference codec of the archive format ([u32 length][bytes] chunks,
//    containers = size_t count + elements, POD vectors = one chunk, pointers = 1-byte "empty" chunk + value),
//    written here from the format description, with correct bounds arithmetic,
//  * value construction from a byte source (rapidcheck / libFuzzer supply the bytes, so every case replays from bytes),
//  * the oracles: round trip, and the differential "cppcms load vs. reference decoder" on damaged / arbitrary bytes.
#pragma once
#include "vreport.h"
#include <cppcms/serialization.h>
#include <cppcms/json.h>
#include <booster/shared_ptr.h>
#include <booster/intrusive_ptr.h>
#include <booster/hold_ptr.h>
#include <booster/copy_ptr.h>
#include <cstdint>
#include <cstring>
#include <limits>
#include <list>
#include <map>
#include <memory>
#include <set>
#include <sstream>
#include <string>
#include <type_traits>
#include <vector>

namespace c19 {

// ---------------------------------------------------------------------------------------------------------------
// Defect found by this check in the pinned tree (fixed in /repo by c0bed3f, patch: /verif/proposed_fixes/C19-next-chunk-size-bound.diff):
// a chunk whose declared length overruns the end of the archive by 1..3 bytes was accepted (archive::next_chunk_size compared ptr_+size
// instead of ptr_+4+size).  While such a defect is listed as status "known", its input class is excluded by construction (and counted);
// props/c19.py sets C19_INCLUDE_KNOWN=overrun once known_findings.json lists it as fixed, and regression cases force it.
struct Known { bool overrun; };
inline Known &known_included() {
    static Known k = [] { std::string v = vr::env("C19_INCLUDE_KNOWN", ""); Known r; r.overrun = v == "1" || v == "all" || v.find("overrun") != std::string::npos; return r; }();
    return k;
}

// ---------------------------------------------------------------------------------------------------------------
// byte source: all structure comes from here; an exhausted source yields zeros (= the simplest value)
struct Src {
    const uint8_t *p; size_t n, i;
    Src(const uint8_t *d, size_t len) : p(d), n(len), i(0) {}
    explicit Src(std::string const &s) : p((const uint8_t *)s.data()), n(s.size()), i(0) {}
    uint8_t b() { return i < n ? p[i++] : 0; }
    bool left() const { return i < n; }
    // container length, biased to 0/1/2; deeper levels stay small
    size_t clen(int depth) {
        unsigned x = b();
        if (x < 56) return 0;
        if (x < 120) return 1;
        if (x < 168) return 2;
        if (x < 208) return 3;
        if (depth >= 2) return 1 + (x & 1);
        if (x < 240) return 4 + b() % 5;
        return 9 + b() % 24;
    }
    size_t slen(int depth) {
        unsigned x = b();
        if (x < 48) return 0;
        if (x < 176) return 1 + x % 12;
        if (depth >= 2) return x % 7;
        if (x < 232) return 13 + b() % 48;
        if (x < 250) return 200 + b();          // crosses 255: the second length byte becomes non-zero
        return 256 + 2 * (size_t)b();
    }
};

struct Shape {
    int depth = 0;              // dynamic nesting depth (non-empty containers / non-null pointers / user classes)
    bool empty_container = false, nul = false, null_ptr = false, nonnull_ptr = false, big_string = false;
    size_t leaves = 0;
    void at(int d) { if (d > depth) depth = d; }
};

// ---------------------------------------------------------------------------------------------------------------
// reference reader of the chunk format
enum Why { W_NONE = 0, W_EOF, W_SHORT_HEADER, W_OVERRUN_1_3, W_OVERRUN, W_SIZE_MISMATCH, W_BAD_JSON };
inline const char *why_name(Why w) {
    static const char *n[] = {"none", "eof", "short-header", "chunk-overruns-end-by-1..3", "chunk-overruns-end", "chunk-size-mismatch", "bad-json"};
    return n[w];
}
struct Rd {
    std::string const &buf; size_t pos = 0; Why why = W_NONE; size_t fail_pos = 0;
    bool near_edge = false;     // some header's length lies within +-4 of the bytes that remain after it
    explicit Rd(std::string const &b) : buf(b) {}
    bool fail(Why w) { if (why == W_NONE) { why = w; fail_pos = pos; } return false; }
    bool chunk(const char *&p, size_t &n) {
        if (why != W_NONE) return false;
        if (pos >= buf.size()) return fail(W_EOF);
        if (buf.size() - pos < 4) return fail(W_SHORT_HEADER);
        uint32_t l; memcpy(&l, buf.data() + pos, 4);
        size_t avail = buf.size() - pos - 4;
        long long diff = (long long)l - (long long)avail;
        if (diff >= -4 && diff <= 4) near_edge = true;
        if (l > avail) return fail(l - avail <= 3 ? W_OVERRUN_1_3 : W_OVERRUN);
        p = buf.data() + pos + 4; n = l; pos += 4 + (size_t)l;
        return true;
    }
    bool fixed(void *dst, size_t n) {
        const char *p; size_t l; size_t at = pos;
        if (!chunk(p, l)) return false;
        if (l != n) { pos = at; return fail(W_SIZE_MISMATCH); }
        memcpy(dst, p, n);
        return true;
    }
};
inline void put_chunk(std::string &o, const void *p, size_t n) {
    uint32_t l = (uint32_t)n;
    o.append(reinterpret_cast<const char *>(&l), 4);
    if (n) o.append(reinterpret_cast<const char *>(p), n);
}
// positions of the chunk headers of a VALID archive (type independent walk)
inline std::vector<size_t> chunk_headers(std::string const &a) {
    std::vector<size_t> r; size_t pos = 0;
    while (a.size() - pos >= 4) {
        uint32_t l; memcpy(&l, a.data() + pos, 4);
        if (l > a.size() - pos - 4) break;
        r.push_back(pos); pos += 4 + (size_t)l;
    }
    return r;
}

// ---------------------------------------------------------------------------------------------------------------
// user classes
struct Pod { int32_t a; uint16_t b; uint16_t c; double d; };   // 16 bytes, no padding
static_assert(sizeof(Pod) == 16, "Pod must not have padding");

struct Scalars : public cppcms::serializable {
    char c = 0; signed char sc = 0; unsigned char uc = 0; short s = 0; unsigned short us = 0; int i = 0; unsigned u = 0;
    long l = 0; unsigned long ul = 0; long long ll = 0; unsigned long long ull = 0; wchar_t w = 0; float f = 0; double d = 0; long double ld = 0;
    void serialize(cppcms::archive &a) { a & c & sc & uc & s & us & i & u & l & ul & ll & ull & w & f & d & ld; }
};
struct Person : public cppcms::serializable {
    double age = 0; std::string name; std::vector<std::string> kids; int arr[3] = {0, 0, 0}; std::string sarr[2]; Pod pod = {0, 0, 0, 0};
    std::map<std::string, int> m; booster::copy_ptr<std::string> note; booster::hold_ptr<std::vector<short> > held;
    void serialize(cppcms::archive &a) { a & age & name & kids & arr & sarr & cppcms::as_pod(pod) & m & note & held; }
};
// separate save/load (serializable_base), used through booster::intrusive_ptr
struct Rc : public cppcms::serializable_base {
    int refs = 0; std::string s; unsigned short x = 0; std::set<int> tags;
    Rc() {}
    Rc(Rc const &o) : cppcms::serializable_base(o), refs(0), s(o.s), x(o.x), tags(o.tags) {}
    Rc &operator=(Rc const &o) { s = o.s; x = o.x; tags = o.tags; return *this; }
    void save(cppcms::archive &a) const { a << s << x << tags; }
    void load(cppcms::archive &a) { a >> s >> x >> tags; }
};
inline void intrusive_ptr_add_ref(Rc *p) { ++p->refs; }
inline void intrusive_ptr_release(Rc *p) { if (--p->refs == 0) delete p; }
// recursive
struct Node : public cppcms::serializable {
    std::string name; std::vector<Node> kids; booster::shared_ptr<Node> next; std::list<int> nums;
    void serialize(cppcms::archive &a) { a & name & kids & next & nums; }
};
// any T becomes usable with serialization_traits / session / cache through this wrapper
template <class T> struct Box : public cppcms::serializable {
    T v;
    void serialize(cppcms::archive &a) { a & v; }
};

// ---------------------------------------------------------------------------------------------------------------
// U<T>: make (from bytes), enc / dec (reference codec), shape (statistics)
template <class T, class En = void> struct U;

template <class T> struct U<T, typename std::enable_if<std::is_arithmetic<T>::value>::type> {
    static void make(T &v, Src &s, int) {
        unsigned m = s.b();
        if (m < 40) v = T(0);
        else if (m < 56) v = std::numeric_limits<T>::max();
        else if (m < 72) v = std::numeric_limits<T>::lowest();
        else if (m < 88) v = T(1);
        else if (m < 104) v = std::is_signed<T>::value ? T(-1) : T(255);
        else raw(v, s);
    }
    template <class Q> static void raw(Q &v, Src &s) { unsigned char b[sizeof(Q)]; for (size_t k = 0; k < sizeof(Q); k++) b[k] = s.b(); memcpy(&v, b, sizeof(Q)); }
    static void raw(long double &v, Src &s) { long long q = 0; for (int k = 0; k < 8; k++) q = (long long)(((unsigned long long)q << 8) | s.b()); v = (long double)q / (long double)(1 + s.b()); }
    template <class Q> static void enc1(Q const &v, std::string &o) { put_chunk(o, &v, sizeof v); }
    // x87 long double: 10 value bytes + 6 padding bytes; the padding is not part of the value (canonical form: zero)
    static void enc1(long double const &v, std::string &o) { char buf[sizeof(long double)]; memset(buf, 0, sizeof buf); memcpy(buf, &v, 10); put_chunk(o, buf, sizeof buf); }
    static void enc(T const &v, std::string &o) { enc1(v, o); }
    static bool dec(T &v, Rd &r) { return r.fixed(&v, sizeof v); }
    static void shape(T const &, Shape &sh, int) { sh.leaves++; }
};
template <> struct U<std::string> {
    static void make(std::string &v, Src &s, int depth) {
        size_t n = s.slen(depth);
        v.assign(n, '\0');
        for (size_t k = 0; k < n; k++) { unsigned c = s.b(); v[k] = c >= 232 ? '\0' : char(c); }
    }
    static void enc(std::string const &v, std::string &o) { put_chunk(o, v.data(), v.size()); }
    static bool dec(std::string &v, Rd &r) { const char *p; size_t n; if (!r.chunk(p, n)) return false; v.assign(p, n); return true; }
    static void shape(std::string const &v, Shape &sh, int) {
        sh.leaves++;
        if (v.find('\0') != std::string::npos) sh.nul = true;
        if (v.size() > 255) sh.big_string = true;
    }
};
inline bool dec_count(size_t &n, Rd &r) { return r.fixed(&n, sizeof n); }
inline void enc_count(size_t n, std::string &o) { put_chunk(o, &n, sizeof n); }

// sequence containers of non-arithmetic elements and all node containers: count + elements
template <class C, class V, class Ins> struct UCont {
    static void make(C &c, Src &s, int depth) {
        c.clear();
        size_t n = s.clen(depth);
        for (size_t k = 0; k < n; k++) { V e; U<V>::make(e, s, depth + 1); Ins::ins(c, std::move(e)); }
    }
    static void enc(C const &c, std::string &o) { enc_count(c.size(), o); for (auto const &e : c) U<V>::enc(e, o); }
    static bool dec(C &c, Rd &r) {
        c.clear();
        size_t n; if (!dec_count(n, r)) return false;
        for (size_t k = 0; k < n; k++) { V e; if (!U<V>::dec(e, r)) return false; Ins::ins(c, std::move(e)); }
        return true;
    }
    static void shape(C const &c, Shape &sh, int d) {
        if (c.empty()) { sh.empty_container = true; return; }
        sh.at(d + 1);
        for (auto const &e : c) U<V>::shape(e, sh, d + 1);
    }
};
struct InsBack { template <class C, class V> static void ins(C &c, V &&v) { c.push_back(std::move(v)); } };
struct InsSet { template <class C, class V> static void ins(C &c, V &&v) { c.insert(std::move(v)); } };

template <class V> struct U<std::vector<V>, typename std::enable_if<!std::is_arithmetic<V>::value>::type> : UCont<std::vector<V>, V, InsBack> {};
template <class V> struct U<std::list<V> > : UCont<std::list<V>, V, InsBack> {};
template <class V> struct U<std::set<V> > : UCont<std::set<V>, V, InsSet> {};
template <class V> struct U<std::multiset<V> > : UCont<std::multiset<V>, V, InsSet> {};
template <class K, class V> struct U<std::map<K, V> > : UCont<std::map<K, V>, std::pair<K, V>, InsSet> {};
template <class K, class V> struct U<std::multimap<K, V> > : UCont<std::multimap<K, V>, std::pair<K, V>, InsSet> {};

// POD vector: one chunk, count derived from the chunk size
template <class V> struct U<std::vector<V>, typename std::enable_if<std::is_arithmetic<V>::value>::type> {
    typedef std::vector<V> C;
    static void make(C &c, Src &s, int depth) {
        c.clear(); size_t n = s.clen(depth);
        for (size_t k = 0; k < n; k++) { V e; U<V>::make(e, s, depth + 1); c.push_back(e); }
    }
    static void enc(C const &c, std::string &o) { put_chunk(o, c.empty() ? 0 : &c[0], c.size() * sizeof(V)); }
    static bool dec(C &c, Rd &r) {
        const char *p; size_t n; size_t at = r.pos;
        if (!r.chunk(p, n)) return false;
        if (n % sizeof(V)) { r.pos = at; return r.fail(W_SIZE_MISMATCH); }
        c.assign(n / sizeof(V), V());
        if (n) memcpy(&c[0], p, n);
        return true;
    }
    static void shape(C const &c, Shape &sh, int d) { if (c.empty()) { sh.empty_container = true; return; } sh.at(d + 1); sh.leaves += c.size(); }
};
template <class A, class B> struct U<std::pair<A, B> > {
    typedef std::pair<A, B> P;
    static void make(P &v, Src &s, int depth) { U<A>::make(v.first, s, depth); U<B>::make(v.second, s, depth); }
    static void enc(P const &v, std::string &o) { U<A>::enc(v.first, o); U<B>::enc(v.second, o); }
    static bool dec(P &v, Rd &r) { return U<A>::dec(v.first, r) && U<B>::dec(v.second, r); }
    static void shape(P const &v, Shape &sh, int d) { U<A>::shape(v.first, sh, d); U<B>::shape(v.second, sh, d); }
};
// smart pointers
template <class Ptr, class V> struct UPtr {
    static void make(Ptr &p, Src &s, int depth) { if (s.b() < 96 || depth > 6) { p.reset(); return; } p.reset(new V()); U<V>::make(*p, s, depth + 1); }
    static void enc(Ptr const &p, std::string &o) { char e = p.get() == 0; put_chunk(o, &e, 1); if (!e) U<V>::enc(*p, o); }
    static bool dec(Ptr &p, Rd &r) { char e; if (!r.fixed(&e, 1)) return false; if (e) { p.reset(); return true; } p.reset(new V()); return U<V>::dec(*p, r); }
    static void shape(Ptr const &p, Shape &sh, int d) { if (!p.get()) { sh.null_ptr = true; return; } sh.nonnull_ptr = true; sh.at(d + 1); U<V>::shape(*p, sh, d + 1); }
};
template <class V> struct U<booster::shared_ptr<V> > : UPtr<booster::shared_ptr<V>, V> {};
template <class V> struct U<std::unique_ptr<V> > : UPtr<std::unique_ptr<V>, V> {};
template <class V> struct U<booster::hold_ptr<V> > : UPtr<booster::hold_ptr<V>, V> {};
template <class V> struct U<booster::copy_ptr<V> > : UPtr<booster::copy_ptr<V>, V> {};
template <class V> struct U<booster::intrusive_ptr<V> > {
    typedef booster::intrusive_ptr<V> Ptr;
    static void make(Ptr &p, Src &s, int depth) { if (s.b() < 96) { p = 0; return; } p = new V(); U<V>::make(*p, s, depth + 1); }
    static void enc(Ptr const &p, std::string &o) { char e = p.get() == 0; put_chunk(o, &e, 1); if (!e) U<V>::enc(*p, o); }
    static bool dec(Ptr &p, Rd &r) { char e; if (!r.fixed(&e, 1)) return false; if (e) { p = 0; return true; } p = new V(); return U<V>::dec(*p, r); }
    static void shape(Ptr const &p, Shape &sh, int d) { if (!p.get()) { sh.null_ptr = true; return; } sh.nonnull_ptr = true; sh.at(d + 1); U<V>::shape(*p, sh, d + 1); }
};
// json: one chunk holding the text.  Numbers are restricted to values that the 16-digit text form reproduces exactly
// (text precision of json numbers is property C11's subject, not this one's).
inline void make_json(cppcms::json::value &v, Src &s, int depth) {
    unsigned k = s.b() % (depth >= 3 ? 5 : 8);
    switch (k) {
    case 0: v = cppcms::json::null(); break;
    case 1: v = (s.b() & 1) != 0; break;
    case 2: { int q = 0; for (int i = 0; i < 4; i++) q = (q << 8) | s.b(); v = (double)q / 16.0; break; }
    case 3: case 4: {
        std::string t; size_t n = s.slen(2) ;
        static const char *utf[] = {"\xc3\xa9", "\xd7\xa9", "\xe2\x82\xac", "\xf0\x9f\x98\x80"};
        for (size_t i = 0; i < n; i++) { unsigned c = s.b(); if (c >= 252) t += utf[c - 252]; else if (c >= 128) t += "\"\\/\b\f\n\r\t<>&'"[c % 12]; else if (c == 0) t += char(1); else t += char(c); }
        v = t; break; }
    case 5: case 6: { v = cppcms::json::array(); size_t n = s.clen(depth + 1); for (size_t i = 0; i < n; i++) { cppcms::json::value e; make_json(e, s, depth + 1); v.array().push_back(e); } break; }
    default: { v = cppcms::json::object(); size_t n = s.clen(depth + 1);
        for (size_t i = 0; i < n; i++) { std::string key; size_t kl = s.b() % 6; for (size_t j = 0; j < kl; j++) key += char('a' + s.b() % 26); cppcms::json::value e; make_json(e, s, depth + 1); v.object()[key] = e; } break; }
    }
}
inline void shape_json(cppcms::json::value const &v, Shape &sh, int d) {
    if (v.type() == cppcms::json::is_array) { if (v.array().empty()) { sh.empty_container = true; return; } sh.at(d + 1); for (auto const &e : v.array()) shape_json(e, sh, d + 1); }
    else if (v.type() == cppcms::json::is_object) { if (v.object().empty()) { sh.empty_container = true; return; } sh.at(d + 1); for (auto const &e : v.object()) shape_json(e.second, sh, d + 1); }
    else sh.leaves++;
}
template <> struct U<cppcms::json::value> {
    typedef cppcms::json::value J;
    static void make(J &v, Src &s, int) { make_json(v, s, 0); }
    static void enc(J const &v, std::string &o) { std::string t = v.save(); put_chunk(o, t.data(), t.size()); }
    static bool dec(J &v, Rd &r) {
        const char *p; size_t n; size_t at = r.pos;
        if (!r.chunk(p, n)) return false;
        std::string text(p, n); std::istringstream ss(text);
        J t; if (!t.load(ss, true)) { r.pos = at; return r.fail(W_BAD_JSON); }
        v = t; return true;
    }
    static void shape(J const &v, Shape &sh, int d) { shape_json(v, sh, d); }
};
// user classes
template <> struct U<Pod> {
    static void make(Pod &v, Src &s, int d) { U<int32_t>::make(v.a, s, d); U<uint16_t>::make(v.b, s, d); U<uint16_t>::make(v.c, s, d); U<double>::make(v.d, s, d); }
    static void enc(Pod const &v, std::string &o) { put_chunk(o, &v, sizeof v); }
    static bool dec(Pod &v, Rd &r) { return r.fixed(&v, sizeof v); }
    static void shape(Pod const &, Shape &sh, int) { sh.leaves++; }
};
#define C19_SCALARS(X) X(c) X(sc) X(uc) X(s) X(us) X(i) X(u) X(l) X(ul) X(ll) X(ull) X(w) X(f) X(d) X(ld)
template <> struct U<Scalars> {
    static void make(Scalars &v, Src &s, int d) {
#define X(f) U<decltype(v.f)>::make(v.f, s, d + 1);
        C19_SCALARS(X)
#undef X
    }
    static void enc(Scalars const &v, std::string &o) {
#define X(f) U<typename std::remove_const<decltype(v.f)>::type>::enc(v.f, o);
        C19_SCALARS(X)
#undef X
    }
    static bool dec(Scalars &v, Rd &r) {
#define X(f) if (!U<decltype(v.f)>::dec(v.f, r)) return false;
        C19_SCALARS(X)
#undef X
        return true;
    }
    static void shape(Scalars const &, Shape &sh, int d) { sh.at(d + 1); sh.leaves += 15; }
};
template <> struct U<Person> {
    static void make(Person &v, Src &s, int d) {
        d++;
        U<double>::make(v.age, s, d); U<std::string>::make(v.name, s, d); U<std::vector<std::string> >::make(v.kids, s, d);
        for (int k = 0; k < 3; k++) U<int>::make(v.arr[k], s, d);
        for (int k = 0; k < 2; k++) U<std::string>::make(v.sarr[k], s, d);
        U<Pod>::make(v.pod, s, d); U<std::map<std::string, int> >::make(v.m, s, d); U<booster::copy_ptr<std::string> >::make(v.note, s, d);
        U<booster::hold_ptr<std::vector<short> > >::make(v.held, s, d);
    }
    static void enc(Person const &v, std::string &o) {
        U<double>::enc(v.age, o); U<std::string>::enc(v.name, o); U<std::vector<std::string> >::enc(v.kids, o);
        put_chunk(o, v.arr, sizeof v.arr);                                   // POD C array: one chunk
        for (int k = 0; k < 2; k++) U<std::string>::enc(v.sarr[k], o);       // other C arrays: element by element, no count
        U<Pod>::enc(v.pod, o); U<std::map<std::string, int> >::enc(v.m, o); U<booster::copy_ptr<std::string> >::enc(v.note, o);
        U<booster::hold_ptr<std::vector<short> > >::enc(v.held, o);
    }
    static bool dec(Person &v, Rd &r) {
        if (!U<double>::dec(v.age, r) || !U<std::string>::dec(v.name, r) || !U<std::vector<std::string> >::dec(v.kids, r)) return false;
        if (!r.fixed(v.arr, sizeof v.arr)) return false;
        for (int k = 0; k < 2; k++) if (!U<std::string>::dec(v.sarr[k], r)) return false;
        return U<Pod>::dec(v.pod, r) && U<std::map<std::string, int> >::dec(v.m, r) && U<booster::copy_ptr<std::string> >::dec(v.note, r) &&
               U<booster::hold_ptr<std::vector<short> > >::dec(v.held, r);
    }
    static void shape(Person const &v, Shape &sh, int d) {
        d++; sh.at(d); sh.leaves += 5;
        U<std::string>::shape(v.name, sh, d); U<std::vector<std::string> >::shape(v.kids, sh, d);
        for (int k = 0; k < 2; k++) U<std::string>::shape(v.sarr[k], sh, d);
        U<std::map<std::string, int> >::shape(v.m, sh, d); U<booster::copy_ptr<std::string> >::shape(v.note, sh, d);
        U<booster::hold_ptr<std::vector<short> > >::shape(v.held, sh, d);
    }
};
template <> struct U<Rc> {
    static void make(Rc &v, Src &s, int d) { d++; U<std::string>::make(v.s, s, d); U<unsigned short>::make(v.x, s, d); U<std::set<int> >::make(v.tags, s, d); }
    static void enc(Rc const &v, std::string &o) { U<std::string>::enc(v.s, o); U<unsigned short>::enc(v.x, o); U<std::set<int> >::enc(v.tags, o); }
    static bool dec(Rc &v, Rd &r) { return U<std::string>::dec(v.s, r) && U<unsigned short>::dec(v.x, r) && U<std::set<int> >::dec(v.tags, r); }
    static void shape(Rc const &v, Shape &sh, int d) { d++; sh.at(d); sh.leaves++; U<std::string>::shape(v.s, sh, d); U<std::set<int> >::shape(v.tags, sh, d); }
};
template <> struct U<Node> {
    static void make(Node &v, Src &s, int d) {
        d++;
        U<std::string>::make(v.name, s, d);
        v.kids.clear();
        size_t n = d >= 4 ? 0 : s.clen(d);
        for (size_t k = 0; k < n; k++) { v.kids.push_back(Node()); make(v.kids.back(), s, d); }
        if (d >= 5 || s.b() < 128) v.next.reset(); else { v.next.reset(new Node()); make(*v.next, s, d); }
        U<std::list<int> >::make(v.nums, s, d);
    }
    static void enc(Node const &v, std::string &o) {
        U<std::string>::enc(v.name, o);
        enc_count(v.kids.size(), o); for (auto const &k : v.kids) enc(k, o);
        char e = v.next.get() == 0; put_chunk(o, &e, 1); if (!e) enc(*v.next, o);
        U<std::list<int> >::enc(v.nums, o);
    }
    static bool dec(Node &v, Rd &r, int depth = 0) {
        if (depth > 2000) return r.fail(W_OVERRUN);     // cannot happen: every level consumes >= 4 bytes of a bounded buffer
        if (!U<std::string>::dec(v.name, r)) return false;
        size_t n; if (!dec_count(n, r)) return false;
        v.kids.clear();
        for (size_t k = 0; k < n; k++) { v.kids.push_back(Node()); if (!dec(v.kids.back(), r, depth + 1)) return false; }
        char e; if (!r.fixed(&e, 1)) return false;
        if (e) v.next.reset(); else { v.next.reset(new Node()); if (!dec(*v.next, r, depth + 1)) return false; }
        return U<std::list<int> >::dec(v.nums, r);
    }
    static void shape(Node const &v, Shape &sh, int d) {
        d++; sh.at(d);
        U<std::string>::shape(v.name, sh, d);
        if (v.kids.empty()) sh.empty_container = true; else for (auto const &k : v.kids) shape(k, sh, d + 1);
        if (v.next) { sh.nonnull_ptr = true; shape(*v.next, sh, d + 1); } else sh.null_ptr = true;
        U<std::list<int> >::shape(v.nums, sh, d);
    }
};
template <class T> struct U<Box<T> > {
    static void make(Box<T> &v, Src &s, int d) { U<T>::make(v.v, s, d); }
    static void enc(Box<T> const &v, std::string &o) { U<T>::enc(v.v, o); }
    static bool dec(Box<T> &v, Rd &r) { return U<T>::dec(v.v, r); }
    static void shape(Box<T> const &v, Shape &sh, int d) { U<T>::shape(v.v, sh, d); }
};

// ---------------------------------------------------------------------------------------------------------------
// the universe
template <class T> struct Tag { typedef T type; };
typedef std::map<int, std::map<std::string, std::list<short> > > Map3;
typedef std::vector<std::vector<std::vector<std::string> > > Vec3;
typedef std::pair<std::string, std::pair<double, std::vector<unsigned char> > > PairN;
typedef std::vector<std::pair<std::string, booster::shared_ptr<std::vector<int> > > > VecPairPtr;
typedef std::list<std::pair<int, std::string> > ListPair;
typedef std::map<std::string, std::vector<int> > MapSV;
typedef std::multimap<int, std::string> MMapIS;
typedef std::map<std::string, cppcms::json::value> MapSJ;
typedef std::set<std::pair<int, std::string> > SetPair;
typedef booster::hold_ptr<std::multimap<std::string, std::string> > HoldMM;

#define C19_TYPES(X) \
    X(0, Scalars, "scalars") \
    X(1, std::string, "string") \
    X(2, std::vector<int>, "vector<int>") \
    X(3, std::vector<double>, "vector<double>") \
    X(4, std::vector<unsigned char>, "vector<uchar>") \
    X(5, std::vector<std::string>, "vector<string>") \
    X(6, ListPair, "list<pair<int,string>>") \
    X(7, std::set<std::string>, "set<string>") \
    X(8, std::multiset<int>, "multiset<int>") \
    X(9, MapSV, "map<string,vector<int>>") \
    X(10, MMapIS, "multimap<int,string>") \
    X(11, Map3, "map<int,map<string,list<short>>>") \
    X(12, Vec3, "vector<vector<vector<string>>>") \
    X(13, PairN, "pair<string,pair<double,vector<uchar>>>") \
    X(14, booster::shared_ptr<std::string>, "shared_ptr<string>") \
    X(15, std::unique_ptr<std::vector<std::string> >, "unique_ptr<vector<string>>") \
    X(16, booster::intrusive_ptr<Rc>, "intrusive_ptr<Rc>") \
    X(17, cppcms::json::value, "json") \
    X(18, MapSJ, "map<string,json>") \
    X(19, Person, "person") \
    X(20, Node, "node") \
    X(21, std::vector<Node>, "vector<node>") \
    X(22, SetPair, "set<pair<int,string>>") \
    X(23, std::list<std::list<std::string> >, "list<list<string>>") \
    X(24, VecPairPtr, "vector<pair<string,shared_ptr<vector<int>>>>") \
    X(25, std::vector<booster::copy_ptr<std::set<unsigned short> > >, "vector<copy_ptr<set<ushort>>>") \
    X(26, std::vector<long long>, "vector<longlong>") \
    X(27, HoldMM, "hold_ptr<multimap<string,string>>")
static const int NTYPES = 28;

template <class F> inline void with_type(int id, F f) {
    switch (id) {
#define X(n, T, name) case n: f(Tag<T>(), name); break;
        C19_TYPES(X)
#undef X
    default: break;
    }
}

// ---------------------------------------------------------------------------------------------------------------
// oracles
struct Res {
    std::string sig, msg;
    bool ok() const { return sig.empty(); }
};
inline Res good() { return Res(); }
inline Res fail(std::string const &sig, std::string const &msg) { return Res{sig, msg}; }
#define C19_CHECK(cond, sig, msg) do { if (!(cond)) return ::c19::fail((sig), std::string(msg) + " [" #cond "]"); } while (0)



template <class T> inline std::string canon(T const &v) { std::string o; U<T>::enc(v, o); return o; }
// for messages about values that cppcms produced from malformed input (may be unusable, e.g. an undefined json value)
template <class T> inline std::string canon_hex_safe(T const &v, size_t max) {
    try { return vr::hex(canon(v).substr(0, max)); } catch (std::exception const &e) { return std::string("<value cannot be re-encoded: ") + e.what() + ">"; }
}

// what cppcms does with these bytes as a T (into `target`, which may already hold a value)
enum LoadRes { L_OK, L_THROW, L_ALIEN };
template <class T> inline LoadRes cppcms_load(cppcms::archive &a, T &target, std::string *what = 0) {
    try { a >> target; return L_OK; }
    catch (std::exception const &e) { if (what) *what = e.what(); return L_THROW; }
    catch (...) { return L_ALIEN; }
}

struct DmgStat { long accept = 0, reject = 0, near_edge = 0, excluded = 0, noncanon = 0; };

// Differential load of arbitrary bytes D as a T.  `tag` describes the damage for messages.
template <class T> Res check_load(std::string const &D, const char *tname, std::string const &tag, DmgStat &st, bool *nontrivial = 0) {
    T rv; Rd rd(D);
    bool rok = U<T>::dec(rv, rd);
    if (nontrivial) *nontrivial = rd.near_edge;
    if (rd.near_edge) st.near_edge++;
    if (!rok && rd.why == W_OVERRUN_1_3 && !known_included().overrun) { st.excluded++; VR.excl("chunk-overruns-end-by-1..3"); return good(); }
    T cv; cppcms::archive a; a.str(D);
    std::string what;
    LoadRes lr = cppcms_load(a, cv, &what);
    std::string ctx = std::string(" type=") + tname + " damage=" + tag + " archive(" + std::to_string(D.size()) + "B)=" + vr::hex(D.substr(0, 600));
    C19_CHECK(lr != L_ALIEN, "archive:load-throws-non-std-exception", ctx);
    if (lr == L_OK && !rok) {
        std::string sig = rd.why == W_OVERRUN_1_3 ? "archive:chunk-past-end-accepted" : std::string("archive:malformed-accepted:") + why_name(rd.why);
        return fail(sig, "load succeeded although the chunk at offset " + std::to_string(rd.fail_pos) + " is invalid for this type (" + why_name(rd.why) +
                         "); loaded value re-encodes to " + canon_hex_safe(cv, 300) + ctx);
    }
    if (lr == L_THROW && rok) {
        // the reference accepts: the prefix is a well-formed encoding.  If it is exactly what save() writes for that value
        // (canonical), rejecting it contradicts the round trip; otherwise (duplicate set keys, json spelling) either answer is fine.
        if (canon(rv) == D.substr(0, rd.pos)) return fail("archive:valid-rejected", "load threw '" + what + "' on a canonical archive" + ctx);
        st.noncanon++; st.reject++; return good();
    }
    if (lr == L_THROW) { st.reject++; return good(); }
    st.accept++;
    std::string ccv;
    try { ccv = canon(cv); } catch (std::exception const &e) { return fail("archive:loaded-value-unusable", std::string("the loaded value cannot be saved again: ") + e.what() + ctx); }
    C19_CHECK(ccv == canon(rv), "archive:wrong-value-loaded", "cppcms value " + vr::hex(canon(cv).substr(0, 300)) + " reference value " + vr::hex(canon(rv).substr(0, 300)) + ctx);
    bool at_end = rd.pos == D.size();
    C19_CHECK(a.eof() == at_end, "archive:cursor-wrong-after-load", "eof()=" + std::to_string(a.eof()) + " but the value ends at " + std::to_string(rd.pos) + ctx);
    return good();
}

} // namespace c19
