// C04 — shared by c04_fuzz.cpp (libFuzzer) and c04_rc.cpp (rapidcheck grammar):
//   * the case format: CFG_LEN configuration bytes (rule set, encoding, method, replacement char) + text bytes
//   * construction of cppcms::xss::rules from the configuration
//   * the ORACLE: an independent, strict scanner for the filter output (written from the documentation in cppcms/xss.h,
//     not from src/xss.cpp), an independent well-formedness checker for the declared encoding, and relations between
//     the three public entry points validate / filter / validate_and_filter_if_invalid.
// Nothing here calls into src/xss.cpp except through the public API in check_case().
#pragma once
#include "vreport.h"
#include <cppcms/xss.h>
#include <booster/regex.h>
#include <iconv.h>
#include <errno.h>
#include <map>
#include <set>
#include <string>
#include <vector>

namespace c04 {

// ---------------------------------------------------------------------------------------------------------------
// vocabulary of the generated rule sets
// ---------------------------------------------------------------------------------------------------------------
static const int NTAG = 8, NATTR = 8, NSCHEME = 6, NENT = 3;
static const char *const TAGS[NTAG] = {"a", "b", "i", "p", "br", "img", "input", "h1"};
static const char *const ATTRS[NATTR] = {"href", "src", "title", "alt", "class", "width", "checked", "style"};
static const char *const SCHEMES[NSCHEME] = {"http", "https", "ftp", "mailto", "data", "javascript"};
static const char *const DEFAULT_SCHEMES[6] = {"http", "https", "ftp", "mailto", "news", "nntp"};   // documented default of uri_validator()
static const char *const ENTS[NENT] = {"nbsp", "copy", "or"};

enum TagKind { T_NONE = 0, T_PAIR = 1, T_ALONE = 2, T_ANY = 3 };
enum AttrKind { K_NONE = 0, K_BOOL, K_INT, K_RE_ANY, K_RE_WORD, K_RE_ALIGN, K_RE_HEX, K_URI_DEF, K_URI_LIST, K_REL, K_ABS_LIST, K_ABS_DEF, K_N };
static const char *const KIND_NAME[K_N] = {"none", "bool", "int", "re(.*)", "re(word)", "re(align)", "re(hex)", "uri", "uri(list)", "rel_uri", "abs_uri(list)", "abs_uri"};
static const char *const RE_ANY = ".*";
static const char *const RE_WORD = "[a-zA-Z_0-9]+";
static const char *const RE_ALIGN = "text-align:(left|right|center)";
static const char *const RE_HEX = "[0-9a-fA-F]+";

enum EncType { E_NONE, E_UTF8, E_SINGLE, E_UTF16LE, E_UTF16BE, E_ICONV };
struct EncInfo { const char *name; EncType type; const char *bad; /* single byte: undefined bytes >= 0xA0 or in C1 that are NOT defined */ bool c1_defined; };
// Reference tables generated from Python's codecs (independent of cppcms and of iconv):
// byte is acceptable  <=>  defined in the charset and not a control character (C0 except TAB LF CR, DEL, C1).
static const EncInfo ENCS[] = {
    {"", E_NONE, "", false},
    {"UTF-8", E_UTF8, "", false},
    {"ISO-8859-1", E_SINGLE, "", false},
    {"ISO-8859-8", E_SINGLE, "\xa1\xbf\xc0\xc1\xc2\xc3\xc4\xc5\xc6\xc7\xc8\xc9\xca\xcb\xcc\xcd\xce\xcf\xd0\xd1\xd2\xd3\xd4\xd5\xd6\xd7\xd8\xd9\xda\xdb\xdc\xdd\xde\xfb\xfc\xff", false},
    {"windows-1251", E_SINGLE, "\x98", true},
    {"windows-1252", E_SINGLE, "\x81\x8d\x8f\x90\x9d", true},
    {"koi8-r", E_SINGLE, "", true},
    {"ISO-8859-7", E_SINGLE, "\xae\xd2\xff", false},
    {"UTF-16LE", E_UTF16LE, "", false},
    {"UTF-16BE", E_UTF16BE, "", false},
    {"SHIFT_JIS", E_ICONV, "", false},
};
static const int NENC = sizeof(ENCS) / sizeof(ENCS[0]);
static const char REPLS[] = {0, '?', ' ', '<', '&', '"'};
static const int NREPL = sizeof(REPLS);

static const size_t CFG_LEN = 21;

struct Cfg {
    bool xhtml = true, comments = false, numeric = false, escape = false;
    unsigned ents = 0, schemes = 1;
    int enc = 0, repl = 0;
    int tagkind[NTAG];
    int attrkind[NATTR];
    unsigned attrtags[NATTR];
    std::string raw;   // the normalised CFG_LEN bytes

    static Cfg from_bytes(std::string b) {
        b.resize(CFG_LEN, '\0');
        Cfg c; c.raw = b;
        auto u = [&b](size_t i) { return (unsigned)(unsigned char)b[i]; };
        c.xhtml = u(0) & 1; c.comments = u(0) & 2; c.numeric = u(0) & 4; c.escape = u(0) & 8; c.ents = (u(0) >> 4) & 7;
        c.enc = (u(1) & 15) % NENC; c.repl = (u(1) >> 4) % NREPL;
        unsigned tk = u(2) | (u(3) << 8);
        for (int i = 0; i < NTAG; i++) c.tagkind[i] = (tk >> (2 * i)) & 3;
        c.schemes = u(4) & 63; if (!c.schemes) c.schemes = 1;
        for (int j = 0; j < NATTR; j++) { c.attrkind[j] = u(5 + 2 * j) % K_N; c.attrtags[j] = u(6 + 2 * j); }
        return c;
    }
    EncInfo const &encoding() const { return ENCS[enc]; }
    char repl_char() const { return REPLS[repl]; }
    bool ascii_compatible() const { EncType t = encoding().type; return t == E_NONE || t == E_UTF8 || t == E_SINGLE; }
    std::vector<std::string> scheme_list() const { std::vector<std::string> v; for (int i = 0; i < NSCHEME; i++) if (schemes & (1u << i)) v.push_back(SCHEMES[i]); return v; }
    std::string scheme_regex() const { std::string r = "("; bool f = true; for (auto &s : scheme_list()) { r += (f ? "" : "|") + s; f = false; } return r + ")"; }
    bool entity_allowed(std::string const &n) const {
        if (n == "lt" || n == "gt" || n == "amp" || n == "quot") return true;   // documented: always allowed
        for (int i = 0; i < NENT; i++) if ((ents & (1u << i)) && n == ENTS[i]) return true;
        return false;
    }
    std::string describe() const {
        std::string s = xhtml ? "xhtml" : "html";
        s += escape ? ",escape" : ",remove";
        if (comments) s += ",comments"; if (numeric) s += ",numeric";
        s += std::string(",enc=") + (encoding().name[0] ? encoding().name : "-");
        if (repl_char()) { s += ",repl='"; s += repl_char(); s += "'"; }
        s += ",tags[";
        for (int i = 0; i < NTAG; i++) if (tagkind[i]) { s += TAGS[i]; s += ":"; s += (tagkind[i] == T_PAIR ? "P" : tagkind[i] == T_ALONE ? "S" : "A"); s += " "; }
        s += "],attrs[";
        for (int j = 0; j < NATTR; j++) if (attrkind[j] && attrtags[j]) {
            s += ATTRS[j]; s += "="; s += KIND_NAME[attrkind[j]]; s += "@";
            for (int i = 0; i < NTAG; i++) if (attrtags[j] & (1u << i)) { s += TAGS[i]; s += "+"; }
            s += " ";
        }
        s += "],schemes=" + scheme_regex();
        if (ents) { s += ",ents="; for (int i = 0; i < NENT; i++) if (ents & (1u << i)) { s += ENTS[i]; s += "+"; } }
        return s;
    }
};

inline cppcms::xss::rules build_rules(Cfg const &c) {
    using cppcms::xss::rules;
    rules r;
    r.html(c.xhtml ? rules::xhtml_input : rules::html_input);   // documented: must be called first
    r.comments_allowed(c.comments);
    r.numeric_entities_allowed(c.numeric);
    if (c.encoding().name[0]) r.encoding(c.encoding().name);
    for (int i = 0; i < NENT; i++) if (c.ents & (1u << i)) r.add_entity(ENTS[i]);
    for (int i = 0; i < NTAG; i++) if (c.tagkind[i]) r.add_tag(TAGS[i], c.tagkind[i] == T_PAIR ? rules::opening_and_closing : c.tagkind[i] == T_ALONE ? rules::stand_alone : rules::any_tag);
    for (int j = 0; j < NATTR; j++) {
        // one validator per attribute, shared by its tags (the documentation defines add_uri_property / add_integer_property /
        // add_property(regex) as add_property with the corresponding validator; compiling it once keeps rule construction cheap)
        rules::validator_type val; booster::regex re; bool use_re = false;
        switch (c.attrkind[j]) {
        case K_RE_ANY: re = booster::regex(RE_ANY); use_re = true; break;
        case K_RE_WORD: re = booster::regex(RE_WORD); use_re = true; break;
        case K_RE_ALIGN: re = booster::regex(RE_ALIGN); use_re = true; break;
        case K_RE_HEX: re = booster::regex(RE_HEX); use_re = true; break;
        case K_URI_DEF: val = rules::uri_validator(); break;
        case K_URI_LIST: val = rules::uri_validator(c.scheme_regex()); break;
        case K_REL: val = rules::relative_uri_validator(); break;
        case K_ABS_LIST: val = rules::uri_validator(c.scheme_regex(), true); break;
        case K_ABS_DEF: val = rules::uri_validator("(http|https|ftp|mailto|news|nntp)", true); break;
        default: break;
        }
        for (int i = 0; i < NTAG; i++) {
            if (!(c.attrtags[j] & (1u << i))) continue;
            if (!c.tagkind[i]) continue;      // properties only for allowed tags (a property for an unknown tag is a configuration error)
            std::string t = TAGS[i], a = ATTRS[j];
            switch (c.attrkind[j]) {
            case K_NONE: break;
            case K_BOOL: r.add_boolean_property(t, a); break;
            case K_INT: r.add_integer_property(t, a); break;
            default: if (use_re) r.add_property(t, a, re); else r.add_property(t, a, val);
            }
        }
    }
    return r;
}

struct Counters; inline Counters &counters();
inline cppcms::xss::rules const &rules_for(Cfg const &c);


// ---------------------------------------------------------------------------------------------------------------
// text -> input bytes in the declared encoding
//   ASCII compatible encodings and SHIFT_JIS: the text bytes are the input.
//   UTF-16: every text byte < 0x80 becomes one 16 bit unit; a byte >= 0x80 takes the following byte too and the pair is an
//   arbitrary 16 bit unit (so lone surrogates, controls and an odd trailing byte are all reachable).
// ---------------------------------------------------------------------------------------------------------------
inline std::string make_input(Cfg const &c, std::string const &text) {
    EncType t = c.encoding().type;
    if (t != E_UTF16LE && t != E_UTF16BE) return text;
    std::string x;
    for (size_t i = 0; i < text.size(); i++) {
        unsigned char b = text[i];
        unsigned unit;
        if (b < 0x80) unit = b;
        else if (i + 1 < text.size()) { unit = ((unsigned)b << 8) | (unsigned char)text[i + 1]; i++; }
        else { x += char(b); break; }   // odd trailing byte
        if (t == E_UTF16LE) { x += char(unit & 255); x += char(unit >> 8); } else { x += char(unit >> 8); x += char(unit & 255); }
    }
    return x;
}

// ---------------------------------------------------------------------------------------------------------------
// reference: is the byte string well formed text in the declared encoding (and free of control characters that the
// documentation calls "invalid for use in HTML")?  Also produces an ASCII-compatible (UTF-8) view for the scanner.
// ---------------------------------------------------------------------------------------------------------------
inline bool bad_control(unsigned cp) { return (cp < 0x20 && cp != 9 && cp != 10 && cp != 13) || (cp >= 0x7F && cp <= 0x9F); }
inline void put_utf8(std::string &o, unsigned cp) {
    if (cp < 0x80) o += char(cp);
    else if (cp < 0x800) { o += char(0xC0 | (cp >> 6)); o += char(0x80 | (cp & 63)); }
    else if (cp < 0x10000) { o += char(0xE0 | (cp >> 12)); o += char(0x80 | ((cp >> 6) & 63)); o += char(0x80 | (cp & 63)); }
    else { o += char(0xF0 | (cp >> 18)); o += char(0x80 | ((cp >> 12) & 63)); o += char(0x80 | ((cp >> 6) & 63)); o += char(0x80 | (cp & 63)); }
}
// RFC 3629, table 3-7 of the Unicode standard
inline bool ref_utf8(std::string const &s, std::string &why) {
    size_t i = 0, n = s.size();
    auto B = [&s](size_t k) { return (unsigned)(unsigned char)s[k]; };
    while (i < n) {
        unsigned b = B(i), cp; size_t need;
        if (b < 0x80) { cp = b; need = 0; }
        else if (b >= 0xC2 && b <= 0xDF) { cp = b & 0x1F; need = 1; }
        else if (b >= 0xE0 && b <= 0xEF) { cp = b & 0x0F; need = 2; }
        else if (b >= 0xF0 && b <= 0xF4) { cp = b & 0x07; need = 3; }
        else { why = "illegal lead byte at " + std::to_string(i); return false; }
        if (need > 0 && i + need >= n) { why = "truncated sequence at " + std::to_string(i); return false; }
        for (size_t k = 1; k <= need; k++) {
            unsigned t = B(i + k), lo = 0x80, hi = 0xBF;
            if (k == 1) { if (b == 0xE0) lo = 0xA0; if (b == 0xED) hi = 0x9F; if (b == 0xF0) lo = 0x90; if (b == 0xF4) hi = 0x8F; }
            if (t < lo || t > hi) { why = "bad continuation byte at " + std::to_string(i + k); return false; }
            cp = (cp << 6) | (t & 0x3F);
        }
        if (bad_control(cp)) { why = "control character U+" + std::to_string(cp) + " at " + std::to_string(i); return false; }
        i += need + 1;
    }
    return true;
}
inline bool ref_utf16(std::string const &s, bool le, std::string &why, std::string *utf8) {
    if (s.size() % 2) { why = "odd number of bytes"; return false; }
    auto U = [&s, le](size_t k) { unsigned a = (unsigned char)s[k], b = (unsigned char)s[k + 1]; return le ? (a | (b << 8)) : ((a << 8) | b); };
    for (size_t i = 0; i < s.size(); i += 2) {
        unsigned w = U(i), cp = w;
        if (w >= 0xDC00 && w <= 0xDFFF) { why = "lone low surrogate at " + std::to_string(i); return false; }
        if (w >= 0xD800 && w <= 0xDBFF) {
            if (i + 4 > s.size()) { why = "truncated surrogate pair"; return false; }
            unsigned w2 = U(i + 2);
            if (w2 < 0xDC00 || w2 > 0xDFFF) { why = "high surrogate without low surrogate at " + std::to_string(i); return false; }
            cp = 0x10000 + (((w & 0x3FF) << 10) | (w2 & 0x3FF)); i += 2;
        }
        if (bad_control(cp)) { why = "control character U+" + std::to_string(cp) + " at unit " + std::to_string(i / 2); return false; }
        if (utf8) put_utf8(*utf8, cp);
    }
    return true;
}
inline bool iconv_to_utf8(const char *from, std::string const &s, std::string &out) {
    iconv_t cd = iconv_open("UTF-8", from);
    if (cd == (iconv_t)-1) return false;
    out.clear();
    std::vector<char> buf(s.size() * 4 + 16);
    char *in = const_cast<char *>(s.data()); size_t inl = s.size();
    char *op = buf.data(); size_t ol = buf.size();
    size_t r = iconv(cd, &in, &inl, &op, &ol);
    bool good = (r != (size_t)-1) && inl == 0;
    if (good) { r = iconv(cd, 0, 0, &op, &ol); good = r != (size_t)-1; }
    iconv_close(cd);
    if (good) out.assign(buf.data(), op - buf.data());
    return good;
}
// returns true when well formed; *view receives an ASCII compatible rendering for the scanner (always for ASCII compatible
// encodings, only when well formed for the others)
inline bool ref_wellformed(Cfg const &c, std::string const &s, std::string &why, std::string *view = nullptr) {
    EncInfo const &e = c.encoding();
    switch (e.type) {
    case E_NONE: if (view) *view = s; return true;
    case E_UTF8: if (view) *view = s; return ref_utf8(s, why);
    case E_SINGLE:
        if (view) *view = s;
        for (size_t i = 0; i < s.size(); i++) {
            unsigned b = (unsigned char)s[i];
            bool bad = (b < 0x20 && b != 9 && b != 10 && b != 13) || b == 0x7F;
            if (b >= 0x80 && b <= 0x9F && !e.c1_defined) bad = true;
            if (b >= 0x80 && strchr(e.bad, (char)b) && b) bad = true;
            if (bad) { char t[64]; snprintf(t, sizeof t, "byte 0x%02x at %zu is undefined/control in %s", b, i, e.name); why = t; return false; }
        }
        return true;
    case E_UTF16LE: case E_UTF16BE: { if (view) view->clear(); return ref_utf16(s, e.type == E_UTF16LE, why, view); }
    case E_ICONV: {
        std::string u;
        if (!iconv_to_utf8(e.name, s, u)) { why = "iconv cannot decode"; return false; }
        if (view) *view = u;
        return ref_utf8(u, why);
    }
    }
    return true;
}

// ---------------------------------------------------------------------------------------------------------------
// The strict scanner.  Grammar (from cppcms/xss.h + what a browser would take as markup):
//   text      : any byte except < > &
//   entity    : &name;  name in {lt gt amp quot} + configured        |  &#DDD; &#xHH; when numeric entities are allowed
//   comment   : <!-- body -->  only if allowed; the first "--" after the opener must be the terminator; body has no < > &
//   close tag : </name ws* >                                          name white-listed, kind pair/any
//   open tag  : <name (ws+ attr)* ws* [/] >   attr: name | name="v" | name='v'
//   every attribute white-listed for that tag, no duplicates, value valid for its kind, value contains no < > and only the
//   eight fixed entities;  URI kinds: RFC 3986 character set after entity decoding, scheme (as a browser extracts it) in
//   the white list;  xhtml: tags properly nested, html: close tag must close an open element, implied ends only for
//   tags that may stand alone.
// ---------------------------------------------------------------------------------------------------------------
struct ScanResult {
    std::string sig, msg;
    int tags = 0, close_tags = 0, entities = 0, basic_entities = 0, numeric = 0, comments = 0, attrs = 0, uri_attrs = 0, low_surrogate_ref = 0;
    bool ok() const { return sig.empty(); }
};

inline bool is_alpha(unsigned char c) { return (c >= 'a' && c <= 'z') || (c >= 'A' && c <= 'Z'); }
inline bool is_digit(unsigned char c) { return c >= '0' && c <= '9'; }
inline bool is_alnum(unsigned char c) { return is_alpha(c) || is_digit(c); }
inline bool is_hex(unsigned char c) { return is_digit(c) || (c >= 'a' && c <= 'f') || (c >= 'A' && c <= 'F'); }
inline bool is_ws(unsigned char c) { return c == ' ' || c == '\t' || c == '\r' || c == '\n'; }
inline std::string lower(std::string s) { for (auto &c : s) if (c >= 'A' && c <= 'Z') c = c - 'A' + 'a'; return s; }

inline int find_name(Cfg const &c, const char *const *table, int n, std::string const &name) {
    for (int i = 0; i < n; i++) if (c.xhtml ? (name == table[i]) : (lower(name) == table[i])) return i;
    return -1;
}

// ---------------------------------------------------------------------------------------------------------------
// numeric character references: value of a digit string WITHOUT fixed-width arithmetic (significant digits are counted and
// compared as a string; a number is only computed once it is known to have at most 7 significant digits), plus the wrapped
// readings a careless implementation would produce (mod 2^32 / mod 2^64), used for classification only.
// ---------------------------------------------------------------------------------------------------------------
struct NumRef {
    bool hex = false; size_t digits = 0, zeros = 0, significant = 0;
    bool above_max = false;        // value > 0x10FFFF
    bool ge_2_31 = false, ge_2_32 = false, ge_2_63 = false, ge_2_64 = false;
    unsigned long cp = 0x110000;   // exact value when !above_max
    uint32_t wrap32 = 0; uint64_t wrap64 = 0;
};
inline int cmp_digits(std::string const &a, std::string const &b) {   // both without leading zeros
    if (a.size() != b.size()) return a.size() < b.size() ? -1 : 1;
    return a.compare(b) < 0 ? -1 : a.compare(b) > 0 ? 1 : 0;
}
inline NumRef classify_digits(std::string const &d, bool hexa) {
    NumRef r; r.hex = hexa; r.digits = d.size();
    size_t z = 0; while (z < d.size() && d[z] == '0') z++;
    r.zeros = z;
    std::string sig = lower(d.substr(z));
    r.significant = sig.size();
    for (char ch : d) { unsigned dv = is_digit(ch) ? ch - '0' : (ch | 32) - 'a' + 10; r.wrap32 = r.wrap32 * (hexa ? 16u : 10u) + dv; r.wrap64 = r.wrap64 * (hexa ? 16u : 10u) + dv; }
    if (hexa) {
        r.above_max = cmp_digits(sig, "10ffff") > 0;
        r.ge_2_31 = cmp_digits(sig, "80000000") >= 0; r.ge_2_32 = cmp_digits(sig, "100000000") >= 0;
        r.ge_2_63 = cmp_digits(sig, "8000000000000000") >= 0; r.ge_2_64 = cmp_digits(sig, "10000000000000000") >= 0;
    } else {
        r.above_max = cmp_digits(sig, "1114111") > 0;
        r.ge_2_31 = cmp_digits(sig, "2147483648") >= 0; r.ge_2_32 = cmp_digits(sig, "4294967296") >= 0;
        r.ge_2_63 = cmp_digits(sig, "9223372036854775808") >= 0; r.ge_2_64 = cmp_digits(sig, "18446744073709551616") >= 0;
    }
    if (!r.above_max) { unsigned long v = 0; for (char ch : sig) v = v * (hexa ? 16 : 10) + (is_digit(ch) ? ch - '0' : ch - 'a' + 10); r.cp = v; }
    return r;
}
// is this code point one a numeric reference may denote? (the repository's own tests establish the illegal classes)
inline bool legal_ref_codepoint(unsigned long cp) {
    return !(cp > 0x10FFFF || cp == 0xFFFE || cp == 0xFFFF || bad_control((unsigned)cp) || (cp >= 0xD800 && cp <= 0xDFFF));
}

// ---- construction of numeric references for the generators (rapidcheck grammar, fuzz expansion, deterministic grid)
typedef unsigned __int128 u128;
inline std::string u128_digits(u128 v, bool hexa) {
    if (v == 0) return "0";
    std::string r; unsigned base = hexa ? 16 : 10;
    while (v) { r += "0123456789abcdef"[(unsigned)(v % base)]; v /= base; }
    return std::string(r.rbegin(), r.rend());
}
static const unsigned long NUM_CPS[] = {0x41, 0x3C, 0x26, 0x20AC, 0x10FFFF, 0x9, 0x20, 0xE9, 0x1F600, 0x27,      // legal
                                        0x0, 0x8, 0x1F, 0x7F, 0x9F, 0xD800, 0xDFFF, 0xFFFE, 0xFFFF, 0xB};        // illegal
static const int N_NUM_CPS = sizeof(NUM_CPS) / sizeof(NUM_CPS[0]);
enum NumForm { NF_DEC = 0, NF_HEX_LOWER, NF_HEX_UPPER, NF_HEX_x_UPPER, NF_HEX_X_lower, NF_HEX_MIXED, NF_N };
enum NumVal { NV_CP = 0, NV_2_32_CP, NV_2_33_CP, NV_K_2_32_CP, NV_2_64_CP, NV_K_2_64_CP, NV_2_31_CP, NV_2_63_CP,
              NV_2_31_M1, NV_2_31, NV_2_32_M1, NV_2_32, NV_110000, NV_10FFFF, NV_LONG_EDGES, NV_LONG_CONGRUENT, NV_LONG_RANDOM, NV_N };
static const unsigned NUM_ZEROS[] = {0, 0, 0, 0, 1, 2, 3, 8, 16, 30, 40};
// zeros: number of leading zeros; aux: free parameter (multiplier k, digit source)
inline std::string make_numeric_ref(unsigned form, unsigned zeros, unsigned vclass, unsigned long cp, unsigned long aux) {
    form %= NF_N; vclass %= NV_N;
    bool hexa = form != NF_DEC;
    u128 one = 1, v = 0; std::string digits;
    uint64_t lcg = aux * 6364136223846793005ULL + 1442695040888963407ULL;
    auto rnd = [&lcg]() { lcg = lcg * 6364136223846793005ULL + 1442695040888963407ULL; return (unsigned)(lcg >> 33); };
    switch (vclass) {
    case NV_CP: v = cp; break;
    case NV_2_32_CP: v = (one << 32) + cp; break;
    case NV_2_33_CP: v = (one << 33) + cp; break;
    case NV_K_2_32_CP: v = ((u128)(1 + aux % 65536) << 32) + cp; break;
    case NV_2_64_CP: v = (one << 64) + cp; break;
    case NV_K_2_64_CP: v = ((u128)(1 + aux % 65536) << 64) + cp; break;
    case NV_2_31_CP: v = (one << 31) + cp; break;
    case NV_2_63_CP: v = (one << 63) + cp; break;
    case NV_2_31_M1: v = (one << 31) - 1; break;
    case NV_2_31: v = one << 31; break;
    case NV_2_32_M1: v = (one << 32) - 1; break;
    case NV_2_32: v = one << 32; break;
    case NV_110000: v = 0x110000; break;
    case NV_10FFFF: v = 0x10FFFF; break;
    case NV_LONG_EDGES: { static const int D[] = {-2, -1, 0, 1}; v = (aux & 4 ? (one << 64) : (one << 63)) + D[aux & 3]; break; }
    case NV_LONG_CONGRUENT:      // 20..40 digits, congruent to cp modulo 2^64 (hence modulo 2^32)
        if (hexa) { unsigned n = 4 + rnd() % 21; digits = "1"; for (unsigned i = 1; i < n; i++) digits += "0123456789abcdef"[rnd() % 16]; char b[20]; snprintf(b, sizeof b, "%016lx", cp); digits += b; }
        else v = ((u128)(((uint64_t)rnd() << 31 | rnd()) | 1) << 64) + cp;
        break;
    case NV_LONG_RANDOM: { unsigned n = 20 + rnd() % 21; digits = "123456789"[rnd() % 9]; for (unsigned i = 1; i < n; i++) digits += (hexa ? "0123456789abcdef" : "0123456789")[rnd() % (hexa ? 16 : 10)]; break; }
    }
    if (digits.empty()) digits = u128_digits(v, hexa);
    if (form == NF_HEX_UPPER || form == NF_HEX_x_UPPER) for (auto &ch : digits) ch = toupper(ch);
    if (form == NF_HEX_MIXED) for (size_t i = 0; i < digits.size(); i += 2) digits[i] = toupper(digits[i]);
    std::string r = "&#";
    if (hexa) r += (form == NF_HEX_UPPER || form == NF_HEX_X_lower) ? 'X' : 'x';
    return r + std::string(zeros, '0') + digits + ";";
}

// decode the fixed entity set allowed inside attribute values; false if another '&' construct is present
inline bool decode_value(std::string const &v, std::string &out, std::string &why) {
    static const struct { const char *e; char c; } E[] = {{"&amp;", '&'}, {"&lt;", '<'}, {"&gt;", '>'}, {"&quot;", '"'}, {"&apos;", '\''}, {"&#39;", '\''}, {"&#x27;", '\''}, {"&#X27;", '\''}};
    out.clear();
    for (size_t i = 0; i < v.size();) {
        if (v[i] == '<' || v[i] == '>') { why = std::string("raw '") + v[i] + "' inside an attribute value"; return false; }
        if (v[i] != '&') { out += v[i++]; continue; }
        bool hit = false;
        for (auto &e : E) { size_t l = strlen(e.e); if (v.compare(i, l, e.e) == 0) { out += e.c; i += l; hit = true; break; } }
        if (!hit) { why = "'&' inside an attribute value that is not one of the fixed entities: " + vr::show(v.substr(i, 12)); return false; }
    }
    return true;
}

static const char *const SIG_NUMREF_ABOVE_MAX = "entity:numeric-reference-above-0x10FFFF-accepted";
static const char *const SIG_LOW_SURROGATE_REF = "entity:numeric-reference-to-low-surrogate-accepted";
static const char *const SIG_ABS_ACCEPTS_RELATIVE = "uri:absolute-only-validator-accepts-relative-reference-named-like-scheme";
// Exclusion of known, unresolved findings is switched on by the exploration units only (props/c04.py sets C04_EXCLUDE_KNOWN=1);
// a replay of the regression case therefore still fails under the finding's own signature.
inline bool exclusions_active() { static bool a = vr::envl("C04_EXCLUDE_KNOWN", 0) != 0; return a; }

inline bool uri_value_ok(Cfg const &c, int kind, std::string const &raw, std::string &sig, std::string &why) {
    std::string d;
    if (!decode_value(raw, d, why)) { sig = "scan:attr-value-entity"; return false; }
    // RFC 3986 characters only
    for (size_t i = 0; i < d.size(); i++) {
        unsigned char ch = d[i];
        bool good = is_alnum(ch) || strchr("-._~", ch) != nullptr || strchr("!$&'()*+,;=", ch) != nullptr || strchr(":/?#@", ch) != nullptr;
        if (ch == 0) good = false;
        if (ch == '%') good = i + 2 < d.size() && is_hex(d[i + 1]) && is_hex(d[i + 2]);
        if (!good) { char t[80]; snprintf(t, sizeof t, "byte 0x%02x at %zu is not allowed in a URI", ch, i); why = t; sig = "scan:uri-bad-character"; return false; }
    }
    // the scheme as a browser sees it: strip leading/trailing C0+space, drop TAB/LF/CR/NUL anywhere, then ALPHA *(ALPHA/DIGIT/+/-/.) ':'
    std::string b;
    size_t s0 = 0, s1 = d.size();
    while (s0 < s1 && (unsigned char)d[s0] <= 0x20) s0++;
    while (s1 > s0 && (unsigned char)d[s1 - 1] <= 0x20) s1--;
    for (size_t i = s0; i < s1; i++) if (d[i] != '\t' && d[i] != '\n' && d[i] != '\r' && d[i] != 0) b += d[i];
    std::string scheme; bool has_scheme = false;
    if (!b.empty() && is_alpha(b[0])) {
        size_t k = 1;
        while (k < b.size() && (is_alnum(b[k]) || b[k] == '+' || b[k] == '-' || b[k] == '.')) k++;
        if (k < b.size() && b[k] == ':') { has_scheme = true; scheme = b.substr(0, k); }
    }
    if (has_scheme) {
        if (kind == K_REL) { sig = "scan:uri-scheme-in-relative-uri"; why = "relative_uri value carries scheme '" + scheme + "'"; return false; }
        bool listed = false;
        if (kind == K_URI_DEF || kind == K_ABS_DEF) { for (auto s : DEFAULT_SCHEMES) if (scheme == s) listed = true; }
        else for (auto &s : c.scheme_list()) if (scheme == s) listed = true;
        if (!listed) { sig = "scan:uri-scheme-not-allowed"; why = "scheme '" + scheme + "' is not in the white list"; return false; }
    } else if (kind == K_ABS_LIST || kind == K_ABS_DEF) {
        // Known finding (see proposed_fixes/C04-absolute-uri-accepts-relative.diff): a relative reference whose first path segment
        // starts with a token that is itself a white-listed scheme name ("http", "ftp/file") passes the absolute-only validator.
        // It gets a signature of its own; every other relative value keeps the general one.
        size_t k = 0;
        if (!b.empty() && is_alpha(b[0])) { k = 1; while (k < b.size() && (is_alnum(b[k]) || b[k] == '+' || b[k] == '-' || b[k] == '.')) k++; }
        std::string tok = b.substr(0, k);
        bool named_like_scheme = false;
        if (kind == K_ABS_DEF) { for (auto s : DEFAULT_SCHEMES) if (tok == s) named_like_scheme = true; }
        else for (auto &s : c.scheme_list()) if (tok == s) named_like_scheme = true;
        sig = named_like_scheme ? SIG_ABS_ACCEPTS_RELATIVE : "scan:uri-not-absolute";
        why = "absolute_uri value without scheme (a relative reference)";
        return false;
    }
    return true;
}

inline bool value_ok(Cfg const &c, int kind, const char *rule_attr_name, bool has_value, std::string const &v, std::string &sig, std::string &why) {
    if (kind == K_BOOL) {
        if (c.xhtml) { if (!has_value || v != rule_attr_name) { sig = "scan:boolean-attr-form"; why = "xhtml boolean attribute must be name=\"name\""; return false; } return true; }
        if (has_value) { sig = "scan:boolean-attr-form"; why = "html boolean attribute with a value"; return false; }
        return true;
    }
    if (!has_value) { sig = "scan:attr-without-value"; why = "non-boolean attribute without value"; return false; }
    std::string d;
    if (!decode_value(v, d, why)) { sig = v.find_first_of("<>") != std::string::npos ? "scan:attr-value-markup" : "scan:attr-value-entity"; return false; }
    bool good = true;
    switch (kind) {
    case K_INT: { size_t i = 0; if (i < v.size() && v[i] == '-') i++; good = i < v.size(); for (; i < v.size(); i++) if (!is_digit(v[i])) good = false; break; }
    case K_RE_ANY: good = v.find('\n') == std::string::npos; break;
    case K_RE_WORD: good = !v.empty(); for (unsigned char ch : v) if (!(is_alnum(ch) || ch == '_')) good = false; break;
    case K_RE_ALIGN: good = (v == "text-align:left" || v == "text-align:right" || v == "text-align:center"); break;
    case K_RE_HEX: good = !v.empty(); for (unsigned char ch : v) if (!is_hex(ch)) good = false; break;
    case K_URI_DEF: case K_URI_LIST: case K_REL: case K_ABS_LIST: case K_ABS_DEF: return uri_value_ok(c, kind, v, sig, why);
    default: good = false;
    }
    if (!good) { sig = "scan:attr-value-kind"; why = std::string("value does not belong to the ") + KIND_NAME[kind] + " attribute language"; }
    return good;
}

inline ScanResult scan(Cfg const &c, std::string const &s) {
    ScanResult R;
    struct Tok { int tag; int kind; size_t pos; };   // kind 0 open, 1 close, 2 self-closed
    std::vector<Tok> toks;
    size_t n = s.size(), i = 0, low_sig_at = 0;
    bool first_low_surrogate_fail = false;
    auto fail = [&R, &s](const char *sig, std::string const &m, size_t at) { R.sig = sig; R.msg = m + " at offset " + std::to_string(at) + ": ..." + vr::show(s.substr(at > 8 ? at - 8 : 0, 48)) + "..."; return R; };
    while (i < n) {
        unsigned char ch = s[i];
        if (ch == '>') return fail("scan:stray-gt", "'>' outside of any tag", i);
        if (ch == '&') {
            size_t j = i + 1;
            if (j < n && s[j] == '#') {
                j++;
                bool hexa = j < n && (s[j] == 'x' || s[j] == 'X');
                if (hexa) j++;
                size_t d0 = j;
                while (j < n && (hexa ? is_hex(s[j]) : is_digit(s[j]))) j++;
                if (j == d0 || j >= n || s[j] != ';') return fail("scan:bad-entity", "'&#' that is not a complete numeric character reference", i);
                if (!c.numeric) return fail("scan:numeric-entity-not-allowed", "numeric character reference although they are not allowed", i);
                // value by digit-string comparison: no fixed-width arithmetic, nothing can wrap
                NumRef nr = classify_digits(s.substr(d0, j - d0), hexa);
                if (nr.above_max) return fail(SIG_NUMREF_ABOVE_MAX, std::string("numeric character reference with a value above 0x10FFFF survives (") + std::to_string(nr.significant) + " significant digits" +
                                              (nr.ge_2_64 ? ", >= 2^64" : nr.ge_2_32 ? ", >= 2^32" : "") + "; modulo 2^32 it reads " + std::to_string(nr.wrap32) + ")", i);
                unsigned long cp = nr.cp;
                // the repository's own tests establish these as invalid references
                if (cp == 0xFFFE || cp == 0xFFFF || bad_control((unsigned)cp) || (cp >= 0xD800 && cp <= 0xDBFF))
                    return fail("scan:numeric-entity-bad-codepoint", "numeric character reference to an invalid code point", i);
                // Known finding (proposed_fixes/C04-numeric-entity-low-surrogate.diff): the surrogate test stops at U+DBFF, so references
                // to low surrogates pass.  Own signature; the exploration units skip such cases (C04_EXCLUDE_KNOWN).
                if (cp >= 0xDC00 && cp <= 0xDFFF) {
                    R.low_surrogate_ref++;
                    if (!first_low_surrogate_fail) { first_low_surrogate_fail = true; low_sig_at = i; }
                }
                R.entities++; R.numeric++;
                i = j + 1; continue;
            }
            size_t d0 = j;
            while (j < n && is_alnum(s[j])) j++;
            if (j == d0 || j >= n || s[j] != ';') return fail("scan:bad-entity", "'&' that does not start a complete entity", i);
            std::string name = s.substr(d0, j - d0);
            if (!c.entity_allowed(name)) return fail("scan:entity-not-allowed", "entity &" + name + "; is not in the white list", i);
            R.entities++;
            if (name == "lt" || name == "gt" || name == "amp" || name == "quot") R.basic_entities++;
            i = j + 1; continue;
        }
        if (ch != '<') { i++; continue; }
        // ---- '<'
        if (s.compare(i, 4, "<!--") == 0) {
            if (!c.comments) return fail("scan:comment-not-allowed", "comment although comments are not allowed", i);
            size_t e = s.find("--", i + 4);
            if (e == std::string::npos || e + 2 >= n || s[e + 2] != '>') return fail("scan:bad-comment", "comment whose first '--' is not its terminator", i);
            for (size_t k = i + 4; k < e; k++) if (s[k] == '<' || s[k] == '>' || s[k] == '&') return fail("scan:comment-with-markup", "comment body contains < > or &", k);
            R.comments++;
            i = e + 3; continue;
        }
        size_t j = i + 1;
        bool closing = j < n && s[j] == '/';
        if (closing) j++;
        size_t n0 = j;
        if (j < n && is_alpha(s[j])) { j++; while (j < n && is_alnum(s[j])) j++; }
        if (j == n0) return fail("scan:lt-not-markup", "'<' that starts neither a tag nor a comment", i);
        std::string name = s.substr(n0, j - n0);
        int ti = find_name(c, TAGS, NTAG, name);
        if (ti < 0 || c.tagkind[ti] == T_NONE) return fail("scan:tag-not-allowed", "tag <" + std::string(closing ? "/" : "") + name + "> is not in the white list", i);
        if (closing) {
            while (j < n && is_ws(s[j])) j++;
            if (j >= n || s[j] != '>') return fail("scan:malformed-close-tag", "closing tag with something after the name", i);
            if (c.tagkind[ti] == T_ALONE) return fail("scan:close-of-stand-alone-tag", "closing tag of a stand-alone-only tag", i);
            toks.push_back({ti, 1, i}); R.close_tags++;
            i = j + 1; continue;
        }
        std::set<std::string> seen;
        bool self = false;
        for (;;) {
            size_t w0 = j;
            while (j < n && is_ws(s[j])) j++;
            if (j >= n) return fail("scan:unterminated-tag", "tag without '>'", i);
            if (s[j] == '>') break;
            if (s[j] == '/' && j + 1 < n && s[j + 1] == '>') { self = true; j++; break; }
            if (j == w0) return fail("scan:malformed-tag", "unexpected character inside a tag", j);
            size_t a0 = j;
            if (!is_alpha(s[j])) return fail("scan:malformed-tag", "attribute name does not start with a letter", j);
            while (j < n && is_alnum(s[j])) j++;
            std::string an = s.substr(a0, j - a0), val; bool has_value = false;
            if (j < n && s[j] == '=') {
                j++;
                if (j >= n || (s[j] != '"' && s[j] != '\'')) return fail("scan:unquoted-attr", "attribute value is not quoted", a0);
                char q = s[j];
                size_t k = s.find(q, j + 1);
                if (k == std::string::npos) return fail("scan:unterminated-attr", "attribute value without closing quote", a0);
                val = s.substr(j + 1, k - j - 1); has_value = true;
                j = k + 1;
            }
            int ai = find_name(c, ATTRS, NATTR, an);
            if (ai < 0 || c.attrkind[ai] == K_NONE || !(c.attrtags[ai] & (1u << ti))) return fail("scan:attr-not-allowed", "attribute " + an + " is not white-listed for <" + name + ">", a0);
            if (!seen.insert(c.xhtml ? an : lower(an)).second) return fail("scan:duplicate-attr", "attribute " + an + " given twice", a0);
            std::string sig, why;
            if (!value_ok(c, c.attrkind[ai], ATTRS[ai], has_value, val, sig, why)) { R.sig = sig; R.msg = why + " in attribute " + an + "=" + vr::show(val, 80) + " of <" + name + "> at offset " + std::to_string(a0); return R; }
            R.attrs++;
            if (c.attrkind[ai] >= K_URI_DEF) R.uri_attrs++;
        }
        if (self && c.tagkind[ti] == T_PAIR) return fail("scan:self-closed-pair-tag", "<" + name + "/> although the tag must come in pairs", i);
        toks.push_back({ti, self ? 2 : 0, i}); R.tags++;
        i = j + 1;
    }
    // ---- nesting
    std::vector<Tok> st;
    if (c.xhtml) {
        for (auto &t : toks) {
            if (t.kind == 2) continue;
            if (t.kind == 0) {
                if (c.tagkind[t.tag] == T_ALONE) return fail("scan:stand-alone-tag-opened", std::string("<") + TAGS[t.tag] + "> without '/' although the tag is stand-alone only", t.pos);
                st.push_back(t); continue;
            }
            if (st.empty()) return fail("scan:nesting", std::string("</") + TAGS[t.tag] + "> closes nothing", t.pos);
            if (st.back().tag != t.tag) return fail("scan:nesting", std::string("</") + TAGS[t.tag] + "> closes <" + TAGS[st.back().tag] + ">", t.pos);
            st.pop_back();
        }
        if (!st.empty()) return fail("scan:nesting", std::string("<") + TAGS[st.back().tag] + "> is never closed", st.back().pos);
    } else {
        // html: a closing tag closes the nearest open element of that name; elements in between and elements still open at
        // the end were left unclosed, which is only legal for tags that may stand alone
        for (auto &t : toks) {
            if (t.kind == 2) continue;
            if (t.kind == 0) { st.push_back(t); continue; }
            int k = (int)st.size() - 1;
            while (k >= 0 && st[k].tag != t.tag) k--;
            if (k < 0) return fail("scan:nesting", std::string("</") + TAGS[t.tag] + "> closes nothing", t.pos);
            for (int m = k + 1; m < (int)st.size(); m++)
                if (c.tagkind[st[m].tag] == T_PAIR) return fail("scan:nesting", std::string("<") + TAGS[st[m].tag] + "> must come in pairs but is left unclosed", st[m].pos);
            if (c.tagkind[t.tag] == T_ALONE) return fail("scan:close-of-stand-alone-tag", "stand-alone-only tag used as a pair", t.pos);
            st.resize(k);
        }
        for (auto &t : st) if (c.tagkind[t.tag] == T_PAIR) return fail("scan:nesting", std::string("<") + TAGS[t.tag] + "> must come in pairs but is never closed", t.pos);
    }
    // reported last so that it never hides another failure
    if (first_low_surrogate_fail) return fail(SIG_LOW_SURROGATE_REF, "numeric character reference to a low surrogate (U+DC00..U+DFFF) survives although references to high surrogates are rejected", low_sig_at);
    return R;
}

// ---------------------------------------------------------------------------------------------------------------
// relations between input and output for well-formed input in ASCII compatible encodings
// ---------------------------------------------------------------------------------------------------------------
inline bool is_subsequence(std::string const &o, std::string const &x) {
    size_t j = 0;
    for (size_t i = 0; i < x.size() && j < o.size(); i++) if (x[i] == o[j]) j++;
    return j == o.size();
}
// escape mode: o must be x with some of the characters < > & " replaced by their escapes.  Returns false if no such alignment
// exists.  On success `copied` marks (for one alignment that escapes as little as possible... any alignment) which x bytes
// were copied verbatim.  Ambiguity only arises for '&' followed by "amp;" etc.; we explore both with memoisation.
inline const char *esc_of(char c) { switch (c) { case '<': return "&lt;"; case '>': return "&gt;"; case '&': return "&amp;"; case '"': return "&quot;"; } return nullptr; }
inline bool escape_alignment(std::string const &x, std::string const &o, std::vector<char> &escaped) {
    // frontier of reachable o positions per x position; parent pointers for reconstruction
    size_t n = x.size();
    std::vector<std::map<size_t, std::pair<size_t, char>>> reach(n + 1);   // reach[i][j] = (prev j, was-escaped)
    reach[0][0] = {0, 0};
    for (size_t i = 0; i < n; i++) {
        for (auto &kv : reach[i]) {
            size_t j = kv.first;
            if (j < o.size() && o[j] == x[i]) reach[i + 1].emplace(j + 1, std::make_pair(j, (char)0));
            if (const char *e = esc_of(x[i])) { size_t l = strlen(e); if (o.compare(j, l, e) == 0) reach[i + 1].emplace(j + l, std::make_pair(j, (char)1)); }
        }
        if (reach[i + 1].empty()) return false;
        if (reach[i + 1].size() > 64) { escaped.assign(n, 0); return true; }   // safety net (never observed): give up, claim nothing
    }
    auto it = reach[n].find(o.size());
    if (it == reach[n].end()) return false;
    escaped.assign(n, 0);
    size_t j = o.size();
    for (size_t i = n; i > 0; i--) { auto &p = reach[i][j]; escaped[i - 1] = p.second; j = p.first; }
    return true;
}

// ---------------------------------------------------------------------------------------------------------------
// one case
// ---------------------------------------------------------------------------------------------------------------
// numeric references present in the INPUT (anywhere: text or attribute value), for the class histogram / non-triviality
struct NumStats { int refs = 0, dec = 0, hex = 0, digits10 = 0, digits20 = 0, zeros = 0, zeros8 = 0, above = 0, mid = 0, ge31 = 0, ge32 = 0, ge63 = 0, ge64 = 0, wrap32_legal = 0, wrap64_legal = 0,
                      in_attr = 0, in_text = 0, legal = 0, illegal_small = 0; };
inline NumStats numeric_stats(std::string const &s) {
    NumStats st; bool in_tag = false; size_t n = s.size();
    for (size_t i = 0; i < n; i++) {
        if (s[i] == '<') in_tag = true; else if (s[i] == '>') in_tag = false;
        if (s[i] != '&' || i + 2 >= n || s[i + 1] != '#') continue;
        size_t j = i + 2; bool hexa = s[j] == 'x' || s[j] == 'X'; if (hexa) j++;
        size_t d0 = j; while (j < n && (hexa ? is_hex(s[j]) : is_digit(s[j]))) j++;
        if (j == d0 || j >= n || s[j] != ';') continue;
        NumRef r = classify_digits(s.substr(d0, j - d0), hexa);
        st.refs++; (hexa ? st.hex : st.dec)++; (in_tag ? st.in_attr : st.in_text)++;
        if (r.digits >= 10) st.digits10++; if (r.digits >= 20) st.digits20++;
        if (r.zeros) st.zeros++; if (r.zeros >= 8) st.zeros8++;
        if (r.above_max) { st.above++; if (!r.ge_2_32) st.mid++; } else if (legal_ref_codepoint(r.cp)) st.legal++; else st.illegal_small++;
        if (r.ge_2_31) st.ge31++; if (r.ge_2_32) st.ge32++; if (r.ge_2_63) st.ge63++; if (r.ge_2_64) st.ge64++;
        if (r.ge_2_32 && legal_ref_codepoint(r.wrap32)) st.wrap32_legal++;
        if (r.ge_2_64 && r.wrap64 <= 0x10FFFF && legal_ref_codepoint((unsigned long)r.wrap64)) st.wrap64_legal++;
        i = j;
    }
    return st;
}

struct Counters {
    enum { x_valid, x_invalid, cfg_xhtml, cfg_html, cfg_escape, cfg_remove, x_illformed, x_nul, out_empty, out_tag, out_close, out_attr, out_uri, out_entity, out_numeric,
           out_comment, obs_low_surrogate, obs_scanner_laxer, nontrivial, out_unconvertible, rules_built,
           nr_refs, nr_dec, nr_hex, nr_digits10, nr_digits20, nr_zeros, nr_zeros8, nr_above, nr_mid, nr_ge31, nr_ge32, nr_ge63, nr_ge64, nr_wrap32, nr_wrap64, nr_attr, nr_text, nr_legal, nr_illegal_small,
           nr_big_on, nr_big_off, nr_big_accepted_none, N };
    long long n[N] = {0}, enc[NENC] = {0}; int pending = 0;
    void push() {
        static const char *const NAME[N] = {"x.valid", "x.invalid", "cfg.xhtml", "cfg.html", "cfg.escape", "cfg.remove", "x.illformed-encoding", "x.has-NUL", "out.empty", "out.has-tag",
            "out.has-close-tag", "out.has-attr", "out.has-uri-attr", "out.has-entity", "out.has-numeric-entity", "out.has-comment", "obs.numeric-ref-to-low-surrogate-accepted",
            "obs.scanner-accepts-what-validate-rejects", "nontrivial", "out.unconvertible-to-declared-encoding", "cfg.distinct-rule-sets-built",
            "entity.numeric.cases-with-reference", "entity.numeric.decimal", "entity.numeric.hex", "entity.numeric.digits>=10", "entity.numeric.digits>=20", "entity.numeric.leading-zeros", "entity.numeric.leading-zeros>=8",
            "entity.numeric.value>0x10FFFF", "entity.numeric.value>0x10FFFF,<2^32", "entity.numeric.value>=2^31", "entity.numeric.value>=2^32", "entity.numeric.value>=2^63", "entity.numeric.value>=2^64",
            "entity.numeric.value>=2^32,mod-2^32-legal-codepoint", "entity.numeric.value>=2^64,mod-2^64-legal-codepoint", "entity.numeric.in-attribute-value-or-tag", "entity.numeric.in-text",
            "entity.numeric.legal-codepoint", "entity.numeric.illegal-codepoint<=0x10FFFF", "entity.numeric.value>=2^32,numeric-entities-allowed", "entity.numeric.value>=2^32,numeric-entities-off",
            "entity.numeric.value>=2^32,input-does-not-validate"};
        for (int i = 0; i < N; i++) if (n[i]) { VR.cls(NAME[i], n[i]); n[i] = 0; }
        for (int i = 0; i < NENC; i++) if (enc[i]) { VR.cls(std::string("enc.") + (ENCS[i].name[0] ? ENCS[i].name : "none"), enc[i]); enc[i] = 0; }
        pending = 0;
    }
};
inline Counters &counters() { static Counters k; return k; }
inline cppcms::xss::rules const &rules_for(Cfg const &c) {
    static std::map<std::string, cppcms::xss::rules> cache;
    auto it = cache.find(c.raw);
    if (it != cache.end()) return it->second;
    if (cache.size() > 512) cache.clear();
    counters().n[Counters::rules_built]++;
    return cache.emplace(c.raw, build_rules(c)).first->second;
}

struct Verdict { std::string sig, msg; bool ok() const { return sig.empty(); } };
inline Verdict bad(std::string const &sig, std::string const &msg) { return Verdict{sig, msg}; }
#define C04_CHECK(cond, sig, msg) do { if (!(cond)) return ::c04::bad((sig), std::string(msg) + " [" #cond "]"); } while (0)

inline Verdict check_case(std::string const &cfg_bytes, std::string const &text, bool count = true) {
    namespace xss = cppcms::xss;
    Cfg c = Cfg::from_bytes(cfg_bytes);
    std::string x = make_input(c, text);
    xss::rules const &r = rules_for(c);
    xss::filtering_method_type m = c.escape ? xss::escape_invalid : xss::remove_invalid;
    char rc = c.repl_char();
    auto ctx_fn = [&c, &x] { return " | rules: " + c.describe() + " | input: " + vr::show(x, 300); };
#define ctx ctx_fn()

    const char *xb = x.data(), *xe = x.data() + x.size();
    bool v = xss::validate(xb, xe, r);
    std::string o = xss::filter(x, r, m, rc);
    std::string o2 = xss::filter(xb, xe, r, m, rc);
    C04_CHECK(o == o2, "api:filter-overloads-differ", "filter(string) and filter(begin,end) disagree: " + vr::show(o) + " vs " + vr::show(o2) + ctx);
    static const std::string SENT = "\x01sentinel\x02";
    std::string o3 = SENT;
    bool v3 = xss::validate_and_filter_if_invalid(xb, xe, r, o3, m, rc);
    // "left untouched" is recognised by a sentinel; a coverage-guided fuzzer finds inputs whose filtered text *equals* the sentinel
    // (it did: thorough tier, input beginning with the sentinel bytes), so an apparent "untouched" is confirmed with a second one
    bool untouched = o3 == SENT;
    if (!v3 && untouched) {
        static const std::string ALT = "\x03another-sentinel\x04";
        std::string o4 = ALT;
        bool v4 = xss::validate_and_filter_if_invalid(xb, xe, r, o4, m, rc);
        if (v4 == v3 && o4 != ALT) { untouched = false; o3 = o4; }      // the filtered text merely equals the first sentinel
    }
    C04_CHECK(v3 == v, "api:validate-vs-validate_and_filter", std::string("validate says ") + (v ? "valid" : "invalid") + " but validate_and_filter_if_invalid says the opposite" + ctx);
    if (v3) C04_CHECK(o3 == SENT, "api:valid-input-but-filtered-touched", "documented: filtered remains unchanged for valid input" + ctx);
    else if (untouched) {
        // only the documented "cannot convert back" corner of non ASCII compatible encodings may leave the target untouched
        C04_CHECK(!c.ascii_compatible() && o.empty(), "api:invalid-input-but-nothing-stored", "validate_and_filter_if_invalid returned false without storing a result" + ctx);
        if (count) counters().n[Counters::out_unconvertible]++;
    } else C04_CHECK(o3 == o, "api:filter-vs-validate_and_filter", "different results: " + vr::show(o) + " vs " + vr::show(o3) + ctx);
    if (v) C04_CHECK(o == x, "filter:valid-input-changed", "valid input is not returned unchanged: " + vr::show(o) + ctx);

    auto octx_fn = [&o, &ctx_fn] { return " | output: " + vr::show(o, 300) + ctx_fn(); };
#define octx octx_fn()
    // (1) the output validates, (2) is a fixed point in both modes
    C04_CHECK(xss::validate(o.data(), o.data() + o.size(), r), "filter:output-does-not-validate", "validate(filter(x)) is false" + octx);
    C04_CHECK(xss::filter(o, r, xss::remove_invalid, rc) == o, "filter:not-idempotent", "filter(filter(x)) != filter(x) (remove)" + octx);
    C04_CHECK(xss::filter(o, r, xss::escape_invalid, rc) == o, "filter:not-idempotent", "filter(filter(x)) != filter(x) (escape)" + octx);

    // (4) encoding: whatever validates is well formed in the declared encoding
    std::string why, view, xview;
    bool x_wf = ref_wellformed(c, x, why, &xview);
    if (v) C04_CHECK(x_wf, "encoding:validate-accepts-illformed-text", "validate accepted text that is not well formed " + std::string(c.encoding().name) + ": " + why + ctx);
    bool o_wf = ref_wellformed(c, o, why, &view);
    C04_CHECK(o_wf, "encoding:output-illformed", "filter output is not well formed " + std::string(c.encoding().name) + ": " + why + octx);

    // (3) the independent scanner over the output
    ScanResult sr = scan(c, view);
    if (!sr.ok() && sr.sig == SIG_LOW_SURROGATE_REF && exclusions_active()) { if (count) VR.excl("numeric character reference to a low surrogate (&#xDC00; .. &#xDFFF;) with numeric entities allowed"); return Verdict(); }
    if (!sr.ok() && sr.sig == SIG_ABS_ACCEPTS_RELATIVE && exclusions_active()) { if (count) VR.excl("absolute_uri attribute whose value is a relative reference starting with a white-listed scheme name"); return Verdict(); }
    if (!sr.ok()) return bad(sr.sig, sr.msg + octx);

    // input/output relations for well formed input (no encoding repair involved)
    if (x_wf && c.ascii_compatible()) {
        if (!c.escape) C04_CHECK(is_subsequence(o, x), "filter:remove-invents-bytes", "remove mode output is not a subsequence of the input" + octx);
        else {
            std::vector<char> esc;
            bool al = escape_alignment(x, o, esc);
            C04_CHECK(al, "filter:escape-not-an-escaping", "escape mode output is not the input with some of < > & \" escaped" + octx);
            // a part is converted to text as a whole: once a '<' was escaped, everything up to the next '>' belongs to the same
            // invalid part, so every < > & " in it must be escaped as well
            // (a '<' that sits inside an entity-like part "&...;" is skipped: that part ends at the ';')
            long open_amp = -1;
            for (size_t i = 0; i < x.size(); i++) {
                if (x[i] == '&') open_amp = (long)i;
                if (x[i] == ';') open_amp = -1;
                if (x[i] != '<' || !esc[i] || open_amp >= 0) continue;
                for (size_t k = i + 1; k < x.size(); k++) {
                    if (x[k] != '&' && esc_of(x[k]) && !esc[k])
                        return bad(std::string("filter:escape-incomplete:") + (x[k] == '"' ? "quot" : x[k] == '<' ? "lt" : "gt"),
                                   std::string("'<' at ") + std::to_string(i) + " was converted to text but '" + x[k] + "' at " + std::to_string(k) + " of the same part was copied raw" + octx);
                    if (x[k] == '>') break;
                }
            }
        }
    }

#undef ctx
#undef octx
    if (!count) return Verdict();
    // ---- measurement
    // constructs the filter kept; in escape mode the four basic entities may be the filter's own escapes and do not count
    bool kept = sr.tags + sr.close_tags + sr.comments + (c.escape ? sr.entities - sr.basic_entities : sr.entities) > 0;
    Counters &K = counters();
    K.n[v ? Counters::x_valid : Counters::x_invalid]++;
    K.n[c.xhtml ? Counters::cfg_xhtml : Counters::cfg_html]++;
    K.n[c.escape ? Counters::cfg_escape : Counters::cfg_remove]++;
    K.enc[c.enc]++;
    if (!x_wf) K.n[Counters::x_illformed]++;
    if (x.find('\0') != std::string::npos) K.n[Counters::x_nul]++;
    if (o.empty() && !x.empty()) K.n[Counters::out_empty]++;
    if (sr.tags) K.n[Counters::out_tag]++;
    if (sr.close_tags) K.n[Counters::out_close]++;
    if (sr.attrs) K.n[Counters::out_attr]++;
    if (sr.uri_attrs) K.n[Counters::out_uri]++;
    if (sr.entities) K.n[Counters::out_entity]++;
    if (sr.numeric) K.n[Counters::out_numeric]++;
    if (sr.comments) K.n[Counters::out_comment]++;
    if (!v && x_wf && scan(c, xview).ok()) K.n[Counters::obs_scanner_laxer]++;   // filter stricter than the scanner: fine, just measured
    // numeric character references of the input (all counters are numbers of CASES that contain such a reference)
    bool big_ref = false;
    if (c.ascii_compatible() || x_wf) {
        NumStats ns = numeric_stats(c.ascii_compatible() ? x : xview);
        if (ns.refs) {
            const int *src[] = {&ns.refs, &ns.dec, &ns.hex, &ns.digits10, &ns.digits20, &ns.zeros, &ns.zeros8, &ns.above, &ns.mid, &ns.ge31, &ns.ge32, &ns.ge63, &ns.ge64, &ns.wrap32_legal, &ns.wrap64_legal,
                                &ns.in_attr, &ns.in_text, &ns.legal, &ns.illegal_small};
            for (int k = 0; k < 19; k++) if (*src[k]) K.n[Counters::nr_refs + k]++;
            if (ns.ge32) { big_ref = true; K.n[c.numeric ? Counters::nr_big_on : Counters::nr_big_off]++; if (!v) K.n[Counters::nr_big_accepted_none]++; }
        }
    }
    bool nt = (!v && kept) || big_ref;
    if (nt) K.n[Counters::nontrivial]++;
    if (++K.pending >= 4096) K.push();
    if (nt) {
        VR.nontrivial(vr::fnv(x, vr::fnv(c.raw)));
        if (VR.want_sample()) VR.sample("[" + c.describe() + "] " + vr::show(x, 200) + "  ->  " + vr::show(o, 200));
    }
    return Verdict();
}

}   // namespace c04
