// C20 — part 5 (included by c20_routing.cpp): a handful of hand-written configurations (the classic routing mistakes) that are
// written once to /verif/replays/C20/reg-*.case with `c20_routing --emit-regressions DIR` and re-run at the start of every check.
#pragma once
#include "c20_gen.cpp"

namespace c20 {

struct Reg { std::string name, prop; Case c; };

inline Handler H_assign(Pat p, std::vector<int> sel) { Handler h; h.api = A_ASSIGN; h.pat = p; h.sel = sel; return h; }
inline Handler H_gen(Pat p, const Pat *meth = nullptr, int reject = 0) { Handler h; h.api = A_GEN; h.pat = p; h.reject = reject; if (meth) { h.has_meth = 1; h.meth = *meth; } return h; }
inline Handler H_typed(Pat p, int typed, std::vector<int> sel) { Handler h; h.api = A_TYPED; h.pat = p; h.typed = typed; h.sel = sel; return h; }
inline Handler H_mount(Pat p, int sel, int child, int attach = 0) { Handler h; h.api = A_MOUNT; h.pat = p; h.sel = {sel}; h.child = child; h.attach = attach; return h; }
inline Handler keyed(Handler h, std::string key, std::string murl) { h.has_key = 1; h.key = key; h.murl = murl; return h; }
inline MountP MP_default(int root) { MountP m; m.ctor = 0; m.root = root; m.host.build(); m.script.build(); m.path.build(); return m; }
inline Req R(std::string method, std::string path, std::string script = "", std::string host = "www.a.com", int origin = 1) { Req q; q.method = method; q.path = path; q.script = script; q.host = host; q.origin = origin; return q; }

inline std::vector<Reg> regression_cases() {
    using namespace rx;
    std::vector<Reg> v;
    {   // whole string: never a prefix, a suffix, a substring, nor "up to a trailing newline"
        Reg r; r.name = "whole-string"; r.prop = "route"; Case &c = r.c;
        c.mps.push_back(MP_default(0)); c.nodes.resize(1);
        c.nodes[0].hs.push_back(H_assign(pat_of({{K_LIT, "/admin"}}), {}));
        c.nodes[0].hs.push_back(H_assign(pat_of({{K_LIT, "/page/"}, {K_DIGITS, ""}}), {1}));
        c.nodes[0].hs.push_back(H_assign(pat_of({{K_LIT, "/a.b"}}), {0}));
        for (const char *p : {"/admin", "/adminx", "x/admin", "/admin/", "/admin\n", "\n/admin", "/page/12", "/page/12a", "/page/", "/xpage/12", "/page/12\n", "/a.b", "/axb", "/a.b.", ""})
            c.reqs.push_back(R("GET", p));
        v.push_back(r);
    }
    {   // first match in registration order, with overlapping languages; alternation priority decides the captures
        Reg r; r.name = "first-match"; r.prop = "route"; Case &c = r.c;
        { MountP rev = MP_default(1); rev.ctor = 2; rev.script = pat_of({{K_LIT, "/rev"}}); c.mps.push_back(rev); }    // SCRIPT_NAME /rev: reversed registration
        c.mps.push_back(MP_default(0));
        c.nodes.resize(2);
        c.nodes[0].hs.push_back(H_assign(pat_of({{K_LIT, "/a"}, {K_ANY0, ""}}), {1}));
        c.nodes[0].hs.push_back(H_assign(pat_of({{K_LIT, "/ab"}}), {}));
        c.nodes[0].hs.push_back(H_assign(pat_of({{K_LIT, "/"}, {K_A_AB, ""}, {K_LOWER0, ""}}), {1, 2}));
        c.nodes[1].hs.push_back(H_assign(pat_of({{K_LIT, "/"}, {K_AB_A, ""}, {K_LOWER0, ""}}), {1, 2}));
        c.nodes[1].hs.push_back(H_assign(pat_of({{K_LIT, "/ab"}}), {}));
        c.nodes[1].hs.push_back(H_assign(pat_of({{K_LIT, "/a"}, {K_ANY0, ""}}), {1}));
        for (const char *s : {"", "/rev"}) for (const char *p : {"/ab", "/a", "/abc", "/b", "/abab"}) c.reqs.push_back(R("GET", p, s, "www.a.com", 0));
        v.push_back(r);
    }
    {   // method filters: plain names compare equal, regex methods match entirely, a top-level alternative stays anchored at both ends
        Reg r; r.name = "methods"; r.prop = "route"; Case &c = r.c;
        c.mps.push_back(MP_default(0)); c.nodes.resize(1);
        Pat get = pat_of({{K_LIT, "GET"}}), pp = pat_of({{K_ALT2, "POST,PUT"}}), gh = pat_of({{K_LIT, "GET"}}); gh.has_alt = 1; { Piece l; l.kind = K_LIT; l.lit = "HEAD"; gh.alt.push_back(l); } gh.build();
        c.nodes[0].hs.push_back(H_gen(pat_of({{K_LIT, "/r"}}), &get));
        c.nodes[0].hs.push_back(H_gen(pat_of({{K_LIT, "/r"}}), &pp));
        c.nodes[0].hs.push_back(H_gen(pat_of({{K_LIT, "/q"}}), &gh));
        c.nodes[0].hs.push_back(H_typed(pat_of({{K_LIT, "/q"}}), T_S0, {}));
        for (const char *p : {"/r", "/q"}) for (const char *m : {"GET", "GE", "GETX", "XGET", "", "get", "POST", "PUT", "POSTPUT", "POS", "HEAD", "HEADX", "XHEAD", "GETHEAD", "DELETE"}) c.reqs.push_back(R(m, p));
        v.push_back(r);
    }
    {   // a mounted child answers 404 itself; later handlers of the parent are not consulted; typed int parameters refuse and fall through
        Reg r; r.name = "nested-and-typed"; r.prop = "route"; Case &c = r.c;
        c.mps.push_back(MP_default(0)); c.nodes.resize(3); c.nodes[2].slash = 0;
        c.nodes[0].hs.push_back(H_mount(pat_of({{K_LIT, "/m"}, {K_REST2, ""}}), 1, 1, 0));
        c.nodes[0].hs.push_back(H_assign(pat_of({{K_LIT, "/m/y"}}), {}));
        c.nodes[0].hs.push_back(H_typed(pat_of({{K_LIT, "/n/"}, {K_DIGITS, ""}}), T_I1, {1}));
        c.nodes[0].hs.push_back(H_typed(pat_of({{K_LIT, "/n/"}, {K_ANY0, ""}}), T_S1, {1}));
        c.nodes[1].hs.push_back(H_assign(pat_of({{K_LIT, "/x"}}), {}));
        c.nodes[1].hs.push_back(H_mount(pat_of({{K_LIT, "/k"}, {K_RESTIN, ""}}), 2, 2, 1));
        c.nodes[2].hs.push_back(H_assign(pat_of({{K_WORD, ""}, {K_LIT, "/"}, {K_DIGITS, ""}}), {2, 1}));
        for (const char *p : {"/m/y", "/m/x", "/m", "/m/", "/mx", "/m/k/ab/12", "/m/k/ab/12/", "/m/k", "/m/k/", "/n/12", "/n/2147483647", "/n/2147483648", "/n/99999999999999", "/n/12x", "/n/"})
            c.reqs.push_back(R("GET", p));
        v.push_back(r);
    }
    {   // mount points: order, host, script, selected group, script-name selection
        Reg r; r.name = "mount-points"; r.prop = "route"; Case &c = r.c;
        c.nodes.resize(3);
        for (int i = 0; i < 3; i++) c.nodes[i].hs.push_back(H_assign(pat_of({{K_ANY0, ""}}), {1}));
        MountP a = MP_default(0); a.ctor = 7; a.sel = 0; a.has_host = 1; a.host = pat_of({{K_OPT_DOTTED, ""}, {K_LIT, "a.com"}}); a.has_script = 1; a.script = pat_of({{K_LIT, "/app"}});
        a.has_path = 1; a.path = pat_of({{K_LIT, "/site"}, {K_REST2, ""}}); a.group = 1;
        MountP b = MP_default(1); b.ctor = 4; b.sel = 1; b.script = pat_of({{K_ANY0, ""}, {K_LIT, ".cgi"}}); b.group = 1;
        MountP d = MP_default(2); d.ctor = 3; d.script = pat_of({{K_LIT, "/app"}}); d.path = pat_of({{K_LIT, "/s"}, {K_ANY0, ""}}); d.group = 1;
        c.mps = {a, b, d};
        for (const char *h : {"a.com", "www.a.com", "xa.com", "www.a.com.evil.org"}) for (const char *s : {"/app", "/app2", "x/app", "/u.cgi", "/u.cgix"}) for (const char *p : {"/site/x", "/site", "/sitex", "/s", "x/site", ""})
            c.reqs.push_back(R("GET", p, s, h));
        v.push_back(r);
    }
    {   // url_mapper: the hierarchy of the header's documentation, relative / absolute / '..' keys, defaults, keywords, arity overloads
        Reg r; r.name = "mapper-hierarchy"; r.prop = "mapper"; Case &c = r.c;
        c.mode = 2; c.throws = 1; c.script = "/app"; c.mroot = "/app";
        MountP m = MP_default(0); m.ctor = 2; m.script = pat_of({{K_LIT, "/app"}}); c.mps.push_back(m);
        c.nodes.resize(3);
        c.nodes[0].hs.push_back(keyed(H_assign(pat_of({{K_LIT, "/"}}), {}), "", "/"));
        c.nodes[0].hs.push_back(keyed(H_mount(pat_of({{K_LIT, "/ca/"}, {K_LOWER0, ""}, {K_REST1, ""}}), 2, 1, 0), "ca", "/ca/{lang}{1}"));
        c.nodes[0].hs.push_back(keyed(H_assign(pat_of({{K_LIT, "/ha/"}, {K_DIGITS, ""}}), {1}), "ka", "/ha/{1}"));
        c.nodes[1].hs.push_back(keyed(H_assign(pat_of({}), {}), "", ""));
        c.nodes[1].hs.push_back(keyed(H_assign(pat_of({{K_LIT, "/hb/"}, {K_WORD, ""}, {K_LIT, "/"}, {K_DIGITS, ""}}), {2, 1}), "kb", "/hb/{2}/{1}"));
        c.nodes[1].hs.push_back(keyed(H_assign(pat_of({{K_LIT, "/hc/"}, {K_DIGITS, ""}}), {1}), "kb", "/hc/{1}"));
        c.nodes[1].hs.push_back(keyed(H_mount(pat_of({{K_LIT, "/cb"}, {K_RESTIN, ""}}), 2, 2, 2), "cb", "/cb/{1}"));
        c.nodes[2].slash = 0;
        c.nodes[2].hs.push_back(keyed(H_assign(pat_of({{K_LIT, "hd/"}, {K_LOWER0, ""}, {K_LIT, "-"}, {K_ANY0, ""}}), {2, 1}), "kd", "hd/{terr}-{1}"));
        c.values.push_back({"lang", "en", 2, 1}); c.values.push_back({"terr", "us", 0, 0});
        auto Q = [&](int from, std::string key, std::vector<std::string> ps, int tn, int tix) { MapQ q; q.from = from; q.key = key; q.params = ps; q.t_node = tn; q.t_idx = tix; q.method = "GET"; c.qs.push_back(q); };
        Q(0, "", {}, 0, 0); Q(0, "/", {}, 0, 0); Q(2, "/", {}, 0, 0); Q(0, "ca", {}, 1, 0); Q(0, "/ca/", {}, 1, 0); Q(2, "..", {}, 1, 0); Q(2, "../..", {}, 0, 0);
        Q(2, "../../ka", {"17"}, 0, 2); Q(1, "kb", {"5", "w_"}, 1, 1); Q(1, "kb", {"5"}, 1, 2); Q(0, "ca/cb/kd", {"a/b c"}, 2, 0); Q(1, "./cb/kd;terr,lang", {"zz", "ru", "x"}, 2, 0);
        Q(2, "kd;lang", {"b", ""}, 2, 0); Q(0, "/ca/cb", {}, -1, -1); Q(0, "nokey", {}, -1, -1); Q(0, "../ka", {"1"}, -1, -1); Q(1, "kb", {}, -1, -1); Q(1, "kb;lang,terr", {"a"}, -1, -1);
        Q(0, "ka/x", {"1"}, -1, -1);
        v.push_back(r);
    }
    for (auto &r : v) { if (r.prop == "route") r.c.mode = 0; }
    return v;
}

} // namespace c20
