// C12 — uploaded form data is reconstructed exactly under any chunking, within limits.
//  prop "parser":  cppcms::impl::multipart_parser fed with generated well-formed bodies cut into arbitrary chunks
//                  (every pair of cut points for short bodies in the enumeration mode);
//  prop "e2e":     the same bodies (and urlencoded ones) through the in-process service + UploadApp over HTTP/SCGI/FastCGI with
//                  read caps, request().setbuf(), byte-exact limits at size-1/=/+1, raw / multipart / plain filters;
//  prop "reject":  malformed / over-limit bodies must be refused with 400/413, never handed to the application in part.
// Oracle: the part list the generator encoded (names, file names, MIME types, contents byte for byte, order).
#define VIO_DEFINE_WRAPPERS
#include "vrc.h"
#include "vservice.h"
#include "multipart_parser.h"
#include <dirent.h>
#include <set>

using vr::Outcome; using vr::ok; using vr::bad;

struct Part { std::string name, filename, mime, content; bool is_file = false; };
struct Body {
    std::string boundary; bool quote_boundary = false;
    std::vector<Part> parts;
    std::vector<int> hdr_style;      // per part: bit0 quoted name, bit1 extra blanks, bit2 lower-case header names, bit3 Content-Type first
    // quoted-string: '"' and '\\' are backslash-escaped (RFC 7230 3.2.6)
    static std::string q(std::string const &v) { std::string o = "\""; for (char ch : v) { if (ch == '"' || ch == '\\') o += '\\'; o += ch; } return o + "\""; }
    std::string bytes() const {
        std::string b;
        for (size_t i = 0; i < parts.size(); i++) {
            Part const &p = parts[i]; int st = i < hdr_style.size() ? hdr_style[i] : 1;
            b += "--" + boundary + "\r\n";
            std::string cd = std::string(st & 4 ? "content-disposition" : "Content-Disposition") + ":" + (st & 2 ? "  " : " ") + "form-data; name=" + (st & 1 ? q(p.name) : p.name);
            if (p.is_file) cd += std::string(st & 2 ? " ;  " : "; ") + "filename=" + q(p.filename);
            std::string ct = p.is_file ? std::string(st & 4 ? "content-type" : "Content-Type") + ": " + p.mime : "";
            if (p.is_file && (st & 8)) b += ct + "\r\n" + cd + "\r\n"; else { b += cd + "\r\n"; if (p.is_file) b += ct + "\r\n"; }
            b += "\r\n" + p.content + "\r\n";
        }
        b += "--" + boundary + "--\r\n";
        return b;
    }
    std::string content_type() const { return "multipart/form-data; boundary=" + (quote_boundary ? "\"" + boundary + "\"" : boundary); }
};
struct Case {
    Body body;
    std::vector<int> cuts;           // chunk sizes (parser) / read caps (e2e)
    int fe = 0;                      // e2e: 0 http, 1 scgi, 2 fcgi
    int filter = 0;                  // 0 none, 1 raw, 2 mp, 3 plain
    int bufsize = 0;                 // request().setbuf (0 = default)
    int fm = -1;                     // file_in_memory_limit (-1 default)
    int limit_kind = 0;              // e2e: 0 none, 1 multipart limit = size, 2 = size+1, 3 (reject) = size-1
    int flaw = 0;                    // reject: kind of damage
    bool urlencoded = false; std::vector<std::pair<std::string, std::string>> fields; std::string ubody;
    void encode(vr::CaseWriter &w) const {
        w.s(body.boundary).i(body.quote_boundary).i((long)body.parts.size());
        for (size_t i = 0; i < body.parts.size(); i++) { auto &p = body.parts[i]; w.s(p.name).s(p.filename).s(p.mime).s(p.content).i(p.is_file).i(i < body.hdr_style.size() ? body.hdr_style[i] : 1); }
        w.nl().i((long)cuts.size()); for (int c : cuts) w.i(c);
        w.nl().i(fe).i(filter).i(bufsize).i(fm).i(limit_kind).i(flaw).i(urlencoded).s(ubody).i((long)fields.size());
        for (auto &f : fields) w.s(f.first).s(f.second);
    }
    static Case decode(vr::CaseReader &r) {
        Case c; c.body.boundary = r.s(); c.body.quote_boundary = r.i(); long n = r.i();
        for (long i = 0; i < n; i++) { Part p; p.name = r.s(); p.filename = r.s(); p.mime = r.s(); p.content = r.s(); p.is_file = r.i(); c.body.hdr_style.push_back((int)r.i()); c.body.parts.push_back(p); }
        n = r.i(); for (long i = 0; i < n; i++) c.cuts.push_back((int)r.i());
        c.fe = (int)r.i(); c.filter = (int)r.i(); c.bufsize = (int)r.i(); c.fm = (int)r.i(); c.limit_kind = (int)r.i(); c.flaw = (int)r.i(); c.urlencoded = r.i(); c.ubody = r.s(); n = r.i();
        for (long i = 0; i < n; i++) { std::string a = r.s(), b = r.s(); c.fields.push_back({a, b}); }
        return c;
    }
};

static vs::Fixture *g_fx;
static std::string g_uploads;

static int count_files(std::string const &dir) { int n = 0; DIR *d = opendir(dir.c_str()); if (!d) return 0; while (dirent *e = readdir(d)) if (e->d_name[0] != '.') n++; closedir(d); return n; }

// does the content contain a proper prefix (>= 3 bytes) of the delimiter, and does a cut fall inside it / the real delimiter?
static bool nontrivial_cut(Body const &b, std::vector<size_t> const &cut_offsets) {
    std::string bytes = b.bytes(), delim = "\r\n--" + b.boundary;
    std::set<size_t> cuts(cut_offsets.begin(), cut_offsets.end());
    size_t pos = 0; bool has_lookalike = false, cut_inside = false;
    for (auto &p : b.parts) for (size_t k = 3; k < delim.size(); k++) if (p.content.find(delim.substr(0, k)) != std::string::npos) has_lookalike = true;
    while ((pos = bytes.find("\r\n-", pos)) != std::string::npos) { size_t m = 0; while (m < delim.size() && pos + m < bytes.size() && bytes[pos + m] == delim[m]) m++; for (size_t k = 1; k < m; k++) if (cuts.count(pos + k)) cut_inside = true; pos++; }
    return has_lookalike && cut_inside;
}

// ---- prop parser -------------------------------------------------------------------------------------------------
static Outcome p_parser(Case const &c) {
    VR.eval();
    using cppcms::impl::multipart_parser;
    std::string bytes = c.body.bytes();
    multipart_parser mp(g_uploads, c.fm < 0 ? (size_t)-1 : (size_t)c.fm);
    V_CHECK(mp.set_content_type(c.body.content_type()), "parser:content-type-rejected", c.body.content_type());
    size_t pos = 0, ci = 0; bool got_eof = false; std::vector<size_t> cut_offsets;
    std::vector<std::string> events;
    while (pos < bytes.size()) {
        size_t n = ci < c.cuts.size() ? (size_t)std::max(1, c.cuts[ci++]) : bytes.size();
        n = std::min(n, bytes.size() - pos);
        // each chunk is handed over from its own exact-size heap block so that ASan sees any over-read
        std::unique_ptr<char[]> blk(new char[n]); memcpy(blk.get(), bytes.data() + pos, n);
        char const *b = blk.get(), *e = b + n;
        while (b != e) {
            multipart_parser::parsing_result_type r = mp.consume(b, e);
            V_CHECK(!got_eof, "parser:data-after-eof", "consume continued after eof");
            if (r == multipart_parser::eof) { got_eof = true; V_CHECK(b == e, "parser:eof-before-end-of-chunk", "eof with " + std::to_string(e - b) + " bytes left"); }
            else V_CHECK(multipart_parser::is_ok(r), "parser:rejects-wellformed", "result " + std::to_string((int)r) + " at offset " + std::to_string(pos + (b - blk.get())) + " of " + std::to_string(bytes.size()));
            if (r == multipart_parser::meta_ready) events.push_back("meta");
            if (r == multipart_parser::content_ready) events.push_back("ready");
        }
        pos += n; if (pos < bytes.size()) cut_offsets.push_back(pos);
    }
    V_CHECK(got_eof, "parser:no-eof", "complete body consumed without eof");
    int must_be_on_disk = 0;
    multipart_parser::files_type files = mp.get_files();
    V_CHECK(files.size() == c.body.parts.size(), "parser:part-count", std::to_string(files.size()) + " parts, expected " + std::to_string(c.body.parts.size()));
    for (size_t i = 0; i < files.size(); i++) {
        Part const &x = c.body.parts[i]; cppcms::http::file &f = *files[i];
        std::string where = "part " + std::to_string(i) + ": ";
        V_CHECK(f.name() == x.name, "parser:name", where + vr::show(f.name()) + " expected " + vr::show(x.name));
        V_CHECK(f.filename() == x.filename, "parser:filename", where + vr::show(f.filename()) + " expected " + vr::show(x.filename));
        V_CHECK(f.has_mime() == x.is_file && f.mime() == x.mime, "parser:mime", where + vr::show(f.mime()) + " expected " + vr::show(x.mime));
        std::ostringstream ss; f.data().clear(); f.data().seekg(0); ss << f.data().rdbuf();
        std::string got = ss.str();
        if (got != x.content) { size_t d = 0; while (d < got.size() && d < x.content.size() && got[d] == x.content[d]) d++;
            return bad("parser:content", where + "content " + std::to_string(got.size()) + "B expected " + std::to_string(x.content.size()) + "B, first difference at " + std::to_string(d)); }
        V_CHECK((long long)f.size() == (long long)x.content.size(), "parser:size", where + "size() " + std::to_string(f.size()));
        if (c.fm >= 0) { bool on_disk = (long long)x.content.size() > c.fm; if (on_disk) { VR.cls("parser.spilled_to_disk"); must_be_on_disk++; } }
    }
    // "large files spill to temporary files": a part larger than the in-memory limit cannot be held in memory, so at least that many temporary files exist now
    if (c.fm >= 0) { int on_disk_now = count_files(g_uploads);
        V_CHECK(on_disk_now >= must_be_on_disk, "parser:large-part-kept-in-memory", std::to_string(must_be_on_disk) + " part(s) larger than file_in_memory_limit=" + std::to_string(c.fm) + " but only " + std::to_string(on_disk_now) + " temporary file(s) in the uploads directory");
        if (must_be_on_disk) VR.cls("parser.spill_verified_on_disk"); }
    files.clear();
    if (nontrivial_cut(c.body, cut_offsets)) { vr::CaseWriter w; c.encode(w); VR.nontrivial(vr::fnv(w.str())); VR.cls("nontrivial.cut_inside_lookalike"); }
    if (VR.want_sample()) VR.sample("parser boundary=" + vr::show(c.body.boundary, 30) + " parts=" + std::to_string(c.body.parts.size()) + " body=" + vr::show(bytes, 120) + " cuts=" + std::to_string(c.cuts.size()));
    return ok();
}

// ---- e2e -----------------------------------------------------------------------------------------------------------
struct Reply { int status = 0; std::string body; bool complete = false; std::string why; };
static Reply send_upload(Case const &c, std::string const &ctype, std::string const &body, long long declared, std::string const &query, std::vector<int> const &caps) {
    Reply rp; auto sched = std::make_shared<vio::Sched>(); sched->reads = caps;
    vc::Conn conn; conn.timeout_ms = 15000;
    char fe = "hsf"[c.fe];
    if (!g_fx->connect(conn, fe, sched)) { rp.why = "connect"; return rp; }
    typedef std::vector<std::pair<std::string, std::string>> Pairs;
    if (fe == 'h') {
        std::string rq = "POST /up?" + query + " HTTP/1.0\r\nHost: t\r\nContent-Type: " + ctype + "\r\nContent-Length: " + std::to_string(declared) + "\r\n\r\n" + body;
        conn.send_all(rq);
        if (declared > (long long)body.size()) conn.shut_wr();
        vc::HttpReply r = vc::read_http_reply(conn);
        rp.complete = r.complete; rp.why = r.why; rp.status = r.status; rp.body = r.body;
    } else {
        Pairs env = {{"CONTENT_LENGTH", std::to_string(declared)}, {"SCGI", "1"}, {"REQUEST_METHOD", "POST"}, {"SCRIPT_NAME", "/up"}, {"PATH_INFO", ""}, {"QUERY_STRING", query}, {"CONTENT_TYPE", ctype}};
        std::string all;
        if (fe == 's') {
            conn.send_all(vc::scgi_encode(env, body));
            if (declared > (long long)body.size()) conn.shut_wr();
            if (!conn.drain()) { rp.why = "timeout"; return rp; }
            all = conn.buf;
        } else {
            env.erase(env.begin() + 1);
            std::vector<int> cuts; for (size_t i = 0; i < caps.size() && i < 20; i++) cuts.push_back(caps[i] * 7 + 1);
            conn.send_all(vc::fcgi_begin(3, 1, 0) + vc::fcgi_stream(vc::FCGI_PARAMS, 3, vc::fcgi_pairs(env), {}, {}) + vc::fcgi_stream(vc::FCGI_STDIN, 3, body, cuts, {}));
            vc::FcgiReply r = vc::read_fcgi_reply(conn, 3);
            if (!r.complete) { rp.why = r.why; return rp; }
            all = r.out;
        }
        vc::CgiReply cr = vc::parse_cgi_reply(all);
        rp.complete = cr.complete; rp.why = cr.why; rp.status = cr.status; rp.body = cr.body;
    }
    return rp;
}

static std::string make_query(Case const &c, long long mlimit, long tag) {
    std::string q = "it=" + std::to_string(tag);
    static const char *fl[] = {"", "raw", "mp", "plain", "mp&rd=all", "mp&rd=3"};   // 4, 5: multipart filter that reads part data in on_data_ready()
    if (c.filter) q += std::string("&f=") + fl[c.filter];
    if (c.bufsize > 0) q += "&bs=" + std::to_string(c.bufsize);
    if (c.fm >= 0) q += "&fm=" + std::to_string(c.fm);
    if (mlimit >= 0) q += (c.urlencoded ? "&cl=" : "&ml=") + std::to_string(mlimit);
    return q;
}
static long g_tag = 0;

static Outcome p_e2e(Case const &c) {
    VR.eval(); g_tag++;
    V_CHECK(g_fx->alive(), "service-died", g_fx->loop_exception);
    std::string bytes = c.urlencoded ? c.ubody : c.body.bytes();
    std::string ctype = c.urlencoded ? "application/x-www-form-urlencoded" : c.body.content_type();
    long long limit = c.limit_kind == 1 ? (long long)bytes.size() : c.limit_kind == 2 ? (long long)bytes.size() + 1 : -1;
    if (bytes.empty()) limit = -1;
    std::string q = make_query(c, limit, g_tag);
    Reply r = send_upload(c, ctype, bytes, (long long)bytes.size(), q, c.cuts);
    std::string where = std::string("fe=") + "hsf"[c.fe] + " filter=" + std::to_string(c.filter) + " bs=" + std::to_string(c.bufsize) + " fm=" + std::to_string(c.fm) + " limit=" + std::to_string(limit) + ": ";
    V_CHECK(r.complete, "e2e:no-reply", where + r.why);
    V_CHECK(r.status == 200, "e2e:wellformed-refused", where + "status " + std::to_string(r.status) + " for a well-formed body of " + std::to_string(bytes.size()) + "B");
    vs::Echo e = vs::echo_parse(r.body);
    V_CHECK(e.ok, "e2e:echo", where + e.why);
    bool rawf = c.filter == 1 && !bytes.empty();
    if (c.urlencoded) {
        auto srt = [](std::vector<std::pair<std::string, std::string>> v) { std::stable_sort(v.begin(), v.end()); return v; };
        if (!rawf) V_CHECK(srt(e.post) == srt(c.fields), "e2e:urlencoded-fields", where + std::to_string(e.post.size()) + " fields, expected " + std::to_string(c.fields.size()));
    } else if (!rawf) {
        // fields (no Content-Type) -> post(), files -> files(), both in order
        std::vector<std::pair<std::string, std::string>> want_post; std::vector<Part> want_files;
        for (auto &p : c.body.parts) { if (p.is_file) want_files.push_back(p); else want_post.push_back({p.name, p.content}); }
        auto srt = [](std::vector<std::pair<std::string, std::string>> v) { std::stable_sort(v.begin(), v.end(), [](std::pair<std::string, std::string> const &a, std::pair<std::string, std::string> const &b) { return a.first < b.first; }); return v; };
        V_CHECK(srt(e.post) == srt(want_post), "e2e:fields", where + std::to_string(e.post.size()) + " post fields, expected " + std::to_string(want_post.size()));
        V_CHECK(e.files.size() == want_files.size(), "e2e:file-count", where + std::to_string(e.files.size()) + " files, expected " + std::to_string(want_files.size()));
        for (size_t i = 0; i < want_files.size(); i++) {
            V_CHECK(e.files[i].name == want_files[i].name && e.files[i].filename == want_files[i].filename && e.files[i].mime == want_files[i].mime, "e2e:file-meta", where + "file " + std::to_string(i) + " name/filename/mime differ");
            V_CHECK(e.files[i].content == want_files[i].content, "e2e:file-content", where + "file " + std::to_string(i) + " content " + std::to_string(e.files[i].content.size()) + "B expected " + std::to_string(want_files[i].content.size()) + "B");
            V_CHECK(e.files[i].size == (long long)want_files[i].content.size(), "e2e:file-size", where);
        }
    }
    if (c.filter && !bytes.empty()) {
        V_CHECK(e.has_filter, "e2e:filter-lost", where + "the content filter installed at headers time is gone");
        int ends = 0, errs = 0; for (auto &ev : e.filter_events) { if (ev == "end") ends++; if (ev == "error") errs++; }
        V_CHECK(ends == 1 && errs == 0, "e2e:filter-end", where + "on_end_of_content " + std::to_string(ends) + "x, on_error " + std::to_string(errs) + "x");
        if (c.filter == 1) V_CHECK(e.filter_raw == bytes, "e2e:raw-filter-bytes", where + "raw filter saw " + std::to_string(e.filter_raw.size()) + "B, body is " + std::to_string(bytes.size()) + "B (every byte exactly once, in order)");
        if ((c.filter == 2 || c.filter >= 4) && !c.urlencoded) {
            // on_new_file -> progress* -> on_data_ready per part, in order
            size_t pi = 0; int state = 0;
            for (auto &ev : e.filter_events) {
                if (ev == "end") break;
                std::string kind = ev.substr(0, ev.find(':'));
                std::string nm = ev.size() > kind.size() + 1 ? vr::unhex(ev.substr(kind.size() + 1, ev.find(':', kind.size() + 1) - kind.size() - 1)) : "";
                V_CHECK(pi < c.body.parts.size(), "e2e:mp-filter-extra-events", where + ev);
                if (kind == "new") { V_CHECK(state == 0 && nm == c.body.parts[pi].name, "e2e:mp-filter-order", where + "on_new_file out of order: " + ev); state = 1; }
                else if (kind == "progress") V_CHECK(state == 1, "e2e:mp-filter-order", where + "progress before on_new_file");
                else if (kind == "data") {      // what the filter read in on_data_ready(): the part's content (rd=all) or its first 3 bytes
                    V_CHECK(state == 1, "e2e:mp-filter-order", where + "data outside a part");
                    std::string want = c.filter == 4 ? c.body.parts[pi].content : c.body.parts[pi].content.substr(0, 3);
                    size_t c2 = ev.rfind(':'), c1 = ev.rfind(':', c2 - 1);
                    V_CHECK(atoll(ev.substr(c1 + 1, c2 - c1 - 1).c_str()) == (long long)want.size() && ev.substr(c2 + 1) == std::to_string(vr::fnv(want)), "e2e:mp-filter-data", where + "on_data_ready() of part " + std::to_string(pi) + " read something else than the part's content");
                    VR.cls("e2e.filter_read_part_data");
                }
                else if (kind == "ready") { V_CHECK(state == 1, "e2e:mp-filter-order", where + "on_data_ready without on_new_file"); std::string sz = ev.substr(ev.rfind(':') + 1); V_CHECK(atoll(sz.c_str()) == (long long)c.body.parts[pi].content.size(), "e2e:mp-filter-size", where + ev); state = 0; pi++; }
            }
            V_CHECK(pi == c.body.parts.size() && state == 0, "e2e:mp-filter-missing-events", where + std::to_string(pi) + " of " + std::to_string(c.body.parts.size()) + " parts completed in filter");
        }
    }
    // temp files disappear with the request (the context may still be finishing: wait, inconclusive on timeout)
    { int left = 0; for (int i = 0; i < 3000 && (left = count_files(g_uploads)) > 0; i++) usleep(1000); if (left) { VR.inconclusive++; } }
    if (c.fm >= 0 && !c.urlencoded) for (auto &p : c.body.parts) if ((long long)p.content.size() > c.fm) { VR.cls("e2e.spilled_to_disk"); break; }
    if (c.limit_kind) VR.cls("e2e.limit_at_size_or_plus1");
    VR.cls(std::string("e2e.fe_") + "hsf"[c.fe]); VR.cls("e2e.filter_" + std::to_string(c.filter)); if (c.urlencoded) VR.cls("e2e.urlencoded");
    if (!c.urlencoded) {
        std::vector<size_t> offs; size_t hdr = 0; (void)hdr; // caps apply to the whole stream; approximate: any cap sequence counts when the look-alike rule holds for some offsets
        size_t pos = 0; for (int cp : c.cuts) { pos += (size_t)cp; offs.push_back(pos); }
        std::vector<size_t> all; for (size_t sh = 0; sh < 400; sh++) for (size_t o2 : offs) if (o2 >= sh) all.push_back(o2 - sh);
        if (nontrivial_cut(c.body, all)) { vr::CaseWriter w; c.encode(w); VR.nontrivial(vr::fnv(w.str())); VR.cls("nontrivial.e2e_lookalike_and_cuts"); }
    }
    if (VR.want_sample()) VR.sample(std::string("e2e fe=") + "hsf"[c.fe] + " " + q + " body=" + vr::show(bytes, 100));
    return ok();
}

// ---- reject --------------------------------------------------------------------------------------------------------
static Outcome p_reject(Case const &c) {
    VR.eval(); g_tag++;
    V_CHECK(g_fx->alive(), "service-died", g_fx->loop_exception);
    std::string bytes = c.urlencoded ? c.ubody : c.body.bytes();
    std::string ctype = c.urlencoded ? "application/x-www-form-urlencoded" : c.body.content_type();
    long long declared = (long long)bytes.size(), limit = -1; std::string sent = bytes; const char *what = "";
    switch (c.flaw) {
    case 0: limit = (long long)bytes.size() - 1; what = "limit=size-1"; break;                                  // over the limit by one byte
    case 1: declared = (long long)bytes.size() + 1 + (c.bufsize % 7); what = "declared>actual"; break;            // body shorter than declared (peer closes)
    case 2: if (!c.urlencoded) { sent = bytes.substr(0, bytes.size() - 4) + "\r\n"; declared = (long long)sent.size(); } what = "no-final-boundary-marker"; break; // "--B\r\n" instead of "--B--\r\n"
    case 3: if (!c.urlencoded) { sent = bytes + "x"; declared = (long long)sent.size(); } what = "garbage-after-final-boundary"; break;
    case 4: if (c.urlencoded || c.body.parts.empty()) return ok(); { size_t p = sent.find("\r\n\r\n"); sent.insert(p + 2, "this header line has no colon\r\n"); declared = (long long)sent.size(); } what = "part-header-line-without-colon"; break;
    case 5: if (!c.urlencoded) { sent = sent.substr(2); sent = "-x" + sent; declared = (long long)sent.size(); } what = "first-boundary-damaged"; break;
    case 6: if (c.urlencoded || bytes.size() <= 8) return ok(); { declared = (long long)bytes.size() - 3; sent = bytes.substr(0, (size_t)declared); } what = "declared<actual (truncated)"; break;
    }
    if (c.urlencoded && c.flaw >= 2) return ok();
    if (bytes.size() < 2) return ok();
    std::string q = make_query(c, limit, g_tag);
    long before = vs::Ledger::get().count("handler", "it=" + std::to_string(g_tag));
    Reply r = send_upload(c, ctype, sent, declared, q, c.cuts);
    std::string where = std::string("flaw=") + what + " fe=" + "hsf"[c.fe] + " filter=" + std::to_string(c.filter) + ": ";
    // the request must not be delivered: either an error status or the connection is dropped
    if (r.complete) V_CHECK(r.status == 400 || r.status == 413, "reject:wrong-status", where + "status " + std::to_string(r.status) + " (expected 400 or 413)");
    if (c.flaw == 0 && r.complete) V_CHECK(r.status == 413, "reject:over-limit-not-413", where + "status " + std::to_string(r.status));
    usleep(2000);
    long after = vs::Ledger::get().count("handler", "it=" + std::to_string(g_tag));
    V_CHECK(after == before, "reject:handler-ran-on-refused-body", where + "the application handler ran although the body was malformed / over limit");
    if (r.complete) VR.cls("reject.status_" + std::to_string(r.status)); else VR.cls("reject.connection_dropped");
    VR.cls(std::string("reject.flaw_") + what);
    { vr::CaseWriter w; c.encode(w); VR.nontrivial(vr::fnv(w.str())); }
    { int left = 0; for (int i = 0; i < 3000 && (left = count_files(g_uploads)) > 0; i++) usleep(1000); if (left) VR.inconclusive++; }
    if ((g_tag & 255) == 0) vs::Ledger::get().clear();
    return ok();
}

// ---- generators ------------------------------------------------------------------------------------------------------
static const char BCH[] = "0123456789abcdefghijklmnopqrstuvwxyzABCDEFGHIJKLMNOPQRSTUVWXYZ'()+_,-./:=?";
static std::string gtok(int lo, int hi, const char *al) { int n = *vr::range<int>(lo, hi + 1); std::string s; size_t l = strlen(al); for (int i = 0; i < n; i++) s += al[*vr::range<int>(0, (int)l)]; return s; }

static std::string gen_content(std::string const &boundary, int maxlen) {
    std::string delim = "\r\n--" + boundary, s;
    int pieces = *vr::range<int>(0, 8);
    for (int i = 0; i < pieces; i++) {
        int k = *vr::range<int>(0, 12);
        if (k < 3) { int n = *vr::range<int>(1, 30); for (int j = 0; j < n; j++) s += char(*vr::range<int>(0, 256)); }
        else if (k < 6) s += delim.substr(0, (size_t)*vr::range<int>(1, (int)delim.size()));          // proper prefix of the delimiter
        else if (k == 6) s += "--" + boundary;                                                           // boundary without the leading CRLF
        else if (k == 7) s += std::string((size_t)*vr::range<int>(1, 5), "\r\n-"[*vr::range<int>(0, 3)]);
        else if (k == 8) s += delim.substr(0, delim.size() - 1) + (char)(delim.back() ^ 1);             // one character off
        else if (k == 9) { int n = *vr::range<int>(30, std::max(31, maxlen)); size_t at = s.size(); s.resize(at + (size_t)n); for (int j = 0; j < n; j++) s[at + (size_t)j] = char((j * 37 + n) & 255); }
        else s += gtok(1, 12, "abc xyz=&%+\r\n");
    }
    // the content must not contain the delimiter itself
    size_t p; while ((p = s.find(delim)) != std::string::npos) s[p + delim.size() - 1] ^= 1;
    if ((int)s.size() > maxlen) s.resize((size_t)maxlen);
    while ((p = s.find(delim)) != std::string::npos) s[p + delim.size() - 1] ^= 1;
    return s;
}
static Body gen_body(int maxparts, int maxcontent) {
    Body b;
    b.boundary = *vr::range<int>(0, 4) == 0 ? gtok(1, 70, BCH) : *vr::range<int>(0, 2) ? "----WebKitFormBoundary" + gtok(16, 16, "abcdefghijklmnopqrstuvwxyzABCDEFGHIJKLMNOPQRSTUVWXYZ0123456789") : gtok(1, 12, "abcXYZ0123456789-_");
    b.quote_boundary = false;
    for (char ch : b.boundary) if (strchr("()<>@,;:\\\"/[]?= ", ch)) b.quote_boundary = true;
    if (!b.quote_boundary) b.quote_boundary = *vr::range<int>(0, 5) == 0;
    int n = *vr::range<int>(0, maxparts + 1);
    for (int i = 0; i < n; i++) {
        Part p; p.is_file = *vr::range<int>(0, 2);
        p.name = gtok(1, 10, "abcdefghijklmnopqrstuvwxyzABC0123456789_-");
        // quoted parameter values with characters that need quoting or escaping: '"', '\\' (also as the last character), ';', '=', ','
        static const char *special[] = {"C:\\tmp\\", "a\"b", "x\\", "\\", "\";", "a;b=c", "n=\"v\"", "\\\"", "q\\\\", "semi;colon", "co,mma", "\"\""};
        bool sp_name = *vr::range<int>(0, 8) == 0, sp_file = *vr::range<int>(0, 5) == 0;
        if (sp_name) p.name = std::string(special[*vr::range<int>(0, 12)]) + gtok(0, 3, "ab\\\"");
        if (p.is_file) { p.filename = sp_file ? std::string(special[*vr::range<int>(0, 12)]) + gtok(0, 4, "ab.\\\";") : gtok(0, 12, "abcdefghijklmnopqrstuvwxyz0123456789_-. ()"); static const char *mimes[] = {"application/octet-stream", "text/plain", "image/png", "text/html"}; p.mime = mimes[*vr::range<int>(0, 4)]; }
        p.content = gen_content(b.boundary, p.is_file ? maxcontent : std::min(maxcontent, 400));
        b.parts.push_back(p);
        b.hdr_style.push_back(*vr::range<int>(0, 16) | 1 * (p.name.find_first_of(" ()\\\";=,") != std::string::npos));
        if (sp_name || (p.is_file && sp_file)) VR.cls("gen.param_needs_escaping");
    }
    return b;
}
static std::vector<int> gen_cuts(size_t total) {
    std::vector<int> c; int mode = *vr::range<int>(0, 6);
    if (mode == 0) return c;
    if (mode == 1) { c.assign(std::min<size_t>(total + 2, 5000), 1); return c; }
    int n = *vr::range<int>(1, 80);
    for (int i = 0; i < n; i++) { int k = *vr::range<int>(0, 10); c.push_back(k < 4 ? *vr::range<int>(1, 4) : k < 8 ? *vr::range<int>(4, 64) : *vr::range<int>(64, 70000)); }
    return c;
}
static rc::Gen<Case> gen_parser_case() {
    return rc::gen::exec([]() { Case c; c.body = gen_body(6, *vr::range<int>(0, 10) == 0 ? 300000 : 3000); c.cuts = gen_cuts(c.body.bytes().size()); c.fm = *vr::range<int>(0, 3) == 0 ? *vr::range<int>(0, 2000) : -1;
        // limit just below the size of one of the parts (the in-memory buffer grows in steps: the part must still go to disk)
        if (!c.body.parts.empty() && *vr::range<int>(0, 3) == 0) { size_t sz = c.body.parts[*vr::range<int>(0, (int)c.body.parts.size())].content.size(); c.fm = (int)std::max<long long>(0, (long long)sz - *vr::range<int>(1, 71)); VR.cls("parser.gen_limit_just_below_part_size"); }
        return c; });
}
static void gen_urlencoded(Case &c) {
    c.urlencoded = true; int n = *vr::range<int>(1, 8);
    for (int i = 0; i < n; i++) {
        std::string k = gtok(1, 8, "abcXYZ019_ +&=%\xc3\xa9"), v = gtok(0, 40, "abcXYZ019_ +&=%\r\n\xc3\xa9");
        c.fields.push_back({k, v});
        auto enc = [](std::string const &s) { std::string o; for (unsigned char ch : s) { if (isalnum(ch) || ch == '_') o += char(ch); else if (ch == ' ') o += '+'; else { char b[4]; snprintf(b, sizeof b, "%%%02X", ch); o += b; } } return o; };
        if (i) c.ubody += '&';
        c.ubody += enc(k) + "=" + enc(v);
    }
}
static rc::Gen<Case> gen_e2e_case(bool reject) {
    return rc::gen::exec([reject]() {
        Case c; c.fe = *vr::range<int>(0, 3);
        if (*vr::range<int>(0, 5) == 0) gen_urlencoded(c); else c.body = gen_body(5, *vr::range<int>(0, 8) == 0 ? 200000 : 2000);
        size_t total = c.urlencoded ? c.ubody.size() : c.body.bytes().size();
        c.cuts = gen_cuts(total + 200);
        c.filter = *vr::range<int>(0, 6);
        c.bufsize = *vr::range<int>(0, 3) == 0 ? *vr::range<int>(1, 2000) : 0;
        c.fm = *vr::range<int>(0, 3) == 0 ? *vr::range<int>(0, 3000) : -1;
        // a raw content filter receives the bytes unparsed: structural damage is not its business, only the length based flaws apply
        if (reject) { c.flaw = *vr::range<int>(0, 7); if (c.filter == 1 && (c.flaw >= 2 || !c.urlencoded)) c.filter = 2; }
        else c.limit_kind = *vr::range<int>(0, 3);
        if (c.urlencoded && (c.filter == 2 || c.filter >= 4)) c.filter = 3;
        return c;
    });
}

// every pair of cut points for a short body (parser level)
static bool enumerate_pairs(Case base) {
    std::string bytes = base.body.bytes();
    size_t n = bytes.size();
    for (size_t a = 1; a < n; a++) {
        base.cuts = {(int)a}; if (!vr::run_direct("parser", base, p_parser)) return false; VR.cls("enum.one_cut");
        for (size_t b = 1; a + b < n; b++) { base.cuts = {(int)a, (int)b}; if (!vr::run_direct("parser", base, p_parser)) return false; VR.cls("enum.two_cuts"); }
    }
    return true;
}

static void mount_apps(cppcms::service &srv) {
    srv.applications_pool().mount(cppcms::create_pool<vs::UploadApp>(), cppcms::mount_point("/up"), cppcms::app::asynchronous | cppcms::app::content_filter);
}

int main(int argc, char **argv) {
    g_uploads = vr::env("VERIF_SCRATCH", "/verif/build/scratch/tmp") + "/uploads";
    ::mkdir(g_uploads.c_str(), 0777);
    std::string mode = vr::env("C12_MODE", "all");
    vs::Fixture fx; g_fx = &fx;
    bool need_fx = mode != "parser" && mode != "enum";
    if (vr::replay_arg(argc, argv)) need_fx = true;
    if (need_fx && !fx.start("{\"http\":{\"script_names\":[\"/up\"]},\"security\":{\"content_length_limit\":2048,\"multipart_form_data_limit\":2048}}", mount_apps)) { fprintf(stderr, "cannot start fixture\n"); return 3; }
    std::vector<std::unique_ptr<vr::PropBase>> props;
    if (mode == "all" || mode == "parser" || vr::replay_arg(argc, argv)) props.push_back(vr::prop<Case>("parser", gen_parser_case(), p_parser));
    if (mode == "all" || mode == "e2e" || vr::replay_arg(argc, argv)) props.push_back(vr::prop<Case>("e2e", gen_e2e_case(false), p_e2e));
    if (mode == "all" || mode == "reject" || vr::replay_arg(argc, argv)) props.push_back(vr::prop<Case>("reject", gen_e2e_case(true), p_reject));
    int rc = 0;
    if (mode == "enum" && !vr::replay_arg(argc, argv)) {
        vr::install_crash_hooks();
        long nb = vr::envl("C12_ENUM", 3); bool good = true; VR.disjoint = false;
        for (long i = 0; i < nb && good; i++) {
            Case c; bool got = false;
            for (int t = 0; t < 300 && !got; t++) { c = gen_parser_case()(rc::Random((uint64_t)(vr::seed() * 1009 + i * 97 + t)), 20).value(); size_t n = c.body.bytes().size(); got = n < (size_t)vr::envl("C12_ENUM_MAXLEN", 170) && !c.body.parts.empty(); }
            if (got) good = enumerate_pairs(c);
        }
        VR.finish(); rc = good ? 0 : 1;
    } else rc = vr::rc_main(argc, argv, props);
    if (need_fx) { fx.stop(); if (!fx.loop_exception.empty()) { fprintf(stderr, "%s\n", fx.loop_exception.c_str()); return 1; } }
    return rc;
}
