// C11 (b) — rapidcheck over json::value trees built through the API, grammar-generated documents (+ one single-byte edit) and
// typed extraction.  Reference parser / oracle / generator: c11_ref.h.
//   roundtrip : build a tree through the public API (three construction routes), save it compact/readable, to a string and to streams
//               imbued with a locale assembled from custom facets (numpunct: decimal point . , other x separator x grouping x true/false
//               names; optionally a digit-mangling ctype and a num_put that prints '#'), via save(ostream), operator<< and - in a dedicated
//               unit - save() to a string under such a *global* locale; the stream's locale must be the same object afterwards; every
//               combination is also run once over a fixed tree (--grid); the text must be a strict RFC 8259
//               document (independent parser) that carries the same strings and the same numbers to within 16 significant digits,
//               cppcms must read it back to exactly what the reference reads, and from the second round on everything is exact.
//   docs      : documents printed from a generated tree with free choices of blanks, escape spelling (short, \uXXXX, surrogate pairs,
//               hex case), number spelling, nesting 0..600, optionally a repeated key, optionally one byte replaced/inserted/deleted;
//               expectations come from the construction (tree / must-reject) and from the reference parser (check_document).
//   extract   : get_value<T> for every integer width, float, double, long double: exact value or bad_value_cast, decided by an
//               independent representability test in long double arithmetic.
//   --refdump LIST OUT : prints the reference parser's verdict and canonical tree dump for the files named in LIST (cross-check of the
//               reference itself against Python's json module, done by props/c11.py).
#include "vrc.h"
#include "c11_ref.h"
#include <fstream>
#include <climits>
#include <cctype>

using vr::Outcome; using vr::ok; using vr::bad;
using namespace c11;

// Source of the generator's choices: the first `budget` choices of a case are rapidcheck picks (they shape the tree and shrink), the rest
// (mostly cosmetic: blanks, escape spelling, characters of long strings) come from a PRNG whose seed is itself two rapidcheck picks.
struct RcSrc {
    int left; PrngSrc tail;
    explicit RcSrc(int budget = 160) : left(budget), tail(0) {
        uint64_t a = *vr::range<int>(0, 65536), b = *vr::range<int>(0, 65536);
        tail = PrngSrc((a << 16) | b);
    }
    int range(int lo, int hi) { if (left > 0) { left--; return *vr::range<int>(lo, hi + 1); } return tail.range(lo, hi); }
};

// ---- cases -----------------------------------------------------------------------------------------------------------------------
struct RT {
    std::string model; int how = 0;
    int loc = 0;           // 0 classic stream, 1 stream imbued with `sp`, 2 the same plus `sp` as the *global* locale around save()/load()
    LocSpec sp;
    unsigned long long route = 0;
    void encode(vr::CaseWriter &w) const { w.s(model).i(how).i(loc).i(sp.dp).i(sp.ts).i(sp.grp).i(sp.names).i(sp.extra).u(route); }
    static RT decode(vr::CaseReader &r) {
        RT c; c.model = r.s(); c.how = (int)r.i(); c.loc = (int)r.i();
        c.sp.dp = (int)r.i(); c.sp.ts = (int)r.i(); c.sp.grp = (int)r.i(); c.sp.names = (int)r.i(); c.sp.extra = (int)r.i(); c.route = r.u(); return c;
    }
};
struct DC {
    std::string doc; int expect = 0; std::string model;
    void encode(vr::CaseWriter &w) const { w.s(doc).i(expect).s(model); }
    static DC decode(vr::CaseReader &r) { DC c; c.doc = r.s(); c.expect = (int)r.i(); c.model = r.s(); return c; }
};
struct EX {
    unsigned long long bits = 0;
    void encode(vr::CaseWriter &w) const { w.u(bits); }
    static EX decode(vr::CaseReader &r) { EX c; c.bits = r.u(); return c; }
};

// ---- building a value through the API ----------------------------------------------------------------------------------------------
struct Builder {
    unsigned long long route; unsigned counter = 0;
    explicit Builder(unsigned long long r) : route(r) {}
    unsigned pick() { uint64_t h = vr::fnv(&counter, sizeof counter, route ^ 0x9E3779B97F4A7C15ULL); counter++; return (unsigned)((h >> 17) % 3); }
    static bool simple_key(std::string const &k) {
        if (k.empty()) return false;
        for (unsigned char c : k) if (!isalnum(c) && c != '_') return false;
        return true;
    }
    // `below`: upper bound of the nesting below this node.  Routes 0 and 2 copy the finished subtree into its parent (deep copies), which is
    // quadratic along a 500-deep spine; there the in-place route is used.
    void build(json::value &v, Node const &m, int below) {
        unsigned r = pick();
        if (below > 24 && (m.t == T_ARR || m.t == T_OBJ)) r = 1;
        switch (m.t) {
        case T_NULL:
            if (r == 0) v = json::null(); else if (r == 1) v.null(); else v.set_value(json::null());
            VR.cls(r == 0 ? "route.construct" : r == 1 ? "route.setter" : "route.set_value");
            break;
        case T_BOOL:
            if (r == 0) v = json::value(m.b); else if (r == 1) v.boolean(m.b); else v.set_value(m.b);
            break;
        case T_NUM:
            if (r == 0) v = json::value(m.n);
            else if (r == 1) v.number(m.n);
            else if (std::floor(m.n) == m.n && std::fabs(m.n) < 2e9 && !(m.n == 0 && std::signbit(m.n))) { v.set_value<int>((int)m.n); VR.cls("route.set_value<int>"); }
            else if ((double)(float)m.n == m.n && !(m.n == 0 && std::signbit(m.n))) { v.set_value<float>((float)m.n); VR.cls("route.set_value<float>"); }
            else v.set_value<double>(m.n);
            break;
        case T_STR:
            if (r == 0) { if (m.s.find('\0') == std::string::npos && (counter & 1)) v = json::value(m.s.c_str()); else v = json::value(m.s); }
            else if (r == 1) v.str(m.s);
            else v.set_value<std::string>(m.s);
            break;
        case T_ARR: {
            bool all_num = !m.a.empty();
            for (auto &c : m.a) if (c.t != T_NUM) all_num = false;
            if (r == 2 && all_num) { std::vector<double> d; for (auto &c : m.a) d.push_back(c.n); v.set_value(d); VR.cls("route.set_value<vector>"); }
            else if (r == 1) { v = json::array(); for (size_t i = m.a.size(); i-- > 0;) build(v[i], m.a[i], below - 1); }     // operator[](size_t) grows the array, filled back to front
            else { json::array a(m.a.size()); for (size_t i = 0; i < m.a.size(); i++) build(a[i], m.a[i], below - 1); if (r == 0) v = a; else v.array(a); }
            break; }
        case T_OBJ:
            if (r == 1) { v = json::object(); for (auto &kv : m.o) build(v[kv.first], kv.second, below - 1); }
            else if (r == 2) {
                v = json::object();
                for (auto &kv : m.o) {
                    json::value child; build(child, kv.second, below - 1);
                    if (simple_key(kv.first)) { if (counter & 1) v.set(kv.first, child); else v.at(kv.first.c_str(), child); VR.cls("route.path-set"); }
                    else v.object().insert(std::make_pair(cppcms::string_key(kv.first), child));
                }
            } else {
                json::object o;
                for (auto &kv : m.o) { json::value child; build(child, kv.second, below - 1); o.insert(std::make_pair(cppcms::string_key(kv.first), child)); }
                if (counter & 1) v = o; else v.object(o);
            }
            break;
        }
    }
};

struct GlobalLocale {   // RAII: a hostile *global* C++ locale around one library call (streams created inside pick it up)
    bool on; std::locale old;
    GlobalLocale(bool enable, std::locale const &l) : on(enable) { if (on) old = std::locale::global(l); }
    ~GlobalLocale() { if (on) std::locale::global(old); }
};

struct TreeFacts { int groupable = 0, exponent_or_small = 0; bool nonascii = false, control = false, astral = false, nonint = false, denormal = false, big = false, negzero = false; int strings = 0, numbers = 0; };
static void facts(Node const &n, TreeFacts &f) {
    auto str = [&f](std::string const &s) {
        f.strings++;
        for (unsigned char c : s) { if (c >= 0x80) f.nonascii = true; if (c < 0x20) f.control = true; if (c >= 0xF0) f.astral = true; }
    };
    if (n.t == T_STR) str(n.s);
    if (n.t == T_NUM) {
        f.numbers++;
        if (std::floor(n.n) != n.n) f.nonint = true;
        if (n.n != 0 && std::fabs(n.n) < DBL_MIN) f.denormal = true;
        if (std::fabs(n.n) > 9007199254740992.0) f.big = true;
        if (n.n == 0 && std::signbit(n.n)) f.negzero = true;
        if (groupable(n.n)) f.groupable++; else f.exponent_or_small++;
    }
    for (auto &c : n.a) facts(c, f);
    for (auto &kv : n.o) { str(kv.first); facts(kv.second, f); }
}

static std::string why_not_json(Parsed const &q) { return q.v == V_REJECT ? q.why : (q.lenient ? std::string("lenient-form") : std::string(verdict_name(q.v))); }

// ---- property: round trip of API-built values -----------------------------------------------------------------------------------------
static Outcome p_roundtrip(RT const &c) {
    VR.eval();
    Node M;
    V_CHECK(undump(c.model, M), "harness:bad-case", "model dump unreadable");
    int depth = depth_of(M);
    TreeFacts tf; facts(M, tf);
    bool nonclassic = c.loc != 0 && !c.sp.is_classic_like();
    // non-trivial: a locale that differs from classic AND a number with >= 4 integer digits written without exponent (what grouping touches);
    // under the classic locale: depth >= 2 and a non-ASCII string or a non-integer number
    if (c.loc != 0 ? (nonclassic && tf.groupable > 0) : (depth >= 2 && (tf.nonascii || tf.nonint)))
        VR.nontrivial(vr::fnv(c.model, 1102 + c.how * 7 + c.loc * 13 + c.sp.dp * 101 + c.sp.ts * 1009 + c.sp.grp * 10007 + c.sp.names * 100003 + c.sp.extra * 1000003));
    if (nonclassic && tf.groupable > 0) VR.cls("nt.nonclassic-locale+grouped-number");
    if (tf.groupable) VR.cls("tree.number-4..16-integer-digits"); if (tf.exponent_or_small) VR.cls("tree.number-exponent-or-below-1000");
    VR.cls(depth == 0 ? "tree.depth0" : depth == 1 ? "tree.depth1" : depth <= 8 ? "tree.depth2-8" : depth < 500 ? "tree.depth9-499" : depth < 512 ? "tree.depth500-511" : "tree.depth512");
    VR.cls(c.how ? "save.readable" : "save.compact");
    if (c.loc == 0) VR.cls("locale.classic");
    else {
        VR.cls(c.loc == 1 ? "locale.path=stream" : "locale.path=stream+global");
        VR.cls(std::string("locale.decimal=") + (c.sp.decimal() == '.' ? "." : c.sp.decimal() == ',' ? "," : "other") + ",grouping=" + (c.sp.grouping().empty() ? "off" : "on"));
        VR.cls(std::string("locale.sep=") + (c.sp.sep() == ' ' ? "blank" : std::string(1, c.sp.sep())));
        { static const char *gn[] = {"none", "3", "2", "3-2", "1"}; VR.cls(std::string("locale.grouping=") + gn[c.sp.grp % 5]); }
        if (c.sp.names) VR.cls("locale.truename-changed");
        if (c.sp.extra & 1) VR.cls("locale.ctype-changed");
        if (c.sp.extra & 2) VR.cls("locale.num_put-changed");
    }
    std::locale loc = c.loc ? make_locale(c.sp) : std::locale::classic();
    std::string lname = c.loc == 0 ? "classic" : c.sp.name() + (c.loc == 2 ? " (also global)" : "");
    if (tf.control) VR.cls("tree.control-char-string");
    if (tf.astral) VR.cls("tree.astral-string");
    if (tf.nonascii) VR.cls("tree.non-ascii-string");
    if (tf.nonint) VR.cls("tree.non-integer-number");
    if (tf.denormal) VR.cls("tree.denormal");
    if (tf.big) VR.cls("tree.number>2^53");
    if (tf.negzero) VR.cls("tree.negative-zero");

    json::value v;
    Builder(c.route).build(v, M, depth);
    std::string why;
    { Node got; V_CHECK(from_value(v, got, why) && same(M, got, true, why), "api:built-value-differs", why); }
    { json::value copy(v); V_CHECK(copy == v && !(copy != v), "api:copy-not-equal", "a copy of a value does not compare equal"); }

    int how = c.how ? json::readable : json::compact;
    std::string s;
    { GlobalLocale g(c.loc == 2, loc); s = v.save(how); }
    {
        std::ostringstream os;
        os.imbue(loc);
        v.save(os, how);
        V_CHECK(os.good(), "write:stream-failed", "save(ostream) left the stream in a failed state");
        V_CHECK(os.getloc() == loc, "write:stream-locale-not-restored", "after save(ostream) the stream has another locale than before; locale " + lname);
        V_CHECK(os.str() == s, "write:stream-locale-changes-output", "save(ostream) under locale [" + lname + "] gives " + vr::show(os.str(), 200) + ", save() gives " + vr::show(s, 200));
    }
    if (how == json::compact) {
        std::ostringstream os;
        os.imbue(loc);
        os << v;
        V_CHECK(os.getloc() == loc, "write:stream-locale-not-restored", "after operator<< the stream has another locale than before; locale " + lname);
        V_CHECK(os.str() == s, "write:stream-locale-changes-output", "operator<< under locale [" + lname + "] gives " + vr::show(os.str(), 200) + ", save() gives " + vr::show(s, 200));
    }
    // the text is a strict RFC 8259 document with the same content
    Parsed q = parse(s, true);
    if (q.v == V_NONFINITE && has_unprintable(M)) return bad(SIG_LARGEST, "a finite number is written as a decimal beyond the double range, load() of the text fails: " + vr::show(s, 300));
    V_CHECK(q.strict_accept(), "write:output-not-json:" + why_not_json(q), "save() output is not an RFC 8259 document: " + vr::show(s, 300));
    V_CHECK(same(M, q.root, false, why), "write:roundtrip-differs", why + " text=" + vr::show(s, 300));
    // cppcms reads its own output: exactly what the reference reads
    json::value v1;
    {
        GlobalLocale g(c.loc == 2, loc);
        std::istringstream in(s);
        in.imbue(loc);
        bool r = v1.load(in, true);
        V_CHECK(in.getloc() == loc, "parse:stream-locale-not-restored", "after load(istream) the stream has another locale than before; locale " + lname);
        V_CHECK(r, "parse:rejects-own-output", "load() refuses the output of save(): " + vr::show(s, 300));
    }
    Node n1;
    V_CHECK(from_value(v1, n1, why), "parse:tree-has-undefined", why);
    V_CHECK(same(q.root, n1, true, why), "parse:wrong-tree", "reference vs cppcms on save() output: " + why + " text=" + vr::show(s, 300));
    // second round: exact
    std::string sb = v1.save(how);
    json::value v2;
    { const char *p = sb.data(); V_CHECK(v2.load(p, p + sb.size(), true), "parse:rejects-own-output", "second round: " + vr::show(sb, 300)); }
    Node n2;
    V_CHECK(from_value(v2, n2, why), "parse:tree-has-undefined", why);
    V_CHECK(same(n1, n2, true, why), "write:second-round-not-exact", why + " first=" + vr::show(s, 200) + " second=" + vr::show(sb, 200));
    V_CHECK(v2 == v1, "write:second-round-not-exact", "operator== says the re-read value differs");
    V_CHECK(v2.save(how) == sb, "write:second-round-not-exact", "third text differs from second");
    // the other layout describes the same tree
    std::string other = v.save(how == json::compact ? json::readable : json::compact);
    Parsed q2 = parse(other, true);
    V_CHECK(q2.strict_accept(), "write:output-not-json:" + why_not_json(q2), "other layout: " + vr::show(other, 300));
    V_CHECK(same(q.root, q2.root, true, why), "write:compact-and-readable-differ", why);
    if (VR.want_sample()) VR.sample(std::string(c.how ? "readable" : "compact") + " [" + lname + "] depth" + std::to_string(depth) + " " + vr::show(s, 140));
    return ok();
}

// ---- property: generated documents -----------------------------------------------------------------------------------------------------
static void classify_doc(DocInfo const &i, DC const &c) {
    Parsed const &f = i.full;
    std::string v = verdict_name(f.v);
    if (f.v == V_ACCEPT) v = f.lenient ? "accept-lenient" : "accept-strict";
    if (f.v == V_REJECT) v += ":" + f.why;
    VR.cls("doc." + v);
    VR.cls(c.expect == E_TREE ? "gen.valid-with-model" : c.expect == E_REJECT_DUP ? "gen.repeated-key" : c.expect == E_REJECT_DEEP ? "gen.deeper-than-512" : "gen.edited-or-unconstrained");
    if (f.v == V_ACCEPT || f.v == V_NONFINITE) {
        Stats const &s = f.st;
        if (s.pair) VR.cls("ok.surrogate-pair");
        if (s.uesc) VR.cls("ok.u-escape");
        if (s.esc) VR.cls("ok.escape");
        if (s.nonascii) VR.cls("ok.non-ascii");
        if (s.frac || s.exp) VR.cls("ok.fraction-or-exponent");
        if (s.comment) VR.cls("ok.comment");
        if (s.trailing_comma) VR.cls("ok.trailing-comma");
        if (s.lenient_number) VR.cls("ok.lenient-number");
        if (f.v == V_NONFINITE) VR.cls("ok.number-out-of-double-range");
        VR.cls(s.maxdepth == 0 ? "ok.depth0" : s.maxdepth == 1 ? "ok.depth1" : s.maxdepth <= 8 ? "ok.depth2-8" : s.maxdepth < 500 ? "ok.depth9-499" : s.maxdepth < 512 ? "ok.depth500-511" : "ok.depth512");
    }
    if (i.accepted_full) VR.cls("cppcms.accepted"); else VR.cls("cppcms.rejected");
    if (f.v != V_REJECT || f.st.tokens >= 3) VR.nontrivial(vr::fnv(c.doc, 1103));
}

static Outcome p_docs(DC const &c) {
    VR.eval();
    static const bool xcheck = vr::env("C11_XCHECK") == "1";
    static int written = 0;
    if (xcheck && written < 400) {
        static std::string dir = vr::env("VERIF_SCRATCH", ".") + "/xcheck";
        if (written == 0) { std::string cmd = "mkdir -p '" + dir + "'"; if (system(cmd.c_str()) != 0) written = 1000000; }
        if (written < 400) vr::write_file(dir + "/d" + std::to_string(written++) + ".json", c.doc);
    }
    DocInfo info;
    Fail f = check_document(c.doc, info);
    classify_doc(info, c);
    if (!f.ok()) return bad(f.sig, f.msg);
    std::string why, ctx = " doc=" + vr::show(c.doc, 300);
    if (c.expect == E_TREE) {
        Node M;
        V_CHECK(undump(c.model, M), "harness:bad-case", "model dump unreadable");
        V_CHECK(info.full.strict_accept() && same(M, info.full.root, true, why), "harness:reference-disagrees-with-generator", std::string(verdict_name(info.full.v)) + " " + info.full.why + " " + why + ctx);
        V_CHECK(info.accepted_full, "parse:rejects-valid-document", "document printed from a tree is refused" + ctx);
        json::value v; std::istringstream in(c.doc);
        V_CHECK(v.load(in, true), "parse:rejects-valid-document", "second load refused" + ctx);
        Node got;
        V_CHECK(from_value(v, got, why), "parse:tree-has-undefined", why + ctx);
        V_CHECK(same(M, got, true, why), "parse:wrong-tree", "generated tree vs cppcms tree: " + why + ctx);
    } else if (c.expect == E_REJECT_DUP) {
        V_CHECK(info.full.v != V_ACCEPT && info.full.v != V_NONFINITE, "harness:reference-disagrees-with-generator", "reference accepts a document with a repeated key" + ctx);
        V_CHECK(!info.accepted_full && !info.accepted_prefix, "parse:duplicate-key-accepted", "a document with a repeated object key is accepted" + ctx);
    } else if (c.expect == E_REJECT_DEEP) {
        V_CHECK(info.full.v != V_ACCEPT && info.full.v != V_NONFINITE, "harness:reference-disagrees-with-generator", "reference accepts a document deeper than 512" + ctx);
        V_CHECK(!info.accepted_full && !info.accepted_prefix, "parse:depth-bound-exceeded", "a document nested deeper than 512 is accepted" + ctx);
    }
    if (VR.want_sample()) VR.sample(std::string(verdict_name(info.full.v)) + (info.full.lenient ? "(lenient)" : "") + " <- " + vr::show(c.doc, 140));
    return ok();
}

// ---- property: typed extraction --------------------------------------------------------------------------------------------------------
template <class T>
static Outcome extract_int(json::value const &v, double d, const char *tn) {
    bool thrown = false; T r = T();
    try { r = v.get_value<T>(); } catch (json::bad_value_cast const &) { thrown = true; }
    long double ld = d;
    bool representable = std::floor(d) == d && ld >= (long double)std::numeric_limits<T>::min() && ld <= (long double)std::numeric_limits<T>::max();
    char b[200]; snprintf(b, sizeof b, "get_value<%s>() of %.17g: %s %Lg", tn, d, thrown ? "throws, result slot" : "returns", (long double)r);
    if (representable) {
        V_CHECK(!thrown, std::string("extract:throws-for-representable-number"), b);
        V_CHECK((long double)r == ld, std::string("extract:wrong-value"), b);
        VR.cls("extract.returned");
    } else {
        V_CHECK(thrown, std::string("extract:inexact-value-returned"), b);
        VR.cls("extract.thrown");
    }
    // the defaulting accessor: value or the default, never anything else
    json::value o; o["x"] = v;
    T def = (T)77;
    T g = o.get("x", def);
    V_CHECK(representable ? (long double)g == ld : g == def, std::string("extract:wrong-value-from-get-with-default"), b);
    return ok();
}
static Outcome p_extract(EX const &c) {
    VR.eval();
    double d = from_bits(c.bits);
    V_CHECK(std::isfinite(d), "harness:bad-case", "non-finite number in case");
    json::value v = d;
    if (std::floor(d) != d || std::fabs(d) > 127) VR.nontrivial(vr::fnv(&c.bits, 8, 1104));
    VR.cls(std::floor(d) != d ? "extract.fractional" : std::fabs(d) <= 2147483648.0 ? "extract.integer<=2^31" : std::fabs(d) <= 18446744073709551616.0 ? "extract.integer<=2^64" : "extract.integer>2^64");
#define C11_INT(T) { Outcome o = extract_int<T>(v, d, #T); if (!o.ok()) return o; }
    C11_INT(char) C11_INT(unsigned char) C11_INT(signed char) C11_INT(wchar_t) C11_INT(short) C11_INT(unsigned short) C11_INT(int) C11_INT(unsigned int)
    C11_INT(long) C11_INT(unsigned long) C11_INT(long long) C11_INT(unsigned long long)
#undef C11_INT
    char b[200];
    {
        bool thrown = false; float f = 0;
        try { f = v.get_value<float>(); } catch (json::bad_value_cast const &) { thrown = true; }
        snprintf(b, sizeof b, "get_value<float>() of %.17g: %s %.9g", d, thrown ? "throws" : "returns", f);
        if (std::fabs(d) <= (double)FLT_MAX) V_CHECK(!thrown, "extract:float-throws-in-range", b);
        if (thrown) { V_CHECK(std::fabs(d) > (double)FLT_MAX, "extract:float-throws-in-range", b); VR.cls("extract.float-thrown"); }
        else {
            V_CHECK(std::isfinite(f), "extract:float-out-of-range-returned", b);
            double lo = nextafterf(f, -INFINITY), hi = nextafterf(f, INFINITY);
            V_CHECK(std::fabs((double)f - d) <= std::fabs(lo - d) && std::fabs((double)f - d) <= std::fabs(hi - d), "extract:float-not-nearest", b);
            VR.cls((double)f == d ? "extract.float-exact" : "extract.float-rounded");
        }
    }
    { double r = v.get_value<double>(); snprintf(b, sizeof b, "get_value<double>() of %.17g returns %.17g", d, r); V_CHECK(bits(r) == bits(d), "extract:double-differs", b); }
    { long double r = v.get_value<long double>(); snprintf(b, sizeof b, "get_value<long double>() of %.17g returns %.21Lg", d, r); V_CHECK(r == (long double)d, "extract:long-double-differs", b); }
    // a number that came out of the parser behaves the same way
    {
        char t[64]; snprintf(t, sizeof t, "[%.17g]", d);
        json::value p; std::istringstream in(t);
        V_CHECK(p.load(in, true) && bits(p[0].number()) == bits(d), "parse:wrong-tree", std::string("17-digit spelling not read back exactly: ") + t);
        bool thrown = false; long long r = 0;
        try { r = p[0].get_value<long long>(); } catch (json::bad_value_cast const &) { thrown = true; }
        bool representable = std::floor(d) == d && (long double)d >= (long double)LLONG_MIN && (long double)d <= (long double)LLONG_MAX;
        V_CHECK(thrown == !representable && (thrown || (long double)r == (long double)d), "extract:parsed-number-differs", t);
    }
    if (VR.want_sample()) { snprintf(b, sizeof b, "extract %.17g", d); VR.sample(b); }
    return ok();
}

// ---- generators -----------------------------------------------------------------------------------------------------------------------
static rc::Gen<RT> gen_rt() {
    return rc::gen::exec([] {
        static const bool global_unit = vr::env("C11_GLOBAL") == "1";   // the dedicated unit that also swaps the *global* locale
        RcSrc s; GenOpts o; o.text_numbers = false; o.avoid_unprintable = true;
        RT c;
        c.how = s.range(0, 1);
        c.loc = global_unit ? 2 : (s.range(0, 5) == 0 ? 0 : 1);
        if (c.loc) {
            c.sp.dp = s.range(0, 2); c.sp.ts = s.range(0, 3); c.sp.grp = s.range(0, 4); c.sp.names = s.range(0, 1);
            c.sp.extra = s.range(0, 3) == 0 ? s.range(1, 3) : 0;
        }
        o.grouped_pct = c.loc ? 45 : 15;
        Gen<RcSrc> g(s, o);
        Node M = g.tree(MAX_DEPTH);
        c.model = dump(M); c.route = g.bits64();
        return c;
    });
}
static rc::Gen<DC> gen_docs() {
    return rc::gen::exec([] {
        RcSrc s;
        GenDoc d = make_document(s);
        DC c; c.doc = d.text; c.expect = d.expect; c.model = d.model;
        if (s.range(0, 9) >= 6) {
            int kind = s.range(0, 2);
            int pos = s.range(0, (int)std::min<size_t>(c.doc.size(), 1 << 20));
            unsigned char byte = s.range(0, 2) ? json_byte(s.range(0, 255)) : (unsigned char)s.range(0, 255);
            byte_edit(c.doc, kind, (size_t)pos, byte);
            c.expect = E_NONE; c.model.clear();
        }
        return c;
    });
}
static rc::Gen<EX> gen_extract() {
    return rc::gen::exec([] {
        RcSrc s; Gen<RcSrc> g(s);
        static const double lim[] = {-128, 127, 255, -32768, 32767, 65535, -2147483648.0, 2147483647.0, 4294967295.0, -9223372036854775808.0, 9223372036854775808.0,
                                     18446744073709551616.0, 9007199254740992.0, 16777216.0, 0};
        static const double delta[] = {-2, -1.5, -1, -0.5, 0, 0.5, 1, 1.5, 2};
        double d = 0;
        switch (s.range(0, 11)) {
        case 0: case 1: case 2: {
            d = lim[s.range(0, (int)(sizeof lim / sizeof lim[0]) - 1)];
            int k = s.range(0, 2);
            if (k == 0) d += delta[s.range(0, 8)];
            else if (k == 1) { int n = s.range(-3, 3); for (; n < 0; n++) d = nextafter(d, -INFINITY); for (; n > 0; n--) d = nextafter(d, INFINITY); }
            break; }
        case 3: d = s.range(-300, 300) + (s.range(0, 3) == 0 ? 0.5 : 0); break;
        case 4: case 5: d = g.dbl(); break;
        case 6: { static const double fl[] = {FLT_MAX, -FLT_MAX, FLT_MIN, 1.401298464324817e-45, 7.0e-46, 16777217.0, 3.4028235677973366e38 /* FLT_MAX + half ulp */, 0.1};
                  d = fl[s.range(0, 7)]; int n = s.range(-2, 2); for (; n < 0; n++) d = nextafter(d, -INFINITY); for (; n > 0; n--) d = nextafter(d, INFINITY); break; }
        case 7: d = (double)(int64_t)g.bits64(); break;
        case 8: d = (double)(uint64_t)g.bits64(); break;
        case 9: d = ldexp(s.range(0, 1) ? 1.0 : -1.0, s.range(0, 70)) + (s.range(0, 2) == 0 ? s.range(-2, 2) : 0); break;
        case 10: d = (double)(int32_t)g.bits64() + (s.range(0, 4) == 0 ? 0.25 : 0); break;
        default: d = (double)s.range(-70000, 70000); break;
        }
        if (!std::isfinite(d)) d = DBL_MAX;
        EX c; c.bits = bits(d);
        return c;
    });
}

static int refdump(const char *list, const char *outp) {
    std::ifstream in(list);
    std::ofstream out(outp);
    std::string path;
    while (std::getline(in, path)) {
        if (path.empty()) continue;
        std::string doc = vr::read_file(path);
        Parsed p = parse(doc, true);
        out << path << '\t' << verdict_name(p.v) << '\t' << (p.lenient ? 1 : 0) << '\t' << p.why << '\t' << ((p.v == V_ACCEPT || p.v == V_NONFINITE) ? dump(p.root) : std::string("-")) << '\n';
    }
    return out.good() ? 0 : 1;
}

// run one saved case as part of a normal run (regression cases of reported defects): failures go into the report with their signature
static int regress(const char *file) {
    vr::install_crash_hooks();
    vr::CaseReader r(vr::read_file(file));
    std::string name = r.w();
    bool good = false;
    if (name == "roundtrip") good = vr::run_direct(name, RT::decode(r), p_roundtrip);
    else if (name == "docs") good = vr::run_direct(name, DC::decode(r), p_docs);
    else if (name == "extract") good = vr::run_direct(name, EX::decode(r), p_extract);
    else { printf("unknown property %s\n", name.c_str()); return 3; }
    VR.cls(good ? "regression.passes" : "regression.fails");
    VR.finish();
    return good ? 0 : 1;
}

// every combination of the locale dimension once (x compact/readable x stream / stream+global) over a fixed tree that holds numbers with
// 4..16 integer digits (top level of an array, object members, deep inside arrays, negative, with fraction) and controls (exponent form, < 1000)
static int grid() {
    vr::install_crash_hooks();
    const char *text =
        "{\"a\":[1000,1,-1234567,[[[[98765.25,{\"deep\":[9999999999999998,-1000.5,1e15]}]]]],999,0.5,1e16,1e300,-2.5e-7,true,false,null],"
        "\"big\":123456789012,\"neg\":-40000,\"s\":\"1,000.5\",\"small\":12,\"t\":true,\"u\":{\"k\":[10000,[100000,[1000000]]]}}";
    Parsed p = parse(text, true);
    if (!p.strict_accept()) { printf("grid tree unreadable\n"); return 3; }
    bool good = true;
    VR.disjoint = true;
    for (int loc = 1; loc <= 2; loc++) for (int how = 0; how < 2; how++)
    for (int dp = 0; dp < 3; dp++) for (int ts = 0; ts < 4; ts++) for (int grp = 0; grp < 5; grp++) for (int names = 0; names < 2; names++) for (int extra = 0; extra < 4; extra++) {
        RT c; c.model = dump(p.root); c.how = how; c.loc = loc;
        c.sp.dp = dp; c.sp.ts = ts; c.sp.grp = grp; c.sp.names = names; c.sp.extra = extra;
        c.route = 0x1234567ULL * (dp + 3 * ts + 12 * grp + 60 * names + 120 * extra + 1);
        VR.cls("grid.cases");
        good = vr::run_direct("roundtrip", c, p_roundtrip) && good;
    }
    { RT c; c.model = dump(p.root); VR.cls("grid.cases"); good = vr::run_direct("roundtrip", c, p_roundtrip) && good; }
    VR.finish();
    return good ? 0 : 1;
}

int main(int argc, char **argv) {
    if (argc == 4 && !strcmp(argv[1], "--refdump")) return refdump(argv[2], argv[3]);
    if (argc == 2 && !strcmp(argv[1], "--grid")) return grid();
    if (argc == 3 && !strcmp(argv[1], "--regress")) return regress(argv[2]);
    VR.max_samples = 2;
    std::vector<std::unique_ptr<vr::PropBase>> props;
    props.push_back(vr::prop<RT>("roundtrip", gen_rt(), p_roundtrip));
    props.push_back(vr::prop<DC>("docs", gen_docs(), p_docs));
    props.push_back(vr::prop<EX>("extract", gen_extract(), p_extract));
    return vr::rc_main(argc, argv, props);
}
