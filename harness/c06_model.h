// C06 — reference model of a session as the documentation of cppcms::session_interface describes it, and the browser cookie
// jar.  Nothing in this header depends on cppcms except the cookie adapter interface the jar has to implement.
//
// Model (independent of the code under test):
//   * a session is a State: user keys -> (value, exposed) plus the three attributes age / expiration / on_server which are
//     either explicitly set (and then carried over) or at their configured default;
//   * the server hands the browser an opaque token (the value of the session cookie).  The model keeps a table
//     token -> Snap(state, deadline, alive, server-side?).  A server-side token names mutable state (later saves through the
//     same token replace it; clear / reset / moving the session to the cookie kill it for good); a client-side token is an
//     immutable snapshot that stays usable until its deadline (the header documents that an old cookie restores old state);
//   * what a request reads is the snapshot of the token its jar presents, if that token is known, alive and not past its
//     deadline, otherwise the empty session.  Nothing else is ever allowed: this is "exactly what the previous request left,
//     or empty, never a mixture or another browser's data";
//   * deadline rules (session_interface.h): fixed = set when the session is created (a reset creates a new session), renew /
//     browser = now + age whenever the session is written; an unchanged session is written only when less than 90 % of its
//     period remains (either answer accepted exactly at the threshold and exactly at now == deadline).
#pragma once
#include "vreport.h"
#include <cppcms/session_interface.h>
#include <cppcms/http_cookie.h>
#include <atomic>
#include <map>
#include <set>
#include <string>
#include <vector>

namespace c06 {

static const long long T0 = 1000000000LL;
static std::atomic<long long> g_now{T0};
inline long long now() { return g_now.load(); }

enum { FIXED = 0, RENEW = 1, BROWSER = 2 };

struct Ent {
    std::string v; bool exp = false;
    bool operator==(Ent const &o) const { return v == o.v && exp == o.exp; }
};
struct State {
    std::map<std::string, Ent> data;
    bool has_age = false, has_how = false, has_srv = false;
    int age = 0, how = 0; bool srv = false;
    bool empty() const { return data.empty() && !has_age && !has_how && !has_srv; }
    bool same(State const &o) const {
        return data == o.data && has_age == o.has_age && has_how == o.has_how && has_srv == o.has_srv && (!has_age || age == o.age) &&
               (!has_how || how == o.how) && (!has_srv || srv == o.srv);
    }
};
struct Snap {
    State st; long long deadline = 0, written_at = 0; bool alive = true, server = false;
    bool boundary = false;        // written by a save that carried a key / value at the edge of what the packed format can hold
};

inline std::string show_state(State const &s) {
    std::string r = "{";
    for (auto &kv : s.data) r += vr::show(kv.first, 32) + (kv.first.size() > 32 ? "[" + std::to_string(kv.first.size()) + "B]" : "") + "=" + vr::show(kv.second.v, 24) + (kv.second.exp ? "(exposed)" : "") + " ";
    if (s.has_age) r += "age=" + std::to_string(s.age) + " ";
    if (s.has_how) r += "how=" + std::to_string(s.how) + " ";
    if (s.has_srv) r += "on_server=" + std::to_string((int)s.srv) + " ";
    return r + "}";
}

// ---- limits of the packed entry header (10 bit key size, 21 bit value size), known to the model from the wire format only ----
static const size_t KEY_LIMIT = 1024, VALUE_LIMIT = 2u * 1024 * 1024;     // sizes >= these cannot be represented
// one entry in the layout save_data() uses: little-endian 32 bit word = key size | exposed << 10 | value size << 11, key, value
inline std::string packed_record(std::string const &k, bool exposed, std::string const &v) {
    uint32_t h = (uint32_t)k.size() | (exposed ? 1u << 10 : 0u) | ((uint32_t)v.size() << 11);
    std::string r((char const *)&h, 4); return r + k + v;
}
// n bytes that are themselves a sequence of well-formed entries (user=root, _t=7, B=evil exposed, filler): what a loader sees
// if a header that wrapped to size 0 makes it re-parse key / value bytes as entries
inline std::string adversarial_bytes(size_t n) {
    std::string r = packed_record("user", false, "root") + packed_record("_t", false, "7") + packed_record("B", true, "evil") + packed_record("a", false, "mallory");
    if (n < r.size() + 5) return std::string(n, 'q');
    size_t fill = n - r.size() - 5;
    if (fill >= VALUE_LIMIT) return std::string(n, 'q');
    return r + packed_record("f", false, std::string(fill, 'F'));
}

inline bool is_hex32(std::string const &s) {
    if (s.size() != 32) return false;
    for (char c : s) if (!((c >= '0' && c <= '9') || (c >= 'a' && c <= 'f'))) return false;
    return true;
}
inline bool sid_form(std::string const &t) { return t.size() == 33 && t[0] == 'I' && is_hex32(t.substr(1)); }
inline bool ccookie_form(std::string const &t) {
    if (t.size() < 2 || t[0] != 'C') return false;
    for (size_t i = 1; i < t.size(); i++) { char c = t[i]; if (!(isalnum((unsigned char)c) || c == '-' || c == '_')) return false; }
    return true;
}

inline std::string pct_decode(std::string const &s) {   // what a browser-side reader does with the value cppcms url-encodes
    std::string r; auto hv = [](char c) { return c <= '9' ? c - '0' : (c | 32) - 'a' + 10; };
    for (size_t i = 0; i < s.size(); i++) {
        if (s[i] == '%' && i + 2 < s.size() + 0 && isxdigit((unsigned char)s[i + 1]) && isxdigit((unsigned char)s[i + 2])) { r += char(hv(s[i + 1]) * 16 + hv(s[i + 2])); i += 2; }
        else r += s[i];
    }
    return r;
}

// ---- the browser: cookie jar with Max-Age / Expires / session-cookie semantics ---------------------------------------------
struct Cookie { std::string value; long long expiry = 0; bool session_only = false; };
struct Jar : cppcms::session_interface_cookie_adapter {
    std::map<std::string, Cookie> c;
    std::string prefix = "cppcms_session";
    // log of the current request
    int calls = 0, sess_sets = 0, sess_dels = 0;
    std::set<std::string> set_now;
    std::string bad_attr;             // first cookie whose path/domain did not match the configuration
    std::string path = "/", domain;

    void begin() { calls = sess_sets = sess_dels = 0; set_now.clear(); }
    void set_cookie(cppcms::http::cookie const &k) override {
        calls++;
        std::string name = k.name(), v = pct_decode(k.value());
        if ((k.path() != path || k.domain() != domain) && bad_attr.empty()) bad_attr = name;
        bool del = false; Cookie ck; ck.value = v;
        if (k.max_age_defined()) { del = k.max_age() == 0; ck.expiry = now() + (long long)k.max_age(); }       // Max-Age wins over Expires
        else if (k.expires_defined()) { del = (long long)k.expires() <= now(); ck.expiry = (long long)k.expires(); }
        else ck.session_only = true;
        if (del) { c.erase(name); if (name == prefix) sess_dels++; }
        else { c[name] = ck; set_now.insert(name); if (name == prefix) sess_sets++; }
    }
    std::string get_session_cookie(std::string const &name) override { auto p = c.find(name); return p == c.end() ? std::string() : p->second.value; }
    std::set<std::string> get_cookie_names() override { std::set<std::string> s; for (auto &kv : c) s.insert(kv.first); return s; }

    std::string session() const { auto p = c.find(prefix); return p == c.end() ? std::string() : p->second.value; }
    void tick() {          // the browser evicts cookies whose expiry date is in the past
        for (auto it = c.begin(); it != c.end();) if (!it->second.session_only && it->second.expiry < now()) it = c.erase(it); else ++it;
    }
    void restart() { for (auto it = c.begin(); it != c.end();) if (it->second.session_only) it = c.erase(it); else ++it; }
    void plant(std::string const &value) {     // somebody edits the cookie store: new session cookie, exposed cookies gone
        for (auto it = c.begin(); it != c.end();) if (it->first.compare(0, prefix.size() + 1, prefix + "_") == 0 || it->first == prefix) it = c.erase(it); else ++it;
        if (!value.empty()) { Cookie ck; ck.value = value; ck.session_only = true; c[prefix] = ck; }
    }
    std::string dump() const {
        std::string r;
        for (auto &kv : c) r += kv.first + "=" + vr::show(kv.second.value, 40) + (kv.second.session_only ? "[session]" : "[+" + std::to_string(kv.second.expiry - now()) + "s]") + " ";
        return r;
    }
};

} // namespace c06
