// Shared by every harness: counters, non-trivial-case set, samples, failure recording, report file.
// No dependency on cppcms (the report must not be written by the code under test).
#pragma once
#include <cstdint>
#include <cstdio>
#include <cstdlib>
#include <cstring>
#include <map>
#include <set>
#include <string>
#include <unordered_set>
#include <vector>
#include <mutex>
#include <sstream>
#include <stdexcept>
#include <unistd.h>

namespace vr {

inline std::string env(const char *n, const char *d = "") { const char *v = getenv(n); return v ? v : d; }
inline long envl(const char *n, long d) { const char *v = getenv(n); return v && *v ? atol(v) : d; }
inline bool thorough() { return env("VERIF_TIER", "quick") == "thorough"; }
inline long seed() { long s = envl("VERIF_SEED", 1); return s == 0 ? 1 : s; }

inline uint64_t fnv(const void *p, size_t n, uint64_t h = 1469598103934665603ULL) {
    const unsigned char *c = (const unsigned char *)p;
    for (size_t i = 0; i < n; i++) { h ^= c[i]; h *= 1099511628211ULL; }
    return h;
}
inline uint64_t fnv(std::string const &s, uint64_t h = 1469598103934665603ULL) { return fnv(s.data(), s.size(), h); }

inline std::string hex(std::string const &s) {
    static const char *d = "0123456789abcdef";
    std::string r; r.reserve(s.size() * 2);
    for (unsigned char c : s) { r += d[c >> 4]; r += d[c & 15]; }
    return r;
}
inline std::string unhex(std::string const &s) {
    std::string r;
    auto v = [](char c) { return c <= '9' ? c - '0' : (c | 32) - 'a' + 10; };
    for (size_t i = 0; i + 1 < s.size(); i += 2) r += char(v(s[i]) * 16 + v(s[i + 1]));
    return r;
}
// printable rendering for samples: keep ASCII, escape the rest
inline std::string show(std::string const &s, size_t max = 160) {
    std::string r;
    for (size_t i = 0; i < s.size() && r.size() < max; i++) {
        unsigned char c = s[i];
        if (c == '\\') r += "\\\\";
        else if (c >= 32 && c < 127) r += char(c);
        else { char b[8]; snprintf(b, sizeof b, "\\x%02x", c); r += b; }
    }
    if (s.size() > max) r += "...(" + std::to_string(s.size()) + "B)";
    return r;
}
inline std::string jstr(std::string const &s) {
    std::string r = "\"";
    for (unsigned char c : s) {
        if (c == '"') r += "\\\""; else if (c == '\\') r += "\\\\";
        else if (c < 32 || c >= 127) { char b[8]; snprintf(b, sizeof b, "\\u%04x", c); r += b; }
        else r += char(c);
    }
    return r + "\"";
}

// ---- case files: whitespace separated tokens; integers in decimal, byte strings as x<hex> (x alone = empty)
struct CaseWriter {
    std::ostringstream o;
    CaseWriter &i(long long v) { o << v << ' '; return *this; }
    CaseWriter &u(unsigned long long v) { o << v << ' '; return *this; }
    CaseWriter &s(std::string const &v) { o << 'x' << hex(v) << ' '; return *this; }
    CaseWriter &w(std::string const &word) { o << word << ' '; return *this; }   // bare word (no blanks)
    CaseWriter &nl() { o << '\n'; return *this; }
    std::string str() const { return o.str(); }
};
struct CaseReader {
    std::istringstream in;
    explicit CaseReader(std::string const &t) : in(t) {}
    bool more() { in >> std::ws; return in.good() && in.peek() != EOF; }
    std::string tok() { std::string t; if (!(in >> t)) throw std::runtime_error("case file truncated"); return t; }
    long long i() { return atoll(tok().c_str()); }
    unsigned long long u() { return strtoull(tok().c_str(), 0, 10); }
    std::string s() { std::string t = tok(); if (t.empty() || t[0] != 'x') throw std::runtime_error("expected xHEX, got " + t); return unhex(t.substr(1)); }
    std::string w() { return tok(); }
};
inline std::string read_file(std::string const &p) {
    FILE *f = fopen(p.c_str(), "rb"); if (!f) throw std::runtime_error("cannot open " + p);
    std::string r; char b[65536]; size_t n;
    while ((n = fread(b, 1, sizeof b, f)) > 0) r.append(b, n);
    fclose(f); return r;
}
inline void write_file(std::string const &p, std::string const &d) {
    std::string t = p + ".tmp" + std::to_string(getpid());
    FILE *f = fopen(t.c_str(), "wb"); if (!f) return;
    fwrite(d.data(), 1, d.size(), f); fclose(f); rename(t.c_str(), p.c_str());
}

struct Failure { std::string sig, replay, msg; };

class Report {
public:
    static Report &get() { static Report r; return r; }
    std::mutex m;
    long long evaluations = 0, inconclusive = 0;
    bool disjoint = false;           // set by sharded enumerations whose shards cannot overlap
    long long nontrivial_extra = 0;  // for enumerations that count instead of hashing
    std::unordered_set<uint64_t> nt;
    std::map<std::string, long long> classes, excluded;
    std::vector<std::string> samples;
    std::vector<Failure> failures;
    std::string current_case;        // path of a case file written *before* running it (crash attribution)
    bool finished = false;
    size_t max_samples = 6;

    void eval(long long n = 1) { evaluations += n; }
    void cls(std::string const &c, long long n = 1) { classes[c] += n; }
    void excl(std::string const &c, long long n = 1) { excluded[c] += n; }
    void nontrivial(uint64_t h) { if (nt.size() < 20000000) nt.insert(h); else nontrivial_extra += 0; }
    void nontrivial(std::string const &canon) { nontrivial(fnv(canon)); }
    // keep the first few and then exponentially spaced later ones.  Usage: if (VR.want_sample()) VR.sample(text);
    bool want_sample() { sample_seen++; return samples.size() < max_samples || (sample_seen & (sample_seen - 1)) == 0; }
    void sample(std::string const &s) {
        if (samples.size() < max_samples) { samples.push_back(s); return; }
        samples[max_samples / 2 + (rot++ % (max_samples - max_samples / 2))] = s;
    }

    std::string replay_dir() { return env("VERIF_REPLAY_DIR", "."); }
    // Record a failing case: writes <replay_dir>/fail-<unit>-<tag>.case (overwritten as shrinking proceeds) and flushes.
    std::string fail(std::string const &sig, std::string const &case_text, std::string const &msg, std::string const &tag = "") {
        std::lock_guard<std::mutex> g(m);
        std::string unit = env("VERIF_UNIT", "unit");
        for (auto &c : unit) if (c == '/' || c == ' ') c = '_';
        std::string path = replay_dir() + "/fail-" + unit + (tag.empty() ? "" : "-" + tag) + "-s" + std::to_string(seed()) + ".case";
        write_file(path, case_text);
        bool found = false;
        for (auto &f : failures) if (f.replay == path) { f.sig = sig; f.msg = msg; found = true; }
        if (!found) failures.push_back({sig, path, msg});
        flush_locked();
        return path;
    }
    // drop the failures recorded for shrink candidates that a later, smaller candidate replaced: nothing to do,
    // the same path is overwritten.  Called when a property ends without failure after tentative records:
    void note_current(std::string const &case_text) {
        std::string unit = env("VERIF_UNIT", "unit");
        current_case = env("VERIF_SCRATCH", ".") + "/current-" + unit + ".case";
        write_file(current_case, case_text);
    }
    void flush() { std::lock_guard<std::mutex> g(m); flush_locked(); }
    void finish() { finished = true; flush(); }

private:
    unsigned long long sample_seen = 0; unsigned rot = 0;
    void flush_locked() {
        std::string p = env("VERIF_REPORT");
        if (p.empty()) return;
        std::ostringstream o;
        o << "{\"unit\":" << jstr(env("VERIF_UNIT", "")) << ",\"evaluations\":" << evaluations
          << ",\"nontrivial\":" << (long long)nt.size() + nontrivial_extra << ",\"inconclusive\":" << inconclusive
          << ",\"disjoint\":" << (disjoint ? "true" : "false") << ",\"finished\":" << (finished ? "true" : "false")
          << ",\"current_case\":" << jstr(current_case) << ",\"classes\":{";
        bool first = true;
        for (auto &kv : classes) { o << (first ? "" : ",") << jstr(kv.first) << ":" << kv.second; first = false; }
        o << "},\"excluded\":{"; first = true;
        for (auto &kv : excluded) { o << (first ? "" : ",") << jstr(kv.first) << ":" << kv.second; first = false; }
        o << "},\"samples\":["; first = true;
        for (auto &s : samples) { o << (first ? "" : ",") << jstr(s); first = false; }
        o << "],\"failures\":["; first = true;
        for (auto &f : failures) {
            o << (first ? "" : ",") << "{\"sig\":" << jstr(f.sig) << ",\"replay\":" << jstr(f.replay) << ",\"msg\":" << jstr(f.msg.substr(0, 4000)) << "}";
            first = false;
        }
        o << "]}";
        write_file(p, o.str());
    }
};

#define VR (::vr::Report::get())

// argv helper: --replay FILE ?
inline const char *replay_arg(int argc, char **argv) {
    for (int i = 1; i + 1 < argc; i++) if (!strcmp(argv[i], "--replay")) return argv[i + 1];
    return nullptr;
}
inline long argl(int argc, char **argv, const char *name, long d) {
    for (int i = 1; i + 1 < argc; i++) if (!strcmp(argv[i], name)) return atol(argv[i + 1]);
    return d;
}

} // namespace vr
