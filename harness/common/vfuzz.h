// libFuzzer glue: semantic-oracle failures save the input themselves, record a signature and leave with _exit(99)
// (a trap would lose the report; exit() would run libFuzzer's "target exited" path).  Sanitizer reports are handled
// by libFuzzer (artifact <prefix>crash-<sha1>), the driver picks those up.
#pragma once
#include "vreport.h"
#include <cstdint>
#include <cstddef>

namespace vf {
struct State { const uint8_t *data = nullptr; size_t size = 0; bool hooked = false; };
inline State &st() { static State s; return s; }
inline void at_exit_flush() { VR.finish(); }
// call first in LLVMFuzzerTestOneInput
inline void begin(const uint8_t *data, size_t size) {
    (void)VR;   // construct the Report before registering the exit hook, so that it is destroyed after the hook ran
    State &s = st();
    if (!s.hooked) { s.hooked = true; atexit(at_exit_flush); }
    s.data = data; s.size = size;
    VR.eval();
    if ((VR.evaluations & 8191) == 0) VR.flush();
}
[[noreturn]] inline void fail(std::string const &sig, std::string const &msg) {
    State &s = st();
    std::string unit = vr::env("VERIF_UNIT", "unit");
    char h[32]; snprintf(h, sizeof h, "%016llx", (unsigned long long)vr::fnv(sig));
    std::string path = VR.replay_dir() + "/fail-" + unit + "-" + h + ".bin";
    vr::write_file(path, std::string((const char *)s.data, s.size));
    VR.failures.push_back({sig, path, msg});
    VR.flush();
    fprintf(stderr, "ORACLE-FAIL %s: %s\ninput saved to %s\n", sig.c_str(), msg.c_str(), path.c_str());
    _exit(99);
}
#define VF_CHECK(cond, sig, msg) do { if (!(cond)) ::vf::fail((sig), std::string(msg) + " [" #cond "]"); } while (0)
} // namespace vf
