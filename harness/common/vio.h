// I/O schedule interposer.  Link the harness with -Wl,--wrap=readv -Wl,--wrap=writev: every socket read/write of the
// (statically linked) cppcms/booster libraries goes through ::readv/::writev (booster/lib/aio/src/stream_socket.cpp), so these
// wrappers own how many bytes each successive library read returns and which non-empty prefix each write accepts — exactly the
// freedom TCP segmentation / a congested peer have.  A schedule belongs to one connection and is found through the peer address
// of the server-side descriptor: the client binds its socket (TCP: 127.0.0.1:ephemeral, unix: a unique path) before connecting and
// registers the schedule under that key.  An exhausted schedule means "unrestricted".  The harness's own client code uses
// send/recv and is unaffected.
#pragma once
#include <sys/uio.h>
#include <sys/socket.h>
#include <sys/un.h>
#include <netinet/in.h>
#include <arpa/inet.h>
#include <fcntl.h>
#include <errno.h>
#include <unistd.h>
#include <map>
#include <mutex>
#include <memory>
#include <string>
#include <vector>
#include <atomic>

namespace vio {

struct Sched {
    std::vector<int> reads;    // caps for successive library reads (>=1)
    std::vector<int> writes;   // >=1: accept at most that many bytes; 0: EAGAIN (only honoured on a non-blocking descriptor)
    size_t ri = 0, wi = 0;
    // observations
    std::vector<int> read_returns;      // what each library read actually returned
    long short_writes = 0, eagains = 0, write_calls = 0, read_calls = 0;
    long long written = 0;
};

struct Registry {
    std::mutex m;
    std::map<std::string, std::shared_ptr<Sched>> by_peer;
    static Registry &get() { static Registry r; return r; }
    void put(std::string const &key, std::shared_ptr<Sched> s) { std::lock_guard<std::mutex> g(m); by_peer[key] = s; }
    void drop(std::string const &key) { std::lock_guard<std::mutex> g(m); by_peer.erase(key); }
    std::shared_ptr<Sched> find(int fd) {
        {   std::lock_guard<std::mutex> g(m); if (by_peer.empty()) return nullptr; }
        union { sockaddr sa; sockaddr_in in; sockaddr_un un; } a; socklen_t len = sizeof a;
        if (getpeername(fd, &a.sa, &len) != 0) return nullptr;
        std::string key;
        if (a.sa.sa_family == AF_INET) key = "t" + std::to_string(ntohs(a.in.sin_port));
        else if (a.sa.sa_family == AF_UNIX && len > sizeof(sa_family_t)) key = std::string(a.un.sun_path, strnlen(a.un.sun_path, len - sizeof(sa_family_t)));
        else return nullptr;
        std::lock_guard<std::mutex> g(m);
        auto p = by_peer.find(key);
        return p == by_peer.end() ? nullptr : p->second;
    }
};

inline size_t iov_total(const struct iovec *iov, int cnt) { size_t t = 0; for (int i = 0; i < cnt; i++) t += iov[i].iov_len; return t; }
// truncated copy of an iovec array to at most cap bytes
inline int iov_trunc(const struct iovec *iov, int cnt, size_t cap, struct iovec *out) {
    int n = 0;
    for (int i = 0; i < cnt && cap > 0; i++) {
        if (iov[i].iov_len == 0) continue;
        out[n] = iov[i];
        if (out[n].iov_len > cap) out[n].iov_len = cap;
        cap -= out[n].iov_len; n++;
    }
    return n;
}

} // namespace vio

extern "C" {
ssize_t __real_readv(int fd, const struct iovec *iov, int cnt);
ssize_t __real_writev(int fd, const struct iovec *iov, int cnt);

#ifdef VIO_DEFINE_WRAPPERS
ssize_t __wrap_readv(int fd, const struct iovec *iov, int cnt) {
    std::shared_ptr<vio::Sched> s = vio::Registry::get().find(fd);
    if (!s) return __real_readv(fd, iov, cnt);
    ssize_t r;
    if (s->ri < s->reads.size() && cnt <= 64) {
        int cap = s->reads[s->ri++];
        if (cap < 1) cap = 1;
        struct iovec tmp[64];
        int n = vio::iov_trunc(iov, cnt, (size_t)cap, tmp);
        r = n ? __real_readv(fd, tmp, n) : __real_readv(fd, iov, cnt);
    } else r = __real_readv(fd, iov, cnt);
    int e = errno;
    s->read_calls++;
    if (r > 0 && s->read_returns.size() < 100000) s->read_returns.push_back((int)r);
    errno = e;
    return r;
}
ssize_t __wrap_writev(int fd, const struct iovec *iov, int cnt) {
    std::shared_ptr<vio::Sched> s = vio::Registry::get().find(fd);
    if (!s) return __real_writev(fd, iov, cnt);
    s->write_calls++;
    size_t total = vio::iov_total(iov, cnt);
    ssize_t r;
    if (s->wi < s->writes.size() && total > 0 && cnt <= 64) {
        int cap = s->writes[s->wi++];
        if (cap == 0) {
            int fl = fcntl(fd, F_GETFL);
            if (fl >= 0 && (fl & O_NONBLOCK)) { s->eagains++; errno = EAGAIN; return -1; }
            cap = 1;
        }
        struct iovec tmp[64];
        int n = vio::iov_trunc(iov, cnt, (size_t)cap, tmp);
        r = __real_writev(fd, tmp, n);
        if (r >= 0 && (size_t)r < total) s->short_writes++;
    } else r = __real_writev(fd, iov, cnt);
    int e = errno;
    if (r > 0) s->written += r;
    errno = e;
    return r;
}
#endif
}
