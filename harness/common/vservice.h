// In-process cppcms::service fixture: one service object listening on the embedded HTTP server (loopback TCP), SCGI and
// FastCGI (unix sockets); run() executes in a background thread that catches, records and reports anything escaping the
// event loop.  Applications are mounted by the harness.  A ledger records every handler / filter callback.
#pragma once
#include "vclient.h"
#include <cppcms/service.h>
#include <cppcms/application.h>
#include <cppcms/applications_pool.h>
#include <cppcms/http_request.h>
#include <cppcms/http_response.h>
#include <cppcms/http_context.h>
#include <cppcms/http_file.h>
#include <cppcms/http_content_filter.h>
#include <sys/stat.h>
#include <cppcms/http_cookie.h>
#include <cppcms/mount_point.h>
#include <cppcms/json.h>
#include <booster/log.h>
#include <thread>
#include <functional>
#include <sstream>

namespace vs {

struct LedgerEntry { long seq; std::string what, tag; };
struct Ledger {
    std::mutex m; std::vector<LedgerEntry> ev; long seq = 0;
    void add(std::string const &what, std::string const &tag) { std::lock_guard<std::mutex> g(m); ev.push_back({++seq, what, tag}); }
    std::vector<LedgerEntry> snapshot() { std::lock_guard<std::mutex> g(m); return ev; }
    void clear() { std::lock_guard<std::mutex> g(m); ev.clear(); }
    long count(std::string const &what, std::string const &tag_contains = "") {
        std::lock_guard<std::mutex> g(m); long n = 0;
        for (auto &e : ev) if (e.what == what && (tag_contains.empty() || e.tag.find(tag_contains) != std::string::npos)) n++;
        return n;
    }
    long count_eq(std::string const &what, std::string const &tag) {
        std::lock_guard<std::mutex> g(m); long n = 0;
        for (auto &e : ev) if (e.what == what && e.tag == tag) n++;
        return n;
    }
    static Ledger &get() { static Ledger l; return l; }
};

// A port for the embedded HTTP server, taken from below the ephemeral range: the harness clients open thousands of
// connections per second from ephemeral local ports (several processes at once), so a port probed with bind(0) is likely to be
// handed to one of them before the service binds it.
inline int free_tcp_port(int salt = 0) {
    static int counter = 0;
    for (int t = 0; t < 200; t++) {
        int p = 20000 + (int)(((long)getpid() * 7 + (long)(counter++) * 131 + (long)salt * 977) % 12000);
        int fd = ::socket(AF_INET, SOCK_STREAM, 0);
        int one = 1; setsockopt(fd, SOL_SOCKET, SO_REUSEADDR, &one, sizeof one);
        sockaddr_in a{}; a.sin_family = AF_INET; a.sin_addr.s_addr = htonl(INADDR_LOOPBACK); a.sin_port = htons(p);
        int r = ::bind(fd, (sockaddr *)&a, sizeof a);
        ::close(fd);
        if (r == 0) return p;
    }
    return 0;
}

class Fixture {
public:
    int http_port = 0;
    std::string scgi_path, fcgi_path, dir;
    std::unique_ptr<cppcms::service> srv;
    std::thread th;
    std::atomic<bool> running{false}, loop_returned{false};
    std::atomic<int> started{0};
    std::string loop_exception;          // non-empty: something escaped service::run()

    // settings: extra JSON object text merged over the defaults; mount: called with the service before run()
    bool start(std::string const &extra_json, std::function<void(cppcms::service &)> mount, bool with_http = true, bool with_scgi = true, bool with_fcgi = true) {
        signal(SIGPIPE, SIG_IGN);
        dir = vr::env("VERIF_SCRATCH", "/verif/build/scratch/tmp");
        std::string tag = std::to_string(getpid()) + "-" + std::to_string(++instance());
        scgi_path = dir + "/s" + tag + ".sock"; fcgi_path = dir + "/f" + tag + ".sock";
        for (int attempt = 0; attempt < 8; attempt++) {
            http_port = free_tcp_port(attempt);
            std::ostringstream cfg;
            cfg << "{ \"service\": { \"list\": [";
            bool first = true;
            if (with_http) { cfg << "{\"api\":\"http\",\"ip\":\"127.0.0.1\",\"port\":" << http_port << "}"; first = false; }
            if (with_scgi) { cfg << (first ? "" : ",") << "{\"api\":\"scgi\",\"socket\":\"" << scgi_path << "\"}"; first = false; }
            if (with_fcgi) { cfg << (first ? "" : ",") << "{\"api\":\"fastcgi\",\"socket\":\"" << fcgi_path << "\"}"; first = false; }
            cfg << "], \"worker_threads\": 3, \"disable_xpowered_by\": true },"
                << "\"http\": { \"script_names\": [\"/sync\", \"/async\", \"/app\", \"/up\", \"/w\"], \"timeout\": 30 },"
                << "\"session\": { \"disable_automatic_load\": true },"
                << "\"logging\": { \"level\": \"emergency\", \"stderr\": false } }";
            cppcms::json::value v;
            std::istringstream is(cfg.str());
            if (!v.load(is, true)) { fprintf(stderr, "fixture: bad config\n"); return false; }
            if (!extra_json.empty()) {
                cppcms::json::value x; std::istringstream xs(extra_json);
                if (!x.load(xs, true)) { fprintf(stderr, "fixture: bad extra config %s\n", extra_json.c_str()); return false; }
                merge(v, x);
            }
            try {
                srv.reset(new cppcms::service(v));
                mount(*srv);
                started = 0;
                srv->after_fork([this] { started = 1; });
                loop_returned = false; loop_exception.clear();
                th = std::thread([this] {
                    try { srv->run(); }
                    catch (std::exception const &e) { loop_exception = std::string("exception escaped service::run(): ") + e.what(); }
                    catch (...) { loop_exception = "unknown exception escaped service::run()"; }
                    loop_returned = true; started = 2;
                });
                for (int i = 0; i < 60000 && started == 0; i++) usleep(1000);
                if (started == 1 && !loop_returned) { running = true; usleep(2000); return true; }
                fprintf(stderr, "fixture: attempt %d failed (started=%d): %s\n", attempt, (int)started, loop_exception.c_str());
                if (started == 0) srv->shutdown();
                if (th.joinable()) th.join();
                srv.reset();
            } catch (std::exception const &e) {
                fprintf(stderr, "fixture: start failed: %s\n", e.what());
                if (th.joinable()) th.join();
                srv.reset();
            }
        }
        return false;
    }
    void stop() {
        if (srv) {
            if (!loop_returned) srv->shutdown();
            if (th.joinable()) th.join();
            srv.reset();
        }
        running = false;
        ::unlink(scgi_path.c_str()); ::unlink(fcgi_path.c_str());
    }
    bool alive() const { return running && !loop_returned; }
    ~Fixture() { stop(); }

    // open a connection to a front-end: 'h' http, 's' scgi, 'f' fastcgi
    bool connect(vc::Conn &c, char fe, std::shared_ptr<vio::Sched> s = nullptr) {
        if (fe == 'h') return c.open_tcp(http_port, s);
        return c.open_unix(fe == 's' ? scgi_path : fcgi_path, s);
    }

private:
    static int &instance() { static int n = 0; return n; }
    static void merge(cppcms::json::value &dst, cppcms::json::value const &src) {
        if (src.type() != cppcms::json::is_object || dst.type() != cppcms::json::is_object) { dst = src; return; }
        for (auto const &kv : src.object()) {
            std::string k = kv.first.str();
            if (dst.object().find(k) != dst.object().end()) merge(dst[k], kv.second); else dst[k] = kv.second;
        }
    }
};

// ----------------------------------------------------------------------------------------------------------------
// Echo application: serialises everything the application can observe with the harness's own writer (hex), not cppcms::json.
//   line format:  <K> <hex a> <hex b> ...\n
inline void echo_line(std::ostream &o, char k, std::string const &a, std::string const &b = std::string(), bool two = true) {
    o << k << ' ' << 'x' << vr::hex(a);
    if (two) o << ' ' << 'x' << vr::hex(b);
    o << '\n';
}
inline std::string echo_render(cppcms::http::request &rq) {
    std::ostringstream o;
    echo_line(o, 'M', rq.request_method(), "", false);
    echo_line(o, 'S', rq.script_name(), "", false);
    echo_line(o, 'P', rq.path_info(), "", false);
    echo_line(o, 'Q', rq.query_string(), "", false);
    echo_line(o, 'T', rq.content_type(), "", false);
    echo_line(o, 'L', std::to_string(rq.content_length()), "", false);
    std::map<std::string, std::string> env = rq.getenv();
    for (auto &kv : env) echo_line(o, 'E', kv.first, kv.second);
    for (auto &kv : rq.get()) echo_line(o, 'G', kv.first, kv.second);
    for (auto &kv : rq.post()) echo_line(o, 'O', kv.first, kv.second);
    for (auto &kv : rq.cookies()) echo_line(o, 'C', kv.second.name(), kv.second.value());
    cppcms::http::request::files_type files = rq.files();
    for (auto &f : files) {
        std::string content; f->data().clear(); f->data().seekg(0);
        std::ostringstream ss; ss << f->data().rdbuf(); content = ss.str();
        o << "F x" << vr::hex(f->name()) << " x" << vr::hex(f->filename()) << " x" << vr::hex(f->mime()) << " " << f->size() << " x" << vr::hex(content) << "\n";
    }
    std::pair<void *, size_t> raw = rq.raw_post_data();
    echo_line(o, 'R', std::string((char const *)raw.first, raw.second), "", false);
    o << "Z\n";
    return o.str();
}

class EchoApp : public cppcms::application {
public:
    EchoApp(cppcms::service &s) : cppcms::application(s) {}
    void main(std::string) override {
        Ledger::get().add("handler", request().query_string());
        std::string body = echo_render(request());
        response().set_plain_text_header();
        if (!is_asynchronous()) response().io_mode(cppcms::http::response::nogzip);
        response().out() << body;
    }
};

// what the harness decodes from an echo reply
struct Echo {
    bool ok = false; std::string why;
    std::string method, script, path, query, ctype, clen, raw;
    std::map<std::string, std::string> env;
    std::vector<std::pair<std::string, std::string>> get, post, cookies;
    struct File { std::string name, filename, mime; long long size; std::string content; };
    std::vector<File> files;
    bool has_filter = false; std::string filter_raw; std::vector<std::string> filter_events;   // UploadApp only
};
inline Echo echo_parse(std::string const &body) {
    Echo e; std::istringstream in(body); std::string line; bool z = false;
    auto hx = [](std::string const &t) { return t.size() && t[0] == 'x' ? vr::unhex(t.substr(1)) : std::string(); };
    while (std::getline(in, line)) {
        if (line == "Z") { z = true; continue; }
        if (z) { e.why = "data after terminator"; return e; }
        std::istringstream ls(line); std::string k, a, b; ls >> k >> a >> b;
        if (k.size() != 1) { e.why = "bad line " + vr::show(line); return e; }
        switch (k[0]) {
        case 'M': e.method = hx(a); break; case 'S': e.script = hx(a); break; case 'P': e.path = hx(a); break;
        case 'Q': e.query = hx(a); break; case 'T': e.ctype = hx(a); break; case 'L': e.clen = hx(a); break;
        case 'R': e.raw = hx(a); break;
        case 'E': e.env[hx(a)] = hx(b); break;
        case 'G': e.get.push_back({hx(a), hx(b)}); break;
        case 'O': e.post.push_back({hx(a), hx(b)}); break;
        case 'C': e.cookies.push_back({hx(a), hx(b)}); break;
        case 'X': e.has_filter = true; e.filter_raw = hx(a); break;
        case 'V': e.filter_events.push_back(hx(a)); break;
        case 'F': { Echo::File f; std::string c, sz, d; f.name = hx(a); f.filename = hx(b); ls >> c >> sz >> d; f.mime = hx(c); f.size = atoll(sz.c_str()); f.content = hx(d); e.files.push_back(f); break; }
        default: e.why = "unknown line " + vr::show(line); return e;
        }
    }
    if (!z) { e.why = "echo body truncated (no terminator)"; return e; }
    e.ok = true;
    return e;
}

} // namespace vs

// ----------------------------------------------------------------------------------------------------------------
// Upload application (C02, C12): asynchronous application mounted with app::content_filter; main() is called at
// headers-ready time (request not ready: install the filter / limits named in the query string) and again when the
// content is complete (echo + what the filter saw).  Every filter callback goes to the ledger, tagged "<filter id>|<query>".
namespace vs {

inline std::string query_param(std::string const &q, std::string const &name) {
    size_t p = 0;
    while (p < q.size()) {
        size_t e = q.find('&', p); if (e == std::string::npos) e = q.size();
        std::string kv = q.substr(p, e - p); size_t eq = kv.find('=');
        if (eq != std::string::npos && kv.substr(0, eq) == name) return kv.substr(eq + 1);
        p = e + 1;
    }
    return "";
}

struct FilterState {
    long id; std::string tag;
    std::string raw;                    // bytes seen by a raw filter, in order
    std::vector<std::string> events;    // "new:<name>", "progress:<name>:<size>", "ready:<name>:<size>", "end", "error"
    int errors = 0, ends = 0; bool error_after_end = false;
    void ev(std::string const &e) { events.push_back(e); Ledger::get().add("filter." + e.substr(0, e.find(':')), tag); }
};
inline long next_filter_id() { static std::atomic<long> n{0}; return ++n; }

struct RawFilter : cppcms::http::raw_content_filter {
    FilterState st;
    explicit RawFilter(std::string const &q) { st.id = next_filter_id(); st.tag = std::to_string(st.id) + "|" + q; }
    void on_data_chunk(void const *d, size_t n) override { st.raw.append((char const *)d, n); st.ev("chunk:" + std::to_string(n)); }
    void on_end_of_content() override { st.ends++; st.ev("end"); }
    void on_error() override { st.errors++; if (st.ends) st.error_after_end = true; st.ev("error"); }
};
struct MpFilter : cppcms::http::multipart_filter {
    FilterState st;
    // rd=all: on_data_ready() reads the whole part (as tests/filter_test.cpp of the repository does) and leaves the read position at
    // the end; rd=<n>: it sniffs the first n bytes.  What it read is reported as "data:<name>:<length>:<fnv>" before "ready:".
    long rd = -1;
    explicit MpFilter(std::string const &q) { st.id = next_filter_id(); st.tag = std::to_string(st.id) + "|" + q; std::string v = query_param(q, "rd"); if (v == "all") rd = 0; else if (!v.empty()) rd = atol(v.c_str()); }
    void on_new_file(cppcms::http::file &f) override { st.ev("new:" + vr::hex(f.name())); }
    void on_upload_progress(cppcms::http::file &f) override { st.ev("progress:" + vr::hex(f.name()) + ":" + std::to_string(f.size())); }
    void on_data_ready(cppcms::http::file &f) override {
        if (rd >= 0) {
            std::string got;
            if (rd == 0) { std::ostringstream ss; ss << f.data().rdbuf(); got = ss.str(); f.data().clear(); }
            else { got.resize((size_t)rd); f.data().read(&got[0], rd); got.resize((size_t)f.data().gcount()); f.data().clear(); }
            st.ev("data:" + vr::hex(f.name()) + ":" + std::to_string(got.size()) + ":" + std::to_string(vr::fnv(got)));
        }
        st.ev("ready:" + vr::hex(f.name()) + ":" + std::to_string(f.size()));
    }
    void on_end_of_content() override { st.ends++; st.ev("end"); }
    void on_error() override { st.errors++; if (st.ends) st.error_after_end = true; st.ev("error"); }
};
struct PlainFilter : cppcms::http::basic_content_filter {
    FilterState st;
    explicit PlainFilter(std::string const &q) { st.id = next_filter_id(); st.tag = std::to_string(st.id) + "|" + q; }
    void on_end_of_content() override { st.ends++; st.ev("end"); }
    void on_error() override { st.errors++; if (st.ends) st.error_after_end = true; st.ev("error"); }
};

class UploadApp : public cppcms::application {
public:
    UploadApp(cppcms::service &s) : cppcms::application(s) {}
    void main(std::string) override {
        std::string q = request().query_string();
        if (!request().is_ready()) {
            Ledger::get().add("upload.headers", q);
            std::string v;
            if (!(v = query_param(q, "cl")).empty()) request().limits().content_length_limit(atoll(v.c_str()));
            if (!(v = query_param(q, "ml")).empty()) request().limits().multipart_form_data_limit(atoll(v.c_str()));
            if (!(v = query_param(q, "fm")).empty()) request().limits().file_in_memory_limit((size_t)atoll(v.c_str()));
            if (!(v = query_param(q, "bs")).empty()) request().setbuf(atoi(v.c_str()));
            request().limits().uploads_path(vr::env("VERIF_SCRATCH", "/verif/build/scratch/tmp") + "/uploads");
            std::string f = query_param(q, "f");
            if (f == "raw") request().reset_content_filter(new RawFilter(q));
            else if (f == "mp") request().reset_content_filter(new MpFilter(q));
            else if (f == "plain") request().reset_content_filter(new PlainFilter(q));
            if (query_param(q, "abort") == "1") throw cppcms::http::abort_upload(403);
            return;
        }
        Ledger::get().add("handler", q);
        std::ostringstream extra;
        cppcms::http::basic_content_filter *flt = request().content_filter();
        FilterState *st = 0;
        if (RawFilter *r = dynamic_cast<RawFilter *>(flt)) st = &r->st;
        else if (MpFilter *m = dynamic_cast<MpFilter *>(flt)) st = &m->st;
        else if (PlainFilter *p = dynamic_cast<PlainFilter *>(flt)) st = &p->st;
        std::string body = echo_render(request());
        body.erase(body.size() - 2);   // drop the "Z\n" terminator, re-added below
        if (st) {
            extra << "X x" << vr::hex(st->raw) << "\n";
            for (auto &e : st->events) extra << "V x" << vr::hex(e) << "\n";
        }
        response().set_plain_text_header();
        response().out() << body << extra.str() << "Z\n";
    }
};

} // namespace vs
