// Client side of the in-process service fixture: blocking sockets with timeouts, bound before connect so that the
// server-side descriptor can be mapped to its I/O schedule (vio.h); independent de-framers for HTTP, CGI-over-close (SCGI)
// and FastCGI replies; small encoders for SCGI netstrings and FastCGI records.  Nothing here uses cppcms.
#pragma once
#include "vio.h"
#include "vreport.h"
#include <poll.h>
#include <signal.h>
#include <string>
#include <vector>
#include <map>
#include <algorithm>

namespace vc {

inline std::string lower(std::string s) { for (auto &c : s) c = (char)tolower((unsigned char)c); return s; }

struct Conn {
    int fd = -1;
    std::string key;                      // peer key under which the schedule is registered
    std::shared_ptr<vio::Sched> sched;
    std::string buf;                      // received, not yet consumed
    bool eof = false, err = false, timed_out = false;
    int timeout_ms = 8000;

    Conn() {}
    Conn(Conn const &) = delete;
    ~Conn() { close(); }

    void attach(std::shared_ptr<vio::Sched> s) { sched = s; if (s && !key.empty()) vio::Registry::get().put(key, s); }

    // TCP: no explicit bind (thousands of short connections per second from several processes would exhaust the ephemeral range
    // through bind(0) + TIME_WAIT); the local port is known after connect() and the schedule is registered before the first byte
    // is sent, i.e. before the server can issue its first read on the connection.
    bool open_tcp(int port, std::shared_ptr<vio::Sched> s = nullptr) {
        fd = ::socket(AF_INET, SOCK_STREAM, 0);
        if (fd < 0) return false;
        sockaddr_in d{}; d.sin_family = AF_INET; d.sin_addr.s_addr = htonl(INADDR_LOOPBACK); d.sin_port = htons(port);
        int one = 1; setsockopt(fd, IPPROTO_TCP, 1 /*TCP_NODELAY*/, &one, sizeof one);
        int r = -1;
        for (int attempt = 0; attempt < 50 && (r = connect_eintr(fd, (sockaddr *)&d, sizeof d)) != 0 && (errno == EADDRNOTAVAIL || errno == EAGAIN); attempt++) usleep(20000);
        if (r != 0) return false;
        sockaddr_in a{}; socklen_t l = sizeof a; getsockname(fd, (sockaddr *)&a, &l);
        key = "t" + std::to_string(ntohs(a.sin_port));
        attach(s);
        return true;
    }
    bool open_unix(std::string const &path, std::shared_ptr<vio::Sched> s = nullptr) {
        static std::atomic<unsigned long> ctr{0};
        fd = ::socket(AF_UNIX, SOCK_STREAM, 0);
        if (fd < 0) return false;
        sockaddr_un a{}; a.sun_family = AF_UNIX;
        key = path + ".c" + std::to_string(++ctr);
        if (key.size() >= sizeof a.sun_path) return false;
        ::unlink(key.c_str());
        strcpy(a.sun_path, key.c_str());
        if (::bind(fd, (sockaddr *)&a, sizeof a) != 0) return false;
        attach(s);
        sockaddr_un d{}; d.sun_family = AF_UNIX; strcpy(d.sun_path, path.c_str());
        return connect_eintr(fd, (sockaddr *)&d, sizeof d) == 0;
    }
    // connect() interrupted by a signal continues in the background: wait for it and fetch its result
    static int connect_eintr(int fd, sockaddr *a, socklen_t l) {
        int r = ::connect(fd, a, l);
        if (r == 0 || errno != EINTR) return r;
        for (;;) {
            pollfd pf{fd, POLLOUT, 0};
            int pr = ::poll(&pf, 1, 20000);
            if (pr < 0 && errno == EINTR) continue;
            if (pr <= 0) { errno = ETIMEDOUT; return -1; }
            int err = 0; socklen_t el = sizeof err; getsockopt(fd, SOL_SOCKET, SO_ERROR, &err, &el);
            if (err) { errno = err; return -1; }
            return 0;
        }
    }
    void close() {
        if (fd >= 0) { ::close(fd); fd = -1; }
        if (!key.empty()) { vio::Registry::get().drop(key); if (key[0] != 't') ::unlink(key.c_str()); key.clear(); }
    }
    void reset_hard() {   // RST instead of FIN
        if (fd >= 0) { linger l{1, 0}; setsockopt(fd, SOL_SOCKET, SO_LINGER, &l, sizeof l); }
        close();
    }
    void shut_wr() { if (fd >= 0) ::shutdown(fd, SHUT_WR); }

    // send everything (the server may be slow to read: poll for writability with the timeout)
    bool send_all(std::string const &d) { return send_all(d.data(), d.size()); }
    // While waiting for room in the send buffer anything the server already sent is taken in (into buf): a peer that pipelines
    // requests must keep reading, otherwise it dead-locks against a server that is blocked writing an earlier reply.
    bool send_all(const char *p, size_t n) {
        while (n > 0) {
            pollfd pf{fd, (short)(POLLOUT | (eof ? 0 : POLLIN)), 0};
            int r = ::poll(&pf, 1, timeout_ms);
            if (r < 0 && errno == EINTR) continue;     // e.g. libFuzzer's SIGALRM watchdog timer
            if (r <= 0) { timed_out = (r == 0); return false; }
            if (pf.revents & POLLIN) {
                char tmp[65536]; ssize_t k = ::recv(fd, tmp, sizeof tmp, MSG_DONTWAIT);
                if (k > 0) buf.append(tmp, (size_t)k); else if (k == 0) eof = true;
                if (!(pf.revents & POLLOUT)) continue;
            }
            if (!(pf.revents & POLLOUT)) { if (pf.revents & (POLLERR | POLLHUP)) { err = true; return false; } continue; }
            ssize_t w = ::send(fd, p, n, MSG_NOSIGNAL | MSG_DONTWAIT);
            if (w < 0) { if (errno == EAGAIN || errno == EINTR) continue; err = true; return false; }
            p += w; n -= (size_t)w;
        }
        return true;
    }
    // read more into buf. >0 bytes read, 0 eof, -1 timeout, -2 error
    int fill(int ms = -2) {
        if (eof) return 0;
        pollfd pf{fd, POLLIN, 0};
        int r;
        // a signal (libFuzzer arms a periodic SIGALRM for its watchdog) must not be mistaken for a failed read
        while ((r = ::poll(&pf, 1, ms == -2 ? timeout_ms : ms)) < 0 && errno == EINTR) {}
        if (r == 0) { timed_out = true; return -1; }
        if (r < 0) { err = true; return -2; }
        char tmp[65536];
        ssize_t n;
        while ((n = ::recv(fd, tmp, sizeof tmp, 0)) < 0 && errno == EINTR) {}
        if (n == 0) { eof = true; return 0; }
        if (n < 0) { if (errno == ECONNRESET) { eof = true; err = true; return 0; } err = true; return -2; }
        buf.append(tmp, (size_t)n);
        return (int)n;
    }
    // read until the peer closes (or timeout); returns false on timeout
    bool drain(int ms = -2) { for (;;) { int r = fill(ms); if (r == 0) return true; if (r < 0) return r != -1 ? true : false; } }
    bool need(size_t n) { while (buf.size() < n) { int r = fill(); if (r <= 0) return false; } return true; }
};

// ---------------------------------------------------------------------------------------------------------------
// HTTP reply de-framer
struct HttpReply {
    bool complete = false;       // a syntactically complete response was read
    std::string why;             // reason when not complete
    int status = 0; std::string version, reason;
    std::vector<std::pair<std::string, std::string>> headers;   // as sent (name, value)
    std::string body;            // de-chunked
    bool chunked = false, has_length = false, until_close = false, keep_alive = false;
    long long content_length = -1;
    size_t header_bytes = 0;
    std::string header(std::string const &n) const { for (auto &h : headers) if (lower(h.first) == lower(n)) return h.second; return ""; }
    int count(std::string const &n) const { int c = 0; for (auto &h : headers) if (lower(h.first) == lower(n)) c++; return c; }
};

inline bool parse_header_block(std::string const &blk, std::vector<std::pair<std::string, std::string>> &out, std::string &why) {
    size_t p = 0;
    while (p < blk.size()) {
        size_t e = blk.find("\r\n", p);
        if (e == std::string::npos) { why = "header line without CRLF"; return false; }
        std::string line = blk.substr(p, e - p); p = e + 2;
        size_t c = line.find(':');
        if (c == std::string::npos || c == 0) { why = "malformed header line: " + vr::show(line); return false; }
        std::string v = line.substr(c + 1); while (!v.empty() && (v[0] == ' ' || v[0] == '\t')) v.erase(0, 1);
        out.push_back({line.substr(0, c), v});
    }
    return true;
}

// reads one HTTP response from the connection (consumes exactly its bytes from c.buf unless until_close)
inline HttpReply read_http_reply(Conn &c, bool head_request = false) {
    HttpReply r;
    size_t he;
    while ((he = c.buf.find("\r\n\r\n")) == std::string::npos) {
        int n = c.fill();
        if (n <= 0) { r.why = c.buf.empty() ? (n == 0 ? "closed-without-reply" : "timeout-without-reply") : (n == 0 ? "closed-inside-headers" : "timeout-inside-headers"); return r; }
    }
    std::string head = c.buf.substr(0, he + 2);
    r.header_bytes = he + 4;
    size_t l1 = head.find("\r\n");
    std::string sl = head.substr(0, l1);
    if (sl.compare(0, 5, "HTTP/") != 0 || sl.size() < 12 || sl[8] != ' ') { r.why = "bad status line: " + vr::show(sl); return r; }
    r.version = sl.substr(5, 3);
    r.status = atoi(sl.c_str() + 9);
    if (r.status < 100 || r.status > 599 || !isdigit((unsigned char)sl[9]) || !isdigit((unsigned char)sl[10]) || !isdigit((unsigned char)sl[11])) { r.why = "bad status code: " + vr::show(sl); return r; }
    r.reason = sl.size() > 13 ? sl.substr(13) : "";
    if (!parse_header_block(head.substr(l1 + 2), r.headers, r.why)) return r;
    c.buf.erase(0, he + 4);
    std::string te = lower(r.header("Transfer-Encoding")), conn = lower(r.header("Connection"));
    r.keep_alive = conn == "keep-alive";
    if (te == "chunked") {
        r.chunked = true;
        for (;;) {
            size_t e;
            while ((e = c.buf.find("\r\n")) == std::string::npos) { if (c.fill() <= 0) { r.why = "truncated chunk size line"; return r; } }
            std::string sz = c.buf.substr(0, e);
            if (sz.empty() || sz.find_first_not_of("0123456789abcdefABCDEF") != std::string::npos) { r.why = "bad chunk size: " + vr::show(sz); return r; }
            size_t n = strtoul(sz.c_str(), 0, 16);
            c.buf.erase(0, e + 2);
            if (n == 0) {
                if (!c.need(2)) { r.why = "truncated after last chunk"; return r; }
                if (c.buf.compare(0, 2, "\r\n") != 0) { r.why = "trailer not supported/garbage after last chunk"; return r; }
                c.buf.erase(0, 2);
                break;
            }
            if (!c.need(n + 2)) { r.why = "truncated chunk"; return r; }
            r.body.append(c.buf, 0, n);
            if (c.buf.compare(n, 2, "\r\n") != 0) { r.why = "chunk not followed by CRLF"; return r; }
            c.buf.erase(0, n + 2);
        }
    } else if (r.count("Content-Length") > 0) {
        r.has_length = true;
        std::string cl = r.header("Content-Length");
        if (cl.empty() || cl.find_first_not_of("0123456789") != std::string::npos) { r.why = "bad Content-Length: " + vr::show(cl); return r; }
        r.content_length = atoll(cl.c_str());
        if (!head_request) {
            if (!c.need((size_t)r.content_length)) { r.body = c.buf; r.why = "body shorter than Content-Length (" + std::to_string(c.buf.size()) + " of " + cl + ")"; return r; }
            r.body = c.buf.substr(0, (size_t)r.content_length);
            c.buf.erase(0, (size_t)r.content_length);
        }
    } else {
        r.until_close = true;
        if (!c.drain()) { r.why = "timeout waiting for close"; r.body = c.buf; return r; }
        r.body.swap(c.buf); c.buf.clear();
    }
    r.complete = true;
    return r;
}

// CGI style reply (SCGI, or the STDOUT stream of FastCGI): header block, blank line, body
struct CgiReply {
    bool complete = false; std::string why;
    int status = 200;
    std::vector<std::pair<std::string, std::string>> headers;
    std::string body;
    std::string header(std::string const &n) const { for (auto &h : headers) if (lower(h.first) == lower(n)) return h.second; return ""; }
    int count(std::string const &n) const { int c = 0; for (auto &h : headers) if (lower(h.first) == lower(n)) c++; return c; }
};
inline CgiReply parse_cgi_reply(std::string const &all) {
    CgiReply r;
    size_t he = all.find("\r\n\r\n");
    if (he == std::string::npos) { r.why = all.empty() ? "empty-reply" : "no header terminator"; return r; }
    std::string head = all.substr(0, he + 2);
    if (head.compare(0, 5, "HTTP/") == 0) {       // service.generate_http_headers
        size_t l1 = head.find("\r\n"); r.status = atoi(head.c_str() + 9); head.erase(0, l1 + 2);
    }
    if (!parse_header_block(head, r.headers, r.why)) return r;
    std::string st = r.header("Status");
    if (!st.empty()) r.status = atoi(st.c_str());
    r.body = all.substr(he + 4);
    r.complete = true;
    return r;
}

// ---------------------------------------------------------------------------------------------------------------
// SCGI request encoder
inline std::string scgi_encode(std::vector<std::pair<std::string, std::string>> const &env, std::string const &body) {
    std::string blk;
    for (auto &kv : env) { blk += kv.first; blk += '\0'; blk += kv.second; blk += '\0'; }
    return std::to_string(blk.size()) + ":" + blk + "," + body;
}

// FastCGI
enum { FCGI_BEGIN = 1, FCGI_ABORT = 2, FCGI_END = 3, FCGI_PARAMS = 4, FCGI_STDIN = 5, FCGI_STDOUT = 6, FCGI_STDERR = 7, FCGI_DATA = 8, FCGI_GET_VALUES = 9, FCGI_GET_VALUES_RESULT = 10, FCGI_UNKNOWN = 11 };
inline std::string fcgi_record(int type, int id, std::string const &content, int padding = 0, int version = 1) {
    std::string r;
    r += char(version); r += char(type); r += char((id >> 8) & 255); r += char(id & 255);
    r += char((content.size() >> 8) & 255); r += char(content.size() & 255); r += char(padding); r += char(0);
    r += content; r.append((size_t)padding, '\0');
    return r;
}
inline std::string fcgi_begin(int id, int role = 1, int flags = 0, int padding = 0) {
    std::string b; b += char(role >> 8); b += char(role & 255); b += char(flags); b.append(5, '\0');
    return fcgi_record(FCGI_BEGIN, id, b, padding);
}
inline void fcgi_len(std::string &o, size_t n, bool force4) {
    if (n < 128 && !force4) o += char(n);
    else { o += char(((n >> 24) & 0x7f) | 0x80); o += char((n >> 16) & 255); o += char((n >> 8) & 255); o += char(n & 255); }
}
inline std::string fcgi_pairs(std::vector<std::pair<std::string, std::string>> const &env, std::vector<int> const *force4 = nullptr) {
    std::string o; size_t i = 0;
    for (auto &kv : env) {
        int f = force4 && i < force4->size() ? (*force4)[i] : 0; i++;
        fcgi_len(o, kv.first.size(), f & 1); fcgi_len(o, kv.second.size(), f & 2);
        o += kv.first; o += kv.second;
    }
    return o;
}
// cut a stream into records at the given sizes (each 1..65535), cycling paddings
inline std::string fcgi_stream(int type, int id, std::string const &data, std::vector<int> const &cuts, std::vector<int> const &pads, bool terminator = true) {
    std::string o; size_t pos = 0, ci = 0, pi = 0;
    while (pos < data.size()) {
        size_t n = ci < cuts.size() ? (size_t)std::max(1, std::min(65535, cuts[ci++])) : 65535;
        n = std::min(n, data.size() - pos);
        o += fcgi_record(type, id, data.substr(pos, n), pi < pads.size() ? pads[pi++] : 0);
        pos += n;
    }
    if (terminator) o += fcgi_record(type, id, "", pi < pads.size() ? pads[pi++] : 0);
    return o;
}

struct FcgiRec { int version, type, id, padding; std::string content; };
struct FcgiReply {
    bool complete = false; std::string why;
    std::vector<FcgiRec> records;
    std::string out;                 // concatenated STDOUT of the request id
    int end_requests = 0, app_status = -1, protocol_status = -1;
    bool stdout_closed = false;
};
// reads records until END_REQUEST for `id` (or close/timeout). Strict framing checks.
inline FcgiReply read_fcgi_reply(Conn &c, int id) {
    FcgiReply r;
    for (;;) {
        if (!c.need(8)) { r.why = c.buf.empty() ? (c.eof ? "closed-without-end-request" : "timeout-without-end-request") : "truncated record header"; return r; }
        FcgiRec rec;
        unsigned char const *h = (unsigned char const *)c.buf.data();
        rec.version = h[0]; rec.type = h[1]; rec.id = (h[2] << 8) | h[3];
        size_t clen = (h[4] << 8) | h[5]; rec.padding = h[6];
        if (rec.version != 1) { r.why = "record with version " + std::to_string(rec.version); return r; }
        if (!c.need(8 + clen + rec.padding)) { r.why = "truncated record body"; return r; }
        rec.content = c.buf.substr(8, clen);
        c.buf.erase(0, 8 + clen + rec.padding);
        r.records.push_back(rec);
        if (rec.id != id && rec.id != 0) { r.why = "record for foreign request id " + std::to_string(rec.id); return r; }
        if (rec.type == FCGI_STDOUT && rec.id == id) {
            if (r.stdout_closed) { r.why = "STDOUT record after the empty STDOUT terminator"; return r; }
            if (rec.content.empty()) r.stdout_closed = true; else r.out += rec.content;
        } else if (rec.type == FCGI_END && rec.id == id) {
            r.end_requests++;
            if (rec.content.size() != 8) { r.why = "END_REQUEST body of " + std::to_string(rec.content.size()) + " bytes"; return r; }
            unsigned char const *b = (unsigned char const *)rec.content.data();
            r.app_status = (b[0] << 24) | (b[1] << 16) | (b[2] << 8) | b[3]; r.protocol_status = b[4];
            r.complete = true;
            return r;
        } else if (rec.type == FCGI_STDERR || rec.type == FCGI_GET_VALUES_RESULT || rec.type == FCGI_UNKNOWN) {
            // allowed, ignored
        } else { r.why = "unexpected record type " + std::to_string(rec.type); return r; }
    }
}

} // namespace vc
