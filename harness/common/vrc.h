// rapidcheck glue: a property = (name, generator of Case, body Case -> Outcome).
// Case types provide  void encode(vr::CaseWriter&) const;  static Case decode(vr::CaseReader&);
// Failing cases are written to the replay dir each time they fail (rapidcheck shrinks monotonically, so the
// file left at the end is the minimal one); `--replay FILE` runs the body on the saved case without rapidcheck.
#pragma once
#include "vreport.h"
#include <rapidcheck.h>
#include <functional>
#include <memory>
#include <csignal>
#include <ctime>

extern "C" void __sanitizer_set_death_callback(void (*)(void)) __attribute__((weak));

namespace vr {

struct Outcome {
    std::string sig, msg;
    bool ok() const { return sig.empty(); }
};
inline Outcome ok() { return Outcome(); }
inline Outcome bad(std::string const &sig, std::string const &msg = "") { return Outcome{sig, msg.empty() ? sig : msg}; }
#define V_CHECK(cond, sig, msg) do { if (!(cond)) return ::vr::bad((sig), std::string(msg) + " [" #cond "]"); } while (0)

// --- crash attribution: the case being executed is dumped from the sanitizer death callback / fatal signal
struct CrashCtx {
    std::function<std::string()> encode;
    std::string prop;
};
inline CrashCtx &crash_ctx() { static CrashCtx c; return c; }
inline void on_death() {
    static bool done = false;
    if (done) return;
    done = true;
    auto &c = crash_ctx();
    if (c.encode) {
        std::string txt;
        try { txt = c.prop + "\n" + c.encode(); } catch (...) { txt = c.prop + "\n"; }
        std::string unit = env("VERIF_UNIT", "unit");
        std::string path = VR.replay_dir() + "/crash-" + unit + "-" + c.prop + "-s" + std::to_string(seed()) + ".case";
        write_file(path, txt);
        VR.failures.push_back({"crash:" + c.prop, path, "sanitizer report / fatal signal while running this case"});
    }
    VR.flush();
}
inline void on_signal(int sig) { on_death(); signal(sig, SIG_DFL); raise(sig); }
inline void install_crash_hooks() {
    if (__sanitizer_set_death_callback) __sanitizer_set_death_callback(on_death);
    signal(SIGABRT, on_signal); signal(SIGSEGV, on_signal); signal(SIGBUS, on_signal); signal(SIGILL, on_signal); signal(SIGFPE, on_signal);
}

// monotonic seconds; not ::time(), which several harnesses replace by a virtual clock (--wrap=time)
inline time_t mono_seconds() { struct timespec ts; clock_gettime(CLOCK_MONOTONIC, &ts); return ts.tv_sec + 1; }

struct PropBase {
    std::string name;
    virtual ~PropBase() {}
    virtual bool run_random() = 0;
    virtual Outcome replay(CaseReader &r) = 0;
};

template <class Case>
struct PropT : PropBase {
    rc::Gen<Case> gen;
    std::function<Outcome(Case const &)> body;
    PropT(std::string n, rc::Gen<Case> g, std::function<Outcome(Case const &)> b) : gen(std::move(g)), body(std::move(b)) { name = n; }
    Outcome guarded(Case const &c) {
        auto &cc = crash_ctx();
        cc.prop = name;
        cc.encode = [&c] { CaseWriter w; c.encode(w); return w.str(); };
        Outcome o;
        try { o = body(c); }
        catch (rc::detail::CaseResult const &) { cc.encode = nullptr; throw; }
        catch (rc::GenerationFailure const &) { cc.encode = nullptr; throw; }
        catch (std::exception const &e) { o = bad("exception:" + name, std::string("unexpected exception escaped the property body: ") + e.what()); }
        cc.encode = nullptr;
        return o;
    }
    // Shrinking budget: once a failure was found, at most VERIF_MAX_SHRINK_EVALS further evaluations / VERIF_MAX_SHRINK_SECONDS
    // are spent on shrink candidates (a broken tree can make every case wait for a reply time-out); after that candidates are
    // reported as passing, which ends the shrink with the smallest failing case found so far.  Never affects the verdict.
    long shrink_evals = 0; time_t first_fail_at = 0;
    bool run_random() override {
        return rc::check(name, [this] {
            Case c = *gen;
            if (first_fail_at) {
                shrink_evals++;
                if (shrink_evals > envl("VERIF_MAX_SHRINK_EVALS", 400) || mono_seconds() - first_fail_at > envl("VERIF_MAX_SHRINK_SECONDS", 240)) {
                    // generating shrink candidates alone can be expensive (cases with tens of thousands of draws): once the budget is
                    // well exceeded, stop the process; the failure and its smallest replay file are already in the report
                    if (mono_seconds() - first_fail_at > 2 * envl("VERIF_MAX_SHRINK_SECONDS", 240)) {
                        fprintf(stderr, "shrink budget exhausted for %s, stopping with the smallest failing case found so far\n", name.c_str());
                        VR.flush(); fflush(stdout); fflush(stderr); _exit(1);
                    }
                    return;
                }
            }
            Outcome o = guarded(c);
            if (!o.ok() && !first_fail_at) first_fail_at = mono_seconds();
            if (!o.ok()) {
                CaseWriter w; w.w(name).nl(); c.encode(w);
                VR.fail(o.sig, w.str(), o.msg, name);
                RC_FAIL(o.sig + ": " + o.msg);
            }
        });
    }
    Outcome replay(CaseReader &r) override { Case c = Case::decode(r); return guarded(c); }
};

// run one explicitly constructed case (enumerations, regression lists) with crash attribution and failure recording
template <class Case, class B>
bool run_direct(std::string const &name, Case const &c, B body) {
    auto &cc = crash_ctx();
    cc.prop = name;
    cc.encode = [&c] { CaseWriter w; c.encode(w); return w.str(); };
    Outcome o;
    try { o = body(c); }
    catch (std::exception const &e) { o = bad("exception:" + name, std::string("unexpected exception escaped the property body: ") + e.what()); }
    cc.encode = nullptr;
    if (!o.ok()) { CaseWriter w; w.w(name).nl(); c.encode(w); VR.fail(o.sig, w.str(), o.msg, name); return false; }
    return true;
}

template <class Case, class G, class B>
std::unique_ptr<PropBase> prop(std::string name, G gen, B body) {
    return std::unique_ptr<PropBase>(new PropT<Case>(name, rc::Gen<Case>(std::move(gen)), std::function<Outcome(Case const &)>(std::move(body))));
}

// inRange collapses at small sizes; wrap it.
template <class T> rc::Gen<T> range(T lo, T hi_excl) { return rc::gen::resize(100, rc::gen::inRange<T>(lo, hi_excl)); }
inline rc::Gen<unsigned char> byte_of(std::string const &set) {
    return rc::gen::map(rc::gen::elementOf(set), [](char c) { return (unsigned char)c; });
}
inline rc::Gen<std::string> bytes(int maxlen) {
    return rc::gen::mapcat(range<int>(0, maxlen + 1), [](int n) {
        return rc::gen::map(rc::gen::container<std::vector<unsigned char>>(n, rc::gen::arbitrary<unsigned char>()),
                            [](std::vector<unsigned char> v) { return std::string(v.begin(), v.end()); });
    });
}

inline int rc_main(int argc, char **argv, std::vector<std::unique_ptr<PropBase>> &props) {
    install_crash_hooks();
    const char *only = nullptr;
    for (int i = 1; i + 1 < argc; i++) if (!strcmp(argv[i], "--only")) only = argv[i + 1];
    if (const char *rp = replay_arg(argc, argv)) {
        CaseReader r(read_file(rp));
        std::string pname = r.w();
        for (auto &p : props) if (p->name == pname) {
            Outcome o = p->replay(r);
            if (!o.ok()) { printf("REPLAY-FAIL %s: %s\n", o.sig.c_str(), o.msg.c_str()); return 1; }
            printf("REPLAY-PASS %s\n", pname.c_str());
            return 0;
        }
        printf("unknown property %s in case file\n", pname.c_str());
        return 3;
    }
    bool all = true;
    // regression tier: units started with VERIF_REGRESS=1 first re-run every saved reg-*.case of this property
    if (envl("VERIF_REGRESS", 0) && !env("VERIF_REGRESSION_DIR").empty()) {
        std::string dir = env("VERIF_REGRESSION_DIR");
        std::string cmd = "ls " + dir + "/reg-*.case 2>/dev/null";
        FILE *ls = popen(cmd.c_str(), "r");
        char line[4096];
        while (ls && fgets(line, sizeof line, ls)) {
            std::string path(line); while (!path.empty() && (path.back() == '\n' || path.back() == ' ')) path.pop_back();
            try {
                std::string text = read_file(path);
                CaseReader r(text);
                std::string pname = r.w();
                for (auto &p : props) if (p->name == pname) {
                    crash_ctx().prop = pname; crash_ctx().encode = [text, pname] { return text.substr(text.find('\n') == std::string::npos ? 0 : text.find('\n') + 1); };
                    Outcome o = p->replay(r);
                    crash_ctx().encode = nullptr;
                    VR.cls("regression.cases");
                    if (!o.ok()) { VR.failures.push_back({o.sig, path, "regression case failed: " + o.msg}); all = false; }
                }
            } catch (std::exception const &e) { VR.failures.push_back({"regression:unreadable", path, e.what()}); all = false; }
        }
        if (ls) pclose(ls);
        VR.flush();
    }
    for (auto &p : props) {
        if (only && p->name != only) continue;
        bool r = p->run_random();
        all = all && r;
        VR.flush();
    }
    VR.finish();
    return all ? 0 : 1;
}

} // namespace vr
