// C04 — libFuzzer target: the first CFG_LEN bytes select the rule set / encoding / method / replacement character, the rest
// is the text.  The oracle (c04_oracle.h) runs inside the target; a failure saves the input and leaves with _exit(99).
// Running the binary with a file argument replays that input (libFuzzer's own single-input mode).
#include "vfuzz.h"
#include "c04_oracle.h"

static void push_counters() { c04::counters().push(); }

extern "C" int LLVMFuzzerTestOneInput(const uint8_t *data, size_t size) {
    (void)VR;   // construct the report before vf::begin registers its exit hook (else the hook runs after the report's destructor)
    vf::begin(data, size);
    static bool hooked = false;
    if (!hooked) { hooked = true; (void)c04::counters(); atexit(push_counters); VR.flush(); }   // registered after vf's hook, so it runs before it
    if ((VR.evaluations & 1023) == 0) VR.flush();   // a unit killed by a load-induced watchdog still leaves a report (counted as inconclusive, not as broken)
    std::string all((const char *)data, size);
    std::string cfg = all.substr(0, c04::CFG_LEN);
    std::string text = size > c04::CFG_LEN ? all.substr(c04::CFG_LEN) : std::string();
    c04::Verdict v;
    try { v = c04::check_case(cfg, text); }
    catch (std::exception const &e) { v = c04::bad("exception:c04", std::string("unexpected exception from the xss API: ") + e.what()); }
    if (!v.ok()) { c04::counters().push(); vf::fail(v.sig, v.msg); }
    return 0;
}
