// C04 — libFuzzer target: the first CFG_LEN bytes select the rule set / encoding / method / replacement character, the rest
// is the text (with an optional structured expansion of numeric character references, see expand()).  The oracle (c04_oracle.h) runs inside the target; a failure saves the input and leaves with _exit(99).
// Running the binary with a file argument replays that input (libFuzzer's own single-input mode).
#include "vfuzz.h"
#include "c04_oracle.h"

// Structured part of the decoder (only when bit 7 of the first configuration byte is set; that bit has no other meaning): the byte
// 0x1D followed by 5 bytes (form, zeros, value class, code point selector, aux) expands to a numeric character reference built by
// c04::make_numeric_ref — so the fuzzer reaches k*2^32+cp, k*2^64+cp, word-size edges and 20..40 digit numbers with leading zeros
// without having to assemble them digit by digit.  Everything else stays raw bytes.
static std::string expand(std::string const &t) {
    std::string r;
    for (size_t i = 0; i < t.size(); i++) {
        if ((unsigned char)t[i] != 0x1D || i + 5 >= t.size()) { r += t[i]; continue; }
        unsigned form = (unsigned char)t[i + 1], z = (unsigned char)t[i + 2], vc = (unsigned char)t[i + 3], cs = (unsigned char)t[i + 4], aux = (unsigned char)t[i + 5];
        unsigned zeros = (z & 15) < 11 ? c04::NUM_ZEROS[z & 15] : (z >> 2);
        unsigned long cp = (cs & 0x80) ? ((unsigned long)(cs & 0x7F) * 8713u + aux * 31u) % 0x110000 : c04::NUM_CPS[cs % c04::N_NUM_CPS];
        r += c04::make_numeric_ref(form, zeros, vc, cp, aux * 257u + cs);
        i += 5;
    }
    return r;
}

static void push_counters() { c04::counters().push(); }

extern "C" int LLVMFuzzerTestOneInput(const uint8_t *data, size_t size) {
    (void)VR;   // construct the report before vf::begin registers its exit hook (else the hook runs after the report's destructor)
    vf::begin(data, size);
    static bool hooked = false;
    if (!hooked) { hooked = true; (void)c04::counters(); atexit(push_counters); VR.flush(); }   // registered after vf's hook, so it runs before it
    if ((VR.evaluations & 1023) == 0) VR.flush();   // a unit killed by a load-induced watchdog still leaves a report (counted as inconclusive, not as broken)
    std::string all((const char *)data, size);
    std::string cfg = all.substr(0, c04::CFG_LEN);
    std::string text = size > c04::CFG_LEN ? all.substr(c04::CFG_LEN) : std::string();
    if (size > 0 && (data[0] & 0x80)) text = expand(text);
    c04::Verdict v;
    try { v = c04::check_case(cfg, text); }
    catch (std::exception const &e) { v = c04::bad("exception:c04", std::string("unexpected exception from the xss API: ") + e.what()); }
    if (!v.ok()) { c04::counters().push(); vf::fail(v.sig, v.msg); }
    return 0;
}
