// C09 — concurrent cache use is race-free and behaves like some sequential order.
//
// One source, two builds: cfg="tsan" (ThreadSanitizer decides "no data race") and cfg="asan" (ASan/UBSan + _GLIBCXX_ASSERTIONS decide
// "no corruption").  Both builds record the history of every case and search it for a linearization (Wing-Gong / Lowe style) against a
// 60-line sequential reference cache (c09_model.h), so every fetch must be explainable by ONE sequential order that respects real time.
//
// A case = (limit, prelude run by the main thread, 1..8 thread programs, per-thread start delay, per-operation spin count / yield).
// The harness does not own the schedule: the OS interleaves the threads, the case only supplies noise.  Each execution happens in a
// forked child, so that a sanitizer abort, a crash or a hang caused by a corrupted structure is attributed to the case (and can be
// shrunk) instead of killing the rapidcheck driver:
//      child exit 0 + result blob   -> outcome of the history check
//      child exit 79 / 77 / 78      -> ThreadSanitizer / AddressSanitizer / UBSan report ("tsan:data-race", "asan:heap-use-after-free" ...)
//      child killed by a signal     -> "crash:signal-N"
//      watchdog                     -> inconclusive (never a violation)
// Failures of this kind depend on the schedule, therefore a failing case is re-executed several times while rapidcheck shrinks it and up
// to C09_REPLAY_REPS times in --replay mode (first failing execution decides).
#include "vrc.h"
#include "c09_model.h"
#include "base_cache.h"
#include "cache_storage.h"
#include <booster/intrusive_ptr.h>
#include <atomic>
#include <thread>
#include <unordered_set>
#include <algorithm>
#include <poll.h>
#include <dirent.h>
#include <fcntl.h>
#include <sched.h>
#include <signal.h>
#include <sys/wait.h>
#include <time.h>

#if defined(__has_feature)
#  if __has_feature(thread_sanitizer)
#    define C09_TSAN 1
#  endif
#endif
#ifndef C09_TSAN
#  define C09_TSAN 0
#endif

// Defaults for runs outside ./check (the driver sets the same through the environment).
extern "C" const char *__tsan_default_options() { return "halt_on_error=1:exitcode=79:report_signal_unsafe=0:second_deadlock_stack=1"; }
extern "C" const char *__asan_default_options() { return "detect_leaks=0:exitcode=77:abort_on_error=0:handle_abort=1:detect_stack_use_after_return=0:malloc_context_size=8:quarantine_size_mb=64"; }
extern "C" const char *__ubsan_default_options() { return "print_stacktrace=1:halt_on_error=1:exitcode=78"; }

using vr::Outcome; using vr::ok; using vr::bad;
using namespace c09;

typedef booster::intrusive_ptr<cppcms::impl::base_cache> cache_ptr;

// ------------------------------------------------------------------------------------------------ stamps
// One global counter gives invoke / response stamps.  In the ThreadSanitizer build the increments are relaxed: an acquire/release
// counter would add a happens-before edge between any two operations that did not overlap and hide races between them from the
// detector.  (lock xadd is a full barrier on x86 and the cache calls are opaque virtual calls, so real-time order is still respected.)
static std::atomic<uint64_t> g_clock(1);
static inline uint64_t stamp() { return g_clock.fetch_add(1, C09_TSAN ? std::memory_order_relaxed : std::memory_order_seq_cst); }

static inline void spin(int n) { for (int i = 0; i < n; i++) __asm__ __volatile__("pause" ::: "memory"); }

// ------------------------------------------------------------------------------------------------ executing one case (child process)
struct RawRec {      // what a thread writes down; analysed after the threads were joined
    uint64_t inv = 0, resp = 0;
    bool hit = false; std::string val; std::set<std::string> trigs; time_t dl = 0; uint64_t gen = 0;
    unsigned keys = 0, ntr = 0;
};

struct Plan {        // per store operation: what is written
    std::string value; std::set<std::string> trigs; time_t deadline;
};

static void run_op(cppcms::impl::base_cache &c, Op const &o, Plan const *plan, RawRec &r) {
    if (o.yield) sched_yield();
    spin(o.spin);
    switch (o.kind) {
    case STORE: r.inv = stamp(); c.store(key_name(o.key), plan->value, plan->trigs, plan->deadline); r.resp = stamp(); break;
    case FETCH: r.val = "<untouched>"; r.dl = -777;
                r.inv = stamp(); r.hit = c.fetch(key_name(o.key), &r.val, &r.trigs, &r.dl, &r.gen); r.resp = stamp(); break;
    case RISE:  r.inv = stamp(); c.rise(name_of(o.key)); r.resp = stamp(); break;
    case REMOVE:r.inv = stamp(); c.remove(key_name(o.key)); r.resp = stamp(); break;
    case CLEAR: r.inv = stamp(); c.clear(); r.resp = stamp(); break;
    case STATS: r.inv = stamp(); c.stats(r.keys, r.ntr); r.resp = stamp(); break;
    }
}

struct ChildResult {
    std::string sig, msg;           // empty sig = history explained
    bool nontrivial = false, inconclusive = false;
    std::vector<std::string> classes;
    std::string sample;
    std::string blob() const {
        vr::CaseWriter w;
        w.w("R").s(sig).s(msg).i(nontrivial).i(inconclusive).s(sample).i((long long)classes.size());
        for (auto &c : classes) w.s(c);
        w.w("END");
        return w.str();
    }
    static bool parse(std::string const &t, ChildResult &r) {
        try {
            vr::CaseReader rd(t);
            if (rd.w() != "R") return false;
            r.sig = rd.s(); r.msg = rd.s(); r.nontrivial = rd.i() != 0; r.inconclusive = rd.i() != 0; r.sample = rd.s();
            long long n = rd.i(); for (long long i = 0; i < n; i++) r.classes.push_back(rd.s());
            return rd.w() == "END";
        } catch (std::exception const &) { return false; }
    }
};

static const char *pair_class(HOp const &a, HOp const &b) {
    // a, b overlap in time and come from different threads
    auto mut = [](HOp const &x) { return x.kind == STORE || x.kind == RISE || x.kind == REMOVE || x.kind == CLEAR; };
    HOp const &m = mut(a) ? a : b; HOp const &o = mut(a) ? b : a;
    if (!mut(m)) {
        if (a.kind == FETCH && b.kind == FETCH && a.key == b.key && a.hit && b.hit) return "ov:fetch-hit||fetch-hit-same-key(LRU)";
        return nullptr;
    }
    if (o.kind == FETCH) {
        switch (m.kind) { case STORE: return "ov:fetch||store"; case RISE: return "ov:fetch||rise"; case REMOVE: return "ov:fetch||remove"; default: return "ov:fetch||clear"; }
    }
    if (o.kind == STATS) return "ov:stats||mutator";
    if (o.kind == STORE && m.kind == STORE) return "ov:store||store";
    return "ov:mutator||mutator";
}

static ChildResult run_case_in_child(Case const &c) {
    ChildResult res;
    // ---- plan the stores: value, triggers, deadline are a function of the store id
    std::vector<std::vector<int>> sid_of(c.progs.size() + 1);       // [0] = prelude, [1+t] = thread t
    std::vector<StoreInfo> stores;
    std::vector<Plan> plans;
    time_t far = time(0) + 10000000;                                // far deadlines: expiry plays no role in this property (C07 covers it)
    auto plan_list = [&](std::vector<Op> const &ops, int who, std::vector<int> &ids) {
        for (auto &o : ops) {
            if (o.kind != STORE) { ids.push_back(-1); continue; }
            int sid = (int)stores.size();
            StoreInfo si; si.key = o.key; si.tmask = (o.tmask | (1u << o.key)) & ((1u << NNAMES) - 1); si.writer = who;
            stores.push_back(si);
            Plan p; p.value = make_value(sid, o.key, who, o.vlen); p.deadline = far + sid;
            for (int i = 0; i < NNAMES; i++) if (o.tmask & (1u << i)) p.trigs.insert(name_of(i));
            plans.push_back(p);
            ids.push_back(sid);
        }
    };
    plan_list(c.pre, -1, sid_of[0]);
    for (size_t t = 0; t < c.progs.size(); t++) plan_list(c.progs[t], (int)t, sid_of[t + 1]);

    cache_ptr cache = cppcms::impl::thread_cache_factory((unsigned)c.limit);
    cppcms::impl::base_cache &C = *cache;

    // ---- prelude (main thread), then the threads
    std::vector<std::vector<RawRec>> recs(c.progs.size() + 1);
    recs[0].resize(c.pre.size());
    for (size_t i = 0; i < c.pre.size(); i++) run_op(C, c.pre[i], sid_of[0][i] >= 0 ? &plans[sid_of[0][i]] : nullptr, recs[0][i]);

    size_t n = c.progs.size();
    for (size_t t = 0; t < n; t++) recs[t + 1].resize(c.progs[t].size());
    std::atomic<int> arrived(0), finished(0), nlive((int)n); std::atomic<bool> go(false);
    std::vector<std::thread> th;
    bool spawn_failed = false;
    for (size_t t = 0; t < n && !spawn_failed; t++) {
        try {
        th.emplace_back([&, t]() {
            arrived.fetch_add(1);
            for (int k = 0; !go.load(std::memory_order_acquire); k++) { if (k > 2000) sched_yield(); else spin(1); }
            spin(t < c.delay.size() ? c.delay[t] : 0);
            // like a request context, every thread holds its own reference for the time it uses the cache (add_ref / del_ref run
            // concurrently with the other threads' operations; the main thread's reference keeps the object alive)
            cache_ptr mine(&C);
            std::vector<Op> const &ops = c.progs[t];
            for (size_t i = 0; i < ops.size(); i++) run_op(*mine, ops[i], sid_of[t + 1][i] >= 0 ? &plans[sid_of[t + 1][i]] : nullptr, recs[t + 1][i]);
            // stay alive until every thread is through: ThreadSanitizer can only report a race with an access whose thread's trace
            // still exists, and a one-operation thread would otherwise be gone before its partner arrives.  Relaxed: adds no ordering.
            finished.fetch_add(1, std::memory_order_relaxed);
            for (int k = 0; finished.load(std::memory_order_relaxed) < nlive.load(std::memory_order_relaxed); k++) { if (k > 500) sched_yield(); else spin(1); }
        });
        } catch (std::system_error const &) { spawn_failed = true; }      // out of threads on a loaded machine: not the cache's fault
    }
    nlive.store((int)th.size(), std::memory_order_relaxed);
    for (int k = 0; arrived.load() < (int)th.size(); k++) { if (k > 200) sched_yield(); }
    go.store(true, std::memory_order_release);
    for (auto &x : th) x.join();
    if (spawn_failed) { res.inconclusive = true; res.classes.push_back("harness:thread-creation-failed(inconclusive)"); return res; }
    unsigned fk = 0, ft = 0; C.stats(fk, ft);           // final state is one more observation (sequential: everything has completed)
    uint64_t final_stamp = stamp();

    // ---- turn the raw records into a history: identify every fetched value
    std::map<std::string, int> by_value;
    for (size_t s = 0; s < plans.size(); s++) by_value[plans[s].value] = (int)s;
    History h; h.limit = c.limit; h.stores = stores;
    auto conv = [&](Op const &o, RawRec const &r, int thread, int idx, int sid) -> Outcome {
        HOp x; x.kind = o.kind; x.key = o.key; x.thread = thread; x.idx = idx; x.inv = r.inv; x.resp = r.resp; x.sid = sid;
        x.hit = r.hit; x.keys = r.keys; x.ntr = r.ntr;
        std::string what = "thread " + std::to_string(thread) + " op " + std::to_string(idx) + " fetch(" + key_name(o.key) + ")";
        if (o.kind == FETCH && r.hit) {
            auto it = by_value.find(r.val);
            if (it == by_value.end()) {
                // not a value anybody stored: torn / corrupted.  Tell which stores it resembles.
                int hs = -1, hk = -1, hw = -1; size_t hl = 0; parse_header(r.val, hs, hk, hw, hl);
                return bad("conc:torn-value", what + " returned " + std::to_string(r.val.size()) + " bytes " + vr::show(r.val, 60) + " that no store of this history wrote (header says store #" +
                           std::to_string(hs) + ", key " + std::to_string(hk) + ")");
            }
            x.got = it->second;
            StoreInfo const &si = stores[x.got];
            if (si.key != o.key)
                return bad("conc:value-of-another-key", what + " returned the value of store #" + std::to_string(x.got) + " which was stored under " + key_name(si.key));
            std::set<std::string> want; for (int i = 0; i < NNAMES; i++) if (si.tmask & (1u << i)) want.insert(name_of(i));
            if (r.trigs != want || r.dl != plans[x.got].deadline)
                return bad("conc:mixed-entry", what + " returned the value of store #" + std::to_string(x.got) + " with trigger set/deadline of something else: triggers " +
                           show_names(r.trigs) + " expected " + show_names(want) + ", deadline " + std::to_string((long long)r.dl) + " expected " + std::to_string((long long)plans[x.got].deadline));
        }
        h.ops.push_back(x);
        return ok();
    };
    Outcome first_bad = ok();
    for (size_t i = 0; i < c.pre.size() && first_bad.ok(); i++) first_bad = conv(c.pre[i], recs[0][i], -1, (int)i, sid_of[0][i]);
    for (size_t t = 0; t < n && first_bad.ok(); t++)
        for (size_t i = 0; i < c.progs[t].size() && first_bad.ok(); i++) first_bad = conv(c.progs[t][i], recs[t + 1][i], (int)t, (int)i, sid_of[t + 1][i]);
    if (first_bad.ok()) {
        HOp fin; fin.kind = STATS; fin.thread = -2; fin.idx = 0; fin.inv = final_stamp; fin.resp = final_stamp + 1; fin.keys = fk; fin.ntr = ft;
        h.ops.push_back(fin);
    }

    // ---- classes, non-triviality
    {
        std::vector<HOp> const &ops = h.ops;
        bool nt = false; std::set<std::string> seen;
        for (size_t i = 0; i < ops.size(); i++) for (size_t j = i + 1; j < ops.size(); j++) {
            HOp const &a = ops[i], &b = ops[j];
            if (a.thread == b.thread || a.thread < 0 || b.thread < 0) continue;
            if (!(a.inv < b.resp && b.inv < a.resp)) continue;
            const char *pc = pair_class(a, b);
            if (pc) seen.insert(pc);
            if (h.same_key_conflict(a, b)) { nt = true; seen.insert(std::string("nt:") + kind_name(a.kind < b.kind ? a.kind : b.kind) + "||" + kind_name(a.kind < b.kind ? b.kind : a.kind)); }
        }
        // widest overlap
        std::vector<std::pair<uint64_t, int>> ev;
        for (auto &o : ops) if (o.thread >= 0) { ev.push_back({o.inv, +1}); ev.push_back({o.resp, -1}); }
        std::sort(ev.begin(), ev.end());
        int cur = 0, width = 0; for (auto &e : ev) { cur += e.second; width = std::max(width, cur); }
        res.nontrivial = nt;
        res.classes.push_back(nt ? "history:nontrivial" : "history:trivial");
        res.classes.push_back("width=" + std::to_string(width));
        res.classes.push_back("threads=" + std::to_string(n));
        res.classes.push_back("limit=" + std::to_string(c.limit));
        for (auto &s : seen) res.classes.push_back(s);
        long hits = 0, misses = 0; for (auto &o : ops) if (o.kind == FETCH) (o.hit ? hits : misses)++;
        if (hits) res.classes.push_back("has:fetch-hit"); if (misses) res.classes.push_back("has:fetch-miss");
    }
    if (!first_bad.ok()) { res.sig = first_bad.sig; res.msg = first_bad.msg + "\n" + h.dump(); return res; }

    // ---- linearizability
    LinResult lr = linearize(h, vr::envl("C09_NODE_CAP", 4000000));
    res.classes.push_back(lr.nodes <= 100 ? "lin:nodes<=100" : lr.nodes <= 10000 ? "lin:nodes<=1e4" : lr.nodes <= 1000000 ? "lin:nodes<=1e6" : "lin:nodes>1e6");
    if (lr.evictions) res.classes.push_back("model:eviction-in-witness");
    if (lr.capped) { res.inconclusive = true; res.classes.push_back("lin:capped(inconclusive)"); return res; }
    if (!lr.ok) { res.sig = lr.sig; res.msg = lr.msg + "\n" + h.dump(); return res; }
    res.sample = c.str() + "  =>  " + h.brief();
    return res;
}

// ------------------------------------------------------------------------------------------------ parent side
static bool g_replay = false, g_failed_once = false;
static long g_watchdog_hits = 0;

static std::string read_tail(std::string const &path, size_t max) {
    std::string t;
    try { t = vr::read_file(path); } catch (std::exception const &) { return ""; }
    if (t.size() > max) t = t.substr(t.size() - max);
    return t;
}
static std::string slug(std::string s) {
    for (auto &ch : s) if (ch == ' ') ch = '-';
    return s;
}
// "SUMMARY: ThreadSanitizer: data race /repo/src/cache_storage.cpp:265:4 in ..." -> ("data race", rest)
static bool summary_of(std::string const &err, std::string const &tool, std::string &type, std::string &where) {
    size_t p = err.find("SUMMARY: " + tool + ": ");
    if (p == std::string::npos) return false;
    size_t b = p + 9 + tool.size() + 2, e = err.find('\n', b);
    std::string line = err.substr(b, e == std::string::npos ? std::string::npos : e - b);
    size_t sl = line.find(" /"), in = line.find(" in ");
    size_t cut = std::min(sl == std::string::npos ? line.size() : sl, in == std::string::npos ? line.size() : in);
    type = line.substr(0, cut);
    size_t par = type.find(" ("); if (par != std::string::npos) type = type.substr(0, par);
    where = line.substr(cut);
    return true;
}

static Outcome run_once(Case const &c) {
    std::string errfile = vr::env("VERIF_SCRATCH", ".") + "/c09-child-" + std::to_string(getpid()) + ".err";
    int pfd[2];
    if (pipe(pfd) != 0) { VR.inconclusive++; VR.cls("harness:pipe-failed(inconclusive)"); return ok(); }
    fflush(stdout); fflush(stderr);
    pid_t pid = -1;
    for (int attempt = 0; attempt < 20 && (pid = fork()) < 0; attempt++) usleep(100000);
    if (pid < 0) { close(pfd[0]); close(pfd[1]); VR.inconclusive++; VR.cls("harness:fork-failed(inconclusive)"); return ok(); }
    if (pid == 0) {
        // child: the parent's crash hooks must not write the parent's report
        close(pfd[0]);
        vr::crash_ctx().encode = nullptr;
        if (__sanitizer_set_death_callback) __sanitizer_set_death_callback(nullptr);
        signal(SIGABRT, SIG_DFL); signal(SIGSEGV, SIG_DFL); signal(SIGBUS, SIG_DFL); signal(SIGILL, SIG_DFL); signal(SIGFPE, SIG_DFL);
        int fd = open(errfile.c_str(), O_WRONLY | O_CREAT | O_TRUNC, 0644);
        if (fd >= 0) { dup2(fd, 2); close(fd); }
        std::string out;
        try { out = run_case_in_child(c).blob(); }
        catch (std::exception const &e) { ChildResult r; r.sig = "exception:escaped-cache-call"; r.msg = std::string("exception escaped a cache operation: ") + e.what(); out = r.blob(); }
        size_t off = 0;
        while (off < out.size()) { ssize_t k = write(pfd[1], out.data() + off, out.size() - off); if (k <= 0) break; off += (size_t)k; }
        _exit(0);
    }
    close(pfd[1]);
    std::string blob; bool timed_out = false;
    long budget_ms = vr::envl("C09_WATCHDOG_MS", 60000);
    struct timespec t0; clock_gettime(CLOCK_MONOTONIC, &t0);
    for (;;) {
        struct timespec t1; clock_gettime(CLOCK_MONOTONIC, &t1);
        long el = (t1.tv_sec - t0.tv_sec) * 1000 + (t1.tv_nsec - t0.tv_nsec) / 1000000;
        if (el >= budget_ms) { timed_out = true; break; }
        struct pollfd p = {pfd[0], POLLIN, 0};
        int pr = poll(&p, 1, (int)std::min<long>(budget_ms - el, 1000));
        if (pr < 0 && errno != EINTR) break;
        if (pr <= 0) continue;
        char buf[65536]; ssize_t k = read(pfd[0], buf, sizeof buf);
        if (k > 0) blob.append(buf, (size_t)k);
        else if (k == 0) break;
        else if (errno != EINTR) break;
    }
    close(pfd[0]);
    if (timed_out) kill(pid, SIGKILL);
    int st = 0; while (waitpid(pid, &st, 0) < 0 && errno == EINTR) {}
    VR.cls("executions");
    if (timed_out) {
        // safety net only: a wall-clock limit is never an oracle
        VR.inconclusive++; VR.cls("watchdog(inconclusive)"); g_watchdog_hits++;
        unlink(errfile.c_str());
        return ok();
    }
    std::string err = read_tail(errfile, 6000);
    unlink(errfile.c_str());
    if (WIFEXITED(st) && WEXITSTATUS(st) == 0) {
        ChildResult r;
        if (!ChildResult::parse(blob, r)) return bad("harness:child-result-unreadable", "child exited 0 without a readable result (" + std::to_string(blob.size()) + " bytes)\n" + err);
        for (auto &cl : r.classes) VR.cls(cl);
        if (r.inconclusive) VR.inconclusive++;
        if (r.nontrivial) VR.nontrivial(c.hash());
        if (!r.sample.empty() && VR.want_sample()) VR.sample(r.sample);
        if (!r.sig.empty()) return bad(r.sig, r.msg);
        return ok();
    }
    std::string type, where;
    if (WIFEXITED(st)) {
        int code = WEXITSTATUS(st);
        if (summary_of(err, "ThreadSanitizer", type, where)) return bad("tsan:" + slug(type), "ThreadSanitizer: " + type + where + "\n" + err);
        if (summary_of(err, "AddressSanitizer", type, where)) return bad("asan:" + slug(type), "AddressSanitizer: " + type + where + "\n" + err);
        if (summary_of(err, "UndefinedBehaviorSanitizer", type, where)) return bad("ubsan:" + slug(type), "UBSan: " + type + where + "\n" + err);
        return bad("crash:exit-" + std::to_string(code), "child exited with status " + std::to_string(code) + " without a result\n" + err);
    }
    int sg = WIFSIGNALED(st) ? WTERMSIG(st) : 0;
    if (sg == SIGKILL) {      // nothing inside the child raises SIGKILL: killed from outside (OOM killer, operator)
        VR.inconclusive++; VR.cls("harness:child-killed-from-outside(inconclusive)");
        return ok();
    }
    if (summary_of(err, "AddressSanitizer", type, where)) return bad("asan:" + slug(type), "AddressSanitizer: " + type + where + "\n" + err);
    return bad("crash:signal-" + std::to_string(sg), "child was killed by signal " + std::to_string(sg) + " while running the case (assertion / corrupted structure)\n" + err);
}

static Outcome body(Case const &c0) {
    Case c = c0; c.normalize();
    if (!g_replay && g_watchdog_hits > vr::envl("C09_MAX_WATCHDOG", 4)) {
        // the executions hang (deadlock / corrupted list walked for ever): stop spending the budget.  Not counted as evaluations, so
        // the floor in props/c09.py turns a run that explored too little into BROKEN-CHECK rather than a silent pass.
        VR.cls("skipped:watchdog-budget-exhausted");
        return ok();
    }
    VR.eval();
    long reps = g_replay ? vr::envl("C09_REPLAY_REPS", 300) : (g_failed_once ? vr::envl("C09_SHRINK_REPS", 6) : 1);
    for (long r = 0; r < reps; r++) {
        Outcome o = run_once(c);
        if (!o.ok()) {
            g_failed_once = true;
            if (r > 0) o.msg = "[failed in execution " + std::to_string(r + 1) + " of the same case: schedule dependent] " + o.msg;
            return o;
        }
        if (g_watchdog_hits > vr::envl("C09_MAX_WATCHDOG", 4)) break;
    }
    return ok();
}

// ------------------------------------------------------------------------------------------------ generator
static rc::Gen<Op> gen_op(int hot, bool prelude) {
    return rc::gen::exec([hot, prelude]() {
        Op o;
        if (prelude) o.kind = *rc::gen::weightedElement<int>({{10, STORE}, {1, FETCH}, {1, RISE}, {1, STATS}});
        else o.kind = *rc::gen::weightedElement<int>({{28, STORE}, {40, FETCH}, {12, RISE}, {8, REMOVE}, {3, CLEAR}, {7, STATS}});
        int k = *rc::gen::weightedElement<int>({{5, hot}, {2, (hot + 1) % NKEYS}, {2, (hot + 2) % NKEYS}});
        switch (o.kind) {
        case STORE: {
            o.key = k;
            int nt = *rc::gen::weightedElement<int>({{4, 0}, {4, 1}, {2, 2}, {1, 3}});
            for (int i = 0; i < nt; i++) o.tmask |= 1u << *rc::gen::weightedOneOf<int>({{3, vr::range<int>(NKEYS, NNAMES)}, {1, vr::range<int>(0, NKEYS)}});
            o.vlen = *rc::gen::weightedOneOf<int>({{3, vr::range<int>(0, 8)}, {3, vr::range<int>(8, 120)}, {2, vr::range<int>(120, 3000)}, {1, vr::range<int>(3000, 20000)}});
            break; }
        case FETCH: case REMOVE: o.key = k; break;
        case RISE: o.key = *rc::gen::weightedOneOf<int>({{3, vr::range<int>(NKEYS, NNAMES)}, {1, rc::gen::just(k)}}); break;
        default: break;
        }
        o.spin = *rc::gen::weightedOneOf<int>({{5, rc::gen::just(0)}, {3, vr::range<int>(1, 60)}, {2, vr::range<int>(60, 3000)}});
        o.yield = *rc::gen::weightedElement<int>({{9, 0}, {1, 1}});
        return o;
    });
}

static rc::Gen<Case> gen_case(int max_total) {
    return rc::gen::exec([max_total]() {
        Case c;
        c.limit = *rc::gen::weightedElement<int>({{8, 0}, {7, 2}, {1, 1}, {1, 3}});
        int n = *rc::gen::element(2, 2, 3, 3, 4, 4, 5, 6, 8);
        int hot = *vr::range<int>(0, NKEYS);
        int pre = *rc::gen::weightedElement<int>({{1, 0}, {3, 2}, {3, 4}, {1, 7}});
        c.pre = *rc::gen::resize(pre, rc::gen::container<std::vector<Op>>(gen_op(hot, true)));
        int per = std::max(2, max_total / n);
        for (int t = 0; t < n; t++) {
            std::vector<Op> p = *rc::gen::resize(per, rc::gen::container<std::vector<Op>>(gen_op(hot, false)));
            if ((int)p.size() > per) p.resize(per);
            if (p.empty()) p.push_back(*gen_op(hot, false));
            c.progs.push_back(p);
            c.delay.push_back(*rc::gen::weightedOneOf<int>({{5, rc::gen::just(0)}, {3, vr::range<int>(1, 200)}, {1, vr::range<int>(200, 5000)}}));
        }
        return c;
    });
}

// Regression cases (replays/C09/reg-*.case): the minimal shapes in which the sensitivity mutations were caught, executed several times in
// every run so that these interleaving-prone shapes are always part of the sample.
static int run_regressions(std::string const &dir, long reps) {
    std::vector<std::string> files;
    if (DIR *d = opendir(dir.c_str())) {
        while (struct dirent *e = readdir(d)) { std::string n = e->d_name; if (n.size() > 9 && n.compare(0, 4, "reg-") == 0 && n.compare(n.size() - 5, 5, ".case") == 0) files.push_back(n); }
        closedir(d);
    }
    std::sort(files.begin(), files.end());
    bool all = true;
    for (auto &f : files) {
        Case c;
        try { vr::CaseReader r(vr::read_file(dir + "/" + f)); r.w(); c = Case::decode(r); }
        catch (std::exception const &e) { fprintf(stderr, "cannot read %s: %s\n", f.c_str(), e.what()); return 3; }
        VR.cls("regression-file:" + f, 0);
        for (long i = 0; i < reps && all; i++) all = vr::run_direct("conc", c, body) && all;
        VR.cls("regression-file:" + f, 1);
    }
    VR.finish();
    return all ? 0 : 1;
}

int main(int argc, char **argv) {
    g_replay = vr::replay_arg(argc, argv) != nullptr;
    std::string reg = vr::env("C09_REGRESS_DIR");
    if (!g_replay && !reg.empty()) { vr::install_crash_hooks(); return run_regressions(reg, vr::envl("C09_REGRESS_REPS", 25)); }
    int max_total = (int)vr::envl("C09_MAX_OPS", vr::thorough() ? 40 : 24);
    std::vector<std::unique_ptr<vr::PropBase>> props;
    // the same property name in both builds: the unit name inside the replay file name selects the binary
    props.push_back(vr::prop<Case>("conc", gen_case(max_total), body));
    return vr::rc_main(argc, argv, props);
}
