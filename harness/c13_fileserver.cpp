// C13 — the built-in file server never serves anything outside its document roots.
// A sandbox tree is built per process: document root, alias targets, an "outside" area; every regular file carries a token with its
// real location; symlinks inside->outside / inside->inside / directory symlinks, dot-files, names needing escaping.  Request paths come
// from a segment grammar ('.', '..', empty, names, symlinks, alias names and near-aliases), separators raw or %2f, dots raw or %2e, NUL
// and non-UTF-8 bytes.  Oracle = safety predicate computed by the harness's own percent-decoder and stack normaliser:
//   a reply carrying a file token must be the file the lexical path (root or alias target + normalised path [+ /index.html]) denotes
//   and, with check_symlink on, must really lie inside that root after all links are followed;
//   anything else must be 404 / redirect / listing; listings only when enabled, without dot-files, HTML-escaped, naming real entries.
// Configuration (check_symlink x listing x aliases x async) is chosen by C13_CFG (bit0 check_symlink, bit1 listing, bit2 aliases, bit3 async).
#define VIO_DEFINE_WRAPPERS
#include "vrc.h"
#include "vservice.h"
#include "internal_file_server.h"
#include <sys/stat.h>
#include <dirent.h>
#include <limits.h>
#include <set>

using vr::Outcome; using vr::ok; using vr::bad;

static vs::Fixture *g_fx;
static std::string g_base, g_root, g_alt, g_alt2, g_out;     // real paths
static bool g_check = true, g_listing = false, g_alias = false, g_async = false;
static std::vector<std::pair<std::string, std::string>> g_aliases;   // url -> target (real path)

static std::string rp(std::string const &p) { char buf[PATH_MAX]; return realpath(p.c_str(), buf) ? std::string(buf) : std::string(); }
static void mkfile(std::string const &path, std::string const &extra = "") {
    FILE *f = fopen(path.c_str(), "wb"); if (!f) return;
    std::string real = rp(path);
    std::string body = "TOKEN:" + real + ":NEKOT\n" + extra;
    fwrite(body.data(), 1, body.size(), f); fclose(f);
}
static void build_tree() {
    std::string s = vr::env("VERIF_SCRATCH", "/verif/build/scratch/tmp") + "/fs";
    if (system(("rm -rf '" + s + "'").c_str())) {}
    for (const char *d : {"", "/root", "/root/sub", "/root/sub/deep", "/root/sub2", "/root/alX", "/root/.dotdir", "/alt", "/alt/in", "/alt2", "/outside", "/outside/dir", "/rootX"}) mkdir((s + d).c_str(), 0777);
    g_base = rp(s); g_root = g_base + "/root"; g_alt = g_base + "/alt"; g_alt2 = g_base + "/alt2"; g_out = g_base + "/outside";
    mkfile(g_root + "/a.txt"); mkfile(g_root + "/sub/b.html"); mkfile(g_root + "/sub/deep/c.bin", std::string(20000, 'z')); mkfile(g_root + "/sub2/index.html");
    mkfile(g_root + "/.hidden"); mkfile(g_root + "/.dotdir/x.txt"); mkfile(g_root + "/na<me&'q\".txt"); mkfile(g_root + "/sp ace.txt"); mkfile(g_root + "/\xc3\xbcn\xc3\xaf.txt");
    mkfile(g_root + "/alX/inroot.txt"); mkfile(g_root + "/plus+file.txt"); mkfile(g_root + "/sub/.secret");
    mkfile(g_alt + "/d.txt"); mkfile(g_alt + "/.althidden"); mkfile(g_alt + "/in/e.txt"); mkfile(g_alt2 + "/f.txt");
    mkfile(g_out + "/secret.txt"); mkfile(g_out + "/dir/s2.txt"); mkfile(g_out + "/index.html"); mkfile(g_base + "/rootX/sibling.txt");
    if (symlink("../outside", (g_root + "/link_out").c_str())) {}
    if (symlink("../outside/secret.txt", (g_root + "/link_file_out").c_str())) {}
    if (symlink("sub", (g_root + "/link_in").c_str())) {}
    if (symlink("../outside", (g_alt + "/link_out2").c_str())) {}
    if (symlink("../../alt", (g_root + "/sub/link_alt").c_str())) {}
    if (symlink("/nonexistent/target", (g_root + "/dangling").c_str())) {}
    if (symlink("a.txt", (g_root + "/link_a").c_str())) {}
    // directories whose *index file* is a link: to the outside (must not be served with check_symlink on) and to the inside
    mkdir((g_root + "/idx_out").c_str(), 0777); mkdir((g_root + "/idx_in").c_str(), 0777); mkdir((g_alt + "/idx_out2").c_str(), 0777); mkdir((g_root + "/idx_dirlink").c_str(), 0777);
    if (symlink("../../outside/secret.txt", (g_root + "/idx_out/index.html").c_str())) {}
    if (symlink("../a.txt", (g_root + "/idx_in/index.html").c_str())) {}
    if (symlink("../../outside/secret.txt", (g_alt + "/idx_out2/index.html").c_str())) {}
    if (symlink("../../outside", (g_root + "/idx_dirlink/index.html").c_str())) {}     // index "file" that is a link to a directory
    // links into *siblings whose name starts with the root's name* (root -> rootX, alt -> alt2): containment is a matter of whole
    // path components, not of string prefixes
    mkdir((g_root + "/idx_sib").c_str(), 0777);
    if (symlink("../rootX", (g_root + "/link_sib").c_str())) {}
    if (symlink("../rootX/sibling.txt", (g_root + "/link_sib_file").c_str())) {}
    if (symlink("../../rootX/sibling.txt", (g_root + "/idx_sib/index.html").c_str())) {}
    if (symlink("../alt2", (g_alt + "/link_alt2").c_str())) {}
}

// ---- the harness's own path model -----------------------------------------------------------------------------------
static int hexv(char c) { if (c >= '0' && c <= '9') return c - '0'; if (c >= 'a' && c <= 'f') return c - 'a' + 10; if (c >= 'A' && c <= 'F') return c - 'A' + 10; return -1; }
static std::string model_decode(std::string const &uri_path) {      // percent-decoding of the path, then C-string semantics (cut at NUL)
    std::string o;
    for (size_t i = 0; i < uri_path.size(); i++) {
        if (uri_path[i] == '%' && i + 2 < uri_path.size() + 0 && hexv(uri_path[i + 1]) >= 0 && hexv(uri_path[i + 2]) >= 0) { o += char(hexv(uri_path[i + 1]) * 16 + hexv(uri_path[i + 2])); i += 2; }
        else o += uri_path[i];
    }
    size_t z = o.find('\0'); if (z != std::string::npos) o.resize(z);
    return o;
}
static std::string model_normalize(std::string const &p) {           // stack based: '.', '..' (never above "/"), empty components
    std::vector<std::string> st; size_t i = 0;
    while (i <= p.size()) {
        size_t e = p.find('/', i); if (e == std::string::npos) e = p.size();
        std::string seg = p.substr(i, e - i);
        if (seg.empty() || seg == ".") {} else if (seg == "..") { if (!st.empty()) st.pop_back(); } else st.push_back(seg);
        if (e == p.size()) break;
        i = e + 1;
    }
    std::string r; for (auto &s : st) r += "/" + s;
    return r.empty() ? "/" : r;
}
static bool under(std::string const &root, std::string const &path) { return path == root || (path.size() > root.size() && path.compare(0, root.size(), root) == 0 && path[root.size()] == '/'); }

struct Case {
    std::string uri;     // as sent (already percent-encoded where the generator wanted it)
    void encode(vr::CaseWriter &w) const { w.s(uri); }
    static Case decode(vr::CaseReader &r) { Case c; c.uri = r.s(); return c; }
};

static Outcome p_serve(Case const &c) {
    VR.eval();
    V_CHECK(g_fx->alive(), "service-died", g_fx->loop_exception);
    vc::Conn conn; conn.timeout_ms = 15000;
    V_CHECK(g_fx->connect(conn, 'h'), "harness:connect", "connect");
    V_CHECK(conn.send_all("GET " + c.uri + " HTTP/1.0\r\nHost: t\r\n\r\n"), "send", "send failed");
    vc::HttpReply r = vc::read_http_reply(conn);
    V_CHECK(r.complete, "no-reply", r.why + " for " + vr::show(c.uri));
    // the model
    std::string dec = model_decode(c.uri);
    std::string norm = model_normalize(dec);
    std::string base = g_root, rest = norm; bool via_alias = false;
    for (auto &a : g_aliases) if (norm == a.first || (norm.size() > a.first.size() && norm.compare(0, a.first.size(), a.first) == 0 && norm[a.first.size()] == '/')) { base = a.second; rest = norm.substr(a.first.size()); if (rest.empty()) rest = "/"; via_alias = true; break; }
    std::string lexical = base + (rest == "/" ? "" : rest);
    std::string real_lex = rp(lexical), real_idx = rp(lexical + "/index.html");
    std::string where = "cfg(check=" + std::to_string(g_check) + ",listing=" + std::to_string(g_listing) + ",alias=" + std::to_string(g_alias) + ",async=" + std::to_string(g_async) + ") GET " + vr::show(c.uri) + " -> " + std::to_string(r.status) + ": ";
    size_t t = r.body.find("TOKEN:");
    bool nontrivial = false;
    if (t != std::string::npos) {
        size_t e = r.body.find(":NEKOT", t);
        V_CHECK(e != std::string::npos, "torn-file", where + "token not terminated");
        std::string tok = r.body.substr(t + 6, e - t - 6);
        V_CHECK(r.status == 200, "file-with-error-status", where);
        // (1) it is the file the lexical path denotes (or its index.html)
        V_CHECK(tok == real_lex || tok == real_idx, "serves-other-file", where + "served " + tok + " but the path denotes " + (real_lex.empty() ? "<nothing>" : real_lex));
        // (2) containment
        if (g_check) V_CHECK(under(rp(base), tok), "serves-outside-root", where + "served " + tok + " which is outside " + base + " (check_symlink on)");
        // the sibling "rootX" is reachable only through the links link_sib / link_sib_file / idx_sib, and only with symlink checking off
        if (g_check || (lexical.find("link_sib") == std::string::npos && lexical.find("idx_sib") == std::string::npos)) V_CHECK(!under(g_base + "/rootX", tok), "serves-sibling-of-root", where + tok);
        // never a file below the sandbox's outside area unless symlink checking is off and the path really goes through a link
        if (under(g_out, tok)) V_CHECK(!g_check, "serves-outside-root", where + tok);
        struct stat st; V_CHECK(stat(tok.c_str(), &st) == 0 && S_ISREG(st.st_mode), "serves-non-regular", where + tok);
        VR.cls("reply.file");
        if (dec.find("..") != std::string::npos || c.uri.find("%2f") != std::string::npos || c.uri.find("%2F") != std::string::npos || via_alias || tok != lexical) nontrivial = true;
    } else if (r.body.find("Directory Listing") != std::string::npos && r.status == 200) {
        V_CHECK(g_listing, "listing-when-disabled", where);
        V_CHECK(!real_lex.empty(), "listing-of-nothing", where);
        if (g_check) V_CHECK(under(rp(base), real_lex), "lists-outside-root", where + "listing of " + real_lex);
        // entries: <a href='ENC' >text</a>
        std::set<std::string> entries; DIR *d = opendir(real_lex.c_str()); V_CHECK(d != 0, "listing-of-non-directory", where + real_lex);
        while (dirent *de = readdir(d)) entries.insert(de->d_name); closedir(d);
        size_t pos = 0; int shown = 0;
        while ((pos = r.body.find("<a href='", pos)) != std::string::npos) {
            size_t he = r.body.find("'", pos + 9); size_t ts = r.body.find(">", he), te = r.body.find("</a>", ts);
            V_CHECK(he != std::string::npos && ts != std::string::npos && te != std::string::npos, "listing-broken-html", where);
            std::string href = r.body.substr(pos + 9, he - pos - 9), text = r.body.substr(ts + 1, te - ts - 1);
            pos = te;
            if (href == "../") continue;
            for (char ch : href) V_CHECK(isalnum((unsigned char)ch) || strchr("-_.~%/", ch), "listing-href-not-encoded", where + "href " + vr::show(href));
            V_CHECK(text.find('<') == std::string::npos && text.find('>') == std::string::npos && text.find('\'') == std::string::npos && text.find('"') == std::string::npos, "listing-not-escaped", where + "entry text " + vr::show(text));
            for (size_t i = 0; i < text.size(); i++) if (text[i] == '&') { size_t sc = text.find(';', i); V_CHECK(sc != std::string::npos && sc - i <= 6, "listing-not-escaped", where + "bare & in " + vr::show(text)); }
            std::string name = model_decode(href); if (!name.empty() && name.back() == '/') name.pop_back();
            V_CHECK(!name.empty() && name[0] != '.', "listing-shows-dotfile", where + vr::show(name));
            V_CHECK(entries.count(name), "listing-names-unknown-entry", where + vr::show(name));
            shown++;
        }
        for (auto &en : entries) if (en[0] != '.') { struct stat st; if (stat((real_lex + "/" + en).c_str(), &st) == 0 && (S_ISREG(st.st_mode) || S_ISDIR(st.st_mode))) shown--; }
        V_CHECK(shown == 0, "listing-incomplete-or-duplicated", where + "entry count differs by " + std::to_string(shown));
        VR.cls("reply.listing"); nontrivial = true;
    } else if (r.status == 302 || r.status == 301) {
        std::string loc = r.header("Location");
        V_CHECK(!loc.empty(), "redirect-without-location", where);
        struct stat st; V_CHECK(!real_lex.empty() && stat(real_lex.c_str(), &st) == 0 && S_ISDIR(st.st_mode), "redirect-for-non-directory", where + lexical);
        VR.cls("reply.redirect");
    } else {
        V_CHECK(r.status == 404 || r.status == 400 || r.status == 403, "unexpected-reply", where + "body " + vr::show(r.body, 80));
        V_CHECK(r.body.find(g_base) == std::string::npos, "error-page-leaks-path", where);
        VR.cls("reply.error_" + std::to_string(r.status));
        // completeness (the property is about safety; this direction only for plain files inside the root without links: they must be served)
        if (!real_lex.empty() && real_lex == lexical && under(rp(base), real_lex)) { struct stat st; if (stat(real_lex.c_str(), &st) == 0 && S_ISREG(st.st_mode) && dec.find('\0') == std::string::npos) return bad("existing-plain-file-not-served", where + lexical); }
    }
    if (nontrivial) VR.nontrivial(vr::fnv(c.uri));
    if (VR.want_sample()) VR.sample("GET " + vr::show(c.uri, 100) + " -> " + std::to_string(r.status) + (t != std::string::npos ? " file" : ""));
    return ok();
}

struct NCase { std::string path; void encode(vr::CaseWriter &w) const { w.s(path); } static NCase decode(vr::CaseReader &r) { NCase c; c.path = r.s(); return c; } };
static Outcome p_normalize(NCase const &c) {
    VR.eval();
    std::string p = c.path; cppcms::impl::file_server::normalize_path(p);
    std::string in = c.path; if (in.empty() || in[0] != '/') in = "/" + in;
    std::string want = model_normalize(in);
    V_CHECK(p == want, "normalize:differs-from-model", vr::show(c.path) + " -> " + vr::show(p) + " expected " + vr::show(want));
    std::string q = p; cppcms::impl::file_server::normalize_path(q);
    V_CHECK(q == p, "normalize:not-idempotent", vr::show(p) + " -> " + vr::show(q));
    if (c.path.find("..") != std::string::npos) VR.nontrivial(vr::fnv(c.path, 5));
    return ok();
}

// ---- generators -------------------------------------------------------------------------------------------------------
static std::string enc_seg(std::string const &s) {
    std::string o;
    for (unsigned char ch : s) {
        int k = *vr::range<int>(0, 10);
        bool safe = isalnum(ch) || strchr("-_~", ch);
        if (ch == '.') { if (k < 3) o += *vr::range<int>(0, 2) ? "%2e" : "%2E"; else o += '.'; }
        else if (safe && k < 9) o += char(ch);
        else { char b[4]; snprintf(b, sizeof b, k & 1 ? "%%%02x" : "%%%02X", ch); o += b; }
    }
    return o;
}
static rc::Gen<Case> gen_case() {
    return rc::gen::exec([]() {
        static const char *names[] = {"a.txt", "sub", "deep", "b.html", "c.bin", "sub2", "index.html", ".hidden", ".dotdir", "x.txt", "na<me&'q\".txt", "sp ace.txt", "\xc3\xbcn\xc3\xaf.txt", "alX", "inroot.txt",
                                      "link_out", "link_file_out", "link_in", "link_alt", "dangling", "link_a", "secret.txt", "dir", "s2.txt", "al", "al2", "alX", "al..", "alt", "d.txt", "in", "e.txt", "f.txt",
                                      "link_out2", ".althidden", "outside", "root", "rootX", "sibling.txt", "plus+file.txt", ".secret", "nonexistent", "idx_out", "idx_in", "idx_out2", "idx_dirlink", "link_sib", "link_sib_file", "idx_sib", "link_alt2"};
        static const int NNAMES = (int)(sizeof names / sizeof *names);
        Case c;
        if (*vr::range<int>(0, 10) < 7) {
            // a path that denotes something (inside, through links, through aliases, or an escape attempt), decorated with
            // "./", "seg/../", doubled slashes, leading "../" runs and encoded separators/dots
            static const char *targets[] = {"/a.txt", "/sub/b.html", "/sub/deep/c.bin", "/sub2", "/sub2/", "/sub2/index.html", "/sub", "/sub/", "/", "/.hidden", "/.dotdir/x.txt", "/na<me&'q\".txt", "/sp ace.txt",
                "/\xc3\xbcn\xc3\xaf.txt", "/alX/inroot.txt", "/alX", "/plus+file.txt", "/link_out/secret.txt", "/link_out/dir/s2.txt", "/link_out", "/link_out/", "/link_file_out", "/link_in/b.html", "/link_in/deep/c.bin",
                "/sub/link_alt/d.txt", "/link_a", "/dangling", "/al/d.txt", "/al/in/e.txt", "/al", "/al/", "/al2/f.txt", "/al/link_out2/secret.txt", "/al/.althidden", "/al/../a.txt", "/al../a.txt",
                "/../outside/secret.txt", "/../rootX/sibling.txt", "/sub/../../outside/secret.txt", "/alt/d.txt", "/sub/deep/../b.html", "/sub/deep/../../a.txt", "/sub/.secret", "/link_in/../a.txt", "/link_out/../a.txt",
                "/idx_out", "/idx_out/", "/idx_out/index.html", "/idx_in/", "/idx_in", "/al/idx_out2/", "/al/idx_out2", "/idx_dirlink/", "/idx_out/./", "/sub/../idx_out/",
                "/link_sib/sibling.txt", "/link_sib", "/link_sib/", "/link_sib_file", "/idx_sib/", "/idx_sib", "/idx_sib/index.html", "/al/link_alt2/f.txt", "/al/link_alt2/", "/al/link_alt2",
                // a path under one alias whose remainder looks like the URL of another alias (only the first matching alias applies)
                "/al/al2/f.txt", "/al/al2", "/al/al2/", "/al2/al/d.txt", "/al2/al/in/e.txt", "/al/al/d.txt", "/al2/al2/f.txt", "/al/al2/../d.txt"};
            static const int NTARGETS = (int)(sizeof targets / sizeof *targets);
            std::string t = targets[*vr::range<int>(0, NTARGETS)];
            std::vector<std::string> segs; size_t i = 1; while (i <= t.size()) { size_t e = t.find('/', i); if (e == std::string::npos) e = t.size(); segs.push_back(t.substr(i, e - i)); if (e == t.size()) break; i = e + 1; }
            int lead = *vr::range<int>(0, 6) == 0 ? *vr::range<int>(1, 4) : 0;
            for (int k = 0; k < lead; k++) c.uri += "/..";
            for (size_t k = 0; k < segs.size(); k++) {
                int deco = *vr::range<int>(0, 12);
                if (deco == 0) c.uri += "/.";
                else if (deco == 1) c.uri += "/";
                else if (deco == 2) c.uri += "/" + enc_seg(names[*vr::range<int>(0, NNAMES)]) + "/..";
                else if (deco == 3) c.uri += "/" + enc_seg(names[*vr::range<int>(0, NNAMES)]) + "/" + enc_seg(names[*vr::range<int>(0, NNAMES)]) + "/../..";
                c.uri += (!c.uri.empty() && *vr::range<int>(0, 10) == 0) ? (*vr::range<int>(0, 2) ? "%2f" : "%2F") : "/";   // the URI itself must start with a raw '/'
                c.uri += enc_seg(segs[k]);
            }
            if (c.uri.empty()) c.uri = "/";
            if (*vr::range<int>(0, 30) == 0) c.uri += "%00.txt";
            return c;
        }
        int n = *vr::range<int>(0, 8);
        for (int i = 0; i < n; i++) {
            c.uri += (i > 0 && *vr::range<int>(0, 8) == 0) ? (*vr::range<int>(0, 2) ? "%2f" : "%2F") : "/";
            int k = *vr::range<int>(0, 20);
            std::string seg;
            if (k < 3) seg = ".."; else if (k < 5) seg = "."; else if (k == 5) seg = ""; else if (k == 6) seg = "..."; else if (k == 7) { seg = names[*vr::range<int>(0, NNAMES)]; seg += *vr::range<int>(0, 2) ? ".." : "X"; }
            else if (k == 8) { int m = *vr::range<int>(1, 6); for (int j = 0; j < m; j++) seg += char(*vr::range<int>(1, 256)); for (auto &ch : seg) if (ch == '/') ch = '_'; }
            else seg = names[*vr::range<int>(0, NNAMES)];
            c.uri += enc_seg(seg);
            if (*vr::range<int>(0, 40) == 0) c.uri += "%00";
        }
        if (c.uri.empty() || *vr::range<int>(0, 5) == 0) c.uri += "/";
        if (c.uri[0] != '/') c.uri = "/" + c.uri;
        return c;
    });
}
static rc::Gen<NCase> gen_ncase() {
    return rc::gen::exec([]() { NCase c; int n = *vr::range<int>(0, 10); static const char *segs[] = {"..", ".", "", "a", "bb", "...", "..a", ".b", "c.."};
        if (*vr::range<int>(0, 4)) c.path = "/"; for (int i = 0; i < n; i++) { c.path += segs[*vr::range<int>(0, 9)]; if (*vr::range<int>(0, 6)) c.path += "/"; } return c; });
}

int main(int argc, char **argv) {
    int cfg = (int)vr::envl("C13_CFG", 1);
    g_check = cfg & 1; g_listing = cfg & 2; g_alias = cfg & 4; g_async = cfg & 8;
    build_tree();
    std::ostringstream js;
    js << "{\"http\":{\"script_names\":[]},\"file_server\":{\"enable\":true,\"document_root\":\"" << g_root << "\",\"listing\":" << (g_listing ? "true" : "false") << ",\"check_symlink\":" << (g_check ? "true" : "false")
       << ",\"async\":" << (g_async ? "true" : "false");
    if (g_alias) { js << ",\"alias\":[{\"url\":\"/al\",\"path\":\"" << g_alt << "\"},{\"url\":\"/al2/\",\"path\":\"" << g_alt2 << "\"}]"; g_aliases.push_back({"/al", g_alt}); g_aliases.push_back({"/al2", g_alt2}); }
    js << "}}";
    vs::Fixture fx; g_fx = &fx;
    if (!fx.start(js.str(), [](cppcms::service &) {}, true, false, false)) { fprintf(stderr, "cannot start fixture\n"); return 3; }
    std::vector<std::unique_ptr<vr::PropBase>> props;
    props.push_back(vr::prop<Case>("serve", gen_case(), p_serve));
    props.push_back(vr::prop<NCase>("normalize", gen_ncase(), p_normalize));
    int rc = vr::rc_main(argc, argv, props);
    fx.stop();
    if (!fx.loop_exception.empty()) { fprintf(stderr, "%s\n", fx.loop_exception.c_str()); return 1; }
    return rc;
}
