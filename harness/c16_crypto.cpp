// C16 — digests, HMAC and CBC ciphers compute the standard functions for all inputs.
//
// Properties (rapidcheck + a seed-independent grid, all through the public API cppcms::crypto::{message_digest,hmac,cbc,key}
// and the two session "encryptors" built on them):
//   hash    message digest / HMAC over 1..5 messages fed in arbitrary chunks through ONE object == OpenSSL EVP_Digest / HMAC()
//   cbc     AES-128/192/256-CBC: cipher text == EVP_aes_*_cbc (no padding), decrypt(encrypt(x)) == x (fresh object, same object,
//           piecewise), and the "first block absorbs the unknown IV" reliance of the session cipher
//   cbcreuse one cbc object for 1..6 messages with set_iv / no set_iv / set_iv twice / set_key(same key) between them: an encrypt-only,
//           a separate decrypt-only and a both-directions object live through the same history; every message == EVP with the IV in force
//   cookie  hmac_cipher / aes_cipher / aes_factory output is decoded by an independent reference decoder (= another build/node),
//           and cookies made by the reference encoder are accepted
//   key     hexadecimal key parsing (strings, files with trailing blanks) against a reference parser, strict rejection
// The reference side uses only libcrypto's EVP/HMAC interface; cppcms itself uses its bundled MD5 / SHA-1, its own RFC 2104
// construction and the low-level SHA*_/AES_* entry points.  A sample of (algorithm,key,message,result) tuples is written out for a third
// opinion by Python's built-in (non-OpenSSL) hash modules (props/c16.py).
#include "vrc.h"
#include <cppcms/crypto.h>
#include <cppcms/cppcms_error.h>
#include "hmac_encryptor.h"
#include "aes_encryptor.h"
#include <openssl/evp.h>
#include <openssl/hmac.h>
#include <algorithm>

using vr::Outcome; using vr::ok; using vr::bad;
namespace cr = cppcms::crypto;

// ---- algorithms and the reference side ------------------------------------------------------------------
struct Algo { const char *name; const char *upper; unsigned ds, bs; const EVP_MD *(*evp)(); };
static const Algo ALGOS[6] = {
    {"md5", "MD5", 16, 64, EVP_md5},          {"sha1", "SHA1", 20, 64, EVP_sha1},       {"sha224", "Sha224", 28, 64, EVP_sha224},
    {"sha256", "SHA256", 32, 64, EVP_sha256}, {"sha384", "sHA384", 48, 128, EVP_sha384}, {"sha512", "SHA512", 64, 128, EVP_sha512}};

static std::string ref_digest(Algo const &a, std::string const &m) {
    unsigned char out[EVP_MAX_MD_SIZE]; unsigned n = 0;
    if (!EVP_Digest(m.data(), m.size(), out, &n, a.evp(), nullptr)) throw std::runtime_error("reference EVP_Digest failed");
    return std::string((char *)out, n);
}
static std::string ref_hmac(Algo const &a, std::string const &key, std::string const &m) {
    unsigned char out[EVP_MAX_MD_SIZE]; unsigned n = 0;
    static const char dummy = 0;
    if (!HMAC(a.evp(), key.empty() ? &dummy : key.data(), (int)key.size(), (unsigned char const *)m.data(), m.size(), out, &n))
        throw std::runtime_error("reference HMAC failed");
    return std::string((char *)out, n);
}
static const EVP_CIPHER *ref_cipher(int type) { return type == 0 ? EVP_aes_128_cbc() : type == 1 ? EVP_aes_192_cbc() : EVP_aes_256_cbc(); }
static std::string ref_cbc(int type, bool enc, std::string const &key, std::string const &iv, std::string const &in) {
    EVP_CIPHER_CTX *ctx = EVP_CIPHER_CTX_new();
    std::string out(in.size() + 32, '\0'); int n = 0, m = 0;
    bool good = ctx && EVP_CipherInit_ex(ctx, ref_cipher(type), nullptr, (unsigned char const *)key.data(), (unsigned char const *)iv.data(), enc ? 1 : 0)
        && EVP_CIPHER_CTX_set_padding(ctx, 0)
        && EVP_CipherUpdate(ctx, (unsigned char *)&out[0], &n, (unsigned char const *)in.data(), (int)in.size())
        && EVP_CipherFinal_ex(ctx, (unsigned char *)&out[0] + n, &m);
    if (ctx) EVP_CIPHER_CTX_free(ctx);
    if (!good) throw std::runtime_error("reference EVP cipher failed");
    out.resize(n + m);
    return out;
}
static const unsigned KEYSZ[3] = {16, 24, 32};
static const char *const CBCNAMES[3][6] = {{"aes", "AES", "aes128", "aes-128", "AES128", "AES-128"},
                                           {"aes192", "aes-192", "AES192", "AES-192", "aes192", "aes-192"},
                                           {"aes256", "aes-256", "AES256", "AES-256", "aes256", "aes-256"}};

// ---- messages: literal bytes, or (generator seed, length) so that long messages keep case files tiny --------
struct Msg {
    int kind = 0;               // 0 literal, 1 pseudo-random from seed, 2 filled with byte (seed & 255)
    unsigned long long seed = 0;
    long len = 0;
    std::string lit;
    std::vector<long> cuts;     // ascending positions where one append() ends and the next begins (clamped to len); duplicates = empty appends
    size_t size() const { return kind == 0 ? lit.size() : (size_t)len; }
    std::string bytes() const {
        if (kind == 0) return lit;
        std::string s((size_t)len, '\0');
        if (kind == 2) { std::fill(s.begin(), s.end(), char(seed & 255)); return s; }
        unsigned long long x = seed;
        for (size_t i = 0; i < s.size(); i += 8) {
            x += 0x9e3779b97f4a7c15ULL; unsigned long long z = x;
            z = (z ^ (z >> 30)) * 0xbf58476d1ce4e5b9ULL; z = (z ^ (z >> 27)) * 0x94d049bb133111ebULL; z ^= z >> 31;
            for (size_t j = 0; j < 8 && i + j < s.size(); j++) s[i + j] = char(z >> (8 * j));
        }
        return s;
    }
    void encode(vr::CaseWriter &w) const { w.i(kind).u(seed).i(len).s(lit).i((long long)cuts.size()); for (long c : cuts) w.i(c); }
    static Msg decode(vr::CaseReader &r) {
        Msg m; m.kind = (int)r.i(); m.seed = r.u(); m.len = (long)r.i(); m.lit = r.s(); long n = (long)r.i();
        if (m.kind < 0 || m.kind > 2) m.kind = 0;
        if (m.len < 0 || m.len > (1L << 30)) m.len = 0;
        for (long i = 0; i < n && i < 1000; i++) m.cuts.push_back((long)r.i());
        return m;
    }
    std::string describe() const { bool noapp = size() == 0 && cuts.size() == 1 && cuts[0] == -1; return std::to_string(size()) + "B/" + std::to_string(noapp ? 0 : cuts.size() + 1) + "app"; }
};
static Msg prng_msg(long len, unsigned long long seed) { Msg m; m.kind = 1; m.len = len; m.seed = seed; return m; }

// exact-size heap copy: ASan sees any read past the end of the message / write past the result
struct Exact {
    std::unique_ptr<unsigned char[]> p; size_t n;
    explicit Exact(std::string const &s) : p(new unsigned char[s.size() ? s.size() : 1]), n(s.size()) { if (n) memcpy(p.get(), s.data(), n); }
    explicit Exact(size_t k, unsigned char fill) : p(new unsigned char[k ? k : 1]), n(k) { memset(p.get(), fill, k ? k : 1); }
    std::string str() const { return std::string((char const *)p.get(), n); }
};
template <class Obj> static std::string feed(Obj &o, std::string const &data, std::vector<long> const &cuts, unsigned ds) {
    Exact in(data);
    size_t pos = 0;
    // cuts == {-1} on an empty message: the caller has nothing to add and calls readout() straight away (no append() at all)
    if (data.empty() && cuts.size() == 1 && cuts[0] == -1) { Exact out0(ds, 0xAA); o.readout(out0.p.get()); return out0.str(); }
    for (long c : cuts) {
        size_t e = c < 0 ? 0 : (size_t)c; if (e > data.size()) e = data.size(); if (e < pos) e = pos;
        o.append(in.p.get() + pos, e - pos);
        pos = e;
    }
    o.append(in.p.get() + pos, data.size() - pos);
    Exact out(ds, 0xAA);
    o.readout(out.p.get());
    return out.str();
}

// ---- hash case ---------------------------------------------------------------------------------------------
struct HCase {
    int algo = 0, mode = 0, how = 0;   // mode 0 digest, 1 hmac
    std::string key;
    std::vector<Msg> msgs;
    void encode(vr::CaseWriter &w) const { w.i(algo).i(mode).i(how).s(key).i((long long)msgs.size()).nl(); for (auto &m : msgs) { m.encode(w); w.nl(); } }
    static HCase decode(vr::CaseReader &r) {
        HCase c; c.algo = (int)(((r.i() % 6) + 6) % 6); c.mode = (int)r.i() & 1; c.how = (int)r.i(); c.key = r.s(); long n = (long)r.i();
        for (long i = 0; i < n && i < 64; i++) c.msgs.push_back(Msg::decode(r));
        return c;
    }
};

static std::unique_ptr<cr::message_digest> make_md(Algo const &A, int algo, int how) {
    std::unique_ptr<cr::message_digest> d;
    switch (((how % 4) + 4) % 4) {
    case 1: d = cr::message_digest::create_by_name(A.upper); break;
    case 2: if (algo == 0) d = cr::message_digest::md5(); else if (algo == 1) d = cr::message_digest::sha1(); else d = cr::message_digest::create_by_name(A.name); break;
    case 3: {   // clone() of an object that already holds data must start from the initial state (documented)
        std::unique_ptr<cr::message_digest> dirty = cr::message_digest::create_by_name(A.name);
        static const char junk[] = "some earlier data that must not leak into the clone";
        if (dirty.get()) { dirty->append(junk, sizeof(junk) - 1); d.reset(dirty->clone()); }
        break; }
    default: d = cr::message_digest::create_by_name(A.name);
    }
    return d;
}
static std::string hexs(std::string const &s, bool upper) { std::string h = vr::hex(s); if (upper) for (size_t i = 0; i < h.size(); i += 3) h[i] = (char)toupper(h[i]); return h; }
static std::unique_ptr<cr::hmac> make_hmac(Algo const &A, int algo, int how, std::string const &key) {
    cr::key k(key.data(), key.size());
    std::unique_ptr<cr::hmac> h;
    switch (((how % 5) + 5) % 5) {
    case 1: h.reset(new cr::hmac(cr::message_digest::create_by_name(A.name), k)); break;
    case 2: h.reset(new cr::hmac(std::string(A.upper), k)); break;
    case 3: h.reset(new cr::hmac(make_md(A, algo, 3), k)); break;
    case 4: { cr::key kh(hexs(key, true)); h.reset(new cr::hmac(std::string(A.name), kh)); break; }   // the way configuration files deliver keys
    default: h.reset(new cr::hmac(std::string(A.name), k));
    }
    return h;
}
static bool pad_zone(size_t len, unsigned bs) { size_t r = len % bs; unsigned lo = bs - (bs == 64 ? 9 : 17); return r >= lo || (r == 0 && len > 0); }

static FILE *py_file() {
    static FILE *f = nullptr; static bool tried = false;
    if (!tried) { tried = true; std::string p = vr::env("C16_PYSAMPLE"); if (!p.empty()) f = fopen(p.c_str(), "w"); }
    return f;
}
static long py_lines = 0;

static Outcome p_hash(HCase const &c) {
    VR.eval();
    Algo const &A = ALGOS[c.algo];
    std::string what = std::string(c.mode ? "hmac-" : "") + A.name;
    std::unique_ptr<cr::message_digest> md; std::unique_ptr<cr::hmac> hm;
    if (c.mode) hm = make_hmac(A, c.algo, c.how, c.key); else md = make_md(A, c.algo, c.how);
    V_CHECK(c.mode ? hm.get() != 0 : md.get() != 0, std::string(A.name) + ":not-available", "create_by_name returned null for " + what);
    if (!c.mode) {
        V_CHECK(md->digest_size() == A.ds, what + ":digest_size", "digest_size()=" + std::to_string(md->digest_size()));
        V_CHECK(md->block_size() == A.bs, what + ":block_size", "block_size()=" + std::to_string(md->block_size()));
        V_CHECK(std::string(md->name()) == A.name, what + ":name", std::string("name()=") + md->name());
    } else V_CHECK(hm->digest_size() == A.ds, what + ":digest_size", "digest_size()=" + std::to_string(hm->digest_size()));
    bool nt = false;
    VR.cls(std::string("hash.") + what);
    if (c.mode) {
        if (c.key.size() > A.bs) { nt = true; VR.cls("hash.key>block"); } else if (c.key.size() == A.bs) VR.cls("hash.key==block"); else if (c.key.empty()) VR.cls("hash.key.empty"); else VR.cls("hash.key<block");
    }
    if (c.msgs.size() > 1) { nt = true; VR.cls("hash.object_reused"); }
    for (size_t i = 0; i < c.msgs.size(); i++) {
        Msg const &m = c.msgs[i];
        std::string data = m.bytes();
        if (pad_zone(data.size(), A.bs)) { nt = true; VR.cls("hash.len_in_padding_zone"); }
        if (data.empty() && m.cuts.size() == 1 && m.cuts[0] == -1) { VR.cls(i ? "hash.readout_without_append_on_reused_object" : "hash.readout_without_append"); if (i) nt = true; }
        else if (!m.cuts.empty()) VR.cls("hash.chunked_append");
        if (data.size() > 4096) VR.cls("hash.len>4K");
        std::string ref = c.mode ? ref_hmac(A, c.key, data) : ref_digest(A, data);
        std::string got = c.mode ? feed(*hm, data, m.cuts, A.ds) : feed(*md, data, m.cuts, A.ds);
        if (got != ref) {
            // name the root cause: value wrong even for a fresh object and one append / only when cut in pieces / only on a re-used object
            std::string kind;
            std::vector<long> none;
            std::string fresh1, freshc;
            if (c.mode) { auto h1 = make_hmac(A, c.algo, c.how, c.key); fresh1 = feed(*h1, data, none, A.ds); auto h2 = make_hmac(A, c.algo, c.how, c.key); freshc = feed(*h2, data, m.cuts, A.ds); }
            else { auto d1 = make_md(A, c.algo, c.how); fresh1 = feed(*d1, data, none, A.ds); auto d2 = make_md(A, c.algo, c.how); freshc = feed(*d2, data, m.cuts, A.ds); }
            if (fresh1 != ref) {
                // wrong for every message (then the key class / the algorithm is the cause) or only at this length?
                std::string probe_msg = "abc", probe;
                if (c.mode) { auto h3 = make_hmac(A, c.algo, c.how, c.key); probe = feed(*h3, probe_msg, none, A.ds); }
                else { auto d3 = make_md(A, c.algo, c.how); probe = feed(*d3, probe_msg, none, A.ds); }
                bool always = probe != (c.mode ? ref_hmac(A, c.key, probe_msg) : ref_digest(A, probe_msg));
                kind = "wrong-value";
                if (always) { if (c.mode && c.key.size() > A.bs) kind += "@key>block"; else if (c.mode && c.key.size() == A.bs) kind += "@key==block"; }
                else if (pad_zone(data.size(), A.bs)) kind += "@padding-boundary";
                else kind += "@length-dependent";
            } else if (freshc != ref) kind = "depends-on-chunking";
            else kind = "stale-state-after-readout";
            return bad(what + ":" + kind, what + " message #" + std::to_string(i) + " of " + std::to_string(c.msgs.size()) + " len=" + std::to_string(data.size()) +
                       " appends=" + std::to_string(m.cuts.size() + 1) + " keylen=" + std::to_string(c.key.size()) + " how=" + std::to_string(c.how) +
                       "\n  cppcms   : " + vr::hex(got) + "\n  reference: " + vr::hex(ref) + "\n  message  : " + vr::show(data, 80));
        }
        if (data.size() <= 600 && py_lines < 500 && py_file() && (py_lines < 100 || VR.evaluations % 17 == 0)) {
            fprintf(py_file(), "%s %d x%s x%s %s\n", A.name, c.mode, vr::hex(c.key).c_str(), vr::hex(data).c_str(), vr::hex(got).c_str());
            py_lines++;
        }
    }
    if (nt) { vr::CaseWriter w; c.encode(w); VR.nontrivial(vr::fnv(w.str(), 161)); }
    if (VR.want_sample()) {
        std::string s = what + " how=" + std::to_string(c.how) + (c.mode ? " key=" + std::to_string(c.key.size()) + "B" : "") + " msgs=[";
        for (size_t i = 0; i < c.msgs.size(); i++) s += (i ? "," : "") + c.msgs[i].describe();
        VR.sample(s + "] == EVP");
    }
    return ok();
}

// ---- very long messages, streamed (never materialised): the 2^32-bit boundary of the bundled length counters --------------
struct UCase {
    int algo = 0, mode = 0, how = 0;
    std::string key;
    long long total = 0; int fill = 0; long chunk = 1 << 20;
    void encode(vr::CaseWriter &w) const { w.i(algo).i(mode).i(how).s(key).i(total).i(fill).i(chunk); }
    static UCase decode(vr::CaseReader &r) {
        UCase c; c.algo = (int)(((r.i() % 6) + 6) % 6); c.mode = (int)r.i() & 1; c.how = (int)r.i(); c.key = r.s(); c.total = r.i(); c.fill = (int)r.i() & 255; c.chunk = (long)r.i();
        if (c.total < 0 || c.total > (1LL << 34)) c.total = 0;
        if (c.chunk < 1 || c.chunk > (1L << 24)) c.chunk = 1 << 20;
        return c;
    }
};
static const char *const SHA1_LEN_SIG = "sha1:length-counter-32bit@message>=512MiB";
static Outcome p_huge(UCase const &c) {
    VR.eval();
    Algo const &A = ALGOS[c.algo];
    std::string what = std::string(c.mode ? "hmac-" : "") + A.name;
    std::unique_ptr<cr::message_digest> md; std::unique_ptr<cr::hmac> hm;
    if (c.mode) hm = make_hmac(A, c.algo, c.how, c.key); else md = make_md(A, c.algo, c.how);
    V_CHECK(c.mode ? hm.get() != 0 : md.get() != 0, std::string(A.name) + ":not-available", what);
    EVP_MD_CTX *dc = nullptr; HMAC_CTX *hc = nullptr;
    static const char dummy = 0;
    if (c.mode) { hc = HMAC_CTX_new(); if (!hc || !HMAC_Init_ex(hc, c.key.empty() ? &dummy : c.key.data(), (int)c.key.size(), A.evp(), nullptr)) throw std::runtime_error("reference HMAC_Init_ex failed"); }
    else { dc = EVP_MD_CTX_new(); if (!dc || !EVP_DigestInit_ex(dc, A.evp(), nullptr)) throw std::runtime_error("reference EVP_DigestInit_ex failed"); }
    Exact buf((size_t)c.chunk, (unsigned char)c.fill);
    for (long i = 0; i < c.chunk; i += 251) buf.p[i] ^= (unsigned char)(i >> 3);     // not perfectly periodic
    long long left = c.total; long step = 0;
    while (left > 0) {
        size_t n = left < c.chunk ? (size_t)left : (size_t)c.chunk;
        if (step++ % 3 == 1 && n > 1000) n -= 999;                                        // appends are not all block aligned
        if (c.mode) { hm->append(buf.p.get(), n); HMAC_Update(hc, buf.p.get(), n); } else { md->append(buf.p.get(), n); EVP_DigestUpdate(dc, buf.p.get(), n); }
        left -= (long long)n;
    }
    unsigned char r[EVP_MAX_MD_SIZE]; unsigned rl = 0;
    if (c.mode) { HMAC_Final(hc, r, &rl); HMAC_CTX_free(hc); } else { EVP_DigestFinal_ex(dc, r, &rl); EVP_MD_CTX_free(dc); }
    std::string ref((char *)r, rl);
    Exact out(A.ds, 0xAA);
    if (c.mode) hm->readout(out.p.get()); else md->readout(out.p.get());
    std::string got = out.str();
    long long hashed = c.total + (c.mode ? A.bs : 0);
    VR.cls(hashed >= (1LL << 29) ? "huge.length>=2^29_bytes" : "huge.length<2^29_bytes");
    VR.cls("huge." + what);
    if (got != ref) {
        std::string sig = (c.algo == 1 && hashed >= (1LL << 29)) ? std::string(SHA1_LEN_SIG) : what + ":wrong-value@huge-message";
        return bad(sig, what + " of a " + std::to_string(c.total) + "-byte message (appends of " + std::to_string(c.chunk) + ")\n  cppcms   : " + vr::hex(got) + "\n  reference: " + vr::hex(ref));
    }
    // and the object is fresh again afterwards
    std::string small = prng_msg(100, 7).bytes(); std::vector<long> none;
    std::string again = c.mode ? feed(*hm, small, none, A.ds) : feed(*md, small, none, A.ds);
    V_CHECK(again == (c.mode ? ref_hmac(A, c.key, small) : ref_digest(A, small)), what + ":stale-state-after-readout", "after a " + std::to_string(c.total) + "-byte message");
    { vr::CaseWriter w; c.encode(w); VR.nontrivial(vr::fnv(w.str(), 165)); }
    VR.sample(what + " total=" + std::to_string(c.total) + "B in appends of <=" + std::to_string(c.chunk) + " == EVP (streamed)");
    return ok();
}
static UCase huge_case(int idx) {
    UCase c; c.fill = 0x61 + idx;
    const long long B = 1LL << 29;      // 2^32 bits
    switch (idx) {
    case 0: c.algo = 0; c.total = B + 5; break;                                                  // md5: carry into the high counter word
    case 1: c.algo = 0; c.mode = 1; c.key = prng_msg(70, 1).bytes(); c.total = B; c.chunk = 65537; break;
    case 2: c.algo = 1; c.total = B - 1; break;                                                  // sha1: the longest message whose bit count fits 32 bits
    case 3: c.algo = 1; c.mode = 1; c.key = prng_msg(20, 2).bytes(); c.total = B - 1 - 64; c.chunk = 999983; break;
    case 4: c.algo = 3; c.total = B + 5; c.how = 3; break;
    case 5: c.algo = 5; c.mode = 1; c.key = prng_msg(129, 3).bytes(); c.total = B + 5; c.chunk = 4099; break;
    default: c.algo = 1; c.total = B + 5; break;                                                 // regression case of the known sha1 limit
    }
    return c;
}

// ---- cbc case ----------------------------------------------------------------------------------------------
struct CCase {
    int type = 0, how = 0;
    std::string key, iv;
    Msg plain;                  // length forced to a multiple of 16; cuts are block indices
    void encode(vr::CaseWriter &w) const { w.i(type).i(how).s(key).s(iv).nl(); plain.encode(w); }
    static CCase decode(vr::CaseReader &r) { CCase c; c.type = (int)(((r.i() % 3) + 3) % 3); c.how = (int)r.i(); c.key = r.s(); c.iv = r.s(); c.plain = Msg::decode(r); return c; }
};
static const char *const CBC_REKEY_SIG = "cbc:set_key-twice-accepted-but-old-key-schedule-kept";
static std::unique_ptr<cr::cbc> make_cbc(int type, int how) {
    int v = how & 7;
    if (v == 0 || v == 7) return cr::cbc::create(type == 0 ? cr::cbc::aes128 : type == 1 ? cr::cbc::aes192 : cr::cbc::aes256);
    return cr::cbc::create(std::string(CBCNAMES[type][v - 1]));
}
static std::unique_ptr<cr::cbc> ready_cbc(CCase const &c, bool nonce = false) {
    std::unique_ptr<cr::cbc> p = make_cbc(c.type, c.how);
    if (!p.get()) return p;
    cr::key k(c.key.data(), c.key.size());
    if (c.how & 8) { if (nonce) p->set_nonce_iv(); else p->set_iv(c.iv.data(), c.iv.size()); p->set_key(k); }
    else { p->set_key(k); if (nonce) p->set_nonce_iv(); else p->set_iv(c.iv.data(), c.iv.size()); }
    return p;
}
static std::string run_cbc(cr::cbc &o, bool enc, std::string const &in, std::vector<long> const &cut_blocks) {
    Exact src(in); Exact dst(in.size(), 0xAA);
    size_t pos = 0;
    auto step = [&](size_t e) { if (e > pos) { if (enc) o.encrypt(src.p.get() + pos, dst.p.get() + pos, (unsigned)(e - pos)); else o.decrypt(src.p.get() + pos, dst.p.get() + pos, (unsigned)(e - pos)); pos = e; } };
    for (long cb : cut_blocks) { size_t e = cb < 0 ? 0 : (size_t)cb * 16; if (e > in.size()) e = in.size(); step(e); }
    step(in.size());
    return dst.str();
}
static Outcome p_cbc(CCase const &c) {
    VR.eval();
    std::string what = "cbc-aes" + std::to_string(KEYSZ[c.type] * 8);
    std::string plain = c.plain.bytes(); plain.resize(plain.size() / 16 * 16);
    if (plain.empty() || c.key.size() != KEYSZ[c.type] || c.iv.size() != 16) { VR.cls("cbc.malformed_case_skipped"); return ok(); }
    size_t nb = plain.size() / 16;
    VR.cls("cbc." + what); VR.cls(nb == 1 ? "cbc.blocks=1" : nb <= 4 ? "cbc.blocks=2..4" : nb <= 64 ? "cbc.blocks=5..64" : "cbc.blocks>64");
    std::vector<long> none;
    std::unique_ptr<cr::cbc> E = ready_cbc(c);
    V_CHECK(E.get() != 0, what + ":not-available", "cbc::create returned null");
    V_CHECK(E->block_size() == 16, what + ":block_size", std::to_string(E->block_size()));
    V_CHECK(E->key_size() == KEYSZ[c.type], what + ":key_size", std::to_string(E->key_size()));
    std::string ct = run_cbc(*E, true, plain, none);
    std::string ref = ref_cbc(c.type, true, c.key, c.iv, plain);
    V_CHECK(ct == ref, what + ":ciphertext-differs-from-standard", "blocks=" + std::to_string(nb) + " key=" + vr::hex(c.key) + " iv=" + vr::hex(c.iv) +
            "\n  cppcms   : " + vr::hex(ct.substr(0, 48)) + "\n  EVP      : " + vr::hex(ref.substr(0, 48)));
    {   // another node: fresh object, same key and IV
        std::unique_ptr<cr::cbc> D = ready_cbc(c);
        std::string back = run_cbc(*D, false, ct, none);
        V_CHECK(back == plain, what + ":decrypt-not-inverse", "fresh object, blocks=" + std::to_string(nb) + " first differing block " +
                std::to_string(std::mismatch(back.begin(), back.end(), plain.begin()).first - back.begin()) + "/16");
    }
    {   // the same object that encrypted
        std::string back = run_cbc(*E, false, ct, none);
        V_CHECK(back == plain, what + ":decrypt-not-inverse-same-object", "blocks=" + std::to_string(nb));
    }
    if (!c.plain.cuts.empty() && nb > 1) {   // the same segmentation on both sides
        VR.cls("cbc.piecewise");
        std::unique_ptr<cr::cbc> E2 = ready_cbc(c), D2 = ready_cbc(c);
        std::string ct2 = run_cbc(*E2, true, plain, c.plain.cuts);
        std::string back = run_cbc(*D2, false, ct2, c.plain.cuts);
        V_CHECK(back == plain, what + ":piecewise-roundtrip", "blocks=" + std::to_string(nb));
        VR.cls(ct2 == ct ? "cbc.piecewise_equals_whole" : "cbc.piecewise_differs_from_whole");
    }
    if (nb >= 2) {   // what the session cipher relies on: with an unknown (nonce) IV only the first block is lost
        std::unique_ptr<cr::cbc> N = ready_cbc(c, true);
        std::string back = run_cbc(*N, false, ct, none);
        V_CHECK(back.substr(16) == plain.substr(16), what + ":decrypt-tail-depends-on-iv", "blocks=" + std::to_string(nb));
        std::string ctn = run_cbc(*N, true, plain, none);
        std::string refback = ref_cbc(c.type, false, c.key, std::string(16, '\0'), ctn);
        V_CHECK(refback.substr(16) == plain.substr(16), what + ":nonce-encrypt-not-standard", "blocks=" + std::to_string(nb));
    }
    if (c.how & 32) {   // never generated (recorded finding, see CBC_REKEY_SIG): a second set_key must either be refused or take effect
        VR.cls("cbc.set_key_twice");
        std::unique_ptr<cr::cbc> R = make_cbc(c.type, c.how);
        std::string k0 = c.key; for (char &ch : k0) ch = char(ch ^ 0x5a);
        R->set_key(cr::key(k0.data(), k0.size())); R->set_iv(c.iv.data(), c.iv.size());
        run_cbc(*R, true, plain, none);
        bool refused = false;
        try { R->set_key(cr::key(c.key.data(), c.key.size())); } catch (std::exception const &) { refused = true; }
        if (!refused) {
            R->set_iv(c.iv.data(), c.iv.size());
            std::string ct3 = run_cbc(*R, true, plain, none);
            V_CHECK(ct3 == ref, CBC_REKEY_SIG, "set_key(k1); encrypt; set_key(k2) was accepted but encrypt still uses " +
                    std::string(ct3 == ref_cbc(c.type, true, k0, c.iv, plain) ? "k1" : "neither key") + "; blocks=" + std::to_string(nb));
        }
    }
    {   // a key of the wrong size must be refused
        std::unique_ptr<cr::cbc> W = make_cbc(c.type, c.how);
        std::string wrong = c.key + c.key; wrong.resize(KEYSZ[(c.type + 1 + (c.how >> 4) % 2) % 3]);
        bool thrown = false;
        try { W->set_key(cr::key(wrong.data(), wrong.size())); } catch (std::exception const &) { thrown = true; }
        V_CHECK(thrown, what + ":wrong-key-size-accepted", "set_key accepted " + std::to_string(wrong.size()) + " bytes");
    }
    { vr::CaseWriter w; c.encode(w); VR.nontrivial(vr::fnv(w.str(), 162)); }
    if (VR.want_sample()) VR.sample(what + " how=" + std::to_string(c.how) + " blocks=" + std::to_string(nb) + " calls=" + std::to_string(c.plain.cuts.size() + 1) + " == EVP, roundtrip ok");
    return ok();
}

// ---- one cbc object used for several messages: a history of set_iv / set_key / encrypt / decrypt calls --------------------------
// Three objects live through the same history: E only encrypts, D (a separate object, "the other node") only decrypts and is fed with
// cipher text made by the reference, S encrypts and decrypts every message itself.  After set_iv(iv) the next message must be
// AES-CBC(key, iv, .) however much the object was used before.  Without a set_iv between two messages crypto.h promises nothing
// explicit: the implementations continue the chain (IV = last cipher block), a restart from the configured IV would be the only
// other reading -- either is accepted for the first block, the rest of the message is determined anyway, and E/D/S must agree.
struct RStep {
    int op = 1;                 // before the message: 0 nothing, 1 set_iv(iv), 2 set_iv(junk) then set_iv(iv), 3 set_key(same key) again,
                                // 4 set_key(same key) again then set_iv(iv).  The first message always gets an IV (0,3 -> 1; 4 -> 1).
    std::string iv, junk;
    Msg plain;                  // cuts = block indices where one encrypt()/decrypt() call ends
};
struct RCase {
    int type = 0, how = 0, dirs = 7;    // dirs: 1 = encrypt-only object, 2 = decrypt-only object, 4 = one object for both directions
    std::string key;
    std::vector<RStep> steps;
    void encode(vr::CaseWriter &w) const {
        w.i(type).i(how).i(dirs).s(key).i((long long)steps.size()).nl();
        for (auto &st : steps) { w.i(st.op).s(st.iv).s(st.junk); st.plain.encode(w); w.nl(); }
    }
    static RCase decode(vr::CaseReader &r) {
        RCase c; c.type = (int)(((r.i() % 3) + 3) % 3); c.how = (int)r.i(); c.dirs = (int)r.i() & 7; c.key = r.s(); long n = (long)r.i();
        for (long i = 0; i < n && i < 32; i++) { RStep st; st.op = (int)(((r.i() % 5) + 5) % 5); st.iv = r.s(); st.junk = r.s(); st.plain = Msg::decode(r); c.steps.push_back(st); }
        return c;
    }
};
static std::string xor16(std::string a, std::string const &b, std::string const &c) { for (size_t i = 0; i < 16 && i < a.size() && i < b.size() && i < c.size(); i++) a[i] = char(a[i] ^ b[i] ^ c[i]); return a; }
struct ReuseObj {
    std::unique_ptr<cr::cbc> o;
    std::string configured, chain;      // model: IV last given to set_iv; last cipher block that went through this object
    int refused = 0;
    // returns true when the IV of the next message is definite (a set_iv was issued)
    bool prepare(RStep const &st, bool first, int type, int how, std::string const &key) {
        int op = st.op;
        if (first) {
            op = (op == 2) ? 2 : 1;
            o = make_cbc(type, how);
            if (!o.get()) return true;
            if (!(how & 8)) o->set_key(cr::key(key.data(), key.size()));
        } else if (op == 3 || op == 4) {
            try { o->set_key(cr::key(key.data(), key.size())); } catch (std::exception const &) { refused++; }   // same key: refused or harmless
        }
        if (op == 2) o->set_iv(st.junk.data(), st.junk.size());
        if (op == 1 || op == 2 || op == 4) { o->set_iv(st.iv.data(), st.iv.size()); configured = st.iv; }
        if (first && (how & 8)) o->set_key(cr::key(key.data(), key.size()));
        return op == 1 || op == 2 || op == 4;
    }
};
static Outcome p_cbc_reuse(RCase const &c) {
    VR.eval();
    if (c.steps.empty() || c.key.size() != KEYSZ[c.type] || !(c.dirs & 7)) { VR.cls("cbc.reuse.malformed_case_skipped"); return ok(); }
    for (auto &st : c.steps) if (st.iv.size() != 16 || st.junk.size() != 16 || st.plain.size() < 16) { VR.cls("cbc.reuse.malformed_case_skipped"); return ok(); }
    std::string what = "aes" + std::to_string(KEYSZ[c.type] * 8);
    size_t k = c.steps.size();
    VR.cls("cbc.reuse.messages=" + std::to_string(k));
    if (c.dirs & 2) VR.cls("cbc.reuse.separate_decrypt_object");
    if (c.dirs & 1) VR.cls("cbc.reuse.encrypt_only_object");
    if (c.dirs & 4) VR.cls("cbc.reuse.same_object_both_directions");
    ReuseObj E, D, S;
    std::string dchain;                 // last block of the reference cipher text stream fed to D
    std::vector<long> none;
    for (size_t i = 0; i < k; i++) {
        RStep const &st = c.steps[i];
        std::string plain = st.plain.bytes(); plain.resize(plain.size() / 16 * 16);
        size_t nb = plain.size() / 16;
        std::string at = what + " how=" + std::to_string(c.how) + " message #" + std::to_string(i + 1) + " of " + std::to_string(k) + " (" + std::to_string(nb) + " blocks, " +
                         std::to_string(st.plain.cuts.size() + 1) + " calls, op=" + std::to_string(i ? st.op : (st.op == 2 ? 2 : 1)) + ")";
        bool definite = true;
        // ---- encrypting side: E, and S which decrypts its own output straight away
        for (int side = 0; side < 2; side++) {
            ReuseObj &X = side ? S : E;
            if (!(c.dirs & (side ? 4 : 1))) continue;
            definite = X.prepare(st, i == 0, c.type, c.how, c.key);
            V_CHECK(X.o.get() != 0, "cbc:not-available", at);
            std::string ct = run_cbc(*X.o, true, plain, st.plain.cuts);
            std::string iv_used;
            if (definite) {
                std::string ref = ref_cbc(c.type, true, c.key, st.iv, plain);
                if (ct != ref) {
                    bool stale = i > 0 && ct == ref_cbc(c.type, true, c.key, X.chain, plain);
                    return bad(i == 0 ? "cbc:ciphertext-differs-from-standard" : stale ? "cbc:set_iv-ignored-by-used-encrypting-object" : "cbc:reused-object-ciphertext-differs-from-standard",
                               at + (side ? " [object used for both directions]" : " [encrypt-only object]") + ": after set_iv(" + vr::hex(st.iv) + ") the cipher text is not AES-CBC(key,iv,message)" +
                               (stale ? "; it is chained onto the previous message's last cipher block as if set_iv had not been called" : "") +
                               "\n  cppcms: " + vr::hex(ct.substr(0, 32)) + "\n  EVP   : " + vr::hex(ref.substr(0, 32)));
                }
                iv_used = st.iv;
            } else {
                bool chained = ct == ref_cbc(c.type, true, c.key, X.chain, plain), restarted = ct == ref_cbc(c.type, true, c.key, X.configured, plain);
                V_CHECK(chained || restarted, "cbc:continued-message-neither-chained-nor-restarted", at + ": no set_iv before this message; cipher text matches neither IV=previous cipher block nor IV=configured IV");
                VR.cls(chained ? "cbc.reuse.continued=chained_to_previous_cipher_block" : "cbc.reuse.continued=restarted_from_configured_iv");
                iv_used = chained ? X.chain : X.configured;
            }
            {   // any other node: fresh object, same key, the IV in force
                std::unique_ptr<cr::cbc> F = make_cbc(c.type, c.how + 1);
                F->set_key(cr::key(c.key.data(), c.key.size())); F->set_iv(iv_used.data(), iv_used.size());
                V_CHECK(run_cbc(*F, false, ct, none) == plain, "cbc:fresh-object-cannot-decrypt-reused-object-output", at);
            }
            if (side) {
                std::string back = run_cbc(*X.o, false, ct, st.plain.cuts);
                V_CHECK(back == plain, "cbc:reused-object-does-not-decrypt-its-own-output", at + " first differing byte " + std::to_string(std::mismatch(back.begin(), back.end(), plain.begin()).first - back.begin()));
            }
            X.chain = ct.substr(ct.size() - 16);
        }
        // ---- the other node: a separate object that only decrypts, same history of set_iv calls, cipher text from the reference
        if (c.dirs & 2) {
            definite = D.prepare(st, i == 0, c.type, c.how, c.key);
            V_CHECK(D.o.get() != 0, "cbc:not-available", at);
            std::string ivd = definite ? st.iv : dchain;
            std::string ct = ref_cbc(c.type, true, c.key, ivd, plain);
            std::string back = run_cbc(*D.o, false, ct, st.plain.cuts);
            if (definite) {
                if (back != plain) {
                    bool stale = i > 0 && back.substr(16) == plain.substr(16) && back.substr(0, 16) == xor16(plain.substr(0, 16), st.iv, dchain);
                    return bad(i == 0 ? "cbc:decrypt-not-inverse" : stale ? "cbc:set_iv-ignored-by-used-decrypting-object" : "cbc:reused-object-decrypts-wrong",
                               at + " [decrypt-only object]: after set_iv(" + vr::hex(st.iv) + ") the plain text of AES-CBC(key,iv,message) is not recovered" +
                               (stale ? "; the first block was un-chained with the previous message's last cipher block as if set_iv had not been called" : "") +
                               "\n  got     : " + vr::hex(back.substr(0, 32)) + "\n  expected: " + vr::hex(plain.substr(0, 32)));
                }
            } else {
                V_CHECK(back.substr(16) == plain.substr(16), "cbc:reused-object-decrypts-wrong", at + " [decrypt-only object] blocks after the first");
                bool chained = back.substr(0, 16) == plain.substr(0, 16), restarted = back.substr(0, 16) == xor16(plain.substr(0, 16), dchain, D.configured);
                V_CHECK(chained || restarted, "cbc:continued-message-neither-chained-nor-restarted", at + " [decrypt-only object] first block");
            }
            dchain = ct.substr(ct.size() - 16);
        }
        if (i > 0) VR.cls(definite ? "cbc.reuse.set_iv_between" : "cbc.reuse.chain_continues");
        if (i > 0 && (st.op == 2)) VR.cls("cbc.reuse.set_iv_twice");
        if (i > 0 && (st.op == 3 || st.op == 4)) VR.cls("cbc.reuse.set_key_again_same_key");
        if (!st.plain.cuts.empty() && nb > 1) VR.cls("cbc.reuse.message_in_several_calls");
    }
    if (E.refused + D.refused + S.refused) VR.cls("cbc.reuse.set_key_again_refused");
    if (k >= 2) { vr::CaseWriter w; c.encode(w); VR.nontrivial(vr::fnv(w.str(), 166)); }
    if (VR.want_sample()) {
        std::string sm = "cbc-reuse " + what + " how=" + std::to_string(c.how) + " dirs=" + std::to_string(c.dirs) + " ops=[";
        for (size_t i = 0; i < k; i++) sm += (i ? "," : "") + std::to_string(c.steps[i].op) + ":" + std::to_string(c.steps[i].plain.size() / 16) + "blk";
        VR.sample(sm + "] every message == EVP with the IV in force, other objects decrypt");
    }
    return ok();
}

// ---- session cookie ciphers ------------------------------------------------------------------------------------
struct KCase {
    int kind = 0;               // 0 hmac_cipher, 1 aes_cipher with explicit keys, 2 aes_factory with one combined key
    int algo = 0, type = 0, name = 0;
    std::string mac_key, cbc_key, block0, iv;
    std::vector<Msg> plains;
    void encode(vr::CaseWriter &w) const { w.i(kind).i(algo).i(type).i(name).s(mac_key).s(cbc_key).s(block0).s(iv).i((long long)plains.size()).nl(); for (auto &m : plains) { m.encode(w); w.nl(); } }
    static KCase decode(vr::CaseReader &r) {
        KCase c; c.kind = (int)(((r.i() % 3) + 3) % 3); c.algo = (int)(((r.i() % 6) + 6) % 6); c.type = (int)(((r.i() % 3) + 3) % 3); c.name = (int)(((r.i() % 6) + 6) % 6);
        c.mac_key = r.s(); c.cbc_key = r.s(); c.block0 = r.s(); c.iv = r.s(); long n = (long)r.i();
        for (long i = 0; i < n && i < 64; i++) c.plains.push_back(Msg::decode(r));
        return c;
    }
};
// reference decoder of the aes_cipher wire format: CBC( junk block | u32 size (host order) | plain | padding ) | HMAC(mac_key, all cipher blocks)
static bool ref_aes_cookie_decode(int type, Algo const &M, std::string const &ckey, std::string const &mkey, std::string const &c, std::string &plain, std::string &why) {
    if (c.size() < M.ds + 32 || (c.size() - M.ds) % 16) { why = "size " + std::to_string(c.size()) + " is not 16*(n>=2)+digest"; return false; }
    std::string body = c.substr(0, c.size() - M.ds);
    if (ref_hmac(M, mkey, body) != c.substr(body.size())) { why = "trailing MAC is not HMAC-" + std::string(M.name) + "(mac_key, cipher blocks)"; return false; }
    std::string p = ref_cbc(type, false, ckey, std::string(16, '\0'), body);
    uint32_t n; memcpy(&n, p.data() + 16, 4);
    if (n > p.size() - 20) { why = "size field " + std::to_string(n) + " exceeds payload"; return false; }
    plain = p.substr(20, n);
    return true;
}
static std::string ref_aes_cookie_encode(int type, Algo const &M, std::string const &ckey, std::string const &mkey, std::string const &block0, std::string const &iv, std::string const &plain) {
    uint32_t n = (uint32_t)plain.size();
    std::string p = block0; p.append((char const *)&n, 4); p += plain; p.resize((p.size() + 15) / 16 * 16, '\0');
    std::string body = ref_cbc(type, true, ckey, iv, p);
    return body + ref_hmac(M, mkey, body);
}
static Outcome p_cookie(KCase const &c) {
    VR.eval();
    Algo const &M0 = ALGOS[c.algo];
    std::unique_ptr<cppcms::sessions::encryptor> enc, other;
    std::string ckey = c.cbc_key, mkey = c.mac_key; Algo const *M = &M0;
    std::string what;
    if (c.kind == 0) {
        if (mkey.size() < 16) { VR.cls("cookie.malformed_case_skipped"); return ok(); }
        what = std::string("hmac_cipher-") + M->name;
        cr::key k(mkey.data(), mkey.size());
        enc.reset(new cppcms::sessions::impl::hmac_cipher(M->name, k));
        other.reset(new cppcms::sessions::impl::hmac_cipher(M->upper, k));
    } else if (c.kind == 1) {
        if (ckey.size() != KEYSZ[c.type] || c.block0.size() != 16 || c.iv.size() != 16) { VR.cls("cookie.malformed_case_skipped"); return ok(); }
        what = std::string("aes_cipher-") + CBCNAMES[c.type][2] + "-" + M->name;
        cr::key ck(ckey.data(), ckey.size()), mk(mkey.data(), mkey.size());
        enc.reset(new cppcms::sessions::impl::aes_cipher(CBCNAMES[c.type][c.name], M->name, ck, mk));
        other.reset(new cppcms::sessions::impl::aes_cipher(CBCNAMES[c.type][2], M->name, ck, mk));
    } else {
        // one combined key: either cbc_key|hmac_key (sha1) or two sub-keys derived with HMAC-SHA256/512(key,"0"), (key,"\1")
        std::string k = c.cbc_key; unsigned cks = KEYSZ[c.type];
        if (k.size() < cks || c.block0.size() != 16 || c.iv.size() != 16) { VR.cls("cookie.malformed_case_skipped"); return ok(); }
        M = &ALGOS[1];
        what = std::string("aes_factory-") + CBCNAMES[c.type][2];
        if (k.size() == cks + 20) { ckey = k.substr(0, cks); mkey = k.substr(cks); VR.cls("cookie.factory_key_split"); }
        else {
            Algo const &D = k.size() * 8 <= 256 ? ALGOS[3] : ALGOS[5];
            ckey = ref_hmac(D, k, "0").substr(0, cks); mkey = ref_hmac(D, k, std::string("\1", 1)).substr(0, 20);
            VR.cls(std::string("cookie.factory_key_derived_") + D.name);
        }
        cr::key kk(k.data(), k.size());
        cppcms::sessions::impl::aes_factory f(CBCNAMES[c.type][c.name], kk), f2(CBCNAMES[c.type][2], kk);
        enc = f.get(); other = f2.get();
    }
    VR.cls("cookie." + what);
    for (size_t i = 0; i < c.plains.size(); i++) {
        std::string plain = c.plains[i].bytes();
        std::string ck = enc->encrypt(plain), back, why;
        std::string at = what + " message #" + std::to_string(i) + " len=" + std::to_string(plain.size());
        if (c.kind == 0) {
            V_CHECK(ck == plain + ref_hmac(*M, mkey, plain), what + ":cookie-not-message+hmac", at + " cookie=" + vr::hex(ck.substr(0, 64)));
        } else {
            V_CHECK(ck.size() == 16 + (plain.size() + 4 + 15) / 16 * 16 + M->ds, what + ":cookie-size", at + " size=" + std::to_string(ck.size()));
            V_CHECK(ref_aes_cookie_decode(c.type, *M, ckey, mkey, ck, back, why), what + ":reference-node-rejects-cookie", at + ": " + why);
            V_CHECK(back == plain, what + ":reference-node-reads-other-content", at + " got " + vr::show(back, 60));
            std::string made = ref_aes_cookie_encode(c.type, *M, ckey, mkey, c.block0, c.iv, plain);
            back = "stale";
            V_CHECK(enc->decrypt(made, back), what + ":rejects-cookie-of-reference-node", at);
            V_CHECK(back == plain, what + ":misreads-cookie-of-reference-node", at + " got " + vr::show(back, 60));
        }
        back = "stale";
        V_CHECK(enc->decrypt(ck, back) && back == plain, what + ":own-cookie-not-read-back", at);
        back = "stale";
        V_CHECK(other->decrypt(ck, back) && back == plain, what + ":second-object-does-not-read-cookie", at);
    }
    if (c.plains.size() > 1) VR.cls("cookie.object_reused");
    { vr::CaseWriter w; c.encode(w); VR.nontrivial(vr::fnv(w.str(), 163)); }
    if (VR.want_sample()) VR.sample(what + " " + std::to_string(c.plains.size()) + " cookies decoded by the reference node and back");
    return ok();
}

// ---- key parsing -------------------------------------------------------------------------------------------------
struct YCase {
    int via = 0;                // 0 key(std::string) 1 set_hex(ptr,len) 2 key(char const*) 3 read_from_file
    std::string text, ws;
    void encode(vr::CaseWriter &w) const { w.i(via).s(text).s(ws); }
    static YCase decode(vr::CaseReader &r) { YCase c; c.via = (int)r.i() & 3; c.text = r.s(); c.ws = r.s(); return c; }
};
static int hexv(char ch) { if (ch >= '0' && ch <= '9') return ch - '0'; if (ch >= 'a' && ch <= 'f') return ch - 'a' + 10; if (ch >= 'A' && ch <= 'F') return ch - 'A' + 10; return -1; }
static Outcome p_key(YCase const &c) {
    VR.eval();
    int via0 = c.via;
    if (via0 == 2 && c.text.find('\0') != std::string::npos) via0 = 1;
    // what the parser is given: for a file, the content without its trailing blanks (documented by tests/sample_key.txt and real key files)
    std::string eff = c.text;
    if (via0 == 3) { eff += c.ws; while (!eff.empty() && strchr(" \n\r\t", eff[eff.size() - 1]) && eff[eff.size() - 1]) eff.erase(eff.size() - 1); }
    bool valid = eff.size() % 2 == 0; std::string ref;
    for (char ch : eff) if (hexv(ch) < 0) valid = false;
    if (valid) for (size_t i = 0; i < eff.size(); i += 2) ref += char(hexv(eff[i]) * 16 + hexv(eff[i + 1]));
    int via = via0;
    for (char ch : c.ws) if (!strchr(" \n\r\t", ch) || !ch) { VR.cls("key.malformed_case_skipped"); return ok(); }
    cr::key k(std::string("00ff")); bool thrown = false; std::string ex;
    try {
        if (via == 0) k = cr::key(c.text);
        else if (via == 1) { Exact e(c.text); k.set_hex((char const *)e.p.get(), e.n); }
        else if (via == 2) k = cr::key(c.text.c_str());
        else {
            std::string path = vr::env("VERIF_SCRATCH", ".") + "/c16_key_" + std::to_string(getpid()) + ".txt";
            vr::write_file(path, c.text + c.ws);
            try { k.read_from_file(path); } catch (...) { unlink(path.c_str()); throw; }
            unlink(path.c_str());
        }
    } catch (std::exception const &e) { thrown = true; ex = e.what(); }
    std::string at = "via=" + std::to_string(via) + " text=" + vr::show(c.text, 80) + " ws=" + vr::show(c.ws, 20);
    if (via == 3 && eff.empty()) {      // empty / blank-only file: the header does not say; only "no garbage key"
        VR.cls("key.file_blank");
        if (!thrown) V_CHECK(k.size() == 0, "key:blank-file-yields-key", at);
        return ok();
    }
    if (!valid) {
        VR.cls(eff.size() % 2 ? "key.invalid_odd_length" : "key.invalid_character");
        V_CHECK(thrown, "key:invalid-hex-accepted", at + " -> key of " + std::to_string(k.size()) + " bytes " + vr::hex(std::string(k.data(), k.size())));
    } else {
        VR.cls(via == 3 ? "key.valid_file" : "key.valid_string");
        bool up = false, lo = false; for (char ch : eff) { if (ch >= 'A' && ch <= 'F') up = true; if (ch >= 'a' && ch <= 'f') lo = true; }
        if (up && lo) VR.cls("key.mixed_case");
        V_CHECK(!thrown, "key:valid-hex-rejected", at + " exception: " + ex);
        V_CHECK(k.data() != 0, "key:data-null", at);
        V_CHECK(std::string(k.data(), k.size()) == ref, "key:hex-decoded-wrong", at + " -> " + vr::hex(std::string(k.data(), k.size())) + " expected " + vr::hex(ref));
        cr::key k2(k), k3; k3 = k2;
        V_CHECK(std::string(k3.data(), k3.size()) == ref, "key:copy-differs", at);
    }
    VR.nontrivial(vr::fnv(c.text + "|" + c.ws, 164 + via));
    if (VR.want_sample()) VR.sample("key " + at + (valid ? " -> " + std::to_string(ref.size()) + " bytes" : " -> rejected"));
    return ok();
}

// ---- generators ----------------------------------------------------------------------------------------------------
static std::string gen_bytes(int n) { auto v = *rc::gen::container<std::vector<unsigned char>>((size_t)n, rc::gen::arbitrary<unsigned char>()); return std::string(v.begin(), v.end()); }
static Msg gen_msg(unsigned bs, long maxlong, bool with_cuts) {
    Msg m;
    int sel = *vr::range<int>(0, 20);
    long len;
    if (sel < 8) { long k = *vr::range<long>(1, 4096 / bs + 2); len = k * bs + *vr::range<long>(-(long)(bs / 8) - 2, 3); }
    else if (sel < 13) len = *vr::range<long>(0, 301);
    else if (sel < 18) len = *vr::range<long>(301, 4098);
    else len = *vr::range<long>(4098, maxlong + 1);
    if (len < 0) len = 0;
    if (*vr::range<int>(0, 10) == 0) len = 0;          // empty messages matter on a re-used object (with and without an append call)
    int ck = *vr::range<int>(0, 10);
    if (len <= 256 && ck < 5) { m.kind = 0; m.lit = gen_bytes((int)len); }
    else if (ck < 8) { m.kind = 1; m.len = len; m.seed = *rc::gen::arbitrary<unsigned long long>(); }
    else { m.kind = 2; m.len = len; m.seed = *rc::gen::elementOf(std::vector<unsigned long long>{0x00, 0xff, 0x80, 0x36, 0x5c, 0x61}); }
    if (with_cuts) {
        int nc = *rc::gen::weightedElement<int>({{4, 0}, {3, 1}, {3, 2}, {2, 3}, {1, 4}, {1, 5}, {1, 6}, {1, 12}});
        for (int i = 0; i < nc; i++) {
            long p;
            if (*vr::range<int>(0, 2)) p = *vr::range<long>(0, len / bs + 2) * bs + *vr::range<long>(-2, 3); else p = *vr::range<long>(0, len + 1);
            m.cuts.push_back(std::max(0L, std::min(p, len)));
        }
        std::sort(m.cuts.begin(), m.cuts.end());
        if (len == 0 && *vr::range<int>(0, 2)) m.cuts.assign(1, -1);      // readout() without any append()
    }
    return m;
}
static rc::Gen<HCase> gen_hcase(long maxlong) {
    return rc::gen::exec([maxlong]() {
        HCase c;
        c.algo = *vr::range<int>(0, 6);
        c.mode = *vr::range<int>(0, 3) ? 1 : 0;
        c.how = *vr::range<int>(0, 20);
        unsigned bs = ALGOS[c.algo].bs;
        if (c.mode) {
            int ks = *vr::range<int>(0, 11);
            int kl = ks < 3 ? *vr::range<int>(0, (int)bs) : ks < 5 ? (int)bs : ks < 8 ? *vr::range<int>((int)bs + 1, 3 * (int)bs + 2) : ks == 8 ? (int)bs + 1 : ks == 9 ? (int)bs - 1 : 0;
            c.key = gen_bytes(kl);
        }
        int n = *rc::gen::weightedElement<int>({{4, 1}, {3, 2}, {2, 3}, {1, 4}, {1, 5}});
        for (int i = 0; i < n; i++) c.msgs.push_back(gen_msg(bs, maxlong, true));
        return c;
    });
}
static rc::Gen<CCase> gen_ccase(int maxblocks) {
    return rc::gen::exec([maxblocks]() {
        CCase c;
        c.type = *vr::range<int>(0, 3); c.how = *vr::range<int>(0, 32);
        c.key = gen_bytes((int)KEYSZ[c.type]); c.iv = gen_bytes(16);
        int sel = *vr::range<int>(0, 10);
        long nb = sel < 3 ? *vr::range<long>(1, 5) : sel < 9 ? *vr::range<long>(1, 65) : *vr::range<long>(65, maxblocks + 1);
        if (nb <= 8 && *vr::range<int>(0, 2)) { c.plain.kind = 0; c.plain.lit = gen_bytes((int)nb * 16); }
        else { c.plain.kind = *vr::range<int>(0, 4) ? 1 : 2; c.plain.len = nb * 16; c.plain.seed = *rc::gen::arbitrary<unsigned long long>(); }
        int nc = *vr::range<int>(0, 5);
        for (int i = 0; i < nc; i++) c.plain.cuts.push_back(*vr::range<long>(0, nb + 1));
        std::sort(c.plain.cuts.begin(), c.plain.cuts.end());
        return c;
    });
}
static rc::Gen<RCase> gen_rcase() {
    return rc::gen::exec([]() {
        RCase c;
        c.type = *vr::range<int>(0, 3); c.how = *vr::range<int>(0, 16);
        c.dirs = *rc::gen::weightedElement<int>({{8, 7}, {1, 1}, {1, 2}, {1, 4}, {1, 3}, {1, 6}});
        c.key = gen_bytes((int)KEYSZ[c.type]);
        int k = *rc::gen::weightedElement<int>({{1, 1}, {5, 2}, {4, 3}, {2, 4}, {1, 5}, {1, 6}});
        for (int i = 0; i < k; i++) {
            RStep st;
            st.op = i == 0 ? *rc::gen::weightedElement<int>({{3, 1}, {1, 2}}) : *rc::gen::weightedElement<int>({{3, 0}, {5, 1}, {2, 2}, {1, 3}, {1, 4}});
            st.iv = (i > 0 && *vr::range<int>(0, 8) == 0) ? c.steps[i - 1].iv : gen_bytes(16);     // sometimes the same IV again
            st.junk = gen_bytes(16);
            int sel = *vr::range<int>(0, 10);
            long nb = sel < 6 ? *vr::range<long>(1, 5) : sel < 9 ? *vr::range<long>(1, 17) : *vr::range<long>(17, 65);
            if (nb <= 4 && *vr::range<int>(0, 2)) { st.plain.kind = 0; st.plain.lit = gen_bytes((int)nb * 16); }
            else { st.plain.kind = *vr::range<int>(0, 4) ? 1 : 2; st.plain.len = nb * 16; st.plain.seed = *rc::gen::arbitrary<unsigned long long>(); }
            int nc = *rc::gen::weightedElement<int>({{4, 0}, {3, 1}, {2, 2}, {1, 3}});
            for (int j = 0; j < nc; j++) st.plain.cuts.push_back(*vr::range<long>(0, nb + 1));
            std::sort(st.plain.cuts.begin(), st.plain.cuts.end());
            c.steps.push_back(st);
        }
        return c;
    });
}
static rc::Gen<KCase> gen_kcase() {
    return rc::gen::exec([]() {
        KCase c;
        c.kind = *vr::range<int>(0, 3); c.algo = *vr::range<int>(0, 6); c.type = *vr::range<int>(0, 3); c.name = *vr::range<int>(0, 6);
        unsigned bs = ALGOS[c.algo].bs, cks = KEYSZ[c.type];
        int ks = *vr::range<int>(0, 6);
        c.mac_key = gen_bytes(ks < 2 ? *vr::range<int>(16, (int)bs) : ks == 2 ? (int)bs : ks == 3 ? (int)bs + 1 : ks == 4 ? (int)ALGOS[c.algo].ds : *vr::range<int>((int)bs + 1, 3 * (int)bs));
        if (c.kind == 2) { int v = *vr::range<int>(0, 8); int l = v < 2 ? (int)cks + 20 : v == 2 ? (int)cks : v == 3 ? 32 : v == 4 ? 33 : v == 5 ? 64 : *vr::range<int>((int)cks, 200); if (l < (int)cks) l = (int)cks; c.cbc_key = gen_bytes(l); }
        else c.cbc_key = gen_bytes((int)cks);
        c.block0 = gen_bytes(16); c.iv = gen_bytes(16);
        int n = *rc::gen::weightedElement<int>({{3, 1}, {3, 2}, {2, 3}, {1, 5}});
        for (int i = 0; i < n; i++) {
            Msg m; int sel = *vr::range<int>(0, 10);
            long len = sel < 5 ? *vr::range<long>(0, 70) : sel < 9 ? *vr::range<long>(0, 600) : *vr::range<long>(600, 5000);
            if (len <= 256) { m.kind = 0; m.lit = gen_bytes((int)len); } else { m.kind = 1; m.len = len; m.seed = *rc::gen::arbitrary<unsigned long long>(); }
            c.plains.push_back(m);
        }
        return c;
    });
}
static rc::Gen<YCase> gen_ycase() {
    return rc::gen::exec([]() {
        YCase c;
        c.via = *vr::range<int>(0, 4);
        int n = *vr::range<int>(0, 40) * 2;
        auto hexd = rc::gen::elementOf(std::string("0123456789abcdefABCDEF"));
        auto v = *rc::gen::container<std::vector<char>>((size_t)n, hexd);
        c.text.assign(v.begin(), v.end());
        int br = *vr::range<int>(0, 10);
        if (br == 0 && n > 0) c.text.erase(*vr::range<size_t>(0, c.text.size()), 1);                                             // odd length
        else if (br == 1) c.text.insert(*vr::range<size_t>(0, c.text.size() + 1), 1, *rc::gen::elementOf(std::string("gG@`/:xX -+\n\t\0", 14)));  // (odd too)
        else if (br == 2 && n > 0) c.text[*vr::range<size_t>(0, c.text.size())] = *rc::gen::elementOf(std::string("gG@`/:xX -+\n\t\0\xe9", 15)); // even length, bad digit
        else if (br == 3 && n > 0) c.text[*vr::range<size_t>(0, c.text.size())] = (char)*rc::gen::arbitrary<unsigned char>();
        if (c.via == 3) { auto w = *rc::gen::container<std::vector<char>>((size_t)*vr::range<int>(0, 5), rc::gen::elementOf(std::string(" \n\r\t"))); c.ws.assign(w.begin(), w.end()); }
        return c;
    });
}

// ---- the seed-independent grid ----------------------------------------------------------------------------------------
struct Shard { long stride, offset, idx = 0; bool good = true; bool mine() { return (idx++ % stride) == offset; } };
static void grid(Shard &sh) {
    // G1: every length 0..4096, every algorithm; second message through the same object cut at the last block boundary
    for (int a = 0; a < 6 && sh.good; a++) for (long L = 0; L <= 4096 && sh.good; L++) {
        if (!sh.mine()) continue;
        HCase c; c.algo = a; c.mode = 0; c.how = (int)(L % 4);
        c.msgs.push_back(prng_msg(L, 1000 + L)); Msg m2 = prng_msg(L, 77 + L); m2.cuts.push_back(L / ALGOS[a].bs * ALGOS[a].bs); if (L > 3) m2.cuts.push_back(L - 3); c.msgs.push_back(m2);
        VR.cls("grid.G1_all_lengths_0..4096");
        sh.good = vr::run_direct("hash", c, p_hash);
    }
    // G2: every pair of cut positions of a message of 2 blocks + 2 bytes (3 appends)
    for (int a = 0; a < 6 && sh.good; a++) { long L = 2 * ALGOS[a].bs + 2;
        for (long i = 0; i <= L && sh.good; i++) for (long j = i; j <= L && sh.good; j++) {
            if (!sh.mine()) continue;
            HCase c; c.algo = a; c.mode = (i + j) % 5 == 0; c.how = 0; if (c.mode) c.key = prng_msg(20, 5).bytes();
            Msg m = prng_msg(L, 9000 + a); m.cuts.push_back(i); m.cuts.push_back(j); c.msgs.push_back(m);
            VR.cls("grid.G2_all_cut_pairs");
            sh.good = vr::run_direct("hash", c, p_hash);
        } }
    // G3: every way of cutting a short message (0..10 bytes) into at most 6 non-empty appends
    for (int a = 0; a < 6 && sh.good; a++) for (long L = 0; L <= 10 && sh.good; L++) {
        long npos = L > 0 ? L - 1 : 0;
        for (unsigned mask = 0; mask < (1u << npos) && sh.good; mask++) {
            if (__builtin_popcount(mask) > 5) continue;
            if (!sh.mine()) continue;
            HCase c; c.algo = a; c.mode = mask & 1; c.how = 1; if (c.mode) c.key = prng_msg(ALGOS[a].bs + 3, 6).bytes();
            Msg m = prng_msg(L, 4000 + L); for (long p = 0; p < npos; p++) if (mask & (1u << p)) m.cuts.push_back(p + 1); c.msgs.push_back(m);
            VR.cls("grid.G3_all_compositions_short");
            sh.good = vr::run_direct("hash", c, p_hash);
        } }
    // G4: HMAC, every key length 0..3 blocks+1, five messages at block-boundary lengths through one object
    for (int a = 0; a < 6 && sh.good; a++) { long bs = ALGOS[a].bs;
        for (long K = 0; K <= 3 * bs + 1 && sh.good; K++) for (int v = 0; v < 3 && sh.good; v++) {
            if (!sh.mine()) continue;
            HCase c; c.algo = a; c.mode = 1; c.how = (int)((K + v) % 5); c.key = prng_msg(K, 31 * K + v).bytes();
            long lens[3][5] = {{0, bs - 9, bs - 8, bs, bs + 1}, {1, 2 * bs - 9, 2 * bs - 1, 2 * bs, 3 * bs - 8}, {bs - 1, bs - 17, bs - 16, 5 * bs + 7, 0}};
            for (int i = 0; i < 5; i++) { Msg m = prng_msg(lens[v][i], K * 5 + i); if (i & 1) m.cuts.push_back(bs - 1); c.msgs.push_back(m); }
            VR.cls("grid.G4_hmac_all_key_lengths");
            sh.good = vr::run_direct("hash", c, p_hash);
        } }
    // G5: HMAC, every message length 0..1024 with a short key, a key of exactly one block and one byte more
    for (int a = 0; a < 6 && sh.good; a++) for (long L = 0; L <= 1024 && sh.good; L++) for (int v = 0; v < 3 && sh.good; v++) {
        if (!sh.mine()) continue;
        HCase c; c.algo = a; c.mode = 1; c.how = (int)(L % 5); c.key = prng_msg(v == 0 ? 20 : ALGOS[a].bs + v - 1, 17 + v).bytes();
        c.msgs.push_back(prng_msg(L, 555 + L)); Msg m2; m2.kind = 2; m2.len = L; m2.seed = 0xff; c.msgs.push_back(m2);
        VR.cls("grid.G5_hmac_all_lengths_0..1024");
        sh.good = vr::run_direct("hash", c, p_hash);
    }
    // G8: one object, four messages; an empty message fed without any append() call at every position, every algorithm,
    //     digest and HMAC (short, block-sized and long key)
    for (int a = 0; a < 6 && sh.good; a++) for (int mode = 0; mode < 2 && sh.good; mode++) for (int kv = 0; kv < (mode ? 3 : 1) && sh.good; kv++)
        for (unsigned mask = 1; mask < 16 && sh.good; mask++) for (int how = 0; how < 3 && sh.good; how++) {
            if (!sh.mine()) continue;
            HCase c; c.algo = a; c.mode = mode; c.how = how; if (mode) c.key = prng_msg(kv == 0 ? 16 : kv == 1 ? ALGOS[a].bs : 2 * ALGOS[a].bs + 5, 90 + kv).bytes();
            for (int i = 0; i < 4; i++) { Msg m = prng_msg((mask >> i) & 1 ? 0 : (long)(ALGOS[a].bs * i + 7 * i + 1), 300 + i); if ((mask >> i) & 1) m.cuts.assign(1, -1); c.msgs.push_back(m); }
            VR.cls("grid.G8_readout_without_append");
            sh.good = vr::run_direct("hash", c, p_hash);
        }
    // G6: CBC, every block count 1..64, three key sizes, every way of creating the object
    for (int t = 0; t < 3 && sh.good; t++) for (long nb = 1; nb <= 64 && sh.good; nb++) for (int how = 0; how < 16 && sh.good; how++) {
        if (!sh.mine()) continue;
        CCase c; c.type = t; c.how = how; c.key = prng_msg(KEYSZ[t], 100 * nb + how).bytes(); c.iv = prng_msg(16, 3 * nb + how).bytes();
        c.plain = prng_msg(nb * 16, nb + 64 * how); if (nb > 1) { c.plain.cuts.push_back(1); c.plain.cuts.push_back(nb / 2); }
        VR.cls("grid.G6_cbc_all_block_counts");
        sh.good = vr::run_direct("cbc", c, p_cbc);
    }
    // G9: cbc objects used for k = 2..4 messages: key size x way of creating the object x which later message is preceded by set_iv
    // (once or twice; the others continue without) x which object lives through it (encrypt-only / decrypt-only / one for both)
    for (int t = 0; t < 3 && sh.good; t++) for (int hv = 0; hv < 4 && sh.good; hv++) for (int k = 2; k <= 4 && sh.good; k++) for (int w = 1; w < k && sh.good; w++)
        for (int op = 1; op <= 2 && sh.good; op++) for (int dir = 1; dir <= 4 && sh.good; dir <<= 1) {
            if (!sh.mine()) continue;
            RCase c; c.type = t; c.how = (hv & 1 ? 3 : 0) | (hv & 2 ? 8 : 0); c.dirs = dir; c.key = prng_msg(KEYSZ[t], 7000 + 10 * k + w).bytes();
            for (int i = 0; i < k; i++) {
                RStep st; st.op = i == 0 ? 1 : i == w ? op : 0; st.iv = prng_msg(16, 7100 + 16 * t + i).bytes(); st.junk = prng_msg(16, 7200 + i).bytes();
                st.plain = prng_msg(16 * (1 + (i + w + k) % 3), 7300 + i + 8 * w); if (st.plain.len > 16 && (i & 1)) st.plain.cuts.push_back(1);
                c.steps.push_back(st);
            }
            VR.cls("grid.G9_cbc_object_reuse_with_set_iv");
            sh.good = vr::run_direct("cbcreuse", c, p_cbc_reuse);
        }
    // G7: hex keys: every pair of characters (valid and invalid digits in either position)
    for (int x = 0; x < 256 && sh.good; x++) for (int y = 0; y < 256 && sh.good; y += (hexv((char)x) >= 0 ? 1 : 5)) {
        if (!sh.mine()) continue;
        YCase c; c.via = ((x + y) % 4 == 2) ? 1 : (x + y) % 4; c.text = std::string("a0") + char(x) + char(y); if (c.via == 3) c.ws = "\r\n";
        VR.cls("grid.G7_hex_digit_pairs");
        sh.good = vr::run_direct("key", c, p_key);
    }
}

// long messages: (a few MiB) through md5 / sha1 / sha2 and HMAC in large and odd-sized appends (thorough tier and a short version in quick)
static bool big(Shard &sh, long mib) {
    for (int a = 0; a < 6 && sh.good; a++) for (int v = 0; v < 4 && sh.good; v++) {
        if (!sh.mine()) continue;
        HCase c; c.algo = a; c.mode = v & 1; c.how = v; if (c.mode) c.key = prng_msg(200, v).bytes();
        long L = mib * (1L << 20) + (v * 37 + a * 11) % 131 - 64;
        Msg m = prng_msg(L, 42 + a + 10 * v); m.cuts = {1, 65, 4096 + 63, (1L << 16) + 1, L / 2, L - 64, L - 1}; std::sort(m.cuts.begin(), m.cuts.end());
        c.msgs.push_back(m); c.msgs.push_back(prng_msg(119, 1));
        VR.cls("big.multi_MiB_message");
        sh.good = vr::run_direct("hash", c, p_hash);
    }
    return sh.good;
}

int main(int argc, char **argv) {
    std::vector<std::unique_ptr<vr::PropBase>> props;
    long maxlong = vr::thorough() ? (1L << 20) : (1L << 16);
    props.push_back(vr::prop<HCase>("hash", gen_hcase(maxlong), p_hash));
    props.push_back(vr::prop<CCase>("cbc", gen_ccase(vr::thorough() ? 4096 : 512), p_cbc));
    props.push_back(vr::prop<KCase>("cookie", gen_kcase(), p_cookie));
    props.push_back(vr::prop<YCase>("key", gen_ycase(), p_key));
    props.push_back(vr::prop<RCase>("cbcreuse", gen_rcase(), p_cbc_reuse));
    props.push_back(vr::prop<UCase>("huge", rc::gen::map(vr::range<int>(0, 6), [](int i) { return huge_case(i); }), p_huge));
    if (vr::replay_arg(argc, argv)) return vr::rc_main(argc, argv, props);
    vr::install_crash_hooks();
    std::string mode = vr::env("C16_MODE", "all");
    VR.max_samples = (size_t)vr::envl("C16_SAMPLES", 6);
    if (mode == "known") {  // regression cases of recorded findings (run once known_findings.json lists them)
        std::string which = vr::env("C16_KNOWN", "sha1len");
        VR.disjoint = true;
        bool good;
        if (which == "cbcrekey") { CCase c; c.type = 1; c.how = 32; c.key = prng_msg(24, 1).bytes(); c.iv = prng_msg(16, 2).bytes(); c.plain = prng_msg(48, 3); good = vr::run_direct("cbc", c, p_cbc); }
        else good = vr::run_direct("huge", huge_case(6), p_huge);
        VR.finish();
        return good ? 0 : 1;
    }
    if (mode == "huge") {   // one streamed multi-hundred-MiB case per process (index 0..5)
        int idx = (int)vr::envl("C16_HUGE_IDX", 0);
        VR.disjoint = true;
        if (idx == 2) VR.excl(std::string(SHA1_LEN_SIG) + " (sha1 messages >= 2^29 bytes are not generated; regression case = mode known/sha1len)");
        bool good = vr::run_direct("huge", huge_case(idx), p_huge);
        VR.finish();
        return good ? 0 : 1;
    }
    Shard sh; sh.stride = vr::envl("C16_STRIDE", 1); sh.offset = vr::envl("C16_OFFSET", 0);
    if (mode == "grid" || mode == "all") {
        VR.disjoint = (mode == "grid");
        grid(sh);
        if (sh.good) big(sh, vr::envl("C16_BIG_MIB", 1));
        VR.flush();
        if (py_file()) fflush(py_file());
        if (mode == "grid") { VR.finish(); return sh.good ? 0 : 1; }
    }
    props.pop_back();    // "huge" is run by index only (mode huge) and by --replay
    VR.excl(std::string(CBC_REKEY_SIG) + " (set_key is never called twice on one cbc object; regression case = mode known/cbcrekey)");
    int r = vr::rc_main(argc, argv, props);
    if (py_file()) fflush(py_file());
    return (sh.good && r == 0) ? 0 : 1;
}
