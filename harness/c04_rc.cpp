// C04 — rapidcheck harness: an HTML grammar over the vocabulary of the generated rule set and its near misses (wrong case,
// duplicated / unknown attributes, unterminated constructs, mixed quotes, hostile URIs, entities, comments, invalid bytes),
// followed by a few byte level mutations.  The document is built from a "choice tape" of 16 bit numbers drawn by rapidcheck,
// so shrinking the tape (shorter, smaller numbers) shrinks the document; small numbers select the simple alternatives.
// The saved case is (configuration bytes, text bytes) — replay does not involve the tape.  Oracle: c04_oracle.h.
#include "vrc.h"
#include "c04_oracle.h"

using namespace c04;

struct XCase {
    std::string cfg, text;
    void encode(vr::CaseWriter &w) const { w.s(cfg).s(text); }
    static XCase decode(vr::CaseReader &r) { XCase c; c.cfg = r.s(); c.text = r.s(); return c; }
};

struct Tape {
    std::vector<uint16_t> const &v; size_t p = 0;
    explicit Tape(std::vector<uint16_t> const &t) : v(t) {}
    unsigned next(unsigned n) { if (p >= v.size() || n == 0) return 0; return v[p++] % n; }
    bool more() const { return p < v.size(); }
    template <size_t N> const char *pick(const char *const (&a)[N]) { return a[next(N)]; }
};

// ---- configuration: biased towards permissive, "natural" rule sets so that valid constructs survive often
static std::string gen_cfg(Tape &t) {
    std::string b(CFG_LEN, '\0');
    b[0] = (char)t.next(256);
    static const int ENC_W[] = {0, 0, 0, 1, 1, 1, 2, 3, 4, 5, 6, 7, 8, 9, 10, 1};
    b[1] = (char)(ENC_W[t.next(16)] | (t.next(4) == 0 ? (t.next(NREPL) << 4) : 0));
    static const int NATURAL_TAG[NTAG] = {T_PAIR, T_PAIR, T_PAIR, T_ANY, T_ALONE, T_ALONE, T_ANY, T_PAIR};
    unsigned tk = 0;
    for (int i = 0; i < NTAG; i++) { unsigned r = t.next(8); int k = r < 4 ? NATURAL_TAG[i] : r == 4 ? T_NONE : (int)(r - 4); tk |= (unsigned)k << (2 * i); }
    b[2] = (char)(tk & 255); b[3] = (char)(tk >> 8);
    b[4] = (char)(t.next(3) == 0 ? t.next(64) : 0x03 | t.next(16));
    static const int NATURAL_ATTR[NATTR][3] = {{K_URI_DEF, K_URI_LIST, K_ABS_LIST}, {K_URI_LIST, K_REL, K_ABS_DEF}, {K_RE_ANY, K_RE_ANY, K_RE_WORD}, {K_RE_ANY, K_RE_ANY, K_RE_WORD},
                                               {K_RE_WORD, K_RE_WORD, K_RE_HEX}, {K_INT, K_INT, K_RE_HEX}, {K_BOOL, K_BOOL, K_BOOL}, {K_RE_ALIGN, K_RE_ALIGN, K_RE_ANY}};
    for (int j = 0; j < NATTR; j++) {
        unsigned r = t.next(8);
        b[5 + 2 * j] = (char)(r < 5 ? NATURAL_ATTR[j][r % 3] : r == 5 ? K_NONE : t.next(K_N));
        b[6 + 2 * j] = (char)(t.next(4) == 0 ? t.next(256) : 0xFF);
    }
    return b;
}

// ---- document grammar
static const char *const TEXTS[] = {"", "x", "hello world", " ", "a b", "1 < 2", "it's", "\"q\"", "\xd7\xa9\xd7\x9c\xd7\x95\xd7\x9d", "line\nbreak", "t\tab", "a=b;c", "\xe2\x82\xac", "-- ", "//",
                                    // ill-formed UTF-8: overlong '<', overlong NUL, surrogate, beyond U+10FFFF, truncated, C1 control, lone continuation
                                    "\xe0\x80\xbc", "\xf0\x80\x80\xbc", "\xc0\xbc", "\xc0\x80", "\xed\xa0\x80", "\xf4\x90\x80\x80", "\xe2\x82", "\xc2\x85", "\x80", "\xef\xbf\xbe",
                                    // bytes at the edges of the single byte tables
                                    "\xbf", "\xde", "\xdf", "\xa1", "\xfb", "\xfd", "\x98", "\x81", "\x8d", "\x9d", "\xae", "\xd2", "\x7f", "\x1f", "\x0b"};
static const char *const FOREIGN_TAGS[] = {"script", "style", "iframe", "B", "A", "IMG", "Br", "object", "svg", "_x", "b1", "h2", "inputx", "im"};
static const char *const FOREIGN_ATTRS[] = {"onclick", "onerror", "HREF", "Src", "xmlns", "id", "Checked", "styles", "hre", "data"};
static const char *const ENTITIES[] = {"&amp;", "&lt;", "&gt;", "&quot;", "&nbsp;", "&copy;", "&or;", "&#65;", "&#x3c;", "&#X3C;", "&#10;", "&#x10FFFF;", "&foo;", "&Amp;", "&amp", "&#0;", "&#8;", "&#x1F;", "&#127;", "&#x9f;", "&#xD800;",
                                       "&#xDBFF;", "&#xDC00;", "&#xFFFE;", "&#xFFFF;", "&#x110000;", "&#99999999999999999999;", "&#x10000003C;", "&#4294967361;", "&#18446744073709551681;", "&#x0000000000000041;", "&#000000000065;", "&#X1000000000000003c;", "&#2147483713;", "&#9223372036854775873;", "&;", "&#;", "&#x;", "&#xg;", "&#-5;", "& ", "&", "&a b;", "&#65", "&apos;", "&#39;"};
static const char *const COMMENTS[] = {"<!-- c -->", "<!---->", "<!-- - -->", "<!-- a b -->", "<!-- <b> -->", "<!-- > -->", "<!-- & -->", "<!-- -- -->", "<!-- ---> ", "<!-- x", "<!-- x --", "<!-->", "<!--->", "<!-- a -- >", "<!- - x -->",
                                       "<!--[if IE]><script>alert(1)</script><![endif]-->", "<!-- a --!>", "<! -- a -->", "<!--\n-->"};
static const char *const ATTACKS[] = {"<script>alert(1)</script>", "<img src=x onerror=alert(1)>", "<", "<<", ">", ">>", "<b", "</", "</>", "< b>", "<b/ >", "<b / >", "</b/>", "</ b>", "<a\thref='x'>", "<img/src='x'/>",
                                      "<![CDATA[x]]>", "<?xml version='1.0'?>", "<!DOCTYPE html>", "<%", "<b\n>", "<b >", "</b >", "</b\n>", "<b/>", "<br>", "<br/>", "<br />", "<p>", "</p>", "<input checked>", "<input checked >",
                                      "<input checked/>", "<input checked='checked'/>", "<a href='x'title='y'>", "<a href = 'x'>", "<a href=x>", "<a href='x\">", "<a href=\"x'>", "<a href='a>b'>", "<a title='a<b'>", "<b><i></b></i>",
                                      "<b></i></b>", "</b><b>", "<p><p></p>", "<a_b>", "<a-b>", "<a:b>", "<1>", "<b\x00>", "<\x00""b>", "<b \x0c>", "\"", "'", ";", "=", "<a href=\"http://x/\" href=\"javascript:alert(1)\">", "<a href='http://x/' HREF='ftp://y/'>"};
static const char *const URIS[] = {"http://example.com/", "https://a.b/c?d=e&amp;f=g#h", "ftp://x/y", "mailto:a@b.c", "/rel/path", "rel.html", "#frag", "?q=1", "//host/path", "", "javascript:alert(1)", "JAVASCRIPT:alert(1)",
                                   "JavaScript:alert(1)", "jav&#x61;script:alert(1)", "java\tscript:alert(1)", "java\nscript:alert(1)", " javascript:alert(1)", "\x01javascript:alert(1)", "javascript&#58;alert(1)", "javascript&colon;alert(1)",
                                   "data:text/html,x", "data:text/html;base64,PHNjcmlwdD4", "vbscript:msgbox(1)", "x:y", "http:", "http", "HTTP://x/", "Http://x/", "http://a/b c", "http://a/%zz", "http://a/%4", "http://a/%41%", "http://u:p@h:80/p",
                                   "1x:80/p", "-a:b@c", "http://a/&quot;onmouseover=&quot;x", "http://a/'x'", "http://a/&apos;", "http://a/&#39;", "http://a/&lt;", "http://a/&", "http://a/&amp", "http://a/\\b", "http://[::1]/", "http://a/\xd7\xa9",
                                   "http://a/^", "http://a/`", "http://a/{}", "http://a/|", "feed:javascript:alert(1)", "http+x://a", "a.b-c+d:e", "https://a/b#c#d", "mailto:a@b?subject=x%20y", "ftp://u@h", "news:comp.lang", "nntp://h/g/1",
                                   "javascript:", "javascript:/", "javascript://%0aalert(1)", "/a:b", "./a:b", "a/b:c", "?a:b", "#a:b", "http://a\x00", "ht\x00tp://a"};
static const char *const INTS[] = {"1", "0", "-5", "007", "12345678901234567890", "", "-", "1.5", "1e3", "12px", " 1", "1 ", "+1", "--1", "0x10", "\xd9\xa1"};
static const char *const WORDS[] = {"foo", "foo_1", "A9", "_", "a b", "", "x-y", "x.y", "\xc3\xa9", "a\n", "a\x00"};
static const char *const ALIGNS[] = {"text-align:left", "text-align:center", "text-align:right", "text-align:justify", "text-align:left;", "Text-align:left", "width:expression(alert(1))", " text-align:left", "text-align:left\n"};
static const char *const HEXES[] = {"ff00Aa", "0", "xyz", "", "ff ", "0x1"};
static const char *const ANYS[] = {"x", "", "a b c", "x &amp; y", "a&lt;b", "&gt;", "&quot;", "&apos;", "&#39;", "&#x27;", "&#X27;", "&#106;", "&#x6A;", "&nbsp;", "&foo;", "a&b", "&", "&amp", "&#39", "<", "a>b", "a<b", "line1\nline2", "a\rb",
                                   "a\x00""b", "it's", "say \"hi\"", "\xd7\xa9", "\xff", "\xc0\xbc", "&#x27", "&amp;amp;", "&AMP;", "&Lt;"};

struct Builder {
    Tape &t; Cfg const &c; std::string out;
    Builder(Tape &tp, Cfg const &cf) : t(tp), c(cf) {}

    std::string case_variant(std::string s) {
        unsigned r = t.next(12);
        if (r == 10) for (auto &ch : s) ch = toupper(ch);
        if (r == 11 && !s.empty()) s[0] = toupper(s[0]);
        return s;
    }
    int pick_tag() {                       // prefers tags the rule set allows
        for (int k = 0; k < 3; k++) { int i = t.next(NTAG); if (c.tagkind[i]) return i; }
        return t.next(NTAG);
    }
    std::string value_for(int kind) {
        switch (kind) {
        case K_BOOL: return "";    // handled by caller
        case K_INT: return t.pick(INTS);
        case K_RE_WORD: return t.pick(WORDS);
        case K_RE_ALIGN: return t.pick(ALIGNS);
        case K_RE_HEX: return t.pick(HEXES);
        case K_URI_DEF: case K_URI_LIST: case K_REL: case K_ABS_LIST: case K_ABS_DEF: return t.pick(URIS);
        default: return t.pick(ANYS);
        }
    }
    // numeric character reference: {dec, hex in both cases} x leading zeros x value class (legal / illegal code points, k*2^32+cp,
    // k*2^64+cp, 2^31+cp, 2^63+cp, word-size edges, 20..40 digit numbers); zero tape values give the plain "&#65;"
    std::string numeric_ref() {
        unsigned form = t.next(8); form = form < 3 ? NF_DEC : form - 2;
        unsigned z = t.next(12); unsigned zeros = z < 11 ? NUM_ZEROS[z] : t.next(64);
        unsigned vc = t.next(24); unsigned vclass = vc < 6 ? NV_CP : vc < 8 ? NV_2_32_CP : (vc - 6) % NV_N;
        unsigned long cp = NUM_CPS[t.next(N_NUM_CPS + 6) % N_NUM_CPS];
        if (t.next(8) == 7) cp = t.next(65536) * 17u % 0x110000;
        unsigned long aux = t.next(65536);
        return make_numeric_ref(form, zeros, vclass, cp, aux);
    }
    void attr(int tag) {
        unsigned form = t.next(16);
        int ai = t.next(NATTR);
        for (int k = 0; k < 3 && !(c.attrkind[ai] && (c.attrtags[ai] & (1u << tag))); k++) ai = t.next(NATTR);
        std::string name = form == 15 ? std::string(t.pick(FOREIGN_ATTRS)) : case_variant(ATTRS[ai]);
        int kind = c.attrkind[ai];
        unsigned vr = t.next(10);
        std::string val;
        if (kind == K_BOOL && vr < 7) val = vr < 5 ? ATTRS[ai] : name;
        else if (vr < 8) val = value_for(kind);
        else val = value_for(K_NONE + (int)t.next(K_N));     // a value of some other language
        if (t.next(10) == 9) val.insert(t.next((unsigned)val.size() + 1), numeric_ref());   // numeric reference inside the value
        out += form == 14 ? "" : form == 13 ? "\n" : form == 12 ? "\t " : " ";
        if ((kind == K_BOOL && !c.xhtml && vr < 7) || form == 11) { out += name; return; }   // bare
        char q = t.next(4) == 0 ? '\'' : '"';
        if (val.find(q) != std::string::npos && t.next(8)) q = q == '"' ? '\'' : '"';
        switch (form) {
        case 10: out += name + "=" + val; break;                                   // unquoted
        case 9: out += name + " = " + q + val + q; break;
        case 8: out += name + "=" + q + val; break;                                // unterminated
        case 7: out += name + "=" + q + val + (q == '"' ? '\'' : '"'); break;      // mixed quotes
        default: out += name + "=" + q + val + q;
        }
    }
    void attrs(int tag) {
        unsigned n = t.next(6); n = n < 2 ? 0 : n < 4 ? 1 : n - 2;
        for (unsigned k = 0; k < n; k++) attr(tag);
        if (n && t.next(12) == 0) { size_t mark = out.size(); attr(tag); (void)mark; }   // extra, possibly a duplicate
    }
    void element(int depth) {
        int tag = pick_tag();
        std::string name = t.next(14) == 0 ? std::string(t.pick(FOREIGN_TAGS)) : case_variant(TAGS[tag]);
        int kind = c.tagkind[tag];
        unsigned shape = t.next(16);
        bool alone = kind == T_ALONE ? shape < 13 : kind == T_ANY ? shape < 6 : shape < 2;
        out += "<" + name; attrs(tag);
        if (alone) { unsigned f = t.next(8); out += f < 4 ? "/>" : f < 6 ? " />" : f == 6 ? ">" : "/ >"; return; }
        unsigned e = t.next(12);
        out += e == 11 ? " >" : ">";
        if (depth < 5) nodes(depth + 1, t.next(4));
        unsigned cl = t.next(16);
        if (cl < 11) out += "</" + name + ">";
        else if (cl == 11) ;                                                          // never closed
        else if (cl == 12) out += std::string("</") + TAGS[t.next(NTAG)] + ">";     // closes something else
        else if (cl == 13) out += "</" + name + " >";
        else if (cl == 14) { std::string u = name; for (auto &ch : u) ch = toupper(ch); out += "</" + u + ">"; }
        else out += "</" + name;                                                     // unterminated close tag
    }
    void raw_bytes() {
        unsigned n = 1 + t.next(4);
        static const char SP[] = "<>&;\"'/=!-# \0\x01\x7f\x80\x98\xa0\xc0\xc8\xd8\xdc\xe0\xed\xf0\xf4\xff\xfe";
        for (unsigned k = 0; k < n; k++) out += t.next(3) ? SP[t.next(sizeof SP - 1)] : (char)t.next(256);
    }
    void node(int depth) {
        switch (t.next(16)) {
        case 0: case 1: case 2: out += t.pick(TEXTS); break;
        case 3: case 4: case 5: case 6: case 7: element(depth); break;
        case 8: out += t.pick(ENTITIES); break;
        case 9: out += numeric_ref(); break;
        case 10: out += t.pick(COMMENTS); break;
        case 11: case 12: out += t.pick(ATTACKS); break;
        case 13: raw_bytes(); break;
        case 14: { int tag = pick_tag(); out += std::string("<") + TAGS[tag]; attr(tag); out += ">"; out += t.pick(TEXTS); out += std::string("</") + TAGS[tag] + ">"; break; }
        default: out += t.pick(TEXTS);
        }
    }
    void nodes(int depth, unsigned n) { for (unsigned k = 0; k < n && t.more(); k++) node(depth); }
    void mutate() {
        unsigned n = t.next(6); n = n < 3 ? 0 : n - 2;
        static const char SP[] = "<>&;\"'/=!-# \0\x80\xff";
        for (unsigned k = 0; k < n && !out.empty(); k++) {
            size_t pos = t.next((unsigned)out.size());
            switch (t.next(5)) {
            case 0: out.erase(pos, 1); break;
            case 1: out.insert(pos, 1, SP[t.next(sizeof SP - 1)]); break;
            case 2: out[pos] = SP[t.next(sizeof SP - 1)]; break;
            case 3: out.resize(pos); break;
            case 4: { size_t len = 1 + t.next(12); out.insert(pos, out.substr(pos, len)); break; }
            }
        }
    }
};

static XCase build_case(std::vector<uint16_t> const &tape) {
    Tape t(tape);
    XCase x;
    x.cfg = gen_cfg(t);
    Cfg c = Cfg::from_bytes(x.cfg);
    Builder b(t, c);
    while (t.more() && b.out.size() < 6000) b.node(0);
    b.mutate();
    x.text = b.out;
    return x;
}

static rc::Gen<XCase> gen_case() {
    auto tape = rc::gen::mapcat(rc::gen::weightedOneOf<int>({{5, vr::range<int>(30, 80)}, {4, vr::range<int>(80, 200)}, {1, vr::range<int>(200, 900)}}),
                                [](int n) { return rc::gen::container<std::vector<uint16_t>>(n, rc::gen::arbitrary<uint16_t>()); });
    return rc::gen::map(tape, [](std::vector<uint16_t> v) { return build_case(v); });
}

static vr::Outcome p_filter(XCase const &x) {
    VR.eval();
    Verdict v = check_case(x.cfg, x.text);
    if (!v.ok()) { counters().push(); return vr::bad(v.sig, v.msg); }
    return vr::ok();
}

// Deterministic grid over numeric character references (runs in the quick tier, unit g0):
// {dec, hex lower, hex upper} x leading zeros {0,1,8,30} x value {cp, 2^32+cp, 2^33+cp, 2^64+cp, 2^31-1, 2^31, 2^32-1, 2^32, 0x110000, 0x10FFFF}
// x cp in legal/illegal code points x {text, attribute value} x {xhtml, html} x {remove, escape} x numeric entities {on, off}
// x {otherwise valid document, document that needs filtering}.
static bool numeric_grid() {
    static const unsigned FORMS[] = {NF_DEC, NF_HEX_LOWER, NF_HEX_UPPER};
    static const unsigned ZEROS[] = {0, 1, 8, 30};
    static const unsigned WITH_CP[] = {NV_CP, NV_2_32_CP, NV_2_33_CP, NV_2_64_CP};
    static const unsigned CONSTS[] = {NV_2_31_M1, NV_2_31, NV_2_32_M1, NV_2_32, NV_110000, NV_10FFFF};
    static const unsigned long CPS[] = {0x41, 0x3C, 0x26, 0x27, 0x20AC, 0x10FFFF, 0x9, 0x0, 0x1F, 0xD800, 0xFFFE};
    std::vector<std::string> refs;
    for (unsigned f : FORMS) for (unsigned z : ZEROS) {
        for (unsigned v : WITH_CP) for (unsigned long cp : CPS) refs.push_back(make_numeric_ref(f, z, v, cp, 0));
        for (unsigned v : CONSTS) refs.push_back(make_numeric_ref(f, z, v, 0, 0));
    }
    bool good = true; long n = 0;
    for (int xhtml = 0; xhtml < 2; xhtml++) for (int esc = 0; esc < 2; esc++) for (int numeric = 0; numeric < 2; numeric++) {
        // natural tags; title = regex ".*" on every tag; comments off; no encoding
        unsigned char cf[CFG_LEN] = {(unsigned char)((xhtml ? 1 : 0) | (numeric ? 4 : 0) | (esc ? 8 : 0)), 0x00, 0xd5, 0x7a, 0x03, K_URI_DEF, 0xff, K_URI_LIST, 0xff, K_RE_ANY, 0xff,
                                     K_RE_ANY, 0xff, K_RE_WORD, 0xff, K_INT, 0xff, K_BOOL, 0xff, K_RE_ALIGN, 0xff};
        for (auto &r : refs) for (int where = 0; where < 2; where++) for (int dirty = 0; dirty < 2 && good; dirty++) {
            XCase x; x.cfg.assign((const char *)cf, CFG_LEN);
            x.text = where == 0 ? "a<b>" + r + "</b>z" : "<p title=\"" + r + "\">x</p>";
            if (dirty) x.text += "<x>";
            good = vr::run_direct("filter", x, p_filter); n++;
        }
    }
    VR.cls("numeric-grid-cases", n);
    counters().push();
    return good;
}

// hand-written regression inputs (the repository's own examples and the classes the grammar is supposed to reach); each is run
// under a handful of rule sets.  They keep the check honest if the random part should ever degrade.
static bool fixed_cases() {
    static const unsigned char CFGS[][CFG_LEN] = {
        // xhtml, remove, no encoding, natural tags, natural attrs for all tags
        {0x01, 0x00, 0xd5, 0x7a, 0x03, K_URI_DEF, 0xff, K_URI_LIST, 0xff, K_RE_ANY, 0xff, K_RE_ANY, 0xff, K_RE_WORD, 0xff, K_INT, 0xff, K_BOOL, 0xff, K_RE_ALIGN, 0xff},
        // html, escape, comments, numeric, UTF-8, '?' replacement
        {0x0e, 0x11, 0xd5, 0x7a, 0x03, K_URI_DEF, 0xff, K_ABS_LIST, 0xff, K_RE_ANY, 0xff, K_RE_ANY, 0xff, K_RE_WORD, 0xff, K_INT, 0xff, K_BOOL, 0xff, K_RE_ALIGN, 0xff},
        // xhtml, escape, comments+numeric+all entities, everything any_tag, relative uris
        {0x7f, 0x00, 0xff, 0xff, 0x3f, K_REL, 0xff, K_REL, 0xff, K_RE_ANY, 0xff, K_RE_ANY, 0xff, K_RE_ANY, 0xff, K_RE_HEX, 0xff, K_BOOL, 0xff, K_RE_ANY, 0xff},
        // html, remove, UTF-16LE
        {0x06, 0x08, 0xd5, 0x7a, 0x03, K_URI_DEF, 0xff, K_URI_LIST, 0xff, K_RE_ANY, 0xff, K_RE_ANY, 0xff, K_RE_WORD, 0xff, K_INT, 0xff, K_BOOL, 0xff, K_RE_ALIGN, 0xff},
    };
    bool good = true;
    auto run_all = [&](const char *const *list, size_t n) {
        for (auto &cf : CFGS) for (size_t i = 0; i < n && good; i++) {
            XCase x; x.cfg.assign((const char *)cf, CFG_LEN); x.text = list[i];
            good = vr::run_direct("filter", x, p_filter);
        }
    };
    run_all(ATTACKS, sizeof ATTACKS / sizeof *ATTACKS);
    run_all(COMMENTS, sizeof COMMENTS / sizeof *COMMENTS);
    run_all(ENTITIES, sizeof ENTITIES / sizeof *ENTITIES);
    for (auto &cf : CFGS) for (auto u : URIS) for (int q = 0; q < 2 && good; q++) {
        XCase x; x.cfg.assign((const char *)cf, CFG_LEN);
        x.text = std::string("<a href=") + (q ? "'" : "\"") + u + (q ? "'" : "\"") + ">x</a><img src=\"" + u + "\"/>";
        good = vr::run_direct("filter", x, p_filter);
    }
    for (auto &cf : CFGS) for (auto u : ANYS) for (int q = 0; q < 2 && good; q++) {
        XCase x; x.cfg.assign((const char *)cf, CFG_LEN);
        x.text = std::string("<p title=") + (q ? "'" : "\"") + u + (q ? "'" : "\"") + ">x</p><img alt=\"" + u + "\" />";
        good = vr::run_direct("filter", x, p_filter);
    }
    VR.cls("fixed-cases-run");
    counters().push();
    return good && numeric_grid();
}

// rc_main calls VR.finish() itself, so the batched class counters are pushed from an exit hook that re-flushes the report
static void final_push() { counters().push(); VR.flush(); }
static int run_props(int argc, char **argv, std::vector<std::unique_ptr<vr::PropBase>> &props) {
    (void)VR; (void)counters();
    atexit(final_push);
    return vr::rc_main(argc, argv, props);
}

int main(int argc, char **argv) {
    std::vector<std::unique_ptr<vr::PropBase>> props;
    props.push_back(vr::prop<XCase>("filter", gen_case(), p_filter));
    if (!vr::replay_arg(argc, argv)) {
        vr::install_crash_hooks();
        if (vr::envl("C04_FIXED", 0)) {
            bool good = fixed_cases();
            VR.flush();
            int r = run_props(argc, argv, props);
            return (good && r == 0) ? 0 : 1;
        }
    }
    return run_props(argc, argv, props);
}
