// C03 — the client receives exactly the bytes the application wrote, once and in order, behind exactly one header block,
// correctly framed for the protocol, for every pattern of write sizes / buffer sizes / flushes / I/O mode and however the socket
// accepts the data (short writes, would-block: --wrap=writev); a page copied to the cache is byte-identical to what was sent.
// A "writer" application executes a generated write program (sent as the POST body); the harness de-frames the reply with its own
// decoders (HTTP Content-Length / chunked / until-close, CGI over close, FastCGI records) and inflates gzip with zlib.
#define VIO_DEFINE_WRAPPERS
#include "vrc.h"
#include "vservice.h"
#include <cppcms/cache_interface.h>
#include <cppcms/cache_pool.h>
#include "base_cache.h"
#include <zlib.h>
#include <set>

using vr::Outcome; using vr::ok; using vr::bad;

struct Op {
    char k = 'W'; long n = 0; std::string a, b;
    // W n: write n body bytes   P: put one byte   F: flush   B n: setbuf(n)   A n: full_asynchronous_buffering(n)
    // Y: async_flush_output and continue in its completion handler   R n: (raw modes) write next n bytes of the header text
};
enum { FE_HTTP10 = 0, FE_HTTP11_CL = 1, FE_HTTP11_CHUNKED = 2, FE_SCGI = 3, FE_FCGI = 4 };
enum { M_NORMAL = 0, M_NOGZIP = 1, M_RAW = 2, M_ASYNC = 3, M_ASYNC_RAW = 4 };
struct Case {
    int fe = 0, mode = 0, id = 1; bool offer_gzip = false, cache = false, compressible = false, second = false;
    std::vector<std::pair<std::string, std::string>> headers, cookies;
    std::vector<Op> ops;
    std::vector<int> wcaps, rcaps;
    void encode(vr::CaseWriter &w) const {
        w.i(fe).i(mode).i(id).i(offer_gzip).i(cache).i(compressible).i(second).nl();
        w.i((long)headers.size()); for (auto &h : headers) w.s(h.first).s(h.second);
        w.i((long)cookies.size()); for (auto &h : cookies) w.s(h.first).s(h.second);
        w.nl().i((long)ops.size()); for (auto &o : ops) { w.i(o.k).i(o.n); } w.nl();
        w.i((long)wcaps.size()); for (int v : wcaps) w.i(v); w.nl();
        w.i((long)rcaps.size()); for (int v : rcaps) w.i(v); w.nl();
    }
    static Case decode(vr::CaseReader &r) {
        Case c; c.fe = (int)r.i(); c.mode = (int)r.i(); c.id = (int)r.i(); c.offer_gzip = r.i(); c.cache = r.i(); c.compressible = r.i(); c.second = r.i();
        long n = r.i(); for (long i = 0; i < n; i++) { std::string a = r.s(), b = r.s(); c.headers.push_back({a, b}); }
        n = r.i(); for (long i = 0; i < n; i++) { std::string a = r.s(), b = r.s(); c.cookies.push_back({a, b}); }
        n = r.i(); for (long i = 0; i < n; i++) { Op o; o.k = (char)r.i(); o.n = r.i(); c.ops.push_back(o); }
        n = r.i(); for (long i = 0; i < n; i++) c.wcaps.push_back((int)r.i());
        n = r.i(); for (long i = 0; i < n; i++) c.rcaps.push_back((int)r.i());
        return c;
    }
};

static inline char body_byte(int id, bool compressible, long long i) {
    if (compressible) return char('a' + ((i / 37 + id) % 7));
    return char((i * 131 + id * 7 + (i >> 8) * 13 + (i >> 16)) & 0xff);
}
static std::string expected_body(Case const &c) {
    std::string b; long long off = 0;
    for (auto &o : c.ops) { long n = o.k == 'W' ? o.n : o.k == 'P' ? 1 : 0; for (long i = 0; i < n; i++) b += body_byte(c.id, c.compressible, off++); }
    return b;
}
static std::string raw_header_text(Case const &c) {
    std::string h = "Content-Type: text/plain\r\n";
    for (auto &kv : c.headers) h += kv.first + ": " + kv.second + "\r\n";
    return h + "\r\n";
}
// the program as sent to the application
static long g_run = 0;   // unique per evaluation: cache keys must not collide between evaluations (shrinking re-uses ids)
static std::string program_text(Case const &c) {
    std::ostringstream o;
    o << "I " << c.id << " " << c.mode << " " << (c.cache ? 1 : 0) << " " << (c.compressible ? 1 : 0) << " " << g_run << "\n";
    if (c.fe == FE_HTTP11_CL) o << "L " << expected_body(c).size() << "\n";
    for (auto &h : c.headers) o << "H x" << vr::hex(h.first) << " x" << vr::hex(h.second) << "\n";
    for (auto &h : c.cookies) o << "C x" << vr::hex(h.first) << " x" << vr::hex(h.second) << "\n";
    for (auto &op : c.ops) o << op.k << " " << op.n << "\n";
    o << "E\n";
    return o.str();
}

// ---------------------------------------------------------------------------------------------------------------
// the writer application
struct Prog {
    int id = 0, mode = 0; bool cache = false, compressible = false; long long clen = -1; long run = 0;
    std::vector<std::pair<std::string, std::string>> headers, cookies;
    std::vector<Op> ops;
};
static Prog parse_prog(std::string const &t) {
    Prog p; std::istringstream in(t); std::string line;
    while (std::getline(in, line)) {
        std::istringstream ls(line); char k; ls >> k;
        if (k == 'I') { int ca, co; ls >> p.id >> p.mode >> ca >> co >> p.run; p.cache = ca; p.compressible = co; }
        else if (k == 'L') ls >> p.clen;
        else if (k == 'H' || k == 'C') { std::string a, b; ls >> a >> b; (k == 'H' ? p.headers : p.cookies).push_back({vr::unhex(a.substr(1)), vr::unhex(b.substr(1))}); }
        else if (k == 'E') break;
        else { Op o; o.k = k; ls >> o.n; p.ops.push_back(o); }
    }
    return p;
}
struct Runner : public booster::enable_shared_from_this<Runner> {
    booster::shared_ptr<cppcms::http::context> ctx;   // async only
    cppcms::http::response *resp = 0;
    Prog p; size_t pc = 0; long long off = 0; size_t hdr_off = 0; std::string hdr_text;
    bool async = false;
    void write_body(long n) {
        std::string chunk((size_t)n, '\0');
        for (long i = 0; i < n; i++) chunk[(size_t)i] = body_byte(p.id, p.compressible, off++);
        resp->out().write(chunk.data(), (std::streamsize)chunk.size());
    }
    // returns false when suspended on an asynchronous flush
    bool run() {
        while (pc < p.ops.size()) {
            Op const &o = p.ops[pc++];
            switch (o.k) {
            case 'W': write_body(o.n); break;
            case 'P': resp->out().put(body_byte(p.id, p.compressible, off++)); break;
            case 'F': resp->out() << std::flush; break;
            case 'B': resp->setbuf((int)o.n); break;
            case 'A': resp->full_asynchronous_buffering(o.n != 0); break;
            case 'R': { size_t n = std::min((size_t)o.n, hdr_text.size() - hdr_off); resp->out().write(hdr_text.data() + hdr_off, (std::streamsize)n); hdr_off += n; break; }
            case 'Y':
                if (async) {
                    booster::shared_ptr<Runner> self = shared_from_this();
                    ctx->async_flush_output([self](cppcms::http::context::completion_type ct) {
                        vs::Ledger::get().add(ct == cppcms::http::context::operation_completed ? "flush.completed" : "flush.aborted", std::to_string(self->p.id));
                        if (ct == cppcms::http::context::operation_completed) { if (self->run()) self->finish(); }
                    });
                    return false;
                }
                break;
            }
        }
        return true;
    }
    void finish() { if (async) { ctx->async_complete_response(); ctx.reset(); } }
};

class WriterApp : public cppcms::application {
public:
    WriterApp(cppcms::service &s) : cppcms::application(s) {}
    void main(std::string) override {
        std::pair<void *, size_t> raw = request().raw_post_data();
        booster::shared_ptr<Runner> r(new Runner());
        r->p = parse_prog(std::string((char const *)raw.first, raw.second));
        vs::Ledger::get().add("handler", std::to_string(r->p.id));
        Prog &p = r->p;
        r->async = is_asynchronous();
        std::string key = "page" + std::to_string(p.run);
        cppcms::http::response::io_mode_type modes[] = {cppcms::http::response::normal, cppcms::http::response::nogzip, cppcms::http::response::raw,
                                                         cppcms::http::response::asynchronous, cppcms::http::response::asynchronous_raw};
        response().io_mode(modes[p.mode]);
        bool rawm = p.mode == M_RAW || p.mode == M_ASYNC_RAW;
        if (!rawm) {
            response().set_plain_text_header();
            for (auto &h : p.headers) response().set_header(h.first, h.second);
            for (auto &c : p.cookies) response().set_cookie(cppcms::http::cookie(c.first, c.second));
            if (p.clen >= 0) response().content_length((unsigned long long)p.clen);
        } else {
            Case tmp; tmp.headers = p.headers; r->hdr_text = raw_header_text(tmp);
            if (p.clen >= 0) r->hdr_text.insert(r->hdr_text.size() - 2, "Content-Length: " + std::to_string(p.clen) + "\r\n");
        }
        if (p.cache && !r->async) {
            if (cache().fetch_page(key)) { vs::Ledger::get().add("cache.hit", std::to_string(p.run)); return; }
        }
        r->resp = &response();
        if (r->async) {
            r->ctx = release_context();
            if (r->run()) r->finish();
        } else {
            r->run();
            if (rawm && r->hdr_off < r->hdr_text.size()) response().out().write(r->hdr_text.data() + r->hdr_off, (std::streamsize)(r->hdr_text.size() - r->hdr_off));
            if (p.cache) { cache().store_page(key); vs::Ledger::get().add("writer.stored", std::to_string(p.run)); }
        }
    }
};

static vs::Fixture *g_fx;
static void mount_apps(cppcms::service &srv) {
    srv.applications_pool().mount(cppcms::create_pool<WriterApp>(), cppcms::mount_point("/w"));
    srv.applications_pool().mount(cppcms::create_pool<WriterApp>(), cppcms::mount_point("/wa"), cppcms::app::asynchronous);
    srv.applications_pool().mount(cppcms::create_pool<vs::EchoApp>(), cppcms::mount_point("/sync"));
}

// ---------------------------------------------------------------------------------------------------------------
static bool gunzip(std::string const &in, std::string &out) {
    z_stream z; memset(&z, 0, sizeof z);
    if (inflateInit2(&z, 15 + 16) != Z_OK) return false;
    z.next_in = (Bytef *)in.data(); z.avail_in = (uInt)in.size();
    char buf[65536]; int r;
    do { z.next_out = (Bytef *)buf; z.avail_out = sizeof buf; r = inflate(&z, Z_NO_FLUSH); if (r != Z_OK && r != Z_STREAM_END) { inflateEnd(&z); return false; } out.append(buf, sizeof buf - z.avail_out); } while (r != Z_STREAM_END);
    bool complete = z.avail_in == 0;
    inflateEnd(&z);
    return complete;
}

typedef std::vector<std::pair<std::string, std::string>> HL;
static Outcome check_headers(Case const &c, HL const &got, std::string const &where) {
    auto count = [&](std::string const &n) { int k = 0; for (auto &h : got) if (vc::lower(h.first) == vc::lower(n)) k++; return k; };
    auto value = [&](std::string const &n) { for (auto &h : got) if (vc::lower(h.first) == vc::lower(n)) return h.second; return std::string(); };
    for (auto &h : c.headers) {
        V_CHECK(count(h.first) == 1, "header-count", where + "header " + h.first + " appears " + std::to_string(count(h.first)) + " times");
        V_CHECK(value(h.first) == h.second, "header-value", where + "header " + h.first + " = " + vr::show(value(h.first)) + " expected " + vr::show(h.second));
    }
    V_CHECK(count("Content-Type") == 1, "header-count", where + "Content-Type appears " + std::to_string(count("Content-Type")) + " times");
    bool rawm = c.mode == M_RAW || c.mode == M_ASYNC_RAW;
    if (!rawm) {
        int sc = 0;
        for (auto &ck : c.cookies) {
            int found = 0;
            for (auto &h : got) if (vc::lower(h.first) == "set-cookie") { std::string pre = ck.first + "=" + ck.second; if (h.second.compare(0, pre.size(), pre) == 0 && (h.second.size() == pre.size() || h.second[pre.size()] == ';')) found++; }
            V_CHECK(found == 1, "cookie", where + "cookie " + ck.first + " found " + std::to_string(found) + " times");
            sc++;
        }
        V_CHECK(count("Set-Cookie") == sc, "cookie-count", where + std::to_string(count("Set-Cookie")) + " Set-Cookie headers for " + std::to_string(sc) + " cookies");
    }
    return ok();
}

struct Wire { std::string body; HL headers; bool gz = false; int status = 0; };

static Outcome one_request(Case const &c, vc::Conn &conn, bool first_on_conn, Wire &w, bool keep) {
    std::string prog = program_text(c);
    bool asyncm = c.mode >= M_ASYNC;
    std::string script = asyncm ? "/wa" : "/w";
    std::string where = "fe=" + std::to_string(c.fe) + " mode=" + std::to_string(c.mode) + ": ";
    typedef std::vector<std::pair<std::string, std::string>> Pairs;
    if (c.fe <= FE_HTTP11_CHUNKED) {
        std::string rq = "POST " + script + " HTTP/" + (c.fe == FE_HTTP10 ? "1.0" : "1.1") + "\r\nHost: t\r\nContent-Type: text/plain\r\nContent-Length: " + std::to_string(prog.size()) + "\r\n";
        if (c.offer_gzip) rq += "Accept-Encoding: gzip, deflate\r\n";
        if (keep) rq += "Connection: keep-alive\r\n";
        rq += "\r\n" + prog;
        V_CHECK(conn.send_all(rq), "send-failed", where + "send failed");
        vc::HttpReply r = vc::read_http_reply(conn);
        V_CHECK(r.complete, "http:framing", where + r.why + " (body so far " + std::to_string(r.body.size()) + "B)");
        V_CHECK(r.status == 200, "status", where + "status " + std::to_string(r.status));
        if (c.fe == FE_HTTP11_CL && keep) V_CHECK(r.has_length && r.keep_alive, "http:keep-alive-with-content-length", where + "reply has_length=" + std::to_string(r.has_length) + " keep_alive=" + std::to_string(r.keep_alive));
        if (c.fe == FE_HTTP11_CHUNKED && keep) V_CHECK(r.keep_alive && (r.chunked || r.has_length), "http:keep-alive-chunked", where + "HTTP/1.1 keep-alive reply neither chunked nor with length");
        w.body = r.body; w.headers = r.headers; w.status = r.status;
        (void)first_on_conn;
    } else {
        Pairs env = {{"CONTENT_LENGTH", std::to_string(prog.size())}, {"SCGI", "1"}, {"REQUEST_METHOD", "POST"}, {"SCRIPT_NAME", script}, {"PATH_INFO", ""}, {"QUERY_STRING", ""}, {"CONTENT_TYPE", "text/plain"}};
        if (c.offer_gzip) env.push_back({"HTTP_ACCEPT_ENCODING", "gzip"});
        std::string all;
        if (c.fe == FE_SCGI) {
            V_CHECK(conn.send_all(vc::scgi_encode(env, prog)), "send-failed", where + "send failed");
            V_CHECK(conn.drain(), "scgi:no-close", where + "timeout waiting for close, got " + std::to_string(conn.buf.size()) + "B");
            all = conn.buf;
        } else {
            env.erase(env.begin() + 1);
            std::string f = vc::fcgi_begin(5, 1, keep ? 1 : 0) + vc::fcgi_stream(vc::FCGI_PARAMS, 5, vc::fcgi_pairs(env), {}, {}) + vc::fcgi_stream(vc::FCGI_STDIN, 5, prog, {}, {});
            V_CHECK(conn.send_all(f), "send-failed", where + "send failed");
            vc::FcgiReply r = vc::read_fcgi_reply(conn, 5);
            V_CHECK(r.complete, "fcgi:framing", where + r.why);
            V_CHECK(r.stdout_closed, "fcgi:no-empty-stdout", where + "END_REQUEST without the empty STDOUT record");
            V_CHECK(r.end_requests == 1 && r.protocol_status == 0, "fcgi:end-request", where + "end_requests=" + std::to_string(r.end_requests));
            for (auto &rec : r.records) if (rec.type == vc::FCGI_STDOUT && rec.content.size() > 65535) return bad("fcgi:record-too-long", where);
            all = r.out;
            if (r.out.size() > 65535) VR.cls("fcgi.stdout_over_64k");
        }
        vc::CgiReply cr = vc::parse_cgi_reply(all);
        V_CHECK(cr.complete, "cgi:header-block", where + cr.why);
        V_CHECK(cr.status == 200, "status", where + "status " + std::to_string(cr.status));
        w.body = cr.body; w.headers = cr.headers; w.status = cr.status;
    }
    for (auto &h : w.headers) if (vc::lower(h.first) == "content-encoding" && h.second == "gzip") w.gz = true;
    return ok();
}

static Outcome p_response(Case const &c) {
    VR.eval(); g_run++;
    if ((g_run & 63) == 0) vs::Ledger::get().clear();
    V_CHECK(g_fx->alive(), "service-died", g_fx->loop_exception);
    std::string want = expected_body(c);
    std::string where = "fe=" + std::to_string(c.fe) + " mode=" + std::to_string(c.mode) + " id=" + std::to_string(c.id) + ": ";
    auto sched = std::make_shared<vio::Sched>(); sched->writes = c.wcaps; sched->reads = c.rcaps;
    vc::Conn conn; conn.timeout_ms = 15000;
    char fe = c.fe <= FE_HTTP11_CHUNKED ? 'h' : c.fe == FE_SCGI ? 's' : 'f';
    V_CHECK(g_fx->connect(conn, fe, sched), "harness:connect", "cannot connect");
    bool keep = (c.fe == FE_HTTP11_CL || c.fe == FE_HTTP11_CHUNKED || c.fe == FE_FCGI) && c.second;
    Wire w;
    Outcome o = one_request(c, conn, true, w, keep);
    if (!o.ok()) return o;
    o = check_headers(c, w.headers, where); if (!o.ok()) return o;
    std::string plain = w.body;
    if (w.gz) { plain.clear(); V_CHECK(gunzip(w.body, plain), "gzip:stream-invalid", where + "body is not a complete gzip stream (" + std::to_string(w.body.size()) + "B)"); VR.cls("gzip.used"); }
    V_CHECK(!(w.gz && !(c.offer_gzip && c.mode == M_NORMAL)), "gzip:unexpected", where + "gzip used although not offered / not normal mode");
    if (plain != want) {
        size_t i = 0; while (i < plain.size() && i < want.size() && plain[i] == want[i]) i++;
        return bad(plain.size() == want.size() ? "body:bytes-differ" : plain.size() < want.size() ? "body:short" : "body:long",
                   where + "body " + std::to_string(plain.size()) + "B expected " + std::to_string(want.size()) + "B, first difference at offset " + std::to_string(i));
    }
    // cache copy identical to what was sent; second request served from the cache delivers the same bytes
    if (c.cache && c.mode <= M_RAW) {
        // store_page() finalizes the response first and stores afterwards: wait for the handler to get there
        bool stored_seen = false;
        for (int i = 0; i < 5000 && !(stored_seen = vs::Ledger::get().count_eq("writer.stored", std::to_string(g_run)) > 0); i++) usleep(1000);
        if (!stored_seen) { VR.inconclusive++; return ok(); }
        std::string key = std::string(w.gz ? "_Z:" : "_U:") + "page" + std::to_string(g_run), stored;
        bool have = g_fx->srv->cache_pool().get()->fetch(key, &stored, 0, 0, 0);
        V_CHECK(have, "cache:page-not-stored", where + "no cache entry " + key);
        // raw mode: the application writes its own header text through the same stream, so that text is part of the copy
        std::string sent = w.body;
        if (c.mode == M_RAW) { std::string h = raw_header_text(c); if (c.fe == FE_HTTP11_CL) h.insert(h.size() - 2, "Content-Length: " + std::to_string(want.size()) + "\r\n"); sent = h + w.body; }
        V_CHECK(stored == sent, "cache:copy-differs", where + "cached copy " + std::to_string(stored.size()) + "B differs from the " + std::to_string(sent.size()) + "B sent");
        VR.cls("cache.copy_checked");
    }
    // keep-alive: the next request on the same connection is answered correctly (framing did not desynchronise)
    if (keep) {
        Case c2 = c; c2.id = c.id + 1; c2.cache = false;
        std::string want2 = expected_body(c2);
        Wire w2; o = one_request(c2, conn, false, w2, false);
        if (!o.ok()) return bad("keepalive:" + o.sig, "second request on the same connection: " + o.msg);
        std::string plain2 = w2.body; if (w2.gz) { plain2.clear(); V_CHECK(gunzip(w2.body, plain2), "keepalive:gzip", where); }
        V_CHECK(plain2 == want2, "keepalive:body", where + "second response body wrong (" + std::to_string(plain2.size()) + "B vs " + std::to_string(want2.size()) + "B)");
        VR.cls("keepalive.second_ok");
    } else if (c.cache && c.mode <= M_RAW && c.second) {
        vc::Conn conn2; conn2.timeout_ms = 15000;
        V_CHECK(g_fx->connect(conn2, fe), "harness:connect", "cannot connect");
        Wire w2; long hits = vs::Ledger::get().count_eq("cache.hit", std::to_string(g_run));
        o = one_request(c, conn2, true, w2, false);
        if (!o.ok()) return bad("cache-hit:" + o.sig, "request served from the page cache: " + o.msg);
        V_CHECK(vs::Ledger::get().count_eq("cache.hit", std::to_string(g_run)) == hits + 1, "cache:no-hit", where + "second request was not served from the cache");
        std::string plain2 = w2.body; if (w2.gz) { plain2.clear(); V_CHECK(gunzip(w2.body, plain2), "cache-hit:gzip", where); }
        V_CHECK(plain2 == want, "cache-hit:body", where + "page served from cache differs (" + std::to_string(plain2.size()) + "B vs " + std::to_string(want.size()) + "B)");
        VR.cls("cache.hit_checked");
    }
    V_CHECK(g_fx->alive(), "service-died", g_fx->loop_exception);
    // classification
    bool nt = false;
    if (sched->short_writes > 0 || sched->eagains > 0) { nt = true; VR.cls("nontrivial.short_write_or_eagain"); }
    if (fe == 'f' && want.size() > 65535) { nt = true; }
    { long long pending = 0; size_t bs = 0; (void)bs; for (auto &op : c.ops) { if (op.k == 'W') pending += op.n; if (op.k == 'B' && op.n < pending && pending > 0) { nt = true; VR.cls("nontrivial.setbuf_below_written"); break; } } }
    if (nt) { vr::CaseWriter cw; c.encode(cw); VR.nontrivial(vr::fnv(cw.str())); }
    static const char *fen[] = {"http10", "http11cl", "http11chunked", "scgi", "fcgi"}; static const char *mn[] = {"normal", "nogzip", "raw", "async", "async_raw"};
    VR.cls(std::string("fe.") + fen[c.fe]); VR.cls(std::string("mode.") + mn[c.mode]);
    if (VR.want_sample()) { std::string ops; for (auto &op : c.ops) { ops += op.k; if (op.k == 'W' || op.k == 'B' || op.k == 'A' || op.k == 'R') ops += std::to_string(op.n); ops += ' '; }
        VR.sample(std::string(fen[c.fe]) + "/" + mn[c.mode] + (c.offer_gzip ? "/gzip" : "") + (c.cache ? "/cache" : "") + " body=" + std::to_string(want.size()) + "B ops=" + ops.substr(0, 200) + " wcaps=" + std::to_string(c.wcaps.size())); }
    return ok();
}

// ---------------------------------------------------------------------------------------------------------------
static const char HN[] = "abcdefghijklmnopqrstuvwxyzABCDEFGHIJKLMNOPQRSTUVWXYZ0123456789";
static std::string gtok(int maxlen, const char *al) { int n = *vr::range<int>(1, maxlen + 1); std::string s; size_t l = strlen(al); for (int i = 0; i < n; i++) s += al[*vr::range<int>(0, (int)l)]; return s; }

static rc::Gen<Case> gen_case() {
    return rc::gen::exec([]() {
        Case c;
        c.fe = *vr::range<int>(0, 5);
        c.mode = *vr::range<int>(0, 5);
        c.id = *vr::range<int>(1, 1000000) * 2;
        // an application that declares Content-Length itself must not have its output compressed (the declared length would be wrong)
        c.offer_gzip = c.fe != FE_HTTP11_CL && *vr::range<int>(0, 3) == 0;
        c.compressible = *vr::range<int>(0, 2);
        c.cache = c.mode <= M_RAW && *vr::range<int>(0, 4) == 0;
        c.second = *vr::range<int>(0, 2);
        bool asyncm = c.mode >= M_ASYNC, rawm = c.mode == M_RAW || c.mode == M_ASYNC_RAW;
        std::set<std::string> names;
        int nh = *vr::range<int>(0, 4);
        for (int i = 0; i < nh; i++) { std::string n = "X-" + gtok(8, HN); if (names.count(vc::lower(n))) continue; names.insert(vc::lower(n)); c.headers.push_back({n, gtok(20, "abcXYZ019 ;=,/-_.:()")}); }
        for (auto &h : c.headers) { while (!h.second.empty() && h.second.back() == ' ') h.second.pop_back(); while (!h.second.empty() && h.second[0] == ' ') h.second.erase(0, 1); if (h.second.empty()) h.second = "v"; }
        if (!rawm) { int nc = *vr::range<int>(0, 3); std::set<std::string> cn; for (int i = 0; i < nc; i++) { std::string n = gtok(6, HN); if (cn.count(n)) continue; cn.insert(n); c.cookies.push_back({n, gtok(10, HN)}); } }
        // raw modes: the header text is written in pieces first
        if (rawm) {
            size_t hl = raw_header_text(c).size() + 40;
            int pieces = *vr::range<int>(1, 6);
            // the pieces reach the header parser of the response separately only when the stream is flushed (or unbuffered) in between; cuts inside the
            // CRLF of the last header line and of the terminating empty line are frequent
            bool unbuf = *vr::range<int>(0, 4) == 0, fl = *vr::range<int>(0, 2) == 0; long H = (long)raw_header_text(c).size();
            if (unbuf) { Op b; b.k = 'B'; b.n = *vr::range<int>(0, 4); c.ops.push_back(b); VR.cls("gen.raw_header_unbuffered"); }
            for (int i = 0; i < pieces; i++) { Op o; o.k = 'R'; o.n = i + 1 == pieces ? (long)hl : *vr::range<int>(1, (int)hl);
                if (i == 0 && pieces > 1 && *vr::range<int>(0, 2) == 0) { o.n = H - 1 - 2 * *vr::range<int>(0, 2); VR.cls("gen.raw_header_cut_inside_final_crlf"); }
                c.ops.push_back(o);
                if (fl && i + 1 < pieces) { Op f; f.k = 'F'; c.ops.push_back(f); VR.cls("gen.raw_header_flushed_between_pieces"); } }
        }
        int nops = *vr::range<int>(0, 14);
        for (int i = 0; i < nops; i++) {
            Op o; int k = *vr::range<int>(0, 20);
            if (k < 9) {
                o.k = 'W'; int sk = *vr::range<int>(0, 12);
                static const int edges[] = {0, 1, 63, 64, 65, 1023, 1024, 1025, 16383, 16384, 16385, 65534, 65535, 65536, 65537};
                o.n = sk < 4 ? *vr::range<int>(0, 40) : sk < 7 ? *vr::range<int>(40, 3000) : sk < 9 ? edges[*vr::range<int>(0, 15)] : sk < 11 ? *vr::range<int>(3000, 40000) : *vr::range<int>(40000, 200000);
            } else if (k < 11) o.k = 'P';
            else if (k < 14) o.k = 'F';
            else if (k < 17) { o.k = 'B'; int bk = *vr::range<int>(0, 6); o.n = bk == 0 ? 0 : bk == 1 ? 1 : bk < 4 ? *vr::range<int>(2, 100) : *vr::range<int>(100, 70000); }
            else if (k < 19) { if (asyncm) { o.k = 'A'; o.n = *vr::range<int>(0, 2); } else { o.k = 'F'; } }
            else { if (asyncm) o.k = 'Y'; else o.k = 'P'; }
            c.ops.push_back(o);
        }
        // write schedule
        int wm = *vr::range<int>(0, 6);
        if (wm == 1) c.wcaps.assign(*vr::range<int>(1, 400), 1);
        else if (wm >= 2) { int n = *vr::range<int>(1, 80); for (int i = 0; i < n; i++) { int k = *vr::range<int>(0, 10); c.wcaps.push_back(k < 2 ? 0 : k < 5 ? *vr::range<int>(1, 8) : k < 8 ? *vr::range<int>(8, 2000) : *vr::range<int>(2000, 70000)); } }
        if (*vr::range<int>(0, 3) == 0) { int n = *vr::range<int>(1, 30); for (int i = 0; i < n; i++) c.rcaps.push_back(*vr::range<int>(1, 300)); }
        return c;
    });
}

int main(int argc, char **argv) {
    vs::Fixture fx; g_fx = &fx;
    if (!fx.start("{\"http\":{\"script_names\":[\"/w\",\"/wa\",\"/sync\"]},\"cache\":{\"backend\":\"thread_shared\",\"limit\":2000},\"gzip\":{\"enable\":true}}", mount_apps)) { fprintf(stderr, "cannot start fixture\n"); return 3; }
    std::vector<std::unique_ptr<vr::PropBase>> props;
    props.push_back(vr::prop<Case>("response", gen_case(), p_response));
    int rc = vr::rc_main(argc, argv, props);
    fx.stop();
    if (!fx.loop_exception.empty()) { fprintf(stderr, "%s\n", fx.loop_exception.c_str()); return 1; }
    return rc;
}
