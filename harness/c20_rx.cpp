// C20 — part 1 (included by c20_routing.cpp): a tiny regular-expression AST with
//   * a renderer to Perl/ECMAScript syntax (what cppcms gets),
//   * an independent backtracking whole-string matcher with Perl priority semantics (the primary oracle),
//   * a sampler that draws strings from the language (optionally with one capture group forced to a given value),
//   * the "piece" vocabulary from which all generated patterns are assembled (so cases serialise as small integer lists).
// Nothing here touches cppcms or PCRE.
#pragma once
#include <functional>
#include <memory>
#include <string>
#include <vector>
#include <cctype>

namespace rx {

struct Node;
typedef std::shared_ptr<Node> P;
typedef std::vector<P> Seq;
enum { CH = 0, SET = 1, GRP = 2 };
enum { S_DIGIT = 0, S_WORD, S_LOWER, S_ANY, S_NOSLASH };
struct Node {
    int k = CH;
    char c = 0;
    int set = 0;
    std::vector<Seq> alts;
    bool capturing = false;
    int cap = 0;          // assigned by number()
    int mn = 1, mx = 1;   // mx < 0: unbounded
};
inline P ch(char c, int mn = 1, int mx = 1) { P n(new Node); n->k = CH; n->c = c; n->mn = mn; n->mx = mx; return n; }
inline P set(int id, int mn = 1, int mx = 1) { P n(new Node); n->k = SET; n->set = id; n->mn = mn; n->mx = mx; return n; }
inline P grp(bool cap, std::vector<Seq> alts, int mn = 1, int mx = 1) { P n(new Node); n->k = GRP; n->capturing = cap; n->alts = std::move(alts); n->mn = mn; n->mx = mx; return n; }
inline Seq lit(std::string const &s) { Seq r; for (char c : s) r.push_back(ch(c)); return r; }
inline void append(Seq &a, Seq const &b) { a.insert(a.end(), b.begin(), b.end()); }

inline void number(Seq &s, int &next) {
    for (auto &n : s) if (n->k == GRP) { if (n->capturing) n->cap = next++; for (auto &a : n->alts) number(a, next); }
}
inline bool contains_cap(Seq const &s, int cap);
inline bool contains_cap(Node const &n, int cap) {
    if (n.k != GRP) return false;
    if (n.capturing && n.cap == cap) return true;
    for (auto &a : n.alts) if (contains_cap(a, cap)) return true;
    return false;
}
inline bool contains_cap(Seq const &s, int cap) { for (auto &n : s) if (contains_cap(*n, cap)) return true; return false; }

// ---- rendering -------------------------------------------------------------------------------------
inline std::string esc(char c) {
    static const std::string meta = ".*+?()[]{}|^$\\";
    std::string r;
    if (meta.find(c) != std::string::npos) r += '\\';
    r += c;
    return r;
}
inline std::string quant(int mn, int mx) {
    if (mn == 1 && mx == 1) return "";
    if (mn == 0 && mx == 1) return "?";
    if (mn == 0 && mx < 0) return "*";
    if (mn == 1 && mx < 0) return "+";
    return "{" + std::to_string(mn) + "," + (mx < 0 ? std::string() : std::to_string(mx)) + "}";
}
inline std::string render(Seq const &s);
inline std::string render(Node const &n) {
    std::string r;
    if (n.k == CH) r = esc(n.c);
    else if (n.k == SET) {
        static const char *names[] = {"\\d", "\\w", "[a-z]", ".", "[^/]"};
        r = names[n.set];
    } else {
        r = n.capturing ? "(" : "(?:";
        for (size_t i = 0; i < n.alts.size(); i++) { if (i) r += '|'; r += render(n.alts[i]); }
        r += ")";
    }
    return r + quant(n.mn, n.mx);
}
inline std::string render(Seq const &s) { std::string r; for (auto &n : s) r += render(*n); return r; }

// ---- matcher ----------------------------------------------------------------------------------------
inline bool in_set(int id, unsigned char c, bool icase) {
    switch (id) {
    case S_DIGIT: return c >= '0' && c <= '9';
    case S_WORD: return (c >= '0' && c <= '9') || (c >= 'a' && c <= 'z') || (c >= 'A' && c <= 'Z') || c == '_';
    case S_LOWER: return (c >= 'a' && c <= 'z') || (icase && c >= 'A' && c <= 'Z');
    case S_ANY: return c != '\n';
    case S_NOSLASH: return c != '/';
    }
    return false;
}
struct Matcher {
    std::string const &s;
    bool icase;
    std::vector<std::pair<int, int>> caps;
    typedef std::function<bool(size_t)> K;
    Matcher(std::string const &str, int ncaps, bool ic) : s(str), icase(ic), caps(ncaps + 1, std::make_pair(-1, -1)) {}
    bool eq(char a, char b) const { return icase ? tolower((unsigned char)a) == tolower((unsigned char)b) : a == b; }
    bool seq(Seq const &v, size_t i, size_t pos, K const &k) {
        if (i == v.size()) return k(pos);
        Node const &a = *v[i];
        return rep(a, 0, pos, [&](size_t p) { return seq(v, i + 1, p, k); });
    }
    bool rep(Node const &a, int count, size_t pos, K const &k) {
        if (a.mx < 0 || count < a.mx) {
            if (once(a, pos, [&](size_t p) { if (p == pos && count >= a.mn) return false; return rep(a, count + 1, p, k); })) return true;
        }
        if (count >= a.mn) return k(pos);
        return false;
    }
    bool once(Node const &a, size_t pos, K const &k) {
        if (a.k == CH) return pos < s.size() && eq(s[pos], a.c) && k(pos + 1);
        if (a.k == SET) return pos < s.size() && in_set(a.set, (unsigned char)s[pos], icase) && k(pos + 1);
        for (auto &alt : a.alts) {
            bool r = seq(alt, 0, pos, [&](size_t p) {
                std::pair<int, int> old;
                if (a.capturing) { old = caps[a.cap]; caps[a.cap] = std::make_pair((int)pos, (int)p); }
                if (k(p)) return true;
                if (a.capturing) caps[a.cap] = old;
                return false;
            });
            if (r) return true;
        }
        return false;
    }
    bool full(Seq const &root) {
        bool r = seq(root, 0, 0, [&](size_t p) { return p == s.size(); });
        if (r) caps[0] = std::make_pair(0, (int)s.size());
        return r;
    }
};

// ---- sampler ----------------------------------------------------------------------------------------
// pick(n) returns an integer in [0,n).  hole_cap > 0: the capture group with that number produces `hole` verbatim.
typedef std::function<int(int)> Pick;
inline char sample_set(int id, Pick const &pick) {
    static const std::string al[] = {"0179", "abxz0A_9", "abz", "ab/0 -.%Z_~", "ab0 -.%Z"};
    std::string const &a = al[id];
    return a[pick((int)a.size())];
}
inline void sample(Seq const &s, Pick const &pick, std::string &out, int hole_cap = 0, std::string const *hole = nullptr);
inline void sample(Node const &n, Pick const &pick, std::string &out, int hole_cap, std::string const *hole) {
    bool has_hole = hole_cap > 0 && contains_cap(n, hole_cap);
    int cnt;
    if (has_hole) cnt = (n.mn <= 1 && (n.mx < 0 || n.mx >= 1)) ? 1 : n.mn;
    else {
        int span = n.mx < 0 ? (pick(12) == 0 ? 13 : 4) : (n.mx - n.mn + 1);
        if (span > 4 && n.mx >= 0) span = 4;
        cnt = n.mn + (span > 1 ? pick(span) : 0);
    }
    for (int i = 0; i < cnt; i++) {
        if (n.k == CH) out += n.c;
        else if (n.k == SET) out += sample_set(n.set, pick);
        else {
            if (n.capturing && n.cap == hole_cap && hole) { out += *hole; continue; }
            size_t a = 0;
            if (has_hole) { for (size_t j = 0; j < n.alts.size(); j++) if (contains_cap(n.alts[j], hole_cap)) a = j; }
            else a = n.alts.size() > 1 ? (size_t)pick((int)n.alts.size()) : 0;
            sample(n.alts[a], pick, out, hole_cap, hole);
        }
    }
}
inline void sample(Seq const &s, Pick const &pick, std::string &out, int hole_cap, std::string const *hole) {
    for (auto &n : s) sample(*n, pick, out, hole_cap, hole);
}

// ---- piece vocabulary ---------------------------------------------------------------------------------
enum {
    K_LIT = 0, K_DIGITS = 1, K_WORD = 2, K_LOWER0 = 3, K_ANY0 = 4, K_A_AB = 5, K_NOSLASH = 6, K_D13 = 7, K_SINT = 8, K_XNEST = 9,
    K_OPTNEST = 10, K_OPTLIT = 11, K_OPTSLASH = 12, K_DOT = 13, K_NC_DIGITS0 = 14, K_REST2 = 15, K_REST1 = 16, K_RESTIN = 17,
    K_LIT_OR_D = 18, K_NC_ANY0 = 19, K_AB_A = 20, K_NC_WORD = 21, K_OPT_DOTTED = 22, K_ALT2 = 23, K_MAX = 24
};
struct Piece { int kind = 0; std::string lit; };

inline void piece_ast(Piece const &p, Seq &out) {
    switch (p.kind) {
    case K_LIT: append(out, lit(p.lit)); break;
    case K_DIGITS: out.push_back(grp(true, {Seq{set(S_DIGIT, 1, -1)}})); break;
    case K_WORD: out.push_back(grp(true, {Seq{set(S_WORD, 1, -1)}})); break;
    case K_LOWER0: out.push_back(grp(true, {Seq{set(S_LOWER, 0, -1)}})); break;
    case K_ANY0: out.push_back(grp(true, {Seq{set(S_ANY, 0, -1)}})); break;
    case K_A_AB: out.push_back(grp(true, {lit("a"), lit("ab")})); break;
    case K_NOSLASH: out.push_back(grp(true, {Seq{set(S_NOSLASH, 1, -1)}})); break;
    case K_D13: out.push_back(grp(true, {Seq{set(S_DIGIT, 1, 3)}})); break;
    case K_SINT: out.push_back(grp(true, {Seq{ch('-', 0, 1), set(S_DIGIT, 1, -1)}})); break;
    case K_XNEST: out.push_back(grp(true, {Seq{ch('x'), grp(true, {Seq{set(S_DIGIT, 1, -1)}})}})); break;
    case K_OPTNEST: out.push_back(grp(true, {Seq{ch('/'), grp(true, {Seq{set(S_DIGIT, 1, -1)}})}}, 0, 1)); break;
    case K_OPTLIT: out.push_back(grp(false, {lit("/" + p.lit)}, 0, 1)); break;
    case K_OPTSLASH: out.push_back(ch('/', 0, 1)); break;
    case K_DOT: out.push_back(set(S_ANY)); break;
    case K_NC_DIGITS0: out.push_back(set(S_DIGIT, 0, -1)); break;
    case K_REST2: out.push_back(grp(true, {Seq{grp(true, {Seq{ch('/'), set(S_ANY, 0, -1)}}, 0, 1)}})); break;
    case K_REST1: out.push_back(grp(true, {Seq{ch('/'), set(S_ANY, 0, -1)}}, 0, 1)); break;
    case K_RESTIN: out.push_back(grp(true, {Seq{ch('/'), grp(true, {Seq{set(S_ANY, 0, -1)}})}}, 0, 1)); break;
    case K_LIT_OR_D: out.push_back(grp(true, {lit(p.lit), Seq{set(S_DIGIT, 1, -1)}})); break;
    case K_NC_ANY0: out.push_back(set(S_ANY, 0, -1)); break;
    case K_AB_A: out.push_back(grp(true, {lit("ab"), lit("a")})); break;
    case K_NC_WORD: out.push_back(set(S_WORD, 1, -1)); break;
    case K_OPT_DOTTED: out.push_back(grp(true, {Seq{set(S_ANY, 0, -1), ch('.')}}, 0, 1)); break;
    case K_ALT2: {
        size_t c = p.lit.find(',');
        std::string a = p.lit.substr(0, c), b = c == std::string::npos ? std::string("x") : p.lit.substr(c + 1);
        out.push_back(grp(true, {lit(a), lit(b)}));
        break;
    }
    default: break;
    }
}
// number of capture groups a piece contributes
inline int piece_groups(int kind) {
    switch (kind) {
    case K_LIT: case K_OPTLIT: case K_OPTSLASH: case K_DOT: case K_NC_DIGITS0: case K_NC_ANY0: case K_NC_WORD: return 0;
    case K_XNEST: case K_OPTNEST: case K_REST2: case K_RESTIN: return 2;
    default: return 1;
    }
}

// A pattern: piece list, optional second top-level alternative ("A|B" without parentheses), optional icase.
struct Pat {
    std::vector<Piece> pc, alt;
    int has_alt = 0, icase = 0;
    // derived
    Seq ast;
    std::string text;
    int ng = 0;
    bool built = false;
    void build() {
        Seq a, b;
        for (auto &p : pc) piece_ast(p, a);
        if (has_alt) {
            for (auto &p : alt) piece_ast(p, b);
            ast = Seq{grp(false, {a, b})};
            int next = 1; number(ast, next); ng = next - 1;
            text = render(a) + "|" + render(b);
        } else {
            ast = a;
            int next = 1; number(ast, next); ng = next - 1;
            text = render(ast);
        }
        built = true;
    }
    void add(int kind, std::string const &l = std::string()) { Piece p; p.kind = kind; p.lit = l; pc.push_back(p); }
};

} // namespace rx
