// C14 (part 1) — exhaustive sweep of the complete input space of the two UTF-8 "next character" functions.
//   cppcms::utf8::next (private/utf_iterator.h, html off/on)  and  booster::locale::utf::utf_traits<char>::decode
// read at most 4 bytes, so every buffer of length 1..4 (2^8+2^16+2^24+2^32 buffers) is their whole domain; shorter
// buffers are the truncation cases.  The same buffers are also given to the whole-string validators that are header-only
// (cppcms::utf8::validate with and without counting, cppcms::encoding::utf8_valid), which covers every string of up to
// four bytes (several characters, character + truncated character, ...).
// Oracle: the RFC 3629 ABNF table in c14_ref.h.  Header-only, -O2, no sanitizer; over-reads are detected through the
// iterator position (every read of the decoders is *p++, so reading past the end leaves p > e).
// Sharding: C14_SHARD=0..15 takes the lead bytes 16*shard .. 16*shard+15.  Independent of the seed.
#include "vreport.h"
#include "c14_ref.h"
#include <utf_iterator.h>
#include <encoding_validators.h>
#include <booster/locale/utf.h>

using namespace c14;

namespace {

typedef booster::locale::utf::utf_traits<char> btraits;
const uint32_t B_ILLEGAL = booster::locale::utf::illegal, B_INCOMPLETE = booster::locale::utf::incomplete;

struct Fail { std::string sig, msg; };

std::string hexbuf(unsigned char const *b, size_t n) { return vr::hex(std::string((char const *)b, n)); }

// Slow path: re-derives everything and explains.  Returns an empty sig when the buffer is fine.
Fail explain(unsigned char const *buf, size_t n) {
    Fail f;
    Dec r = ref_decode(buf, n);
    char const *b = (char const *)buf, *e = b + n;
    std::string in = "bytes=" + hexbuf(buf, n) + " ";
    char t[256];
    for (int html = 0; html < 2; html++) {
        char const *p = b;
        uint32_t v = cppcms::utf8::next(p, e, html != 0);
        std::string who = html ? "utf8:cppcms-next-html" : "utf8:cppcms-next";
        bool expect_ok = r.st == VALID && (!html || html_ok(r.cp));
        if (p > e) { f.sig = who + ":reads-past-end"; f.msg = in + "iterator ended " + std::to_string(p - e) + " past the end"; return f; }
        if (p == b) { f.sig = who + ":no-progress"; f.msg = in + "nothing consumed"; return f; }
        if (expect_ok) {
            if (v == cppcms::utf::illegal) { f.sig = who + ":rejects-wellformed"; snprintf(t, sizeof t, "well-formed U+%04X (%d bytes) reported illegal", r.cp, r.len); f.msg = in + t; return f; }
            if (v != r.cp) { f.sig = who + ":wrong-codepoint"; snprintf(t, sizeof t, "returned U+%04X, reference U+%04X", v, r.cp); f.msg = in + t; return f; }
            if (p - b != r.len) { f.sig = who + ":wrong-length"; snprintf(t, sizeof t, "consumed %d bytes, sequence has %d", (int)(p - b), r.len); f.msg = in + t; return f; }
        } else if (v != cppcms::utf::illegal) {
            if (r.st == VALID) { f.sig = who + ":accepts-control"; snprintf(t, sizeof t, "html mode accepted control U+%04X", r.cp); }
            else { f.sig = who + ":accepts-illformed"; snprintf(t, sizeof t, "ill-formed sequence (reference class %d) accepted as U+%04X", (int)r.st, v); }
            f.msg = in + t; return f;
        }
    }
    {
        char const *p = b;
        uint32_t v = btraits::decode(p, e);
        std::string who = "utf8:booster-decode";
        if (p > e) { f.sig = who + ":reads-past-end"; f.msg = in + "iterator past the end"; return f; }
        if (p == b) { f.sig = who + ":no-progress"; f.msg = in + "nothing consumed"; return f; }
        if (r.st == VALID) {
            if (v == B_ILLEGAL || v == B_INCOMPLETE) { f.sig = who + ":rejects-wellformed"; snprintf(t, sizeof t, "well-formed U+%04X reported %s", r.cp, v == B_ILLEGAL ? "illegal" : "incomplete"); f.msg = in + t; return f; }
            if (v != r.cp) { f.sig = who + ":wrong-codepoint"; snprintf(t, sizeof t, "returned U+%04X, reference U+%04X", v, r.cp); f.msg = in + t; return f; }
            if (p - b != r.len) { f.sig = who + ":wrong-length"; snprintf(t, sizeof t, "consumed %d bytes, sequence has %d", (int)(p - b), r.len); f.msg = in + t; return f; }
        } else {
            if (v != B_ILLEGAL && v != B_INCOMPLETE) { f.sig = who + ":accepts-illformed"; snprintf(t, sizeof t, "ill-formed sequence (reference class %d) accepted as U+%04X", (int)r.st, v); f.msg = in + t; return f; }
            if (r.st == PREFIX && v != B_INCOMPLETE) { f.sig = who + ":truncated-not-incomplete"; f.msg = in + "a proper prefix of a well-formed sequence must be reported incomplete, got illegal"; return f; }
            if (r.st == ILLEGAL && v != B_ILLEGAL) { f.sig = who + ":illegal-reported-incomplete"; f.msg = in + "bad lead byte / non-tail byte / forbidden complete sequence reported as incomplete (more input can never repair it)"; return f; }
        }
    }
    // whole-string validators on the same buffer
    for (int html = 0; html < 2; html++) {
        size_t rc = 0; bool rv = ref_validate(buf, n, html != 0, rc);
        size_t c = 0; bool v = cppcms::utf8::validate(b, e, c, html != 0);
        bool v2 = cppcms::utf8::validate(b, e, html != 0);
        std::string who = html ? "utf8:validate-html" : "utf8:validate";
        if (v != rv) { f.sig = who + (rv ? ":rejects-valid-string" : ":accepts-invalid-string"); f.msg = in + "validate(count)=" + std::to_string(v) + " reference=" + std::to_string(rv); return f; }
        if (v2 != rv) { f.sig = who + ":nocount-overload-differs"; f.msg = in + "validate()=" + std::to_string(v2) + " reference=" + std::to_string(rv); return f; }
        if (rv && c != rc) { f.sig = who + ":wrong-count"; f.msg = in + "count=" + std::to_string(c) + " code points=" + std::to_string(rc); return f; }
        if (html) {
            size_t c3 = 0; bool v3 = cppcms::encoding::utf8_valid(b, e, c3);
            if (v3 != rv || (rv && c3 != rc)) { f.sig = "utf8:utf8_valid:differs"; f.msg = in + "utf8_valid=" + std::to_string(v3) + "/" + std::to_string(c3) + " reference=" + std::to_string(rv) + "/" + std::to_string(rc); return f; }
        }
    }
    return f;
}

struct Counters {
    long long by_status[4] = {0, 0, 0, 0}, valid_len[5] = {0, 0, 0, 0, 0}, html_rejected = 0, by_n[5] = {0, 0, 0, 0, 0};
    long long str_valid = 0, str_valid_multi = 0, str_html_invalid_only = 0, booster_ranout_incomplete = 0;
};

// Fast path: true when everything agrees (same conditions as explain(), without building strings).
inline bool fast(unsigned char const *buf, size_t n, Lead const *T, Counters &C) {
    Dec r = ref_decode(buf, n, T);
    char const *b = (char const *)buf, *e = b + n;
    C.by_status[r.st]++; C.by_n[n]++;
    bool good = true;
    {
        char const *p = b; uint32_t v = cppcms::utf8::next(p, e, false);
        good &= (p <= e) & (p > b);
        if (r.st == VALID) good &= (v == r.cp) & (p - b == r.len); else good &= (v == cppcms::utf::illegal);
    }
    {
        bool ok = r.st == VALID && html_ok(r.cp);
        char const *p = b; uint32_t v = cppcms::utf8::next(p, e, true);
        good &= (p <= e) & (p > b);
        if (ok) good &= (v == r.cp) & (p - b == r.len); else good &= (v == cppcms::utf::illegal);
        if (r.st == VALID) { C.valid_len[r.len]++; if (!ok) C.html_rejected++; }
    }
    {
        char const *p = b; uint32_t v = btraits::decode(p, e);
        good &= (p <= e) & (p > b);
        switch (r.st) {
        case VALID: good &= (v == r.cp) & (p - b == r.len); break;
        case PREFIX: good &= (v == B_INCOMPLETE); break;
        case ILLEGAL: good &= (v == B_ILLEGAL); break;
        default: good &= (v == B_ILLEGAL) | (v == B_INCOMPLETE); if (v == B_INCOMPLETE) C.booster_ranout_incomplete++; break;
        }
    }
    {
        size_t rc0 = 0, rc1 = 0;
        bool rv0 = ref_validate(buf, n, false, rc0, T), rv1 = ref_validate(buf, n, true, rc1, T);
        size_t c0 = 0, c1 = 0, c3 = 0;
        bool v0 = cppcms::utf8::validate(b, e, c0, false), v1 = cppcms::utf8::validate(b, e, c1, true);
        bool w0 = cppcms::utf8::validate(b, e, false), w1 = cppcms::utf8::validate(b, e, true);
        bool v3 = cppcms::encoding::utf8_valid(b, e, c3);
        good &= (v0 == rv0) & (v1 == rv1) & (w0 == rv0) & (w1 == rv1) & (v3 == rv1);
        if (rv0) good &= (c0 == rc0);
        if (rv1) good &= (c1 == rc1) & (c3 == rc1);
        if (rv0) { C.str_valid++; if (rc0 > 1) C.str_valid_multi++; if (!rv1) C.str_html_invalid_only++; }
    }
    return good;
}

bool report_failure(unsigned char const *buf, size_t n) {
    Fail f = explain(buf, n);
    if (f.sig.empty()) { f.sig = "harness:c14_sweep:fast-slow-disagree"; f.msg = "fast path flagged bytes=" + hexbuf(buf, n) + " but the slow path finds nothing"; }
    vr::CaseWriter w; w.w("sweep").nl(); w.s(std::string((char const *)buf, n));
    VR.fail(f.sig, w.str(), f.msg, "sweep");
    fprintf(stderr, "FAIL %s: %s\n", f.sig.c_str(), f.msg.c_str());
    return false;
}

bool sweep(int shard) {
    Lead const *T = lead_table();
    Counters C;
    unsigned char buf[8] = {0xFF, 0xFF, 0xFF, 0xFF, 0xFF, 0xFF, 0xFF, 0xFF};   // bytes after the end are bad leads: an over-read cannot "succeed"
    long long nt = 0, total = 0;
    bool good = true;
    for (int lead = shard * 16; lead < shard * 16 + 16 && good; lead++) {
        long long before = total;
        buf[0] = (unsigned char)lead;
        buf[1] = buf[2] = buf[3] = 0xFF;
        total++;
        if (!fast(buf, 1, T, C)) { good = report_failure(buf, 1); break; }
        for (int b1 = 0; b1 < 256 && good; b1++) {
            buf[1] = (unsigned char)b1; buf[2] = buf[3] = 0xFF;
            total++;
            if (!fast(buf, 2, T, C)) { good = report_failure(buf, 2); break; }
            for (int b2 = 0; b2 < 256 && good; b2++) {
                buf[2] = (unsigned char)b2; buf[3] = 0xFF;
                total++;
                if (!fast(buf, 3, T, C)) { good = report_failure(buf, 3); break; }
                for (int b3 = 0; b3 < 256; b3++) {
                    buf[3] = (unsigned char)b3;
                    if (!fast(buf, 4, T, C)) { good = report_failure(buf, 4); break; }
                }
                total += 256;
            }
        }
        // non-trivial (rule in props/c14.py): the buffer starts with a non-ASCII byte or a control byte
        if (lead >= 0x80 || lead < 0x20 || lead == 0x7F) nt += total - before;
    }
    VR.eval(total);
    VR.nontrivial_extra += nt;
    static const char *sn[4] = {"sweep.first_char.valid", "sweep.first_char.truncated_prefix", "sweep.first_char.illegal", "sweep.first_char.illegal_and_truncated"};
    for (int i = 0; i < 4; i++) if (C.by_status[i]) VR.cls(sn[i], C.by_status[i]);
    for (int i = 1; i <= 4; i++) { if (C.valid_len[i]) VR.cls("sweep.valid_seq_len" + std::to_string(i), C.valid_len[i]); if (C.by_n[i]) VR.cls("sweep.buffer_len" + std::to_string(i), C.by_n[i]); }
    if (C.html_rejected) VR.cls("sweep.valid_but_html_control", C.html_rejected);
    if (C.str_valid) VR.cls("sweep.whole_string.valid", C.str_valid);
    if (C.str_valid_multi) VR.cls("sweep.whole_string.valid_multi_char", C.str_valid_multi);
    if (C.str_html_invalid_only) VR.cls("sweep.whole_string.valid_but_html_control", C.str_html_invalid_only);
    if (C.booster_ranout_incomplete) VR.cls("sweep.booster.forbidden_prefix_reported_incomplete(accepted)", C.booster_ranout_incomplete);
    char t[200];
    snprintf(t, sizeof t, "shard %d: lead bytes %02X..%02X, %lld buffers, %lld well-formed first characters", shard, shard * 16, shard * 16 + 15, total, C.by_status[0]);
    VR.sample(t);
    return good;
}

} // namespace

int main(int argc, char **argv) {
    if (const char *rp = vr::replay_arg(argc, argv)) {
        vr::CaseReader r(vr::read_file(rp));
        std::string name = r.w();
        if (name != "sweep") { printf("unknown property %s in case file\n", name.c_str()); return 3; }
        std::string s = r.s();
        if (s.empty() || s.size() > 4) { printf("bad case\n"); return 3; }
        unsigned char buf[8] = {0xFF, 0xFF, 0xFF, 0xFF, 0xFF, 0xFF, 0xFF, 0xFF};
        memcpy(buf, s.data(), s.size());
        Fail f = explain(buf, s.size());
        Counters C;
        bool fs = fast(buf, s.size(), lead_table(), C);
        if (!f.sig.empty()) { printf("REPLAY-FAIL %s: %s\n", f.sig.c_str(), f.msg.c_str()); return 1; }
        if (!fs) { printf("REPLAY-FAIL harness:c14_sweep:fast-slow-disagree\n"); return 1; }
        printf("REPLAY-PASS sweep\n");
        return 0;
    }
    VR.disjoint = true;
    int shard = (int)vr::envl("C14_SHARD", 0);
    bool good = true;
    if (shard < 0 || shard > 15) { fprintf(stderr, "C14_SHARD out of range\n"); return 3; }
    good = sweep(shard);
    VR.finish();
    return good ? 0 : 1;
}
