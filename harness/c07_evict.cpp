// C08 — the cache stays within its limit; evicts expired entries first, then the least recently used; memory is released.
//   lru    : histories with limit 1..8 and more keys than the limit on thread_shared / process_shared (large segment),
//            lock-step with cm::BranchModel (set of states: the property does not say *which* expired entry goes)
//   shm    : process_shared with a small segment (512 KiB .. 4 MiB) and value sizes from 0 to beyond the segment: the model
//            additionally allows memory-pressure evictions (same victim order), refusal of a store and the documented full
//            clear on bad_alloc; what it never allows is stale data, a count above the limit or counts no state explains
//   cycles : fill -> empty (clear / remove / rise / expiry / overwrite) -> refill histories that keep the live data below
//            1/16 of the segment: there the model is exact, so memory that is not released shows up as lost entries
//   long   : thousands of fill/empty cycles with FRESH key and trigger names every cycle on 512 KiB .. 2 MiB segments (limit
//            1..8, emptied by rise of the own-key / a shared / an extra trigger, remove, overwrite with a past deadline,
//            expiry + store pressure, eviction by limit, or clear).  Live data stays far below 1/16 of the segment, so the
//            model is exact and a leak per removed entry ends as lost entries / wrong counts; in addition the largest value
//            that fits into the empty cache is probed before and after the run (shm:capacity-shrinks-after-fill-empty-cycles)
// Virtual clock: time() is interposed at link time (c07_model.h).
#include "c07_model.h"
#include <limits>
#include <sys/wait.h>
#include <unistd.h>

using namespace cm;
using vr::Outcome; using vr::ok; using vr::bad;

static size_t pow2ceil(size_t n) { size_t p = 32; while (p < n) p <<= 1; return p; }
// generous upper bound of the shared memory one entry can occupy (value block, key, node, list/map nodes per trigger)
static size_t entry_bytes(size_t vlen, size_t ntrig) { return pow2ceil(vlen + 33) + 1024 + 768 * ntrig; }

#define STEP_CHECK(o, i, op) do { Outcome o_ = (o); if (!o_.ok()) return bad(o_.sig, "step " + std::to_string(i) + " " + (op).str() + ": " + o_.msg + " | " + c.str(60)); } while (0)

// the interpreter proper; accounting (VR) is done by run_case so that it can also run in a forked child
static Outcome run_evict(Case const &c, bool &nt, bool &inconclusive) {
    g_now = T0;
    cache_ptr cache = get_cache(c.backend, c.seg_kib, c.limit);
    BranchModel M; M.limit = (unsigned)c.limit;
    size_t seg = (size_t)c.seg_kib * 1024;
    std::set<int> touched;
    bool any_big = false;
    FC.add(c.backend ? (c.seg_kib >= 65536 ? "evict.process.large_segment" : "evict.process.small_segment") : "evict.thread");
    FC.add(c.mode == 2 ? "evict.kind.cycles" : (c.mode == 1 ? "evict.kind.shm" : "evict.kind.lru"));

    auto observe_fetch = [&](int ki) -> Outcome {
        std::string k = name(ki);
        Fetched f = do_fetch(cache, k);
        FC.add(f.hit ? "fetch.hit" : "fetch.miss");
        return M.fetch(k, f, g_now);
    };

    for (size_t i = 0; i < c.ops.size(); i++) {
        Op const &op = c.ops[i];
        switch (op.kind) {
        case STORE: {
            std::string k = name(op.key); sset T; for (int t : op.trigs) T.insert(name(t));
            std::string v = value(op.vseed, op.vlen);
            if (c.backend && !M.pressure) {
                // memory pressure is excluded while everything that can be live (plus the copy being made) stays below 1/16
                // of the segment; beyond that the model admits pressure evictions / refusal / full clear for the rest of the case
                size_t live = 2 * entry_bytes(v.size(), T.size() + 1);
                for (auto &s : M.states) { size_t b = 0; for (auto &e : s.lru) b += entry_bytes(e->vlen, e->trigs.size()); live = std::max(live, b + 2 * entry_bytes(v.size(), T.size() + 1)); }
                if (live > seg / 16) { M.pressure = true; FC.add("evict.pressure_possible"); }
            }
            if ((size_t)op.vlen >= seg / 64 && c.backend) any_big = true;
            auto e = std::make_shared<BEntry>(); e->key = k; e->vhash = vr::fnv(v); e->vlen = v.size(); e->trigs = T; e->trigs.insert(k);
            e->deadline = (time_t)(g_now + op.dl);
            size_t before = M.states[0].lru.size();
            M.store(e, g_now);
            cache->store(k, v, T, e->deadline);
            touched.insert(op.key);
            (void)before;
            break; }
        case FETCH: touched.insert(op.key); STEP_CHECK(observe_fetch(op.key), i, op); break;
        case RISE: M.rise(name(op.key)); cache->rise(name(op.key)); break;
        case REMOVE: M.remove(name(op.key)); cache->remove(name(op.key)); break;
        case CLEAR: M.clear(); cache->clear(); break;
        case TICK: g_now += (time_t)op.dl; break;
        default: break;
        }
        if (M.overflow) { inconclusive = true; FC.add("evict.branch_overflow"); return ok(); }
        unsigned keys = 0, trigs = 0; cache->stats(keys, trigs);
        STEP_CHECK(M.stats(keys, trigs, g_now), i, op);
        if (M.states.size() > 1) FC.add("evict.step_with_several_states");
    }
    // final sweep: every key the history touched is fetched (these fetches are modelled like any other)
    for (int ki : touched) { Op fin; fin.kind = FETCH; fin.key = ki; STEP_CHECK(observe_fetch(ki), c.ops.size(), fin); if (M.overflow) break; }
    if (M.evictions) FC.add("evict.case_with_forced_eviction");
    if (M.nt_mixed) FC.add("evict.expired_first_while_live_present");
    if (M.nt_tail) FC.add("evict.lru_after_fetch_moved_tail");
    if (M.pressure) FC.add("evict.case_under_memory_pressure");
    if (any_big) FC.add("evict.case_with_large_value");
    nt = M.nt_mixed || M.nt_tail || (c.mode != 0 && M.pressure) || (c.mode == 2);
    return ok();
}


// ------------------------------------------------------------------------------------------------ long fill/empty runs
enum { M_RISE_OWN, M_RISE_SHARED, M_RISE_EXTRA, M_REMOVE, M_OVERWRITE, M_EXPIRY, M_EVICT, M_CLEAR, NMETHODS };
static const char *method_names[] = {"rise_own", "rise_shared", "rise_extra", "remove", "overwrite_past", "expiry", "evict", "clear"};
static const int CAPACITY_TOLERANCE = 1;      // buddy size classes; see props/c08.py (measured: the drop is 0 on the unchanged tree)

static std::string fresh(const char *prefix, long n, bool longname) {
    std::string r = prefix + std::to_string(n);
    if (longname) r += "-fresh-name-padding-0123456789abcdefghijklmnopqrstuvwxyz";    // beyond the SSO buffer: allocates in the segment
    return r;
}
// upper bound of the shared memory of one entry: map node (256) + lru/timeout nodes (2 x 64) + value and key blocks, and per
// trigger two list nodes (2 x 64), the trigger record (128) and its name block
static size_t entry_bytes_exact(BEntry const &e) {
    size_t b = 384 + pow2ceil(e.vlen + 33) + pow2ceil(e.key.size() + 33);
    for (auto &t : e.trigs) b += 256 + pow2ceil(t.size() + 33);
    return b;
}
// Capacity of the EMPTY cache: the largest buddy size class c such that a value of 2^c - 64 bytes can be stored and fetched.
static int capacity_class(cache_ptr const &cache, size_t seg) {
    int top = 0; while ((size_t(1) << (top + 1)) <= seg) top++;
    const std::string pk("\x01probe");
    for (int cl = top; cl >= 8; cl--) {
        std::string v((size_t(1) << cl) - 64, 'p'), out;
        cache->store(pk, v, sset(), g_now + 1000);
        bool hit = cache->fetch(pk, &out, 0, 0, 0) && out.size() == v.size();
        cache->remove(pk);
        if (hit) return cl;
    }
    return 0;
}

static Outcome run_long(Case const &c, bool &nt, bool &inconclusive) {
    g_now = T0;
    cache_ptr cache = get_cache(1, c.seg_kib, c.limit);
    BranchModel M; M.limit = (unsigned)c.limit;
    size_t seg = (size_t)c.seg_kib * 1024;
    FC.add("evict.process.small_segment"); FC.add("evict.kind.long");
    long counter = 0, run = 0, max_run = 0, cycles_total = 0, names = 0, removals = 0;
    std::string where;
    auto ctx = [&]() { return where + " after " + std::to_string(removals) + " removals of fresh names (" + std::to_string(max_run > run ? max_run : run) + " without clear), " + std::to_string(names) + " distinct names | " + c.str(8); };
#define LONG_CHECK(o) do { if (M.overflow) { inconclusive = true; FC.add("evict.branch_overflow"); return ok(); } \
                           Outcome o_ = (o); if (!o_.ok()) return bad(o_.sig, o_.msg + " | " + ctx()); } while (0)
    auto check_stats = [&]() -> Outcome { unsigned keys = 0, trigs = 0; cache->stats(keys, trigs); return M.stats(keys, trigs, g_now); };

    int cap0 = capacity_class(cache, seg);
    { unsigned k0 = 0, t0 = 0; cache->stats(k0, t0); if (k0 || t0) return bad("shm:probe-left-entries", "the capacity probe left " + std::to_string(k0) + " keys in the cache | " + c.str(8)); }

    for (size_t pi = 0; pi < c.ops.size(); pi++) {
        Op const &op = c.ops[pi];
        if (op.kind != PHASE) continue;
        int method = ((op.flag % NMETHODS) + NMETHODS) % NMETHODS;
        int n = op.key < 1 ? 1 : (op.key > 12 ? 12 : op.key);
        int extra = op.trigs.size() > 0 ? op.trigs[0] : 0, shared = op.trigs.size() > 1 ? op.trigs[1] : 0;
        extra = extra < 0 ? 0 : (extra > 2 ? 2 : extra);
        if (method == M_RISE_SHARED) shared = 1;
        if (method == M_RISE_EXTRA && extra == 0) extra = 1;
        // entries left behind expired are only resolved (which of them went first is not specified) once all of them have been
        // pushed out: with at least `limit` fresh entries per fill the state set converges in every cycle
        if ((method == M_OVERWRITE || method == M_EXPIRY) && n < c.limit) n = c.limit;
        bool longk = op.vseed & 1, longt = op.vseed & 2;
        int vlen = op.vlen < 0 ? 0 : (op.vlen > 300 ? 300 : op.vlen);
        FC.addn("longcycle.empty_by=", method_names[method], op.dl > 0 ? op.dl : 0);
        for (long long cy = 0; cy < op.dl; cy++) {
            cycles_total++;
            where = "phase " + std::to_string(pi) + " (" + method_names[method] + ") cycle " + std::to_string(cy);
            std::string sh = fresh("s", counter, longt); if (shared) names++;
            std::vector<std::string> keys; std::vector<std::vector<std::string>> xs;
            for (int i = 0; i < n; i++) {
                std::string k = fresh("k", counter, longk); names++;
                sset T; if (shared) T.insert(sh);
                std::vector<std::string> x;
                for (int j = 0; j < extra; j++) { x.push_back(fresh(j ? "y" : "x", counter, longt)); T.insert(x.back()); names++; }
                counter++;
                std::string v = value((int)counter, vlen);
                auto e = std::make_shared<BEntry>(); e->key = k; e->vhash = vr::fnv(v); e->vlen = v.size(); e->trigs = T; e->trigs.insert(k);
                e->deadline = (time_t)(g_now + (method == M_EXPIRY ? 2 : 1000));
                if (!M.pressure) {
                    size_t live = 0;
                    for (auto &s : M.states) { size_t b = 0; for (auto &x2 : s.lru) b += entry_bytes_exact(*x2); live = std::max(live, b); }
                    if (live + 2 * entry_bytes_exact(*e) > seg / 16) { M.pressure = true; FC.add("longcycle.pressure_possible"); }
                }
                M.store(e, g_now);
                cache->store(k, v, T, e->deadline);
                LONG_CHECK(check_stats());
                keys.push_back(k); xs.push_back(x);
            }
            // after the fill: every key of this cycle is fetched (the model says which of them must hit), counts must match
            for (auto &k : keys) { Fetched f = do_fetch(cache, k); FC.add(f.hit ? "fetch.hit" : "fetch.miss"); LONG_CHECK(M.fetch(k, f, g_now)); }
            LONG_CHECK(check_stats());
            switch (method) {
            case M_RISE_OWN: for (auto &k : keys) { M.rise(k); cache->rise(k); } break;
            case M_RISE_SHARED: M.rise(sh); cache->rise(sh); break;
            case M_RISE_EXTRA: for (auto &x : xs) { M.rise(x[0]); cache->rise(x[0]); } break;
            case M_REMOVE: for (auto &k : keys) { M.remove(k); cache->remove(k); } break;
            case M_OVERWRITE:
                for (auto &k : keys) {
                    auto e = std::make_shared<BEntry>(); e->key = k; std::string v = "gone"; e->vhash = vr::fnv(v); e->vlen = v.size(); e->trigs.insert(k); e->deadline = (time_t)(g_now - 5);
                    M.store(e, g_now); cache->store(k, v, sset(), e->deadline);
                    LONG_CHECK(check_stats());
                }
                break;
            case M_EXPIRY: g_now += 3; break;
            case M_EVICT: break;
            case M_CLEAR: M.clear(); cache->clear(); break;
            }
            LONG_CHECK(check_stats());
            removals += n; run += n;
            if (method == M_CLEAR) { run -= n; max_run = std::max(max_run, run); run = 0; }
            if (M.overflow) { inconclusive = true; FC.add("evict.branch_overflow"); return ok(); }
            if (M.states.size() > 1) FC.add("evict.step_with_several_states");
        }
    }
    max_run = std::max(max_run, run);
    // empty the cache without clear() (clear would also drop whatever was leaked) and probe the capacity again
    where = "final emptying";
    { std::set<std::string> left; for (auto &s : M.states) for (auto &e : s.lru) left.insert(e->key);
      for (auto &k : left) { M.remove(k); cache->remove(k); } }
    LONG_CHECK(check_stats());
    FC.addn("longcycle.cycles", "", cycles_total); FC.addn("longcycle.distinct_names", "", names); FC.addn("longcycle.removals", "", removals);
    if (M.pressure) FC.add("evict.case_under_memory_pressure");
    if (M.evictions) FC.add("evict.case_with_forced_eviction");
    if (M.nt_mixed) FC.add("evict.expired_first_while_live_present");
    nt = max_run >= 1000;
    if (nt) FC.add("longcycle.case_with_1000_removals_without_clear");
    if (max_run >= 3000) FC.add("longcycle.case_with_3000_removals_without_clear");
    int cap1 = capacity_class(cache, seg);
    static const char *drops[] = {"0", "1", "2", "3+"};
    int drop = cap0 - cap1; FC.add("longcycle.capacity_drop=", drop <= 0 ? drops[0] : drops[drop > 3 ? 3 : drop]);
    if (drop > CAPACITY_TOLERANCE && !vr::envl("C08_NO_PROBE", 0))     // the knob exists to see what the model oracle alone catches
        return bad("shm:capacity-shrinks-after-fill-empty-cycles", "before the run a value of 2^" + std::to_string(cap0) + "-64 bytes fitted into the empty cache, after emptying it again "
                   "only 2^" + std::to_string(cap1) + "-64 bytes fit: memory of removed entries was not released | " + ctx());
    return ok();
}

static void precreate(int seg_kib) {
    // create the cache objects while the segment is pristine so that their tables sit at its low end
    for (int l : {0, 1, 2, 3, 4, 5, 6, 7, 8, 9, 10, 64}) get_cache(1, seg_kib, l);
}

// Small segments: the allocator state left behind by earlier cases (fragmentation) would make a case's outcome depend on the
// process history, so every such case runs in a forked child that creates its own pristine segment (the parent never creates
// one).  The child reports outcome and counters through a pipe.
static Outcome run_case(Case const &c) {
    VR.eval();
    bool hermetic = c.backend == 1 && c.seg_kib <= 16384;
    Outcome o; bool nt = false, inconclusive = false;
    if (!hermetic) {
        try { o = c.mode == 3 ? run_long(c, nt, inconclusive) : run_evict(c, nt, inconclusive); }
        catch (std::exception const &e) { o = bad("exception:evict", std::string("unexpected exception: ") + e.what() + " | " + c.str(60)); }
    } else {
        int fd[2];
        if (pipe(fd) != 0) throw std::runtime_error("pipe failed");
        fflush(stdout); fflush(stderr);
        pid_t pid = fork();
        if (pid < 0) throw std::runtime_error("fork failed");
        if (pid == 0) {
            close(fd[0]);
            unsetenv("VERIF_REPORT"); vr::crash_ctx().encode = nullptr;
            Outcome co;
            try { precreate(c.seg_kib); co = c.mode == 3 ? run_long(c, nt, inconclusive) : run_evict(c, nt, inconclusive); }
            catch (std::exception const &e) { co = bad("exception:evict", std::string("unexpected exception: ") + e.what() + " | " + c.str(60)); }
            vr::CaseWriter w; w.s(co.sig).s(co.msg).i(nt).i(inconclusive);
            for (auto &kv : FC.c) w.s(kv.first.first).s(kv.first.second).i(kv.second);
            std::string t = w.str(); size_t off = 0;
            while (off < t.size()) { ssize_t n = write(fd[1], t.data() + off, t.size() - off); if (n <= 0) break; off += (size_t)n; }
            _exit(0);
        }
        close(fd[1]);
        std::string t; char buf[65536]; ssize_t n;
        while ((n = read(fd[0], buf, sizeof buf)) > 0) t.append(buf, (size_t)n);
        close(fd[0]);
        int st = 0; waitpid(pid, &st, 0);
        if (!WIFEXITED(st) || WEXITSTATUS(st) != 0 || t.empty())
            o = bad("crash:evict-child", "the child process running this case died (status " + std::to_string(st) + ", sanitizer report above) | " + c.str(60));
        else {
            vr::CaseReader r(t);
            o.sig = r.s(); o.msg = r.s(); nt = r.i() != 0; inconclusive = r.i() != 0;
            while (r.more()) { std::string a = r.s(), b = r.s(); long long cnt = r.i(); if (a == "!excl!") VR.excl(b, cnt); else VR.cls(a + b, cnt); }
        }
    }
    for (auto &kv : FC.c) { if (std::string(kv.first.first) == "!excl!") VR.excl(kv.first.second, kv.second); else VR.cls(std::string(kv.first.first) + kv.first.second, kv.second); }
    FC.c.clear();
    if (inconclusive) VR.inconclusive++;
    if (o.ok() && nt) VR.nontrivial(c.hash());
    if (o.ok() && VR.want_sample()) VR.sample((c.mode == 3 ? "long " : c.mode == 2 ? "cycles " : c.mode == 1 ? "shm " : "lru ") + c.str(12));
    return o;
}

// ------------------------------------------------------------------------------------------------ generators
struct GenCfg { int backend, seg_kib; };

static rc::Gen<long long> gen_rel_deadline() {
    return rc::gen::weightedOneOf<long long>({{9, rc::gen::just((long long)1000)}, {6, rc::gen::element<long long>(1, 2, 3)}, {2, rc::gen::just((long long)0)},
                                              {3, rc::gen::element<long long>(-1, -3)}});
}

static rc::Gen<Case> gen_lru(GenCfg g) {
    return rc::gen::exec([g]() {
        Case c; c.backend = g.backend; c.seg_kib = g.seg_kib; c.mode = 0;
        c.limit = *vr::range<int>(1, 9);
        c.nkeys = c.limit + *rc::gen::weightedElement<int>({{1, 0}, {4, 1}, {4, 2}, {3, 4}, {1, 8}});
        int K = c.nkeys, ntr = K + 2;
        int len = *rc::gen::weightedElement<int>({{3, 20}, {5, 60}, {1, 150}});
        auto opgen = rc::gen::exec([K, ntr]() {
            Op o;
            o.kind = *rc::gen::weightedElement<int>({{40, STORE}, {28, FETCH}, {12, TICK}, {6, RISE}, {6, REMOVE}, {1, CLEAR}, {3, STATS}});
            switch (o.kind) {
            case STORE: {
                o.key = *vr::range<int>(0, K);
                int nt = *rc::gen::weightedElement<int>({{6, 0}, {3, 1}, {1, 2}, {1, 5}});
                for (int i = 0; i < nt; i++) o.trigs.push_back(*vr::range<int>(0, ntr));
                o.dl = *gen_rel_deadline();
                o.vlen = *rc::gen::weightedOneOf<int>({{1, rc::gen::just(0)}, {8, vr::range<int>(1, 24)}, {2, vr::range<int>(24, 300)}});
                o.vseed = *vr::range<int>(0, 1000000);
                break; }
            case FETCH: case REMOVE: o.key = *vr::range<int>(0, K); break;
            case RISE: o.key = *vr::range<int>(0, ntr); break;
            case TICK: o.dl = *rc::gen::element<long long>(1, 1, 2, 3); break;
            default: break;
            }
            return o;
        });
        c.ops = *rc::gen::resize(len, rc::gen::container<std::vector<Op>>(opgen));
        return c;
    });
}

static rc::Gen<int> gen_vlen_shm(int seg_kib) {
    int S = seg_kib * 1024;
    return rc::gen::weightedOneOf<int>({{8, vr::range<int>(0, 65)}, {4, vr::range<int>(1024, 4097)}, {4, vr::range<int>(S / 64, S / 16)}, {2, vr::range<int>(S / 16, S / 4)},
                                        {2, vr::range<int>(S / 4, S)}, {1, vr::range<int>(S, S + S / 2)}});
}

static rc::Gen<Case> gen_shm(GenCfg g) {
    return rc::gen::exec([g]() {
        Case c; c.backend = 1; c.seg_kib = g.seg_kib; c.mode = 1;
        c.limit = *rc::gen::element(0, 1, 2, 4, 8, 64);
        c.nkeys = *vr::range<int>(3, 10);
        int K = c.nkeys, ntr = K + 2, seg = g.seg_kib;
        auto opgen = rc::gen::exec([K, ntr, seg]() {
            Op o;
            o.kind = *rc::gen::weightedElement<int>({{45, STORE}, {28, FETCH}, {8, TICK}, {6, RISE}, {8, REMOVE}, {2, CLEAR}, {3, STATS}});
            switch (o.kind) {
            case STORE: {
                o.key = *vr::range<int>(0, K);
                int nt = *rc::gen::weightedElement<int>({{6, 0}, {3, 1}, {1, 3}});
                for (int i = 0; i < nt; i++) o.trigs.push_back(*vr::range<int>(0, ntr));
                o.dl = *gen_rel_deadline();
                o.vlen = *gen_vlen_shm(seg);
                o.vseed = *vr::range<int>(0, 1000000);
                break; }
            case FETCH: case REMOVE: o.key = *vr::range<int>(0, K); break;
            case RISE: o.key = *vr::range<int>(0, ntr); break;
            case TICK: o.dl = *rc::gen::element<long long>(1, 2, 3); break;
            default: break;
            }
            return o;
        });
        c.ops = *rc::gen::resize(40, rc::gen::container<std::vector<Op>>(opgen));
        return c;
    });
}

// fill -> empty -> refill.  The operations are written out explicitly so that a failing case replays without this generator.
static rc::Gen<Case> gen_cycles(GenCfg g, int max_cycles) {
    return rc::gen::exec([g, max_cycles]() {
        Case c; c.backend = 1; c.seg_kib = g.seg_kib; c.mode = 2;
        size_t S = (size_t)g.seg_kib * 1024;
        int n = *vr::range<int>(1, 9);
        c.nkeys = 2 * n;
        c.limit = *rc::gen::element(0, n, n + 2, 64);
        // live data stays below 1/16 of the segment: n values (+ one copy in flight)
        size_t per = (S / 16) / (size_t)(n + 2);
        int vmax = per > 4096 ? (int)(per / 2 - 1600) : 64;
        int vlen = *rc::gen::weightedOneOf<int>({{1, vr::range<int>(0, 64)}, {3, vr::range<int>(vmax / 2, vmax)}, {1, vr::range<int>(64, vmax)}});
        int cycles = *vr::range<int>(2, max_cycles + 1);
        int method = *vr::range<int>(0, 5);
        bool alternate = *rc::gen::arbitrary<bool>();      // use a second set of keys in odd cycles
        bool fetch_mid = *rc::gen::arbitrary<bool>();
        int trig = 2 * n;                                  // a trigger shared by all entries of a cycle
        for (int cy = 0; cy < cycles; cy++) {
            int base = alternate && (cy & 1) ? n : 0;
            for (int i = 0; i < n; i++) {
                Op o; o.kind = STORE; o.key = base + i; o.vlen = vlen; o.vseed = cy * 100 + i; o.trigs.push_back(trig); o.dl = method == 3 ? 2 : 1000;
                c.ops.push_back(o);
                if (fetch_mid && i % 3 == 0) { Op f; f.kind = FETCH; f.key = base + (i / 2); c.ops.push_back(f); }
            }
            for (int i = 0; i < n; i++) { Op f; f.kind = FETCH; f.key = base + i; c.ops.push_back(f); }
            switch (method) {
            case 0: { Op o; o.kind = CLEAR; c.ops.push_back(o); break; }
            case 1: for (int i = 0; i < n; i++) { Op o; o.kind = REMOVE; o.key = base + i; c.ops.push_back(o); } break;
            case 2: { Op o; o.kind = RISE; o.key = trig; c.ops.push_back(o); break; }
            case 3: { Op o; o.kind = TICK; o.dl = 3; c.ops.push_back(o); break; }      // entries expire; they are replaced / evicted by the next fill
            case 4: for (int i = 0; i < n; i++) { Op o; o.kind = STORE; o.key = base + i; o.vlen = 1; o.vseed = cy; o.dl = 1000; c.ops.push_back(o); Op r; r.kind = REMOVE; r.key = base + i; c.ops.push_back(r); } break;
            }
        }
        return c;
    });
}


// long runs: 1..3 phases, each `cycles` rounds of (fill n fresh entries, empty them by one method)
static rc::Gen<Case> gen_long(bool thorough) {
    return rc::gen::exec([thorough]() {
        Case c; c.backend = 1; c.mode = 3;
        c.seg_kib = thorough ? *rc::gen::element(512, 640, 768, 1024, 1536, 2048, 3072, 4096) : *rc::gen::element(512, 512, 640, 768, 1024, 1536, 2048);
        c.limit = *vr::range<int>(1, 9);
        c.nkeys = c.limit;
        int nph = *rc::gen::weightedElement<int>({{6, 1}, {3, 2}, {1, 3}});
        int hi = thorough ? 20000 : 7000;
        int R = *rc::gen::weightedOneOf<int>({{3, vr::range<int>(300, 1000)}, {7, vr::range<int>(3000, hi + 1)}});
        for (int p = 0; p < nph; p++) {
            Op o; o.kind = PHASE;
            o.flag = *rc::gen::weightedElement<int>({{3, (int)M_RISE_OWN}, {3, (int)M_RISE_SHARED}, {3, (int)M_RISE_EXTRA}, {3, (int)M_REMOVE}, {3, (int)M_OVERWRITE}, {3, (int)M_EXPIRY}, {3, (int)M_EVICT}, {2, (int)M_CLEAR}});
            o.key = *rc::gen::weightedOneOf<int>({{5, rc::gen::just(c.limit)}, {3, vr::range<int>(1, c.limit + 3)}});
            o.dl = std::max(1, R / nph / o.key);
            o.vlen = *rc::gen::element(0, 16, 16, 100, 300);
            o.vseed = *vr::range<int>(0, 4);
            o.trigs.push_back(*vr::range<int>(0, 3));
            o.trigs.push_back(*vr::range<int>(0, 2));
            c.ops.push_back(o);
        }
        return c;
    });
}

int main(int argc, char **argv) {
    VR.max_samples = 2;      // the evidence keeps 12 samples in all: leave room for several units
    GenCfg g; g.backend = (int)vr::envl("C07_BACKEND", 0); g.seg_kib = g.backend ? (int)vr::envl("C07_SEG_KIB", 262144) : 0;
    std::vector<std::unique_ptr<vr::PropBase>> props;
    props.push_back(vr::prop<Case>("lru", gen_lru(g), run_case));
    GenCfg gs = g; if (!gs.backend || gs.seg_kib > 8192) { gs.backend = 1; gs.seg_kib = 1024; }
    props.push_back(vr::prop<Case>("shm", gen_shm(gs), run_case));
    props.push_back(vr::prop<Case>("cycles", gen_cycles(gs, vr::thorough() ? 120 : 48), run_case));
    props.push_back(vr::prop<Case>("long", gen_long(vr::thorough()), run_case));
    return vr::rc_main(argc, argv, props);
}
