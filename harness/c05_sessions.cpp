// C05 — client-side sessions are accepted only if issued by this server and unexpired.
//
// One rapidcheck case = (encryptor configuration A, a near-miss configuration B, a virtual "now", 2..4 saves (payload, expiry)).
// The public path is used: session_pool(json).init() -> pool.get() (the session_cookies object the pool configured) driven
// through a session_interface(pool, cookie adapter); a second pass goes through session_interface::save()/load() itself.
// For every issued cookie the harness derives the attacker families of DESIGN.md 3/C05 exhaustively (every bit flip, every
// truncation, extensions, block swaps, splices, transplant to B, character substitutions, random strings) and -- with its own
// OpenSSL based reference of the wire format -- MAC-valid but malformed cipher texts, and checks every load against a model:
//   the set of (cipher text -> payload, expiry) issued under the same key material.
// Oracles are independent of cppcms: strict base64url decoder, OpenSSL HMAC()/EVP AES-CBC, the issued-set model, virtual clock.
#include "vrc.h"
#include <cppcms/session_pool.h>
#include <cppcms/session_interface.h>
#include <cppcms/session_api.h>
#include <cppcms/http_cookie.h>
#include <cppcms/json.h>
#include <cppcms/cppcms_error.h>
#include <openssl/evp.h>
#include <openssl/hmac.h>
#include <map>
#include <set>
#include <unordered_set>
#include <algorithm>

using vr::Outcome; using vr::ok; using vr::bad;

// ---- virtual clock (link-time interposition: -Wl,--wrap=time) ---------------------------------------------------------
static long long g_now = 1000000000;
extern "C" time_t __wrap_time(time_t *t) { if (t) *t = (time_t)g_now; return (time_t)g_now; }

// ---- read two private members of session_interface without touching the source (explicit instantiation may name them) --
template <class Tag, typename Tag::type M> struct Rob { friend typename Tag::type rob_get(Tag) { return M; } };
struct TagTemp { typedef std::string cppcms::session_interface::*type; friend type rob_get(TagTemp); };
template struct Rob<TagTemp, &cppcms::session_interface::temp_cookie_>;
struct TagTin { typedef time_t cppcms::session_interface::*type; friend type rob_get(TagTin); };
template struct Rob<TagTin, &cppcms::session_interface::timeout_in_>;

// ---- small independent helpers ------------------------------------------------------------------------------------------
struct Rng {   // splitmix64, seeded from the case: every in-body choice is a function of the case
    uint64_t s;
    explicit Rng(uint64_t seed) : s(seed * 0x9E3779B97F4A7C15ULL + 0x1234567) {}
    uint64_t next() { uint64_t z = (s += 0x9E3779B97F4A7C15ULL); z = (z ^ (z >> 30)) * 0xBF58476D1CE4E5B9ULL; z = (z ^ (z >> 27)) * 0x94D049BB133111EBULL; return z ^ (z >> 31); }
    size_t below(size_t n) { return n ? (size_t)(next() % n) : 0; }
    std::string bytes(size_t n) { std::string r(n, '\0'); for (auto &c : r) c = (char)(next() >> 17); return r; }
};

static const char B64[] = "ABCDEFGHIJKLMNOPQRSTUVWXYZabcdefghijklmnopqrstuvwxyz0123456789-_";
static int b64v(unsigned char c) {
    static int tab[256]; static bool init = false;
    if (!init) { for (int i = 0; i < 256; i++) tab[i] = -1; for (int i = 0; i < 64; i++) tab[(unsigned char)B64[i]] = i; init = true; }
    return tab[c];
}
static std::string ref_b64(std::string const &s) {
    std::string r; size_t i = 0;
    r.reserve(s.size() / 3 * 4 + 4);
    for (; i + 3 <= s.size(); i += 3) {
        unsigned v = ((unsigned char)s[i] << 16) | ((unsigned char)s[i + 1] << 8) | (unsigned char)s[i + 2];
        r += B64[v >> 18]; r += B64[(v >> 12) & 63]; r += B64[(v >> 6) & 63]; r += B64[v & 63];
    }
    if (s.size() - i == 1) { unsigned v = (unsigned char)s[i] << 16; r += B64[v >> 18]; r += B64[(v >> 12) & 63]; }
    else if (s.size() - i == 2) { unsigned v = ((unsigned char)s[i] << 16) | ((unsigned char)s[i + 1] << 8); r += B64[v >> 18]; r += B64[(v >> 12) & 63]; r += B64[(v >> 6) & 63]; }
    return r;
}
// strict, canonical base64url: alphabet only, length%4 != 1, unused trailing bits zero
static bool strict_b64(std::string const &t, std::string &out) {
    out.clear();
    if (t.size() % 4 == 1) return false;
    out.reserve(t.size() / 4 * 3 + 3);
    unsigned acc = 0; int bits = 0;
    for (unsigned char c : t) {
        int v = b64v(c); if (v < 0) return false;
        acc = (acc << 6) | (unsigned)v; bits += 6;
        if (bits >= 8) { bits -= 8; out += char((acc >> bits) & 255); }
    }
    if (bits && (acc & ((1u << bits) - 1))) return false;
    return true;
}
static bool strict_cookie(std::string const &text, std::string &cipher) { return !text.empty() && text[0] == 'C' && strict_b64(text.substr(1), cipher); }
static std::string pct_decode(std::string const &s) {   // what a cookie jar does with the value cppcms url-encodes
    std::string r; auto hv = [](char c) { return c <= '9' ? c - '0' : (c | 32) - 'a' + 10; };
    for (size_t i = 0; i < s.size(); i++) { if (s[i] == '%' && i + 2 < s.size() + 0 && isxdigit((unsigned char)s[i + 1]) && isxdigit((unsigned char)s[i + 2])) { r += char(hv(s[i + 1]) * 16 + hv(s[i + 2])); i += 2; } else r += s[i]; }
    return r;
}

// ---- reference crypto (OpenSSL high level API; cppcms uses its own md5/sha1/HMAC and the low level AES_* calls) -----------
static const char *ALG[6] = {"md5", "sha1", "sha224", "sha256", "sha384", "sha512"};
static const unsigned DSZ[6] = {16, 20, 28, 32, 48, 64};
static const unsigned BSZ[6] = {64, 64, 64, 64, 128, 128};
static const EVP_MD *md_of(int a) { switch (a) { case 0: return EVP_md5(); case 1: return EVP_sha1(); case 2: return EVP_sha224(); case 3: return EVP_sha256(); case 4: return EVP_sha384(); default: return EVP_sha512(); } }
static std::string ref_hmac(int alg, std::string const &key, std::string const &msg) {
    unsigned char out[EVP_MAX_MD_SIZE]; unsigned len = 0;
    if (!HMAC(md_of(alg), key.empty() ? (const void *)"" : (const void *)key.data(), (int)key.size(), (unsigned char const *)msg.data(), msg.size(), out, &len)) throw std::runtime_error("reference HMAC failed");
    return std::string((char *)out, len);
}
static std::string ref_digest(int alg, std::string const &msg) {
    unsigned char out[EVP_MAX_MD_SIZE]; unsigned len = 0;
    if (!EVP_Digest(msg.data(), msg.size(), out, &len, md_of(alg), 0)) throw std::runtime_error("reference digest failed");
    return std::string((char *)out, len);
}
static std::string ref_cbc(bool enc, int bits, std::string const &key, std::string const &iv, std::string const &in) {
    const EVP_CIPHER *c = bits == 128 ? EVP_aes_128_cbc() : bits == 192 ? EVP_aes_192_cbc() : EVP_aes_256_cbc();
    EVP_CIPHER_CTX *ctx = EVP_CIPHER_CTX_new();
    std::string out(in.size() + 32, '\0'); int n1 = 0, n2 = 0;
    bool good = EVP_CipherInit_ex(ctx, c, 0, (unsigned char const *)key.data(), (unsigned char const *)iv.data(), enc ? 1 : 0) == 1
        && EVP_CIPHER_CTX_set_padding(ctx, 0) == 1
        && EVP_CipherUpdate(ctx, (unsigned char *)&out[0], &n1, (unsigned char const *)in.data(), (int)in.size()) == 1
        && EVP_CipherFinal_ex(ctx, (unsigned char *)&out[0] + n1, &n2) == 1;
    EVP_CIPHER_CTX_free(ctx);
    if (!good) throw std::runtime_error("reference AES-CBC failed");
    out.resize(n1 + n2); return out;
}
static std::string le32(uint32_t v) { std::string r(4, '\0'); for (int i = 0; i < 4; i++) r[i] = char(v >> (8 * i)); return r; }
static std::string time_bytes(long long t) { time_t v = (time_t)t; return std::string((char const *)&v, sizeof v); }

// ---- configuration -----------------------------------------------------------------------------------------------------
struct Cfg {
    int kind = 0;   // 0 encryptor=hmac-X  1 hmac=X,hmac_key  2 encryptor=aesN, key of exactly cbc+20 bytes  3 encryptor=aesN, derivation key  4 cbc=aesN,cbc_key,hmac=X,hmac_key
    int alg = 1, bits = 128, alias = 0;
    std::string k1, k2;
    bool aes() const { return kind >= 2; }
    int mac_alg() const { return (kind == 2 || kind == 3) ? 1 : alg; }
};
static std::string up(std::string s) { for (auto &c : s) c = (char)toupper((unsigned char)c); return s; }
static std::string cbc_name(Cfg const &c, bool any_case) {
    std::string n = std::to_string(c.bits);
    std::vector<std::string> v;
    if (c.bits == 128) v.push_back("aes");
    v.push_back("aes" + n); v.push_back("aes-" + n);
    if (any_case) { v.push_back("AES" + n); v.push_back("AES-" + n); if (c.bits == 128) v.push_back("AES"); }
    return v[(size_t)c.alias % v.size()];
}
static std::string mac_name(Cfg const &c) { return (c.alias & 1) ? up(ALG[c.alg]) : std::string(ALG[c.alg]); }
static std::string describe(Cfg const &c) {
    switch (c.kind) {
    case 0: return "encryptor=" + ((c.alg == 1 && c.alias == 2) ? std::string("hmac") : "hmac-" + mac_name(c)) + " key[" + std::to_string(c.k1.size()) + "]";
    case 1: return "hmac=" + mac_name(c) + " hmac_key[" + std::to_string(c.k1.size()) + "]";
    case 2: return "encryptor=" + cbc_name(c, false) + " key[" + std::to_string(c.k1.size()) + "](exact)";
    case 3: return "encryptor=" + cbc_name(c, false) + " key[" + std::to_string(c.k1.size()) + "](derived)";
    default: return "cbc=" + cbc_name(c, true) + " cbc_key[" + std::to_string(c.k1.size()) + "] hmac=" + mac_name(c) + " hmac_key[" + std::to_string(c.k2.size()) + "]";
    }
}
static cppcms::json::value to_json(Cfg const &c) {
    cppcms::json::value v;
    v["session"]["location"] = "client";
    switch (c.kind) {
    case 0: v["session"]["client"]["encryptor"] = (c.alg == 1 && c.alias == 2) ? std::string("hmac") : "hmac-" + mac_name(c); v["session"]["client"]["key"] = vr::hex(c.k1); break;
    case 1: v["session"]["client"]["hmac"] = mac_name(c); v["session"]["client"]["hmac_key"] = (c.alias & 2) ? up(vr::hex(c.k1)) : vr::hex(c.k1); break;
    case 2: case 3: v["session"]["client"]["encryptor"] = cbc_name(c, false); v["session"]["client"]["key"] = vr::hex(c.k1); break;
    default:
        v["session"]["client"]["cbc"] = cbc_name(c, true); v["session"]["client"]["cbc_key"] = vr::hex(c.k1);
        v["session"]["client"]["hmac"] = mac_name(c); v["session"]["client"]["hmac_key"] = vr::hex(c.k2);
    }
    return v;
}
static void pad_to(std::string &k, size_t n) { while (k.size() < n) k += char(0xA5 + 7 * k.size()); }
// make any generated / shrunk configuration a valid one (valid = accepted by session_pool::init by the documented rules)
static Cfg fix(Cfg c) {
    if (c.kind < 0 || c.kind > 4) c.kind = 0;
    if (c.alg < 0 || c.alg > 5) c.alg = 1;
    if (c.bits != 128 && c.bits != 192 && c.bits != 256) c.bits = 128;
    if (c.alias < 0) c.alias = 0;
    size_t ck = (size_t)c.bits / 8;
    switch (c.kind) {
    case 0: case 1: pad_to(c.k1, 16); c.k2.clear(); break;
    case 2: pad_to(c.k1, ck + 20); c.k1.resize(ck + 20); c.k2.clear(); break;
    case 3: pad_to(c.k1, ck); if (c.k1.size() == ck + 20) c.k1 += char(0x5A); c.k2.clear(); break;
    default: pad_to(c.k1, ck); c.k1.resize(ck); pad_to(c.k2, 16);
    }
    return c;
}

// key material in canonical form: two configurations with different ids never accept each other's cookies
struct KeyMat { bool aes = false; int bits = 0, alg = 1; std::string cbc_key, mac_key; bool known = false; std::string id, mac_id; };
static std::string canon_hmac_key(int alg, std::string k) {
    if (k.size() > BSZ[alg]) k = ref_digest(alg, k);          // RFC 2104: long keys are hashed, short ones zero padded
    while (!k.empty() && k.back() == '\0') k.pop_back();
    return k;
}
static KeyMat keymat(Cfg const &c) {
    KeyMat m; m.aes = c.aes(); m.bits = c.bits; m.alg = c.mac_alg();
    size_t ck = (size_t)c.bits / 8;
    switch (c.kind) {
    case 0: case 1: m.mac_key = c.k1; m.known = true; break;
    case 2: m.cbc_key = c.k1.substr(0, ck); m.mac_key = c.k1.substr(ck); m.known = true; break;
    case 3: {  // keys are derived from k1 by an undocumented KDF: the reference stays out of it; identity = (bits, HMAC-equivalence class of k1)
        int kdf = c.k1.size() * 8 <= 256 ? 3 : 5;
        m.id = "aesd|" + std::to_string(c.bits) + "|" + ALG[kdf] + "|" + vr::hex(canon_hmac_key(kdf, c.k1)); m.mac_id = "derived|" + m.id; m.known = false; return m; }
    default: m.cbc_key = c.k1; m.mac_key = c.k2; m.known = true;
    }
    m.id = m.aes ? "aes|" + std::to_string(m.bits) + "|" + vr::hex(m.cbc_key) + "|" : std::string("hmac|");
    m.mac_id = std::string(ALG[m.alg]) + "|" + vr::hex(canon_hmac_key(m.alg, m.mac_key));   // what authenticity rests on
    m.id += m.mac_id;
    return m;
}

// ---- the cookie jar (session_interface_cookie_adapter) ------------------------------------------------------------------
struct Jar : cppcms::session_interface_cookie_adapter {
    std::string value; int sets = 0, clears = 0, others = 0;
    void reset() { sets = clears = others = 0; }
    void set_cookie(cppcms::http::cookie const &c) override {
        if (c.name() != "cppcms_session") { others++; return; }
        std::string v = pct_decode(c.value());
        bool del = v.empty() || (c.max_age_defined() && c.max_age() == 0) || (c.expires_defined() && (long long)c.expires() < g_now);
        if (del) { clears++; value.clear(); } else { sets++; value = v; }
    }
    std::string get_session_cookie(std::string const &) override { return value; }
    std::set<std::string> get_cookie_names() override { std::set<std::string> s; if (!value.empty()) s.insert("cppcms_session"); return s; }
};

struct Server {
    Cfg cfg; KeyMat km; cppcms::json::value js;
    std::unique_ptr<cppcms::session_pool> pool; Jar jar;
    std::unique_ptr<cppcms::session_interface> si; booster::shared_ptr<cppcms::session_api> api;
    explicit Server(Cfg const &c) : cfg(c), km(keymat(c)), js(to_json(c)) {
        pool.reset(new cppcms::session_pool(js)); pool->init();
        si.reset(new cppcms::session_interface(*pool, jar));
        api = pool->get();
        if (!api) throw std::runtime_error("session_pool::get() returned no session_api for " + describe(c));
    }
    std::string save_raw(std::string const &payload, long long expiry) {
        (*si).*rob_get(TagTemp()) = std::string();
        api->save(*si, payload, (time_t)expiry, true, false);
        return (*si).*rob_get(TagTemp());
    }
};

struct Issued { std::string text, cipher, payload; long long expiry; };
typedef std::map<std::string, std::pair<std::string, long long>> IssuedSet;   // cipher text -> (payload, expiry)
struct Model { std::map<std::string, IssuedSet> by_key; };

enum Expect { ANY, MUST_REJECT, MUST_ACCEPT };

// One load of one cookie text, checked against the model.  Returns a non-ok Outcome on the first broken rule.
static Outcome probe(Server &s, Model &m, std::string const &text, std::string const &family, Expect ex = ANY, bool nt_force = false) {
    VR.eval();
    s.jar.value = text; s.jar.reset();
    std::string data = "\x01unset"; time_t exp = (time_t)-7777;
    bool okl;
    auto mkctx = [&] { return " family=" + family + " cfg={" + describe(s.cfg) + "} now=" + std::to_string(g_now) + " cookie=" + vr::show(text, 200); };
#define ctx mkctx()
    try { okl = s.api->load(*s.si, data, exp); }
    catch (std::exception const &e) { return bad("load:exception:" + family, std::string("session_cookies::load threw: ") + e.what() + ctx); }
    std::string cipher; bool has = strict_cookie(text, cipher);
    IssuedSet &iss = m.by_key[s.km.id];
    IssuedSet::iterator it = has ? iss.find(cipher) : iss.end();
    unsigned D = DSZ[s.km.alg];
    bool reaches_mac = has && (s.km.aes ? (cipher.size() >= D + 32 && (cipher.size() - D) % 16 == 0) : cipher.size() >= D);
    if ((reaches_mac && it == iss.end()) || nt_force) { VR.nontrivial(vr::fnv(text, vr::fnv(s.km.id) ^ (uint64_t)g_now)); VR.cls(family + (nt_force ? ".clock-edge" : ".mac-decides")); }
    else VR.cls(family + (it != iss.end() ? ".genuine" : ".shape-rejects"));
    if (okl) {
        V_CHECK(s.jar.clears == 0 && s.jar.sets == 0, "accept:cookie-touched", "load succeeded but the cookie was rewritten/cleared" + ctx);
        bool member = false;
        for (auto &kv : iss) if (kv.second.first == data && kv.second.second == (long long)exp) member = true;
        V_CHECK(member, "accept-forged:" + family, "load succeeded with (payload " + vr::show(data, 60) + ", expiry " + std::to_string((long long)exp) + ") that no save under this key material produced" + ctx);
        V_CHECK((long long)exp >= g_now, "accept-expired:" + family, "load succeeded with expiry " + std::to_string((long long)exp) + " < now" + ctx);
        if (has) {
            V_CHECK(it != iss.end(), "accept-forged:" + family, "cookie decodes to a cipher text this server never produced, yet load succeeded (returned data equal to a genuine save: malleable MAC)" + ctx);
            V_CHECK(it->second.first == data && it->second.second == (long long)exp, "accept-wrong-data:" + family, "load returned data/expiry of another save" + ctx);
        }
        V_CHECK(ex != MUST_REJECT, "accept-malformed:" + family, "a cipher text of a shape this server never produces was accepted" + ctx);
        VR.cls("accepted." + family);
    } else {
        if (!text.empty()) V_CHECK(s.jar.clears >= 1, "reject-not-cleared:" + family, "load failed but the cookie was not cleared" + ctx);
        V_CHECK(s.jar.sets == 0, "reject:cookie-set", "load failed and a cookie was set" + ctx);
        if (it != iss.end()) V_CHECK(it->second.second < g_now, "reject-genuine:" + family, "an unexpired cookie issued by this server (expiry " + std::to_string(it->second.second) + ") was rejected" + ctx);
        V_CHECK(ex != MUST_ACCEPT, "reject-wellformed:" + family, "a well-formed cookie made with the same keys by the reference implementation was rejected" + ctx);
    }
    return ok();
#undef ctx
}
#define PROBE(...) do { Outcome o_ = probe(__VA_ARGS__); if (!o_.ok()) return o_; } while (0)

// ---- the case ------------------------------------------------------------------------------------------------------------
struct Save { std::string payload; long long delta = 0; };
struct Case {
    Cfg a; int other_mode = 0, other_alg = 0, other_bits = 128; std::string ok1, ok2;
    long long now = 1500000000; unsigned seed = 1; std::vector<Save> saves;
    int share_mac = 0;   // never generated: regression cases only (B re-uses A's MAC key in another scheme / with another CBC key)
    void encode(vr::CaseWriter &w) const {
        w.i(a.kind).i(a.alg).i(a.bits).i(a.alias).s(a.k1).s(a.k2).nl();
        w.i(other_mode).i(other_alg).i(other_bits).s(ok1).s(ok2).nl();
        w.i(now).u(seed).i(share_mac).i((long long)saves.size()).nl();
        for (auto &s : saves) w.i(s.delta).s(s.payload).nl();
    }
    static Case decode(vr::CaseReader &r) {
        Case c; c.a.kind = (int)r.i(); c.a.alg = (int)r.i(); c.a.bits = (int)r.i(); c.a.alias = (int)r.i(); c.a.k1 = r.s(); c.a.k2 = r.s();
        c.other_mode = (int)r.i(); c.other_alg = (int)r.i(); c.other_bits = (int)r.i(); c.ok1 = r.s(); c.ok2 = r.s();
        c.now = r.i(); c.seed = (unsigned)r.u(); c.share_mac = (int)r.i(); long long n = r.i();
        for (long long i = 0; i < n; i++) { Save s; s.delta = r.i(); s.payload = r.s(); c.saves.push_back(s); }
        return c;
    }
};

// the near-miss configuration B the cookies of A are transplanted to
static Cfg other_of(Case const &c, Cfg const &A) {
    Cfg B = A; Rng r(c.seed ^ 0xB0B);
    switch (c.other_mode % 5) {
    case 0: {   // one key bit flipped
        std::string &k = A.kind == 4 ? (c.share_mac ? B.k1 : B.k2) : B.k1;   // split keys: the MAC key, see "shared MAC key" below
        size_t bit = r.below(k.size() * 8); k[bit / 8] = char(k[bit / 8] ^ (1 << (bit % 8)));
        break; }
    case 1:     // same key bytes, different algorithm
        if (A.kind == 2 || A.kind == 3) { B.kind = 3; B.bits = A.bits == 128 ? 192 : A.bits == 192 ? 256 : 128; if (B.k1.size() < (size_t)B.bits / 8) B.bits = 128; }
        else B.alg = (A.alg + 1 + (c.other_alg % 5 + 5) % 5) % 6;
        break;
    case 2:     // unrelated keys
        B.k1 = c.ok1; B.k2 = c.ok2; break;
    case 3:     // another kind of encryptor fed with the same key bytes
        if (!A.aes()) { B.kind = 3; B.bits = c.other_bits; }
        else { B.kind = 0; B.alg = A.mac_alg(); B.alias = 0; B.k1 = (A.kind == 4 && c.share_mac) ? A.k2 : A.k1; }
        break;
    default: {  // key one byte longer / shorter
        std::string &k = A.kind == 4 ? B.k2 : B.k1;
        if ((r.next() & 1) && k.size() > 17) k.pop_back(); else k += char(1 + r.below(255));
        if (A.kind == 2) B.kind = 3;
        break; }
    }
    return fix(B);
}

static std::string flip_bit(std::string s, size_t bit) { s[bit / 8] = char(s[bit / 8] ^ (1 << (bit % 8))); return s; }
static std::string cookie_of(std::string const &cipher) { return "C" + ref_b64(cipher); }

static size_t exh_limit() { return (size_t)vr::envl("C05_EXH", 420); }

// positions to mutate: all when the string is small, otherwise both ends + every structural region + a random sample
static std::vector<size_t> positions(size_t n, size_t D, Rng &r, size_t sample) {
    std::vector<size_t> v;
    if (n <= exh_limit()) { for (size_t i = 0; i < n; i++) v.push_back(i); return v; }
    std::set<size_t> s;
    for (size_t i = 0; i < 48 && i < n; i++) s.insert(i);
    for (size_t i = n > D + 40 ? n - D - 40 : 0; i < n; i++) s.insert(i);
    for (size_t i = 0; i < sample; i++) s.insert(r.below(n));
    v.assign(s.begin(), s.end()); return v;
}

static Outcome check_wire_format(Server &s, Issued const &is) {
    // the cipher text the server produced has the documented shape and its MAC is the standard HMAC over everything before it
    KeyMat const &k = s.km; unsigned D = DSZ[k.alg];
    std::string plain = time_bytes(is.expiry) + is.payload;
    std::string ctx = " cfg={" + describe(s.cfg) + "} payload[" + std::to_string(is.payload.size()) + "]";
    if (!k.aes) {
        V_CHECK(is.cipher.size() == plain.size() + D, "format:hmac-length", "cipher text length " + std::to_string(is.cipher.size()) + ctx);
        V_CHECK(is.cipher.compare(0, plain.size(), plain) == 0, "format:hmac-body", "signed cookie does not start with expiry||payload" + ctx);
        V_CHECK(is.cipher.substr(plain.size()) == ref_hmac(k.alg, k.mac_key, plain), "format:hmac-mac", "trailing MAC is not HMAC(key, expiry||payload)" + ctx);
        return ok();
    }
    size_t body = 16 + (plain.size() + 4 + 15) / 16 * 16;
    V_CHECK(is.cipher.size() == body + D, "format:aes-length", "cipher text length " + std::to_string(is.cipher.size()) + " expected " + std::to_string(body + D) + ctx);
    V_CHECK(is.cipher.substr(body) == ref_hmac(k.alg, k.mac_key, is.cipher.substr(0, body)), "format:aes-mac-coverage", "trailing MAC is not HMAC(mac key, iv block || encrypted blocks)" + ctx);
    std::string dec = ref_cbc(false, k.bits, k.cbc_key, is.cipher.substr(0, 16), is.cipher.substr(16, body - 16));
    std::string want = le32((uint32_t)plain.size()) + plain; want.resize(body - 16, '\0');
    V_CHECK(dec == want, "format:aes-plaintext", "AES-CBC decryption (IV = first block) is not length||expiry||payload||zero padding" + ctx);
    return ok();
}

// MAC-valid cipher texts made by the reference with the server's keys
static std::string ref_hmac_cookie(KeyMat const &k, std::string const &plain) { return plain + ref_hmac(k.alg, k.mac_key, plain); }
static std::string ref_aes_cookie_raw(KeyMat const &k, std::string const &blocks /* iv block + encrypted blocks, any length */) { return blocks + ref_hmac(k.alg, k.mac_key, blocks); }
static std::string ref_aes_cookie(KeyMat const &k, std::string const &iv, uint32_t size_field, std::string const &body, size_t total_plain_blocks_bytes) {
    std::string p = le32(size_field) + body; p.resize(total_plain_blocks_bytes, '\0');
    return ref_aes_cookie_raw(k, iv + ref_cbc(true, k.bits, k.cbc_key, iv, p));
}

static Outcome p_cookies(Case const &cs) {
    Case c = cs;
    while (c.saves.size() < 2) c.saves.push_back(c.saves.empty() ? Save() : c.saves[0]);
    Cfg A = fix(c.a), Bc = other_of(c, A);
    Rng rng(c.seed);
    Model model;
    g_now = c.now;
    Server sa(A), sb(Bc);
    unsigned D = DSZ[sa.km.alg];
    bool same_material = sa.km.id == sb.km.id;
    // Two different schemes / CBC keys that share the MAC key: a MAC-valid byte string of one is MAC-valid for the other, so
    // rejection is not guaranteed (no domain separation in the wire format).  Never constructed by the generator, and not
    // asserted when shrinking produces it; `share_mac` cases (replays/C05) still exercise it under its own family name.
    bool shared_mac = !same_material && sa.km.mac_id == sb.km.mac_id;
    if (A.kind == 4 && (c.other_mode % 5 == 0 || c.other_mode % 5 == 3) && !c.share_mac) VR.excl("transplant.shared-mac-key-across-schemes");
    bool do_transplant = !shared_mac || c.share_mac;
    std::string tfam = shared_mac ? "transplant-shared-mac-key" : "transplant";
    VR.cls(std::string("cfg.") + (A.kind <= 1 ? "hmac-" : A.kind == 2 ? "aes-exact-" : A.kind == 3 ? "aes-derived-" : "aes-split-") + (A.aes() ? std::to_string(A.bits) + "-" : std::string()) + ALG[A.mac_alg()]);
    VR.cls("other." + std::to_string(c.other_mode % 5) + (same_material ? ".same-material" : ""));

    // 1. saves ------------------------------------------------------------------------------------------------------------
    std::vector<Issued> iss;
    for (auto &sv : c.saves) {
        Issued is; is.payload = sv.payload; is.expiry = c.now + sv.delta;
        is.text = sa.save_raw(sv.payload, is.expiry);
        V_CHECK(strict_cookie(is.text, is.cipher), "save:cookie-format", "issued cookie is not 'C' + canonical base64url: " + vr::show(is.text, 120));
        if (sa.km.known) { Outcome o = check_wire_format(sa, is); if (!o.ok()) return o; }
        model.by_key[sa.km.id][is.cipher] = std::make_pair(is.payload, is.expiry);
        iss.push_back(is);
        VR.cls(sv.payload.size() <= 256 ? "payload.le256" : sv.payload.size() <= 4096 ? "payload.le4096" : "payload.le65536");
    }
    Issued foreign;   // B's own cookie for A's first payload
    foreign.payload = c.saves[0].payload; foreign.expiry = c.now + c.saves[0].delta;
    foreign.text = sb.save_raw(foreign.payload, foreign.expiry);
    V_CHECK(strict_cookie(foreign.text, foreign.cipher), "save:cookie-format", "issued cookie is not 'C' + canonical base64url: " + vr::show(foreign.text, 120));
    model.by_key[sb.km.id][foreign.cipher] = std::make_pair(foreign.payload, foreign.expiry);

    // 2. genuine cookies around their expiry ---------------------------------------------------------------------------------
    for (auto &is : iss) {
        long long clocks[] = {c.now, is.expiry - 2, is.expiry - 1, is.expiry, is.expiry + 1, is.expiry + 2, is.expiry + 100000};
        for (long long t : clocks) { g_now = t; PROBE(sa, model, is.text, "genuine", ANY, t != c.now && t != is.expiry + 100000); }
    }
    long long tclock = foreign.expiry;
    for (auto &is : iss) tclock = std::min(tclock, is.expiry);
    g_now = tclock;    // every issued cookie is unexpired from here on: only authenticity can reject a derived cookie

    Issued const &T = iss[0], &U = iss[1];
    size_t L = T.cipher.size();
    bool small = L <= exh_limit();

    // (cheap sections first so that shrinking a failure found there does not pay for the enumerations every time)
    // 3. transplant between A and the near-miss configuration B ----------------------------------------------------------------------
    if (do_transplant) { for (auto &is : iss) PROBE(sb, model, is.text, tfam); PROBE(sa, model, foreign.text, tfam); }
    else VR.excl("transplant.shared-mac-key-after-shrink");
    PROBE(sb, model, foreign.text, "genuine-b");
    if (L >= D && foreign.cipher.size() >= D && !shared_mac) {   // body of A with the MAC B computed, and the reverse
        PROBE(sa, model, cookie_of(T.cipher.substr(0, L - D) + foreign.cipher.substr(foreign.cipher.size() - D)), "transplant-mac");
        PROBE(sb, model, cookie_of(foreign.cipher.substr(0, foreign.cipher.size() - D) + T.cipher.substr(L - D)), "transplant-mac");
    }

    // 4. MAC-valid cipher texts of a shape the server never produces (made with the reference and the server's own keys) ----------------
    if (sa.km.known) {
        KeyMat const &k = sa.km;
        std::string plain = time_bytes(T.expiry) + T.payload;
        if (!k.aes) {
            for (size_t n = 0; n < 8; n++) PROBE(sa, model, cookie_of(ref_hmac_cookie(k, plain.substr(0, n))), "keyed-short-plain", MUST_REJECT, true);
            // the reference makes the very same cookie for the same input, and a fresh one for another expiry
            std::string p2 = time_bytes(T.expiry + 5) + U.payload, c2 = ref_hmac_cookie(k, p2);
            model.by_key[k.id][c2] = std::make_pair(U.payload, T.expiry + 5);
            PROBE(sa, model, cookie_of(c2), "keyed-wellformed", MUST_ACCEPT, true);
        } else {
            std::string iv = rng.bytes(16);
            size_t pb = (plain.size() + 4 + 15) / 16 * 16;   // bytes of encrypted blocks the server would use
            // inner length larger than what the blocks hold
            uint32_t avail = (uint32_t)(pb - 4);
            uint32_t bad_sizes[] = {avail + 1, avail + 2, avail + 16, avail + 17, (uint32_t)pb + 16, 0x7fffffffu, 0x80000000u, 0xffffffffu, 0xfffffff0u};
            for (uint32_t sz : bad_sizes) PROBE(sa, model, cookie_of(ref_aes_cookie(k, iv, sz, plain, pb)), "keyed-inner-length", MUST_REJECT, true);
            // plain text shorter than the expiry field
            for (uint32_t sz = 0; sz < 8; sz++) PROBE(sa, model, cookie_of(ref_aes_cookie(k, iv, sz, plain, 16)), "keyed-short-plain", MUST_REJECT, true);
            // not a whole number of blocks / fewer than two blocks
            for (size_t extra = 1; extra < 16; extra++) {
                std::string blocks = T.cipher.substr(0, L - D) + rng.bytes(extra);
                PROBE(sa, model, cookie_of(ref_aes_cookie_raw(k, blocks)), "keyed-partial-block", MUST_REJECT, true);
                PROBE(sa, model, cookie_of(ref_aes_cookie_raw(k, T.cipher.substr(0, L - D - extra))), "keyed-partial-block", MUST_REJECT, true);
                PROBE(sa, model, cookie_of(ref_aes_cookie_raw(k, rng.bytes(16 + extra))), "keyed-partial-block", MUST_REJECT, true);
            }
            PROBE(sa, model, cookie_of(ref_aes_cookie_raw(k, T.cipher.substr(0, 16))), "keyed-one-block", MUST_REJECT, true);
            PROBE(sa, model, cookie_of(ref_aes_cookie_raw(k, std::string())), "keyed-no-block", MUST_REJECT, true);
            for (size_t n = 1; n < 16; n++) PROBE(sa, model, cookie_of(ref_aes_cookie_raw(k, rng.bytes(n))), "keyed-no-block", MUST_REJECT, true);
            // a well-formed cookie with another IV made by the reference is as good as one of the server's
            std::string p2 = time_bytes(T.expiry + 5) + U.payload;
            std::string c2 = ref_aes_cookie(k, iv, (uint32_t)p2.size(), p2, (p2.size() + 4 + 15) / 16 * 16);
            model.by_key[k.id][c2] = std::make_pair(U.payload, T.expiry + 5);
            PROBE(sa, model, cookie_of(c2), "keyed-wellformed", MUST_ACCEPT, true);
        }
    }

    // 5. an encrypting back-end reveals neither the payload nor whether two payloads are equal ------------------------------------------
    if (A.aes()) {
        std::vector<std::string> ciphers, labels;
        for (auto &is : iss) { ciphers.push_back(is.cipher); labels.push_back("initial save"); }
        g_now = c.now;
        ciphers.push_back(std::string());  strict_cookie(sa.save_raw(T.payload, T.expiry), ciphers.back()); labels.push_back("same payload, same encryptor");
        { Server fresh(A); ciphers.push_back(std::string()); strict_cookie(fresh.save_raw(T.payload, T.expiry), ciphers.back()); labels.push_back("same payload, fresh encryptor 1"); }
        { Server fresh(A); ciphers.push_back(std::string()); strict_cookie(fresh.save_raw(T.payload, T.expiry), ciphers.back()); labels.push_back("same payload, fresh encryptor 2"); }
        model.by_key[sa.km.id][ciphers[ciphers.size() - 3]] = std::make_pair(T.payload, T.expiry);
        g_now = tclock;
        // Interleavings of decrypt and encrypt on ONE encryptor object (the per-request order is load(X) then save(P)): what the client
        // supplied must not steer the IV of what is issued next.  P and Q have the same length and differ in the last byte only.
        {
            std::string P = T.payload; for (int i = 0; P.size() < 48 || i < 8; i++) P += char('p' + i % 7);
            std::string Q = P; Q.back() = char(Q.back() ^ 0x55);
            std::string bad = cookie_of(flip_bit(T.cipher, (L - 1) * 8));
            long long pexp = T.expiry + 9;
            auto ld = [&](Server &s, std::string const &text) { s.jar.value = text; s.jar.reset(); std::string d; time_t e = 0; VR.eval(); return s.api->load(*s.si, d, e); };
            auto sv = [&](Server &s, std::string const &pl, std::string const &what) { std::string ct; strict_cookie(s.save_raw(pl, pexp), ct); ciphers.push_back(ct); labels.push_back(what); };
            bool okx = ld(sa, T.text); V_CHECK(okx, "reject-genuine:interleave", "a genuine unexpired cookie was rejected cfg={" + describe(A) + "}");
            sv(sa, P, "load(X) save(P) #1"); ld(sa, T.text); sv(sa, P, "load(X) save(P) #2");
            ld(sa, T.text); sv(sa, Q, "load(X) save(Q)");
            ld(sa, T.text); ld(sa, T.text); sv(sa, P, "load(X) load(X) save(P)");
            ld(sa, T.text); ld(sa, U.text); sv(sa, P, "load(X) load(U) save(P)");
            ld(sa, bad); sv(sa, P, "load(bad) save(P) #1"); ld(sa, bad); sv(sa, P, "load(bad) save(P) #2");
            ld(sa, T.text); ld(sa, bad); sv(sa, P, "load(X) load(bad) save(P)");
            sv(sa, P, "save(P) save(P) a"); sv(sa, P, "save(P) save(P) b");
            for (int f = 0; f < 2; f++) {   // two requests on fresh encryptor objects presenting the same cookie
                Server fresh(A); std::string n = std::to_string(f + 1);
                ld(fresh, T.text); sv(fresh, P, "fresh" + n + ": load(X) save(P)");
                ld(fresh, T.text); sv(fresh, Q, "fresh" + n + ": load(X) save(Q)");
                ld(fresh, bad); sv(fresh, P, "fresh" + n + ": load(bad) save(P)");
            }
            VR.cls("secrecy.interleavings");
        }
        std::map<std::string, size_t> blocks;
        VR.eval();
        for (size_t n = 0; n < ciphers.size(); n++) for (size_t i = 0; i + 16 <= ciphers[n].size(); i += 16) {
            auto ins = blocks.insert(std::make_pair(ciphers[n].substr(i, 16), n));
            V_CHECK(ins.second, "secrecy:repeated-cipher-block", "aligned 16-byte block " + std::to_string(i / 16) + " of cipher text '" + labels[n] + "' also occurs in '" + labels[ins.first->second] +
                    "': equal payloads / equal plain text blocks are visible, or the IV is not a fresh nonce cfg={" + describe(A) + "} payload=" + vr::show(T.payload, 60));
        }
        for (auto &is : iss) {
            if (is.payload.size() < 8) continue;
            std::unordered_set<std::string> win;
            for (size_t i = 0; i + 8 <= is.payload.size(); i++) win.insert(is.payload.substr(i, 8));
            for (size_t i = 0; i + 8 <= is.cipher.size(); i++) V_CHECK(!win.count(is.cipher.substr(i, 8)), "secrecy:payload-visible", "8 payload bytes appear verbatim in the cipher text at offset " + std::to_string(i) + " cfg={" + describe(A) + "}");
            VR.eval();
        }
        VR.cls("secrecy.checked");
        VR.nontrivial(vr::fnv(T.cipher, 77));
    }

    // 6. the same through session_interface::save()/load() -----------------------------------------------------------------------------
    {
        g_now = c.now;
        int age = 1 + (int)rng.below(100000);
        std::string v1 = T.payload, v2 = U.payload.substr(0, 64);
        Jar jar;
        { cppcms::session_interface s(*sa.pool, jar); s.load(); s.set("k", v1); s.set("second", v2); s.age(age); s.save(); }
        std::string text = jar.value, cipher;
        V_CHECK(jar.sets == 1 && strict_cookie(text, cipher), "iface:save-no-cookie", "session_interface::save() did not hand a 'C' cookie to the adapter: " + vr::show(text, 80));
        long long expiry = c.now + age;
        auto load_with = [&](Server &srv, std::string const &ck, bool &loaded, bool &has_k, std::string &k, std::string &sec, long long &tin, Jar &j) {
            j.value = ck; j.reset();
            cppcms::session_interface s(*srv.pool, j);
            loaded = s.load(); has_k = s.is_set("k"); k = has_k ? s.get("k") : std::string(); sec = s.get("second", "");
            tin = (long long)(s.*rob_get(TagTin()));
        };
        bool ld, hk; std::string k, sec; long long tin;
        long long clocks[] = {c.now, expiry - 1, expiry, expiry + 1, expiry + 2};
        for (long long t : clocks) {
            g_now = t; VR.eval();
            load_with(sa, text, ld, hk, k, sec, tin, jar);
            if (t <= expiry) {
                V_CHECK(ld && hk && k == v1 && sec == v2, "iface:roundtrip", "session saved through session_interface does not load back unchanged at now=" + std::to_string(t) + " expiry=" + std::to_string(expiry) + " cfg={" + describe(A) + "}");
                V_CHECK(tin == expiry, "iface:expiry", "loaded expiry " + std::to_string(tin) + " != saved " + std::to_string(expiry));
                V_CHECK(jar.clears == 0 && jar.value == text, "accept:cookie-touched", "iface load succeeded but the cookie was cleared");
            } else {
                V_CHECK(!ld && !hk, "accept-expired:iface", "session_interface loaded a session " + std::to_string(t - expiry) + " s after its expiry cfg={" + describe(A) + "}");
                V_CHECK(jar.clears >= 1 && jar.value.empty(), "reject-not-cleared:iface", "expired cookie not cleared");
            }
            VR.nontrivial(vr::fnv(text, (uint64_t)t));
        }
        g_now = c.now;
        if (A.aes()) {   // two requests present the same cookie and store the same new data: the issued cookies must be unrelated
            std::vector<std::string> cts; cts.push_back(cipher);
            for (int r = 0; r < 3; r++) {
                Jar j; j.value = text; VR.eval();
                { cppcms::session_interface s(*sa.pool, j); bool l = s.load(); V_CHECK(l, "iface:roundtrip", "genuine cookie not loaded"); s.set("k", v1 + "#changed-in-this-request"); s.save(); }
                std::string ct; V_CHECK(j.sets == 1 && strict_cookie(j.value, ct), "iface:save-no-cookie", "no cookie issued for changed data: " + vr::show(j.value, 80));
                cts.push_back(ct);
            }
            std::set<std::string> seen;
            for (size_t n = 0; n < cts.size(); n++) for (size_t i = 0; i + 16 <= cts[n].size(); i += 16)
                V_CHECK(seen.insert(cts[n].substr(i, 16)).second, "secrecy:repeated-cipher-block", "session_interface: load(X) + save(same data) in request " + std::to_string(n) + " issued a cookie sharing aligned block " + std::to_string(i / 16) +
                        " with the presented cookie or with the cookie of an earlier identical request cfg={" + describe(A) + "}");
            VR.cls("secrecy.iface-requests");
        }
        for (int i = 0; i < 24; i++) {
            size_t bit = i < 8 ? cipher.size() * 8 - 1 - i : rng.below(cipher.size() * 8);
            VR.eval(); VR.cls("iface.bitflip");
            std::string ck = cookie_of(flip_bit(cipher, bit));
            try { load_with(sa, ck, ld, hk, k, sec, tin, jar); }
            catch (std::exception const &e) { return bad("accept-forged:iface", std::string("session_interface::load threw on a tampered cookie (it got past the MAC): ") + e.what()); }
            V_CHECK(!ld && !hk, "accept-forged:iface", "session_interface loaded a cookie with bit " + std::to_string(bit) + " flipped cfg={" + describe(A) + "}");
            V_CHECK(jar.clears >= 1 && jar.value.empty(), "reject-not-cleared:iface", "tampered cookie not cleared");
        }
        if (!same_material && do_transplant) {
            VR.eval(); VR.cls("iface." + tfam);
            try { load_with(sb, text, ld, hk, k, sec, tin, jar); }
            catch (std::exception const &e) { return bad("accept-forged:iface-" + tfam, std::string("session_interface::load threw on a foreign cookie (it got past the MAC): ") + e.what() + " A={" + describe(A) + "} B={" + describe(Bc) + "}"); }
            V_CHECK(!ld && !hk, "accept-forged:iface-" + tfam, "a cookie of {" + describe(A) + "} was loaded by {" + describe(Bc) + "}");
            V_CHECK(jar.clears >= 1, "reject-not-cleared:iface", "foreign cookie not cleared");
        }
    }
    g_now = tclock;
    // 7. every single-bit flip of the cipher text ----------------------------------------------------------------------------
    for (size_t byte : positions(L, D, rng, 96))
        for (int b = 0; b < 8; b++) PROBE(sa, model, cookie_of(flip_bit(T.cipher, byte * 8 + b)), "bitflip");

    // 8. truncations / extensions of the cipher text ---------------------------------------------------------------------------
    {
        std::vector<size_t> cuts;
        if (small) for (size_t n = 0; n < L; n++) cuts.push_back(n);
        else { for (size_t n = 0; n < 80 && n < L; n++) cuts.push_back(n); for (size_t n = L - 100; n < L; n++) cuts.push_back(n); for (int i = 0; i < 64; i++) cuts.push_back(rng.below(L)); }
        for (size_t n : cuts) PROBE(sa, model, cookie_of(T.cipher.substr(0, n)), "truncate");
        for (size_t n = 1; n <= 33 && n < L; n++) PROBE(sa, model, cookie_of(T.cipher.substr(n)), "cut-front");
        for (size_t n = 1; n <= 33; n++) {
            PROBE(sa, model, cookie_of(T.cipher + std::string(n, '\0')), "extend");
            PROBE(sa, model, cookie_of(T.cipher + rng.bytes(n)), "extend");
            PROBE(sa, model, cookie_of(rng.bytes(n) + T.cipher), "extend");
            if (L >= D + n) PROBE(sa, model, cookie_of(T.cipher.substr(0, L - D) + rng.bytes(n) + T.cipher.substr(L - D)), "extend");
        }
        // the same on the text level (every prefix, a few extra characters)
        std::vector<size_t> tcuts;
        if (T.text.size() <= exh_limit() * 4 / 3 + 4) for (size_t n = 0; n < T.text.size(); n++) tcuts.push_back(n);
        else for (int i = 0; i < 64; i++) tcuts.push_back(rng.below(T.text.size()));
        for (size_t n : tcuts) PROBE(sa, model, T.text.substr(0, n), "text-truncate");
        for (size_t n = 1; n <= 6; n++) { std::string e; for (size_t i = 0; i < n; i++) e += B64[rng.below(64)]; PROBE(sa, model, T.text + e, "text-extend"); PROBE(sa, model, T.text + std::string(n, 'A'), "text-extend"); }
    }

    // 9. swaps of two aligned 16-byte blocks -------------------------------------------------------------------------------------
    {
        size_t nb = L / 16;
        std::vector<std::pair<size_t, size_t>> pairs;
        if (nb <= 26) { for (size_t i = 0; i < nb; i++) for (size_t j = i + 1; j < nb; j++) pairs.push_back({i, j}); }
        else for (int i = 0; i < 200; i++) { size_t a = rng.below(nb), b = rng.below(nb); if (a != b) pairs.push_back({a, b}); }
        for (auto &p : pairs) { std::string x = T.cipher; for (int k = 0; k < 16; k++) std::swap(x[p.first * 16 + k], x[p.second * 16 + k]); PROBE(sa, model, cookie_of(x), "block-swap"); }
        // duplicate / drop one block (keeps the block structure)
        for (size_t i = 0; i < nb && i < 40; i++) {
            PROBE(sa, model, cookie_of(T.cipher.substr(0, i * 16) + T.cipher.substr(i * 16, 16) + T.cipher.substr(i * 16)), "block-dup");
            PROBE(sa, model, cookie_of(T.cipher.substr(0, i * 16) + T.cipher.substr(i * 16 + 16)), "block-drop");
        }
    }

    // 10. splices of two valid cookies of the same server ---------------------------------------------------------------------------
    {
        size_t LU = U.cipher.size(), step = (small && LU <= exh_limit()) ? 1 : 16;
        std::vector<size_t> bounds;
        if (L / step <= 600) for (size_t b = 0; b <= L; b += step) bounds.push_back(b);
        else { for (size_t b = 0; b <= 320; b += 16) bounds.push_back(b); for (size_t b = (L - 320) / 16 * 16; b <= L; b += 16) bounds.push_back(b); for (int i = 0; i < 160; i++) bounds.push_back(rng.below(L / 16) * 16); }
        for (size_t b : bounds) {
            if (b <= LU) PROBE(sa, model, cookie_of(T.cipher.substr(0, b) + U.cipher.substr(b)), "splice");            // same offset from the front
            if (L - b <= LU) PROBE(sa, model, cookie_of(T.cipher.substr(0, b) + U.cipher.substr(LU - (L - b))), "splice"); // same offset from the back
        }
        if (L >= D && LU >= D) {
            PROBE(sa, model, cookie_of(T.cipher.substr(0, L - D) + U.cipher.substr(LU - D)), "splice-mac");
            PROBE(sa, model, cookie_of(U.cipher.substr(0, LU - D) + T.cipher.substr(L - D)), "splice-mac");
        }
    }

    // 11. single character substitutions of the base64url text, arbitrary strings ----------------------------------------------------
    {
        std::string const &t = T.text;
        static const char odd[] = {'=', '+', '/', '.', ' ', '%', '\0', '\x80', '\xff', '~', '*', '\n'};
        bool all = t.size() <= (size_t)vr::envl("C05_SUBST_ALL", 150);
        std::vector<size_t> pos;
        if (t.size() <= exh_limit() * 4 / 3 + 4) for (size_t i = 0; i < t.size(); i++) pos.push_back(i);
        else { for (size_t i = 0; i < 40; i++) pos.push_back(i); for (size_t i = t.size() - 120; i < t.size(); i++) pos.push_back(i); for (int i = 0; i < 100; i++) pos.push_back(rng.below(t.size())); }
        for (size_t i : pos) {
            if (all && i > 0) { for (int v = 0; v < 64; v++) if (B64[v] != t[i]) { std::string x = t; x[i] = B64[v]; PROBE(sa, model, x, "char-subst"); } }
            else for (int k = 0; k < 3; k++) { std::string x = t; char ch = B64[rng.below(64)]; if (ch == t[i]) continue; x[i] = ch; PROBE(sa, model, x, "char-subst"); }
            { std::string x = t; x[i] = odd[rng.below(sizeof odd)]; PROBE(sa, model, x, "char-subst-nonalphabet"); }
        }
        for (int i = 0; i < 40; i++) {
            size_t n = rng.below(3) == 0 ? rng.below(600) : rng.below(80);
            std::string b = rng.bytes(n), a; for (size_t k = 0; k < n; k++) a += B64[rng.below(64)];
            PROBE(sa, model, b, "random-bytes"); PROBE(sa, model, "C" + b, "random-bytes");
            PROBE(sa, model, a, "random-b64"); PROBE(sa, model, "C" + a, "random-b64");
            // right length, right shape, random content
            PROBE(sa, model, cookie_of(rng.bytes(L)), "random-cipher");
        }
        PROBE(sa, model, "", "empty"); PROBE(sa, model, "C", "empty"); PROBE(sa, model, "I" + t.substr(1), "prefix"); PROBE(sa, model, "c" + t.substr(1), "prefix"); PROBE(sa, model, t.substr(1), "prefix");
    }

    if (VR.want_sample()) VR.sample("{" + describe(A) + "} vs {" + describe(Bc) + "} now=" + std::to_string(c.now) + " saves=" + std::to_string(c.saves.size()) + " payload0[" + std::to_string(T.payload.size()) + "]=" + vr::show(T.payload, 24) + " delta0=" + std::to_string(c.saves[0].delta) + " cookie=" + T.text.substr(0, 48) + (T.text.size() > 48 ? "..." : ""));
    return ok();
}

// ---- configurations that must never issue a cookie -----------------------------------------------------------------------------------
struct CCase {
    int type = 0, alg = 1, bits = 128; std::string k1, k2;
    int strict = 0;   // never generated: regression cases only (assert the refusal the unchanged tree does not perform, see type 9)
    void encode(vr::CaseWriter &w) const { w.i(type).i(alg).i(bits).s(k1).s(k2).i(strict); }
    static CCase decode(vr::CaseReader &r) { CCase c; c.type = (int)r.i(); c.alg = (int)r.i(); c.bits = (int)r.i(); c.k1 = r.s(); c.k2 = r.s(); c.strict = (int)r.i(); return c; }
};
static Outcome p_config(CCase const &c0) {
    CCase c = c0; VR.eval();
    c.alg = ((c.alg % 6) + 6) % 6; if (c.bits != 128 && c.bits != 192 && c.bits != 256) c.bits = 128;
    size_t ck = (size_t)c.bits / 8;
    cppcms::json::value v; v["session"]["location"] = "client";
    std::string what; std::string aes = "aes" + std::to_string(c.bits);
    std::string good1 = c.k1; pad_to(good1, 64);
    switch (((c.type % 10) + 10) % 10) {
    case 0: c.k1.resize(std::min<size_t>(c.k1.size(), 15)); what = "short-hmac-key:encryptor"; v["session"]["client"]["encryptor"] = std::string("hmac-") + ALG[c.alg]; v["session"]["client"]["key"] = vr::hex(c.k1); break;
    case 1: c.k1.resize(std::min<size_t>(c.k1.size(), 15)); what = "short-hmac-key:hmac"; v["session"]["client"]["hmac"] = ALG[c.alg]; v["session"]["client"]["hmac_key"] = vr::hex(c.k1); break;
    case 2: what = "cbc-without-hmac"; v["session"]["client"]["cbc"] = aes; v["session"]["client"]["cbc_key"] = vr::hex(good1.substr(0, ck)); break;
    case 3: what = "encryptor-and-hmac"; v["session"]["client"]["encryptor"] = "hmac"; v["session"]["client"]["key"] = vr::hex(good1); v["session"]["client"]["hmac"] = ALG[c.alg]; v["session"]["client"]["hmac_key"] = vr::hex(good1); break;
    case 4: what = "no-method"; break;
    case 5: c.k1.resize(std::min<size_t>(c.k1.size(), ck - 1)); what = "short-aes-key"; v["session"]["client"]["encryptor"] = aes; v["session"]["client"]["key"] = vr::hex(c.k1); break;
    case 6: if (c.k1.size() == ck) c.k1 += 'x'; what = "wrong-cbc-key-length"; v["session"]["client"]["cbc"] = aes; v["session"]["client"]["cbc_key"] = vr::hex(c.k1); v["session"]["client"]["hmac"] = ALG[c.alg]; v["session"]["client"]["hmac_key"] = vr::hex(good1); break;
    case 7: { static const char *names[] = {"des", "hmac-crc32", "aes512", "aes-64", "hmac-", "rc4", "hmac-sha3"}; what = "unknown-encryptor"; v["session"]["client"]["encryptor"] = names[c.k1.size() % 7]; v["session"]["client"]["key"] = vr::hex(good1); break; }
    case 9:
        // hmac_cipher refuses keys under 16 bytes, the cbc+hmac path (aes_factory 4-argument constructor) checks nothing: a MAC key of
        // 0..15 bytes is taken.  Not a statement of C05 (only of the anchor's mechanism list): counted, asserted only in the regression case.
        c.k2.resize(std::min<size_t>(c.k2.size(), 15)); what = "short-hmac-key:cbc+hmac";
        v["session"]["client"]["cbc"] = aes; v["session"]["client"]["cbc_key"] = vr::hex(good1.substr(0, ck)); v["session"]["client"]["hmac"] = ALG[c.alg]; v["session"]["client"]["hmac_key"] = vr::hex(c.k2);
        if (!c.strict) { VR.excl("config.short-hmac-key-with-cbc-not-refused"); return ok(); }
        break;
    default: what = "odd-hex-key"; v["session"]["client"]["encryptor"] = "hmac"; v["session"]["client"]["key"] = vr::hex(good1) + (c.k2.size() % 2 ? "a" : "zz"); break;
    }
    VR.cls("config." + what); VR.nontrivial(vr::fnv(what + vr::hex(c.k1), c.alg * 1000 + c.bits));
    Jar jar; std::string stage = "none";
    try {
        cppcms::session_pool pool(v); stage = "pool";
        pool.init(); stage = "init";
        cppcms::session_interface s(pool, jar); stage = "interface";
        s.load(); s.set("k", "v"); s.save(); stage = "save";
    } catch (std::exception const &) { VR.cls("config.refused-after-" + stage); }
    V_CHECK(jar.sets == 0 && jar.value.empty(), "config:insecure-accepted:" + what, "a session cookie was issued under a configuration that has to be refused (" + what + "): " + vr::show(jar.value, 60));
    return ok();
}

// ---- generators ------------------------------------------------------------------------------------------------------------------------
static rc::Gen<std::string> gen_bytes_n(int n) {
    return rc::gen::map(rc::gen::container<std::vector<int>>((size_t)n, vr::range<int>(0, 256)), [](std::vector<int> v) { std::string s; for (int x : v) s += char(x); return s; });
}
static rc::Gen<std::string> gen_key() {
    auto len = rc::gen::weightedOneOf<int>({{4, rc::gen::elementOf(std::vector<int>{16, 17, 20, 24, 32, 36, 44, 52, 64, 65, 128, 129, 160})}, {2, vr::range<int>(16, 161)}, {1, vr::range<int>(1, 16)}});
    return rc::gen::mapcat(len, [](int n) { return gen_bytes_n(n); });
}
static rc::Gen<std::string> gen_payload(int maxpay) {
    // categories: 0 hand-picked edge lengths, 1 uniform 0..256, 2 AES block edge (4+8+n multiple of 16) +-1, 3 medium, 4 large block edge
    rc::Gen<int> cat = maxpay > 4096 ? rc::gen::weightedElement<int>({{4, 0}, {3, 1}, {2, 2}, {1, 3}, {1, 4}})
                     : maxpay > 256  ? rc::gen::weightedElement<int>({{4, 0}, {3, 1}, {2, 2}, {1, 3}})
                                     : rc::gen::weightedElement<int>({{4, 0}, {3, 1}, {2, 2}});
    rc::Gen<int> glen = rc::gen::mapcat(cat, [maxpay](int k) -> rc::Gen<int> {
        switch (k) {
        case 0: return rc::gen::elementOf(std::vector<int>{0, 1, 3, 4, 5, 7, 8, 9, 15, 16, 17, 19, 20, 21, 35, 36, 37, 52, 68, 100});
        case 1: return vr::range<int>(0, 257);
        case 2: return rc::gen::map(rc::gen::pair(vr::range<int>(0, 16), vr::range<int>(-1, 2)), [](std::pair<int, int> p) { return std::max(0, p.first * 16 + 4 + p.second); });
        case 3: return vr::range<int>(257, std::min(maxpay, 4096) + 1);
        default: return rc::gen::map(rc::gen::pair(vr::range<int>(256, maxpay / 16 + 1), vr::range<int>(-1, 2)), [maxpay](std::pair<int, int> p) { return std::min(maxpay, p.first * 16 + 4 + p.second); });
        }
    });
    return rc::gen::mapcat(rc::gen::pair(glen, vr::range<int>(0, 6)), [](std::pair<int, int> p) -> rc::Gen<std::string> {
        int n = p.first;
        switch (p.second) {
        case 0: return rc::gen::just(std::string((size_t)n, '\0'));
        case 1: return rc::gen::map(gen_bytes_n(16), [n](std::string b) { std::string s; while ((int)s.size() < n) s += b; s.resize((size_t)n); return s; });
        case 2: return rc::gen::map(gen_bytes_n(std::min(n, 24)), [n](std::string b) { std::string s = "user=admin;role=1;"; s += b; while ((int)s.size() < n) s += s; s.resize((size_t)n); return s; });
        default: return gen_bytes_n(n);
        }
    });
}
static rc::Gen<Case> gen_case(int maxpay) {
    auto gsave = rc::gen::map(rc::gen::pair(gen_payload(maxpay), rc::gen::weightedOneOf<long long>({{4, vr::range<long long>(-2, 3)}, {3, vr::range<long long>(-100000, 100001)}, {1, rc::gen::elementOf(std::vector<long long>{-2000000000LL, 2000000000LL, 0LL, 86400LL})}})),
                              [](std::pair<std::string, long long> p) { Save s; s.payload = p.first; s.delta = p.second; return s; });
    auto gcfg = rc::gen::map(rc::gen::tuple(rc::gen::weightedOneOf<int>({{3, rc::gen::just(0)}, {1, rc::gen::just(1)}, {2, rc::gen::just(2)}, {2, rc::gen::just(3)}, {3, rc::gen::just(4)}}),
                                            vr::range<int>(0, 6), rc::gen::elementOf(std::vector<int>{128, 192, 256}), vr::range<int>(0, 6), gen_key(), gen_key()),
                             [](std::tuple<int, int, int, int, std::string, std::string> t) { Cfg c; c.kind = std::get<0>(t); c.alg = std::get<1>(t); c.bits = std::get<2>(t); c.alias = std::get<3>(t); c.k1 = std::get<4>(t); c.k2 = std::get<5>(t); return c; });
    auto gnow = rc::gen::weightedOneOf<long long>({{5, vr::range<long long>(1000000000LL, 2000000000LL)}, {1, rc::gen::elementOf(std::vector<long long>{1LL, 100000LL, 0x7fffffffLL, 0x80000000LL, 4102444800LL})}});
    auto gsaves = rc::gen::mapcat(rc::gen::pair(vr::range<int>(2, 5), vr::range<int>(0, 3)), [gsave](std::pair<int, int> p) {
        bool dup = p.second == 0;
        return rc::gen::map(rc::gen::container<std::vector<Save>>((size_t)p.first, gsave), [dup](std::vector<Save> v) { if (dup && v.size() >= 2) v[1].payload = v[0].payload; return v; });
    });
    return rc::gen::map(rc::gen::tuple(gcfg, vr::range<int>(0, 5), vr::range<int>(0, 5), rc::gen::elementOf(std::vector<int>{128, 192, 256}), gen_key(), gen_key(), gnow, vr::range<int>(1, 1 << 30), gsaves),
                        [](std::tuple<Cfg, int, int, int, std::string, std::string, long long, int, std::vector<Save>> t) {
                            Case c; c.a = std::get<0>(t); c.other_mode = std::get<1>(t); c.other_alg = std::get<2>(t); c.other_bits = std::get<3>(t); c.ok1 = std::get<4>(t); c.ok2 = std::get<5>(t);
                            c.now = std::get<6>(t); c.seed = (unsigned)std::get<7>(t); c.saves = std::get<8>(t); return c; });
}
static rc::Gen<CCase> gen_ccase() {
    return rc::gen::map(rc::gen::tuple(vr::range<int>(0, 10), vr::range<int>(0, 6), rc::gen::elementOf(std::vector<int>{128, 192, 256}), rc::gen::mapcat(vr::range<int>(0, 40), [](int n) { return gen_bytes_n(n); }), rc::gen::mapcat(vr::range<int>(0, 20), [](int n) { return gen_bytes_n(n); })),
                        [](std::tuple<int, int, int, std::string, std::string> t) { CCase c; c.type = std::get<0>(t); c.alg = std::get<1>(t); c.bits = std::get<2>(t); c.k1 = std::get<3>(t); c.k2 = std::get<4>(t); return c; });
}

int main(int argc, char **argv) {
    std::vector<std::unique_ptr<vr::PropBase>> props;
    int maxpay = (int)vr::envl("C05_MAXPAY", vr::thorough() ? 65536 : 256);
    props.push_back(vr::prop<Case>("cookies", gen_case(maxpay), p_cookies));
    props.push_back(vr::prop<CCase>("config", gen_ccase(), p_config));
    return vr::rc_main(argc, argv, props);
}
