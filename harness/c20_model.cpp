// C20 — part 3 (included by c20_routing.cpp): the reference models.  No cppcms code is used here.
//   * pmatch(): whole-string match + captures by the AST matcher, cross-checked with std::regex (ECMAScript); a disagreement
//     between the two oracles marks the request inconclusive instead of raising an alarm.
//   * model_mount(): first mount point in registration order whose host / script / path patterns match entirely.
//   * model_route(): first handler in registration order (method filter, pattern, parameter validation), recursing into mounted children.
//   * RefMapper: url_mapper semantics as documented in cppcms/url_mapper.h.
#pragma once
#include "c20_case.cpp"
#include <regex>
#include <unordered_map>
#include <climits>

namespace c20 {

struct Oracle {
    long disagreements = 0;
    std::unordered_map<std::string, std::regex> cache;
    std::regex const &stdre(Pat const &p) {
        std::string key = (p.icase ? "i:" : "c:") + p.text;
        auto it = cache.find(key);
        if (it != cache.end()) return it->second;
        if (cache.size() > 400) cache.clear();
        auto fl = std::regex::ECMAScript;
        if (p.icase) fl |= std::regex::icase;
        return cache.emplace(key, std::regex(p.text, fl)).first->second;
    }
    // groups: size ng+1, unmatched groups are empty strings (what booster::sub_match::str() yields)
    bool pmatch(Pat const &p, std::string const &s, std::vector<std::string> *groups, bool &disagree) {
        rx::Matcher m(s, p.ng, p.icase != 0);
        bool r = m.full(p.ast);
        std::vector<std::string> g(p.ng + 1);
        if (r) for (int i = 0; i <= p.ng; i++) if (m.caps[i].first >= 0) g[i] = s.substr(m.caps[i].first, m.caps[i].second - m.caps[i].first);
        // second opinion
        bool has_cr = s.find('\r') != std::string::npos;
        if (!has_cr) {
            std::smatch sm;
            bool r2 = std::regex_match(s, sm, stdre(p));
            bool same = r2 == r;
            if (same && r) {
                if ((int)sm.size() != p.ng + 1) same = false;
                else for (int i = 0; i <= p.ng; i++) if (sm[i].str() != g[i]) same = false;
            }
            if (!same) { disagree = true; disagreements++; }
        }
        if (groups) *groups = g;
        return r;
    }
};

// ---- mount points ------------------------------------------------------------------------------------------
// Which regular expressions a mount point carries, derived from the documentation of each constructor:
struct MpView { bool host = false, script = false, path = false; int sel = 0, group = 0; };
inline MpView mp_view(MountP const &m) {
    MpView v;
    switch (m.ctor) {
    case 0: break;                                                          // no restriction, PATH_INFO passed
    case 1: v.path = true; v.group = m.group; break;                        // (path, group)
    case 2: v.script = true; break;                                         // (script): checks SCRIPT_NAME, passes PATH_INFO
    case 3: v.script = true; v.path = true; v.group = m.group; break;       // (script, path, group)
    case 4: v.sel = m.sel; (m.sel == 0 ? v.path : v.script) = true; v.group = m.group; break;     // (sel, selected, group)
    case 5: v.sel = m.sel; (m.sel == 0 ? v.script : v.path) = true; break;                        // (sel, non selected)
    case 6: v.sel = m.sel; v.script = v.path = true; v.group = m.group; break;                    // (sel, non, selected, group)
    default: v.sel = m.sel; v.host = m.has_host; v.script = m.has_script; v.path = m.has_path; v.group = m.group; break;
    }
    return v;
}
// returns true + selected sub-string
inline bool model_mp(Oracle &o, MountP const &m, std::string const &h, std::string const &s, std::string const &p, std::string &sub, bool &dis) {
    MpView v = mp_view(m);
    if (v.host && !o.pmatch(m.host, h, nullptr, dis)) return false;
    std::vector<std::string> g;
    if (v.sel == 0) {
        if (v.script && !o.pmatch(m.script, s, nullptr, dis)) return false;
        if (!v.path) { sub = p; return true; }
        if (!o.pmatch(m.path, p, &g, dis)) return false;
        sub = v.group >= 0 && v.group < (int)g.size() ? g[v.group] : std::string();
        return true;
    }
    if (v.path && !o.pmatch(m.path, p, nullptr, dis)) return false;
    if (!v.script) { sub = s; return true; }
    if (!o.pmatch(m.script, s, &g, dis)) return false;
    sub = v.group >= 0 && v.group < (int)g.size() ? g[v.group] : std::string();
    return true;
}
inline int model_mount(Oracle &o, Case const &c, std::string const &h, std::string const &s, std::string const &p, std::string &sub, bool &dis) {
    for (size_t i = 0; i < c.mps.size(); i++) if (model_mp(o, c.mps[i], h, s, p, sub, dis)) return (int)i;
    sub.clear();
    return -1;
}

// ---- handlers ------------------------------------------------------------------------------------------------
// what `std::istream >> int` followed by an eof test accepts (classic digits, no grouping characters are ever generated)
inline bool parse_int_like_istream(std::string const &s, int &out) {
    size_t i = 0;
    while (i < s.size() && isspace((unsigned char)s[i])) i++;
    bool neg = false;
    if (i < s.size() && (s[i] == '+' || s[i] == '-')) { neg = s[i] == '-'; i++; }
    size_t d0 = i;
    long long v = 0; int nd = 0;
    while (i < s.size() && s[i] >= '0' && s[i] <= '9') { if (nd < 12) { v = v * 10 + (s[i] - '0'); if (v) nd++; } else return false; i++; }
    if (i == d0 || i != s.size()) return false;
    if (neg) v = -v;
    if (v < INT_MIN || v > INT_MAX) return false;
    out = (int)v;
    return true;
}
inline std::string grp_at(std::vector<std::string> const &g, int i) { return i >= 0 && i < (int)g.size() ? g[i] : std::string(); }

// arguments a handler receives for the capture groups g (g[0] = whole match); false: the handler refuses (parameter validation failed)
inline bool build_args(Handler const &h, std::vector<std::string> const &g, std::vector<std::string> &args) {
    args.clear();
    int v;
    switch (h.api) {
    case A_ASSIGN: for (int s : h.sel) args.push_back(grp_at(g, s)); return true;
    case A_RGEN: args = g; return true;
    case A_GEN:
        if (h.reject == 1 && grp_at(g, 1).empty()) return false;
        if (h.reject == 2 && (g[0].size() & 1)) return false;
        args = g; return true;
    case A_TYPED:
        switch (h.typed) {
        case T_S0: return true;
        case T_S1: args.push_back(grp_at(g, h.sel[0])); return true;
        case T_S2: args.push_back(grp_at(g, h.sel[0])); args.push_back(grp_at(g, h.sel[1])); return true;
        case T_I1: if (!parse_int_like_istream(grp_at(g, h.sel[0]), v)) return false; args.push_back("int:" + std::to_string(v)); return true;
        case T_IS2: if (!parse_int_like_istream(grp_at(g, h.sel[0]), v)) return false; args.push_back("int:" + std::to_string(v)); args.push_back(grp_at(g, h.sel[1])); return true;
        }
        return false;
    case A_MOUNT: return true;
    }
    return false;
}

struct Routed {
    bool hit = false;
    int node = -1, idx = -1;            // handler that ran; for a miss: node that answered 404
    std::vector<std::string> args;
    int depth = 1;                      // number of dispatchers consulted
    int overlap = 0;                    // handlers of the deciding node whose method + pattern accept the sub-url
    bool method_decided = false;        // some handler's pattern matched but its method filter refused
    bool validation_refused = false;    // a handler before the deciding one matched but refused its parameters (int parse, refusing generic handler)
    std::string sub;                    // sub-url seen by the deciding node
};
// method: nullptr = no request context
inline bool handler_accepts(Oracle &o, Handler const &h, std::string const &url, std::string const *method, std::vector<std::string> &g,
                            std::vector<std::string> &args, bool &dis, bool *method_refused = nullptr, bool *validation_refused = nullptr) {
    if (h.has_meth) {
        if (!method || !o.pmatch(h.meth, *method, nullptr, dis)) {
            if (method_refused && o.pmatch(h.pat, url, nullptr, dis)) *method_refused = true;
            return false;
        }
    }
    if (!o.pmatch(h.pat, url, &g, dis)) return false;
    if ((h.api == A_GEN || h.api == A_TYPED) && !method) return false;      // these handlers need the application's context
    bool r = build_args(h, g, args);
    if (!r && validation_refused) *validation_refused = true;
    return r;
}
inline Routed model_route(Oracle &o, Case const &c, int node, std::string const &url, std::string const *method, bool &dis, int depth = 1) {
    Node const &n = c.nodes[node];
    Routed r; r.depth = depth; r.node = node; r.sub = url;
    int first = -1; std::vector<std::string> g, args, fg, fargs;
    for (size_t i = 0; i < n.hs.size(); i++) {
        bool refused = false, vrefused = false;
        if (handler_accepts(o, n.hs[i], url, method, g, args, dis, &refused, &vrefused)) {
            r.overlap++;
            if (first < 0) { first = (int)i; fg = g; fargs = args; }
        }
        if (refused) r.method_decided = true;
        if (vrefused && first < 0) r.validation_refused = true;
    }
    if (first < 0) return r;
    Handler const &h = n.hs[first];
    if (h.api == A_MOUNT) {
        Routed sub = model_route(o, c, h.child, grp_at(fg, h.sel[0]), method, dis, depth + 1);
        if (sub.depth == depth + 1 && !sub.hit) { /* answered 404 by the child */ }
        sub.overlap = std::max(sub.overlap, r.overlap);
        sub.method_decided = sub.method_decided || r.method_decided;
        sub.validation_refused = sub.validation_refused || r.validation_refused;
        return sub;
    }
    r.hit = true; r.idx = first; r.args = fargs;
    return r;
}

// ---- url_mapper reference ----------------------------------------------------------------------------------------
struct MapOut { bool ok = false; std::string url, err; int t_node = -1, t_idx = -1; std::vector<std::string> local_urls; };

struct RefMapper {
    Case const &c;
    std::vector<int> parent, parent_h;   // node -> parent node / handler index of the mount in the parent
    explicit RefMapper(Case const &cs) : c(cs), parent(cs.nodes.size(), -1), parent_h(cs.nodes.size(), -1) {
        for (size_t i = 0; i < c.nodes.size(); i++) for (size_t j = 0; j < c.nodes[i].hs.size(); j++) {
            Handler const &h = c.nodes[i].hs[j];
            if (h.api == A_MOUNT && h.has_key) { parent[h.child] = (int)i; parent_h[h.child] = (int)j; }
        }
    }
    int child_by_name(int node, std::string const &name) const {
        for (auto &h : c.nodes[node].hs) if (h.api == A_MOUNT && h.has_key && h.key == name) return h.child;
        return -1;
    }
    static int max_index(std::string const &murl) {
        int mx = 0;
        for (size_t i = 0; i < murl.size(); i++) if (murl[i] == '{') {
            size_t e = murl.find('}', i); std::string k = murl.substr(i + 1, e - i - 1);
            bool dig = !k.empty(); for (char ch : k) if (!isdigit((unsigned char)ch)) dig = false;
            if (dig) mx = std::max(mx, atoi(k.c_str()));
            i = e;
        }
        return mx;
    }
    // entry of `key` with the given arity among the non-mount handlers of a node (later assignment replaces an earlier one)
    int find_entry(int node, std::string const &key, int arity, bool &key_exists) const {
        int found = -1; key_exists = false;
        for (size_t j = 0; j < c.nodes[node].hs.size(); j++) {
            Handler const &h = c.nodes[node].hs[j];
            if (h.api == A_MOUNT || !h.has_key || h.key != key) continue;
            key_exists = true;
            if (max_index(h.murl) == arity) found = (int)j;
        }
        return found;
    }
    static bool fill(std::string const &murl, std::vector<std::string> const &params, std::map<std::string, std::string> const &kw, std::string &out) {
        for (size_t i = 0; i < murl.size(); i++) {
            if (murl[i] != '{') { out += murl[i]; continue; }
            size_t e = murl.find('}', i); std::string k = murl.substr(i + 1, e - i - 1);
            bool dig = !k.empty(); for (char ch : k) if (!isdigit((unsigned char)ch)) dig = false;
            if (dig) { int idx = atoi(k.c_str()); if (idx < 1 || idx > (int)params.size()) return false; out += params[idx - 1]; }
            else { auto it = kw.find(k); if (it != kw.end()) out += it->second; }
            i = e;
        }
        return true;
    }
    MapOut map(int from, std::string const &fullkey, std::vector<std::string> const &params) const {
        MapOut r;
        std::string key = fullkey;
        // keywords belong to the last component
        std::vector<std::string> kwnames;
        size_t lastslash = key.rfind('/');
        size_t semi = key.find(';', lastslash == std::string::npos ? 0 : lastslash + 1);
        if (semi != std::string::npos) {
            std::string list = key.substr(semi + 1); key = key.substr(0, semi);
            size_t p = 0;
            for (;;) { size_t e = list.find(',', p); kwnames.push_back(list.substr(p, e == std::string::npos ? e : e - p)); if (e == std::string::npos) break; p = e + 1; }
        }
        int cur = from;
        size_t pos = 0;
        if (!key.empty() && key[0] == '/') { while (parent[cur] >= 0) cur = parent[cur]; pos = 1; }
        std::string last;
        if (!fullkey.empty()) {
            for (;;) {
                size_t e = key.find('/', pos);
                if (e == std::string::npos) { last = key.substr(pos); break; }
                std::string comp = key.substr(pos, e - pos);
                if (comp == ".") {}
                else if (comp == "..") { if (parent[cur] < 0) { r.err = "no parent"; return r; } cur = parent[cur]; }
                else { int ch = child_by_name(cur, comp); if (ch < 0) { r.err = "no child " + comp; return r; } cur = ch; }
                pos = e + 1;
            }
        }
        if (last == ".") last.clear();
        else if (last == "..") { if (parent[cur] < 0) { r.err = "no parent"; return r; } cur = parent[cur]; last.clear(); }
        { int ch = child_by_name(cur, last); if (!last.empty() && ch >= 0) { cur = ch; last.clear(); } }
        if (params.size() < kwnames.size()) { r.err = "more keywords than parameters"; return r; }
        std::map<std::string, std::string> kw;
        for (auto &v : c.values) kw[v.key] = v.val;
        for (size_t i = 0; i < kwnames.size(); i++) kw[kwnames[i]] = params[i];
        std::vector<std::string> pos_params(params.begin() + kwnames.size(), params.end());
        bool key_exists;
        int e = find_entry(cur, last, (int)pos_params.size(), key_exists);
        if (e < 0) { r.err = key_exists ? "arity" : "unknown key"; return r; }
        std::string url;
        if (!fill(c.nodes[cur].hs[e].murl, pos_params, kw, url)) { r.err = "index"; return r; }
        r.t_node = cur; r.t_idx = e;
        r.local_urls.push_back(url);
        int n = cur;
        while (parent[n] >= 0) {
            Handler const &m = c.nodes[parent[n]].hs[parent_h[n]];
            std::string up;
            if (!fill(m.murl, std::vector<std::string>(1, url), kw, up)) { r.err = "index"; return r; }
            url = up; n = parent[n];
            r.local_urls.push_back(url);
        }
        r.ok = true; r.url = c.mroot + url;
        return r;
    }
};

} // namespace c20
