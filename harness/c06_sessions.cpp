// C06 — session state carries over between requests exactly, never after it ended.
//
// One rapidcheck case = (configuration, history).  Configuration: session.location {client, server, both} x storage {memory,
// files, network} x session.expire {fixed, renew, browser} x client_size_limit x default timeout x cookie encryptor x cookie
// expiration method.  History: commands over 1..3 browsers (cookie jars with Max-Age / Expires / session-cookie semantics):
//   REQ b ops     one request: session_interface(pool, jar_b); load(); read everything; apply ops (set / erase / clear / expose /
//                 hide / age / default_age / expiration / default_expiration / on_server / reset_session); save()
//   ADV           advance the virtual clock (time() is interposed at link time) by an absolute amount, or to the 10 % renew
//                 threshold / the deadline of a browser's session with an offset of -1..+2 s
//   RESTART b     browser restart (session cookies dropped)
//   GC            the storage's garbage collector
//   PLANT b v i   an attacker edits the jar: an old token (live, cleared, reset, expired, somebody else's), a malformed
//                 identifier derived from an issued one (upper case, shorter, longer, non-hex), path-like identifiers, kind
//                 confusion, garbage
// Keys are the short table names or synthesized keys of every length 1..1023 with a deliberate share at 1022..1025; values
// include (rarely, plus a deterministic grid unit `--grid` once per run) 2 MiB - 2 .. 2 MiB + 1 bytes: the edge of the packed
// entry header (10 bit key size, 21 bit value size).  Key / value bytes at the edge are themselves well-formed packed entries,
// so a header that wrapped to size 0 would make the next load read injected keys.  A save that cannot represent an entry has to
// be refused (cppcms_error from save(), nothing stored or sent, old state stays); whatever a save accepts must be read back
// exactly by the next request.
// Oracle: the reference model of c06_model.h run in lock-step (what a request reads is exactly the snapshot its token names or
// nothing), plus: fresh 'I'+32 lower-case-hex identifiers on creation / reset; the old identifier of a cleared / reset / moved
// session is dead (probed at once through a fresh browser, later through attacker requests, and directly in the storage);
// only identifiers of the issued form ever reach the storage (a spy session_storage wrapped around the real one, also on the
// server side of the network storage) and, for the file storage, the directory holds only files named by 32 hex digits while
// planted decoy files inside and outside of it stay untouched; cookie life times match the deadlines; exposed values are in
// the jar exactly when exposed.
#include "vrc.h"
#include "c06_model.h"
#include <cppcms/service.h>
#include <cppcms/session_pool.h>
#include <cppcms/session_api.h>
#include <cppcms/session_storage.h>
#include <cppcms/json.h>
#include <cppcms/cppcms_error.h>
#include "session_memory_storage.h"
#include "session_posix_file_storage.h"
#include "session_tcp_storage.h"
#include "tcp_cache_server.h"
#include <booster/thread.h>
#include <sys/types.h>
#include <sys/stat.h>
#include <sys/socket.h>
#include <netinet/in.h>
#include <dirent.h>
#include <fcntl.h>
#include <unistd.h>
#include <algorithm>
#include <mutex>
#include <thread>
#include <chrono>

using vr::Outcome; using vr::ok; using vr::bad;
using namespace c06;

extern "C" time_t __wrap_time(time_t *t) { time_t v = (time_t)g_now.load(); if (t) *t = v; return v; }

// backend_->gc() is what the service's timer calls; reach it without touching the source (explicit instantiation may name privates)
template <class Tag, typename Tag::type M> struct Rob { friend typename Tag::type rob_get(Tag) { return M; } };
struct TagBackend { typedef std::unique_ptr<cppcms::session_api_factory> cppcms::session_pool::*type; friend type rob_get(TagBackend); };
template struct Rob<TagBackend, &cppcms::session_pool::backend_>;

// ---- spy storage: records what reaches the storage layer ------------------------------------------------------------------
struct Spy {
    std::mutex m;
    std::map<std::string, std::pair<long long, std::string>> shadow;   // what the code under test asked the storage to hold
    std::string violation; long loads = 0, saves = 0, removes = 0;
    void id(const char *op, std::string const &s) { if (!is_hex32(s) && violation.empty()) violation = std::string(op) + "(" + vr::show(s, 80) + ")"; }
    void reset_case() { std::lock_guard<std::mutex> g(m); violation.clear(); }
    std::string get_violation() { std::lock_guard<std::mutex> g(m); return violation; }
    bool has(std::string const &sid, long long *to = 0) { std::lock_guard<std::mutex> g(m); auto p = shadow.find(sid); if (p == shadow.end()) return false; if (to) *to = p->second.first; return true; }
};
struct SpyStorage : cppcms::sessions::session_storage {
    booster::shared_ptr<cppcms::sessions::session_storage> real; Spy *spy;
    SpyStorage(booster::shared_ptr<cppcms::sessions::session_storage> r, Spy *s) : real(r), spy(s) {}
    void save(std::string const &sid, time_t timeout, std::string const &in) override {
        { std::lock_guard<std::mutex> g(spy->m); spy->saves++; spy->id("save", sid); spy->shadow[sid] = std::make_pair((long long)timeout, in); }
        real->save(sid, timeout, in);
    }
    bool load(std::string const &sid, time_t &timeout, std::string &out) override {
        { std::lock_guard<std::mutex> g(spy->m); spy->loads++; spy->id("load", sid); }
        return real->load(sid, timeout, out);
    }
    void remove(std::string const &sid) override {
        { std::lock_guard<std::mutex> g(spy->m); spy->removes++; spy->id("remove", sid); spy->shadow.erase(sid); }
        real->remove(sid);
    }
    bool is_blocking() override { return real->is_blocking(); }
};
struct SpyFactory : cppcms::sessions::session_storage_factory {
    std::unique_ptr<cppcms::sessions::session_storage_factory> realf; Spy *spy;
    SpyFactory(cppcms::sessions::session_storage_factory *f, Spy *s) : realf(f), spy(s) {}
    booster::shared_ptr<cppcms::sessions::session_storage> get() override { return booster::shared_ptr<cppcms::sessions::session_storage>(new SpyStorage(realf->get(), spy)); }
    bool requires_gc() override { return realf->requires_gc(); }
    void gc_job() override { realf->gc_job(); }
};

// ---- the in-process session server for storage = network (one per process; memory storage behind a spy) ----------------------
static int free_tcp_port() {
    int fd = socket(AF_INET, SOCK_STREAM, 0);
    sockaddr_in a{}; a.sin_family = AF_INET; a.sin_addr.s_addr = htonl(INADDR_LOOPBACK); a.sin_port = 0;
    if (bind(fd, (sockaddr *)&a, sizeof a) != 0) { close(fd); return 0; }
    socklen_t l = sizeof a; getsockname(fd, (sockaddr *)&a, &l);
    int p = ntohs(a.sin_port); close(fd); return p;
}
struct NetServer {
    Spy spy; int port = 0;
    std::unique_ptr<cppcms::impl::tcp_cache_service> svc;
    NetServer() {
        for (int attempt = 0; attempt < 20 && !svc; attempt++) {
            port = free_tcp_port();
            try {
                booster::shared_ptr<cppcms::sessions::session_storage_factory> f(new SpyFactory(new cppcms::sessions::session_memory_storage_factory(), &spy));
                svc.reset(new cppcms::impl::tcp_cache_service(booster::intrusive_ptr<cppcms::impl::base_cache>(), f, 1, "127.0.0.1", port));
            } catch (std::exception const &) { svc.reset(); }
        }
        if (!svc) throw std::runtime_error("could not start the in-process session server");
    }
};
static NetServer &net_server() { static NetServer *s = new NetServer(); return *s; }   // never destroyed: threads run until _exit

// ---- configuration ----------------------------------------------------------------------------------------------------------
enum { L_CLIENT = 0, L_SERVER = 1, L_BOTH = 2 };
enum { S_MEM = 0, S_FILES = 1, S_NET = 2 };
static const char *LOC[3] = {"client", "server", "both"};
static const char *STOR[3] = {"memory", "files", "network"};
static const char *HOW[3] = {"fixed", "renew", "browser"};
static const char *METHOD[3] = {"both", "max-age", "expires"};
struct Cfg {
    int loc = 1, stor = 0, expire = 1, limit = 64, timeout = 100, enc = 0, method = 0, spy = 1, nb = 1;
    void fix() {
        auto cl = [](int &v, int lo, int hi) { if (v < lo || v > hi) v = lo; };
        cl(loc, 0, 2); cl(stor, 0, 2); cl(expire, 0, 2); cl(enc, 0, 2); cl(method, 0, 2); cl(spy, 0, 1); cl(nb, 1, 3);
        if (limit < 1) limit = 1; if (limit > 4096) limit = 4096;
        if (timeout < 1) timeout = 1; if (timeout > 1000000) timeout = 1000000;
        if (loc == L_CLIENT) { stor = 0; spy = 0; }
        if (stor == S_NET) {               // the spy is on the server side of the wire, always there
            spy = 1;
            // pools over the network storage are kept for the life of the process (see net_pool()): keep the number of distinct ones small
            limit = limit < 100 ? 64 : 200; timeout = timeout < 50 ? 10 : timeout < 500 ? 100 : 1000; enc = enc % 2;
        }
    }
    std::string describe() const {
        return std::string("location=") + LOC[loc] + (loc != L_CLIENT ? std::string(" storage=") + STOR[stor] + (spy && stor != S_NET ? "+spy" : "") : "") + " expire=" + HOW[expire] +
               " timeout=" + std::to_string(timeout) + (loc == L_BOTH ? " client_size_limit=" + std::to_string(limit) : "") +
               (loc != L_SERVER ? std::string(" enc=") + (enc == 0 ? "hmac-sha1" : enc == 1 ? "aes128" : "hmac-sha256") : "") + " method=" + METHOD[method] + " browsers=" + std::to_string(nb);
    }
};

static long g_case_no = 0;
static void rm_rf(std::string const &d) {
    DIR *dir = opendir(d.c_str()); if (!dir) { ::unlink(d.c_str()); return; }
    while (dirent *e = readdir(dir)) { std::string n = e->d_name; if (n == "." || n == "..") continue; rm_rf(d + "/" + n); }
    closedir(dir); ::rmdir(d.c_str());
}
static bool read_img(std::string const &path, std::string &out) {
    out.clear(); int fd = ::open(path.c_str(), O_RDONLY); if (fd < 0) return false;
    char buf[65536]; ssize_t n; while ((n = ::read(fd, buf, sizeof buf)) > 0) out.append(buf, (size_t)n);
    ::close(fd); return true;
}
static void write_img(std::string const &path, std::string const &d) { int fd = ::open(path.c_str(), O_CREAT | O_TRUNC | O_WRONLY, 0666); if (fd >= 0) { if (::write(fd, d.data(), d.size()) < 0) {} ::close(fd); } }

// Every tcp_storage owns a booster::thread_specific_ptr, whose pthread key is not released while a thread that used it is alive
// (the per-thread object holds a reference to the key): a process can create about a thousand of them.  One pool per distinct
// configuration, kept for good, instead of one per case.
static cppcms::session_pool *net_pool(cppcms::json::value const &js) {
    static std::map<std::string, std::unique_ptr<cppcms::session_pool>> pools;
    std::string key = js.save();
    auto &p = pools[key];
    if (!p) { p.reset(new cppcms::session_pool(js)); p->init(); }
    return p.get();
}

struct Server {
    Cfg cfg; cppcms::json::value js;
    std::unique_ptr<cppcms::service> srv; std::unique_ptr<cppcms::session_pool> own; cppcms::session_pool *pool = 0;
    Spy local_spy; Spy *spy = 0;
    std::string base, dir, outside;                     // files: base/s (sessions), base/o (must never be touched)
    std::map<std::string, std::string> decoys;         // path -> content
    explicit Server(Cfg const &c) : cfg(c) {
        js["session"]["location"] = LOC[c.loc];
        js["session"]["expire"] = HOW[c.expire];
        js["session"]["timeout"] = c.timeout;
        js["session"]["client_size_limit"] = c.limit;
        js["session"]["cookies"]["expiration_method"] = METHOD[c.method];
        if (c.loc != L_SERVER) {
            if (c.enc == 0) { js["session"]["client"]["hmac"] = "sha1"; js["session"]["client"]["hmac_key"] = "dc07e0ff8e44be872e86fe848841584cd38983e5"; }
            else if (c.enc == 1) { js["session"]["client"]["cbc"] = "aes"; js["session"]["client"]["cbc_key"] = "0f1e2d3c4b5a69788796a5b4c3d2e1f0"; js["session"]["client"]["hmac"] = "sha1"; js["session"]["client"]["hmac_key"] = "a0b1c2d3e4f5061728394a5b6c7d8e9fa1b2c3d4"; }
            else { js["session"]["client"]["encryptor"] = "hmac-sha256"; js["session"]["client"]["key"] = "1122334455667788990011223344556677889900aabbccddeeff001122334455"; }
        }
        if (c.loc != L_CLIENT) {
            js["session"]["server"]["storage"] = STOR[c.stor];
            if (c.stor == S_FILES) {
                base = vr::env("VERIF_SCRATCH", ".") + "/c06-" + std::to_string(getpid()) + "-" + std::to_string(++g_case_no);
                rm_rf(base); ::mkdir(base.c_str(), 0777);
                dir = base + "/s"; outside = base + "/o"; ::mkdir(outside.c_str(), 0777);
                js["session"]["server"]["dir"] = dir;
            }
            if (c.stor == S_NET) {
                NetServer &ns = net_server();
                js["session"]["server"]["ips"][0] = "127.0.0.1"; js["session"]["server"]["ports"][0] = ns.port;
                spy = &ns.spy; spy->reset_case();
            }
        }
        if (c.loc != L_CLIENT && c.stor == S_NET) pool = net_pool(js);
        else if (c.loc != L_CLIENT && c.stor == S_MEM && !c.spy) {      // the way an application gets it: through a cppcms::service
            srv.reset(new cppcms::service(js)); pool = &srv->session_pool(); pool->init();
        } else {
            own.reset(new cppcms::session_pool(js)); pool = own.get();
            if (c.loc != L_CLIENT && c.spy && c.stor != S_NET) {
                spy = &local_spy;
                cppcms::sessions::session_storage_factory *real = c.stor == S_MEM
                    ? (cppcms::sessions::session_storage_factory *)new cppcms::sessions::session_memory_storage_factory()
                    : (cppcms::sessions::session_storage_factory *)new cppcms::sessions::session_file_storage_factory(dir, booster::thread::hardware_concurrency() + 1, 2, true);
                pool->storage(std::unique_ptr<cppcms::sessions::session_storage_factory>(new SpyFactory(real, spy)));
            }
            pool->init();
        }
    }
    ~Server() { own.reset(); srv.reset(); if (!base.empty()) rm_rf(base); }
    void gc() { auto &b = (*pool).*rob_get(TagBackend()); if (b.get()) b->gc(); }
    bool files() const { return cfg.loc != L_CLIENT && cfg.stor == S_FILES; }
};

// ---- the case ------------------------------------------------------------------------------------------------------------------
enum { O_SET = 0, O_ERASE, O_CLEAR, O_EXPOSE, O_HIDE, O_AGE, O_DEF_AGE, O_EXPIRATION, O_DEF_EXP, O_ON_SERVER, O_RESET, O_SET_BIG, O_NKINDS };
static const char *ONAME[] = {"set", "erase", "clear", "expose", "hide", "age", "default_age", "expiration", "default_expiration", "on_server", "reset_session", "set_big"};
enum { C_REQ = 0, C_ADV, C_RESTART, C_GC, C_PLANT, C_NKINDS };
static const char *KEYS[] = {"a", "b", "x", "a_b", "B", "key.long-name-0123456789", "c"};
static const int NKEYS = 7;
// A key is an integer code in the case file: 0..999 name the table above (modulo), 1000 + 8 * length + flavor a synthesized key of
// that length (1..1100): flavors 0..2 and 5..7 plain fillers, 3 and 4 bytes that are themselves well-formed packed entries.
static const int KEY_SYNTH = 1000;
static int key_code(int len, int flavor) { return KEY_SYNTH + 8 * len + (flavor & 7); }
static std::string key_of(int code) {
    if (code < KEY_SYNTH) return KEYS[((code % NKEYS) + NKEYS) % NKEYS];
    size_t len = (size_t)(code - KEY_SYNTH) / 8; int fl = (code - KEY_SYNTH) % 8;
    if (len < 1) len = 1; if (len > 1100) len = 1100;
    switch (fl) {
    case 0: return std::string(len, 'k');
    case 1: return std::string(len, 'K');
    case 2: { std::string r(len, 'a'); for (size_t i = 0; i < len; i++) r[i] = char('a' + i % 26); return r; }
    case 3: case 4: return adversarial_bytes(len);
    default: return std::string(len, char('m' + fl));
    }
}
static bool plain_key(std::string const &k) { if (k.size() > 64) return false; for (char c : k) if (!(isalnum((unsigned char)c) || c == '.' || c == '-' || c == '_')) return false; return true; }
// values of O_SET_BIG are synthesized too (2 MiB strings do not belong into case files): num selects length and content
static const size_t BIG_LEN[6] = {VALUE_LIMIT - 2, VALUE_LIMIT - 1, VALUE_LIMIT, VALUE_LIMIT + 1, 70000, 1u << 20};
static std::string big_value(int num) { size_t n = BIG_LEN[((num % 6) + 6) % 6]; return ((num / 6) & 1) ? adversarial_bytes(n) : std::string(n, 'V'); }
static std::string len_class(const char *what, size_t n, size_t limit) {
    std::string w = what; const char *unit = limit == KEY_LIMIT ? "1024" : "2MiB";
    if (n == limit) return w + "=" + unit; if (n == limit + 1) return w + "=" + unit + "+1"; if (n > limit + 1) return w + ">" + unit + "+1";
    if (n == limit - 1) return w + "=" + unit + "-1"; if (n == limit - 2) return w + "=" + unit + "-2";
    return std::string();
}
struct SubOp { int kind = 0, key = 0, num = 0; std::string val; };
struct Cmd { int kind = 0, b = 0, a1 = 0, a2 = 0; std::vector<SubOp> ops; };
struct Case {
    Cfg cfg; int strict = 0; std::vector<Cmd> cmds;
    void encode(vr::CaseWriter &w) const {
        w.i(cfg.loc).i(cfg.stor).i(cfg.expire).i(cfg.limit).i(cfg.timeout).i(cfg.enc).i(cfg.method).i(cfg.spy).i(cfg.nb).i(strict).i((long long)cmds.size()).nl();
        for (auto &c : cmds) {
            w.i(c.kind).i(c.b).i(c.a1).i(c.a2).i((long long)c.ops.size());
            for (auto &o : c.ops) w.i(o.kind).i(o.key).i(o.num).s(o.val);
            w.nl();
        }
    }
    static Case decode(vr::CaseReader &r) {
        Case c; c.cfg.loc = (int)r.i(); c.cfg.stor = (int)r.i(); c.cfg.expire = (int)r.i(); c.cfg.limit = (int)r.i(); c.cfg.timeout = (int)r.i();
        c.cfg.enc = (int)r.i(); c.cfg.method = (int)r.i(); c.cfg.spy = (int)r.i(); c.cfg.nb = (int)r.i(); c.strict = (int)r.i(); long long n = r.i();
        for (long long i = 0; i < n; i++) {
            Cmd m; m.kind = (int)r.i(); m.b = (int)r.i(); m.a1 = (int)r.i(); m.a2 = (int)r.i(); long long k = r.i();
            for (long long j = 0; j < k; j++) { SubOp o; o.kind = (int)r.i(); o.key = (int)r.i(); o.num = (int)r.i(); o.val = r.s(); m.ops.push_back(o); }
            c.cmds.push_back(m);
        }
        return c;
    }
    std::string pretty() const {
        std::string r = cfg.describe() + " |";
        for (auto &c : cmds) {
            if (c.kind == C_REQ) { r += " REQ" + std::to_string(c.b) + "["; for (auto &o : c.ops) r += std::string(ONAME[o.kind % O_NKINDS]) + (o.kind == O_SET || o.kind == O_SET_BIG ? "(" + (o.key < KEY_SYNTH ? key_of(o.key) : "key[" + std::to_string(key_of(o.key).size()) + "B/" + std::to_string((o.key - KEY_SYNTH) % 8) + "]") + "," + std::to_string(o.kind == O_SET ? o.val.size() : BIG_LEN[((o.num % 6) + 6) % 6]) + "B)" : "") + " "; r += "]"; }
            else if (c.kind == C_ADV) r += " ADV(" + std::to_string(c.a1) + "," + std::to_string(c.a2) + ")";
            else if (c.kind == C_RESTART) r += " RESTART" + std::to_string(c.b);
            else if (c.kind == C_GC) r += " GC";
            else r += " PLANT" + std::to_string(c.b) + "(v" + std::to_string(c.a1) + ")";
        }
        return r;
    }
};

static std::atomic<long> g_progress{0};      // bumped per request (watchdog)

// ---- the world: code under test + model in lock-step --------------------------------------------------------------------------
static const char *KNOWN_EXPOSED_SIG = "exposed:cookie-not-refreshed-when-session-prolonged";

struct World {
    Server sv; Cfg const &cfg; bool lifetime_too;
    std::vector<std::unique_ptr<Jar>> jars;
    std::map<std::string, Snap> tokens;             // by session cookie value
    std::vector<std::string> issued, dead;          // in order of first appearance / of death
    std::set<std::string> issued_set;
    bool f_read_after_advance = false, f_switch = false, f_replay_dead = false, f_boundary = false;
    World(Case const &c) : sv(c.cfg), cfg(sv.cfg), lifetime_too(c.strict != 2) { for (int i = 0; i < cfg.nb; i++) jars.emplace_back(new Jar()); }

    std::string ctx(int b) { return " | cfg={" + cfg.describe() + "} now=T0+" + std::to_string(now() - T0) + " browser=" + std::to_string(b) + " jar={" + jars[b]->dump() + "}"; }

    void kill(std::string const &tok) { auto p = tokens.find(tok); if (p != tokens.end() && p->second.alive) { p->second.alive = false; dead.push_back(tok); } }

    // the storage as an observation point: dead identifiers have no record, live ones carry the model's deadline, nothing but
    // 32-hex-digit names exists, decoys are untouched
    Outcome check_storage(std::string const &where) {
        if (sv.spy) {
            std::string v = sv.spy->get_violation();
            V_CHECK(v.empty(), "sid:malformed-id-reaches-storage", "the storage layer was addressed with an identifier that is not 32 lower-case hex digits: " + v + where);
            for (auto &kv : tokens) if (kv.second.server) {
                std::string id = kv.first.substr(1); long long to = 0; bool has = sv.spy->has(id, &to);
                if (!kv.second.alive) V_CHECK(!has, "storage:dead-record-remains", "the record of the cleared/reset/moved session " + kv.first + " was not removed from the storage" + where);
                else if (kv.second.deadline >= now()) {
                    V_CHECK(has, "storage:live-record-missing", "the record of live session " + kv.first + " is gone from the storage" + where);
                    V_CHECK(to == kv.second.deadline, "storage:deadline", "session " + kv.first + " is stored with deadline T0+" + std::to_string(to - T0) + ", the model says T0+" + std::to_string(kv.second.deadline - T0) + where);
                }
            }
        }
        if (sv.files()) {
            std::set<std::string> names;
            if (DIR *d = opendir(sv.dir.c_str())) { while (dirent *e = readdir(d)) { std::string n = e->d_name; if (n != "." && n != "..") names.insert(n); } closedir(d); }
            for (auto &n : names) V_CHECK(is_hex32(n) || sv.decoys.count(sv.dir + "/" + n), "files:foreign-name-in-session-directory", "file '" + vr::show(n, 80) + "' appeared in the session directory" + where);
            for (auto &kv : sv.decoys) { std::string img; bool there = read_img(kv.first, img); V_CHECK(there && img == kv.second, "files:foreign-file-touched", "the decoy file " + kv.first + " was " + (there ? "modified" : "removed") + where); }
            std::set<std::string> out;
            if (DIR *d = opendir(sv.outside.c_str())) { while (dirent *e = readdir(d)) { std::string n = e->d_name; if (n != "." && n != "..") out.insert(n); } closedir(d); }
            for (auto &n : out) V_CHECK(sv.decoys.count(sv.outside + "/" + n), "files:file-created-outside-session-directory", "file '" + vr::show(n, 80) + "' was created outside of the session directory" + where);
            for (auto &kv : tokens) if (kv.second.server) {
                bool has = names.count(kv.first.substr(1)) != 0;
                if (!kv.second.alive) V_CHECK(!has, "storage:dead-record-remains", "the file of the cleared/reset/moved session " + kv.first + " still exists" + where);
                else if (kv.second.deadline >= now()) V_CHECK(has, "storage:live-record-missing", "the file of live session " + kv.first + " is gone" + where);
            }
        }
        return ok();
    }

    // a fresh browser presenting a dead identifier must see nothing
    Outcome probe_dead(std::string const &tok, std::string const &where) {
        Jar j; j.plant(tok); j.begin();
        cppcms::session_interface s(*sv.pool, j);
        bool loaded = s.load();
        VR.cls("probe:dead-token");
        f_replay_dead = true;
        V_CHECK(!loaded && s.key_set().empty(), "read:dead-token-served", "the identifier " + tok + " of a session that was cleared / reset / moved to the cookie still yields data: keys=" + std::to_string(s.key_set().size()) + where);
        return ok();
    }

    Outcome request(int b, std::vector<SubOp> const &ops) {
        Jar &jar = *jars[b];
        g_progress++;
        jar.tick(); jar.begin();
        std::string token = jar.session();
        auto it = tokens.find(token);
        Snap *sn = it == tokens.end() ? nullptr : &it->second;
        bool can = sn && sn->alive && now() <= sn->deadline;
        bool edge = can && now() == sn->deadline;
        std::string where = ctx(b);

        cppcms::session_interface s(*sv.pool, jar);
        bool loaded = false;
        try { loaded = s.load(); }
        catch (std::exception const &e) {
            return bad(can ? "load:exception-after-successful-save" : "load:exception", std::string("load() threw '") + e.what() + "'" + (can ? " for a live session the previous request saved without complaint: expected " + show_state(sn->st) : std::string()) + where);
        }
        // ---- what the request reads
        State R;
        for (auto &k : s.key_set()) { Ent e; e.v = s.get(k); e.exp = s.is_exposed(k); R.data[k] = e; }
        int r_age = s.age(), r_how = s.expiration(); bool r_srv = s.on_server();
        if (edge && !loaded) { can = false; VR.cls("read:at-deadline-rejected"); } else if (edge) VR.cls("read:at-deadline-accepted");
        State L = can ? sn->st : State();
        std::string rd = " read=" + show_state(R) + " expected=" + show_state(L) + (token.empty() ? " (no session cookie)" : " token=" + vr::show(token, 50)) + where;
        if (!can) {
            const char *sig = !sn ? "read:unknown-token-served" : !sn->alive ? "read:dead-token-served" : "read:expired-session-served";
            V_CHECK(!loaded && R.data.empty(), sig, std::string("a request read data although its session cookie names ") + (!sn ? "no session this server issued" : !sn->alive ? "a cleared/reset/moved session" : "a session past its deadline T0+" + std::to_string(sn->deadline - T0)) + rd);
            if (sn && !sn->alive) { f_replay_dead = true; VR.cls("read:dead-token"); }
            else if (sn) VR.cls("read:expired");
            else VR.cls(token.empty() ? "read:no-cookie" : "read:unknown-token");
        } else {
            V_CHECK(loaded, "read:live-session-lost", "a live session (deadline T0+" + std::to_string(sn->deadline - T0) + ") was not loaded" + rd);
            bool keys_same = true;
            if (R.data.size() != L.data.size()) keys_same = false;
            for (auto &kv : L.data) { auto p = R.data.find(kv.first); if (p == R.data.end() || p->second.v != kv.second.v) keys_same = false; }
            V_CHECK(keys_same, sn->boundary ? "read:foreign-key-after-boundary-length-save" : "read:wrong-data", std::string("the session read differs from what the previous request left") + (sn->boundary ? " (that request saved a key / value at the limit of the packed entry header without complaint)" : "") + rd);
            for (auto &kv : L.data) V_CHECK(R.data[kv.first].exp == kv.second.exp, "read:exposed-flag", "exposed flag of key " + vr::show(kv.first, 32) + " did not carry over" + rd);
            VR.cls("read:live");
            if (now() > sn->written_at) { f_read_after_advance = true; VR.cls("read:live-after-clock-advance"); }
        }
        {
            int e_age = L.has_age ? L.age : cfg.timeout, e_how = L.has_how ? L.how : cfg.expire; bool e_srv = L.has_srv ? L.srv : false;
            V_CHECK(r_age == e_age && r_how == e_how && r_srv == e_srv, "read:attributes",
                    "age/expiration/on_server read " + std::to_string(r_age) + "/" + std::to_string(r_how) + "/" + std::to_string((int)r_srv) + ", expected " + std::to_string(e_age) + "/" + std::to_string(e_how) + "/" + std::to_string((int)e_srv) + rd);
        }
        for (int k = 0; k < NKEYS; k++) if (!L.data.count(KEYS[k])) V_CHECK(!s.is_set(KEYS[k]) && !s.is_exposed(KEYS[k]), "read:wrong-data", std::string("key ") + KEYS[k] + " is set but should not be" + rd);

        // ---- the request's operations, on both sides
        State cur = L; int cur_age = L.has_age ? L.age : cfg.timeout, cur_how = L.has_how ? L.how : cfg.expire; bool cur_srv = L.has_srv ? L.srv : false, reset = false;
        for (auto &o : ops) {
            std::string k = key_of(o.key);
            int okind = ((o.kind % O_NKINDS) + O_NKINDS) % O_NKINDS;
            if (okind == O_ERASE && (o.num & 1) && !cur.data.empty()) {   // aim at a key that is set
                auto p = cur.data.begin(); std::advance(p, (size_t)(o.key < 0 ? -o.key : o.key) % cur.data.size()); k = p->first;
            }
            if (okind == O_EXPOSE || okind == O_HIDE) {   // aim at a key that is set and fit for a cookie name
                std::vector<std::string> cand; for (auto &kv : cur.data) if (plain_key(kv.first)) cand.push_back(kv.first);
                if (!cand.empty()) k = cand[(size_t)(o.key < 0 ? -o.key : o.key) % cand.size()];
                else if (!plain_key(k)) k = KEYS[0];
            }
            switch (okind) {
            case O_SET: if (o.num & 1) s[k] = o.val; else s.set(k, o.val); cur.data[k].v = o.val; break;
            case O_SET_BIG: { std::string v = big_value(o.num); s.set(k, v); cur.data[k].v.swap(v); break; }
            case O_ERASE: s.erase(k); cur.data.erase(k); break;
            case O_CLEAR: s.clear(); cur.data.clear(); cur.has_age = cur.has_how = cur.has_srv = false; VR.cls("op:clear"); break;
            case O_EXPOSE: if (cur.data.count(k)) { s.expose(k); cur.data[k].exp = true; } else VR.excl("expose/hide of a key that is not set (undocumented: creates the key)"); break;
            case O_HIDE: if (cur.data.count(k)) { if (o.num & 1) s.hide(k); else s.expose(k, false); cur.data[k].exp = false; } else VR.excl("expose/hide of a key that is not set (undocumented: creates the key)"); break;
            case O_AGE: { int t = o.num < 1 ? 1 : o.num > 1000000 ? 1000000 : o.num; s.age(t); cur_age = t; cur.has_age = true; cur.age = t; break; }
            case O_DEF_AGE: s.default_age(); cur.has_age = false; cur_age = cfg.timeout; break;
            case O_EXPIRATION: { int h = ((o.num % 3) + 3) % 3; s.expiration(h); cur_how = h; cur.has_how = true; cur.how = h; break; }
            case O_DEF_EXP: s.default_expiration(); cur.has_how = false; cur_how = cfg.expire; break;
            case O_ON_SERVER: {
                bool v = o.num & 1;
                if (v && cfg.loc == L_CLIENT) { VR.excl("on_server(true) with session.location=client (documented as unsupported)"); break; }
                s.on_server(v); cur.has_srv = true; cur.srv = v; cur_srv = v; break; }
            case O_RESET: s.reset_session(); reset = true; VR.cls("op:reset_session"); break;
            }
        }
        {   // the object must reflect the operations before it is saved
            bool good = s.age() == cur_age && s.expiration() == cur_how && s.on_server() == cur_srv;
            std::set<std::string> ks = s.key_set();
            if (ks.size() != cur.data.size()) good = false;
            for (auto &kv : cur.data) if (!s.is_set(kv.first) || s.get(kv.first, "\x01none") != kv.second.v || s.is_exposed(kv.first) != kv.second.exp) good = false;
            V_CHECK(good, "request:object-state", "after the operations the session object does not show what was set, expected " + show_state(cur) + where);
        }
        if (!cur.has_age) cur.age = 0; if (!cur.has_how) cur.how = 0; if (!cur.has_srv) cur.srv = false;

        // ---- entries at the edge of what the packed entry header (10 bit key size, 21 bit value size) can hold.  Sizes that do not
        // fit are refused by save() (cppcms_error, nothing stored, nothing sent): then the previous state stays.  Should an
        // implementation accept them, the model takes the save at its word and the next request must read exactly this state.
        bool over = false, edge_len = false;
        std::vector<std::string> len_classes;
        for (auto &kv : cur.data) {
            if (kv.first.size() >= KEY_LIMIT || kv.second.v.size() >= VALUE_LIMIT) over = true;
            std::string a = len_class("key_len", kv.first.size(), KEY_LIMIT), b2 = len_class("value_len", kv.second.v.size(), VALUE_LIMIT);
            if (!a.empty()) len_classes.push_back(a); if (!b2.empty()) len_classes.push_back(b2);
            if (a.empty() && kv.first.size() > 64) VR.cls("key_len=65..1021");
            if (b2.empty() && kv.second.v.size() >= 65536) VR.cls("value_len=64KiB..2MiB-3");
        }
        edge_len = !len_classes.empty();
        int calls_before_save = jar.calls; std::string cookie_before_save = jar.session();
        bool refused = false; std::string refusal;
        try { s.save(); }
        catch (cppcms::cppcms_error const &e) { refused = true; refusal = e.what(); }
        if (edge_len) {
            f_boundary = true;
            for (auto &c : len_classes) {
                bool too_long = c.find("-") == std::string::npos;
                VR.cls(c + (too_long ? (refused ? "_refused" : "_accepted") : (refused ? (over ? "_in-refused-save" : "_REFUSED") : "")));
            }
        }
        if (refused) {
            V_CHECK(over, "save:refused-entry-within-limits", "save() threw '" + refusal + "' although every key is <= 1023 and every value <= 2 MiB - 1 bytes: " + show_state(cur) + where);
            VR.cls("save:refused-over-long-entry");
            V_CHECK(jar.calls == calls_before_save && jar.session() == cookie_before_save, "save:refused-but-cookies-sent", "save() refused the session ('" + refusal + "') but cookies were sent" + where);
            Outcome o = check_storage(" after a refused save" + where);
            return o;            // the model is unchanged: the next request reads what was there before
        }

        // ---- what must have happened
        std::string token2 = jar.session();
        std::string after = " | after the request: jar={" + jar.dump() + "} session=" + show_state(cur) + where;
        V_CHECK(jar.bad_attr.empty(), "cookie:path-or-domain", "cookie " + jar.bad_attr + " carries a path/domain other than the configured one" + after);
        bool fin_empty = cur.empty();
        bool isnew = (L.empty() && !fin_empty) || reset;
        std::string pre = jar.prefix + "_";
        std::string killed;
        if (fin_empty) {
            VR.cls(L.empty() ? "save:nothing" : "save:cleared");
            V_CHECK(token2.empty(), "cookie:not-cleared", "the session is empty after the request but a session cookie is still in the jar" + after);
            for (auto &kv : jar.c) V_CHECK(kv.first.compare(0, pre.size(), pre) != 0, "exposed:stale-cookie", "cookie " + kv.first + " survives an empty session" + after);
            if (sn && sn->server && sn->alive) { kill(token); killed = token; }
        } else {
            bool write = true;
            if (!isnew && cur.same(L)) {
                if (cur_how == FIXED) write = false;
                else {
                    long long delta = now() + cur_age - sn->deadline;
                    if (10 * delta < cur_age) { write = false; VR.cls("renew:inside-10%-window"); }
                    else if (10 * delta == cur_age) { write = jar.calls > 0; VR.cls(write ? "renew:at-threshold-renewed" : "renew:at-threshold-kept"); }
                    else VR.cls("renew:past-10%-renewed");
                }
            }
            if (!write) {
                VR.cls("save:unchanged-not-written");
                V_CHECK(jar.calls == 0 && token2 == token, "cookie:touched-without-change", "nothing changed and no renewal was due, yet cookies were sent" + after);
            } else {
                long long deadline2 = (cur_how != FIXED || isnew) ? now() + cur_age : sn->deadline;
                V_CHECK(!token2.empty() && jar.sess_sets >= 1, "cookie:session-cookie-not-sent", "the session was written but no session cookie was sent" + after);
                bool srv_kind = sid_form(token2);
                V_CHECK(srv_kind || ccookie_form(token2), "sid:form", "the session cookie is neither 'I'+32 lower-case hex digits nor 'C'+base64url" + after);
                // where the session has to live
                size_t lo = 0; for (auto &kv : cur.data) lo += 4 + kv.first.size() + kv.second.v.size();
                size_t hi = lo + 64;
                if (cfg.loc == L_CLIENT) V_CHECK(!srv_kind, "location:kind", "location=client issued a server-side identifier" + after);
                if (cfg.loc == L_SERVER) V_CHECK(srv_kind, "location:kind", "location=server issued a client-side cookie" + after);
                if (cfg.loc == L_BOTH) {
                    if (cur_srv || lo > (size_t)cfg.limit) V_CHECK(srv_kind, "location:kind", "on_server / data above client_size_limit, yet the session went into the cookie" + after);
                    else if (hi <= (size_t)cfg.limit) V_CHECK(!srv_kind, "location:kind", "small session without on_server went to the server" + after);
                }
                bool was_srv = sn && sn->server;
                if (srv_kind) {
                    if (!isnew && was_srv) V_CHECK(token2 == token, "sid:changed-without-reset", "an existing server-side session changed its identifier without reset_session()" + after);
                    else {
                        V_CHECK(!issued_set.count(token2) && token2 != token, "sid:not-fresh", std::string(reset ? "reset_session()" : "a new session") + " did not get a fresh identifier (" + token2 + " was in use before)" + after);
                        if (was_srv && sn->alive) { kill(token); killed = token; }
                    }
                } else if (was_srv && sn->alive) { kill(token); killed = token; }
                if (sn && sn->server != srv_kind) { f_switch = true; VR.cls(srv_kind ? "switch:cookie->server" : "switch:server->cookie"); }
                VR.cls(isnew ? (reset && !L.empty() ? "save:reset" : "save:new") : "save:update");
                Snap n2; n2.st = cur; n2.deadline = deadline2; n2.written_at = now(); n2.alive = true; n2.server = srv_kind; n2.boundary = edge_len;
                tokens[token2] = n2;
                if (issued_set.insert(token2).second) issued.push_back(token2);
                // life time of the session cookie
                Cookie const &ck = jar.c[jar.prefix];
                if (deadline2 != now()) {
                    if (cur_how == BROWSER) V_CHECK(ck.session_only, "cookie:lifetime", "expiration=browser but the session cookie carries an expiry date" + after);
                    else V_CHECK(!ck.session_only && ck.expiry == deadline2, "cookie:lifetime", "the session cookie expires at " + (ck.session_only ? std::string("browser exit") : "T0+" + std::to_string(ck.expiry - T0)) + ", the session at T0+" + std::to_string(deadline2 - T0) + after);
                }
                // exposed values: after every write the jar holds exactly the exposed, non-empty values, each with the life time of
                // the session cookie.  A key that did not change in this request used to be left alone by cppcms (cookie missing /
                // older value / older life time while the session lives on): that was the defect KNOWN_EXPOSED_SIG, fixed by
                // 752e2e8; it keeps its own signature.  (lifetime_too == false: regression case that shows the visible consequence only.)
                bool forced = !isnew && cur.same(L);
                for (auto &kv : cur.data) {
                    std::string name = pre + kv.first; auto p = jar.c.find(name);
                    auto lp = L.data.find(kv.first);
                    bool changed_now = L.empty() || forced || lp == L.data.end() || !lp->second.exp || lp->second.v != kv.second.v;
                    if (kv.second.exp && !kv.second.v.empty()) {
                        bool in_step = p != jar.c.end() && p->second.session_only == ck.session_only && (ck.session_only || p->second.expiry == ck.expiry);
                        if (changed_now) {
                            V_CHECK(p != jar.c.end(), "exposed:missing", "key " + kv.first + " was exposed / changed in this request but there is no cookie " + name + after);
                            V_CHECK(p->second.value == kv.second.v, "exposed:value", "cookie " + name + " does not carry the exposed value" + after);
                            V_CHECK(in_step, "exposed:lifetime", "cookie " + name + " was sent with a life time other than the session cookie's" + after);
                        } else {
                            V_CHECK(p != jar.c.end(), KNOWN_EXPOSED_SIG, "key " + kv.first + " is exposed in a live session but its cookie is not in the jar: it expired earlier than the session (or this browser never got it) and was not re-sent because the value did not change" + after);
                            V_CHECK(p->second.value == kv.second.v, KNOWN_EXPOSED_SIG, "cookie " + name + " holds an older value: the key was changed through another browser and is not re-sent to this one" + after);
                            if (lifetime_too) V_CHECK(in_step, KNOWN_EXPOSED_SIG, "cookie " + name + " keeps its old life time while the session (and its cookie) was prolonged: it will leave the jar before the session ends" + after);
                        }
                        VR.cls(changed_now ? "exposed:changed-key-checked" : "exposed:unchanged-key-checked");
                    } else if (kv.second.exp && p != jar.c.end()) {      // exposed but empty: the cookie has to go
                        V_CHECK(!changed_now, "exposed:stale-cookie", "the exposed key " + kv.first + " became empty in this request but cookie " + name + " is still in the jar" + after);
                        V_CHECK(false, KNOWN_EXPOSED_SIG, "cookie " + name + " holds an older value: the key was emptied through another browser and the removal is not re-sent to this one" + after);
                    } else V_CHECK(p == jar.c.end(), "exposed:stale-cookie", "key " + kv.first + " is not exposed but cookie " + name + " is in the jar" + after);
                }
                for (auto &kv : jar.c) if (kv.first.compare(0, pre.size(), pre) == 0) V_CHECK(cur.data.count(kv.first.substr(pre.size())), "exposed:stale-cookie", "cookie " + kv.first + " belongs to no key of the session" + after);
            }
        }
        { Outcome o = check_storage(after); if (!o.ok()) return o; }
        if (!killed.empty()) { Outcome o = probe_dead(killed, after); if (!o.ok()) return o; }
        return ok();
    }

    // ---- attacker: edit a jar
    std::string pick(std::vector<std::string> const &v, int idx, bool want_sid) {
        if (v.empty()) return std::string();
        size_t n = v.size(), start = (size_t)(idx < 0 ? -idx : idx) % n;
        for (size_t k = 0; k < n; k++) { std::string const &t = v[(start + k) % n]; if (!want_sid || sid_form(t)) return t; }
        return std::string();
    }
    void decoy(std::string const &path, std::string const &from_sid) {
        if (!sv.files() || sv.decoys.count(path)) return;
        std::string img;
        if (from_sid.empty() || !read_img(sv.dir + "/" + from_sid, img)) img = std::string("\x01\x02 not a session record, must stay as it is \x03\x04", 46);
        else if (img.size() >= 8) { int64_t far = T0 + 500000000LL; memcpy(&img[0], &far, 8); }   // a complete record that never expires (gc() looks at any 32-xdigit name)
        struct stat st; if (stat(sv.dir.c_str(), &st) != 0) return;     // directory not created yet
        write_img(path, img); sv.decoys[path] = img;
    }
    void plant(int b, int variant, int idx) {
        std::string v, sidtok = pick(issued, idx, true), sid = sidtok.empty() ? std::string() : sidtok.substr(1);
        static const std::string D27(27, 'd');
        switch (((variant % 14) + 14) % 14) {
        case 0: v = pick(issued, idx, false); VR.cls("plant:issued-token"); break;
        case 1: v = pick(dead, idx, false); if (v.empty()) v = pick(issued, idx, false); VR.cls("plant:dead-token"); break;
        case 2: if (!sid.empty()) { std::string u = sid; for (auto &c : u) c = (char)toupper((unsigned char)c); if (u == sid) u[0] = 'A'; v = "I" + u; decoy(sv.dir + "/" + u, sid); } VR.cls("plant:upper-case-id"); break;
        case 3: if (!sid.empty()) { v = "I" + sid.substr(0, 31); decoy(sv.dir + "/" + sid.substr(0, 31), sid); } VR.cls("plant:shorter-id"); break;
        case 4: if (!sid.empty()) { v = "I" + sid + "0"; decoy(sv.dir + "/" + sid + "0", sid); } VR.cls("plant:longer-id"); break;
        case 5: if (!sid.empty()) { static const char R[] = {'g', '/', '.', 'G', ' ', '\0', '%'}; std::string u = sid; u[(size_t)(idx < 0 ? -idx : idx) % 32] = R[(size_t)(idx < 0 ? -idx : idx) % 7]; v = "I" + u; } VR.cls("plant:non-hex-id"); break;
        case 6: v = "I../o/" + D27; decoy(sv.outside + "/" + D27, sid); VR.cls("plant:path-like-id-33"); break;
        case 7: if (sv.files()) { v = "I" + sv.outside + "/" + D27; decoy(sv.outside + "/" + D27, sid); } else v = "I/etc/hostname"; VR.cls("plant:absolute-path-id"); break;
        case 8: v = "I../o/x"; decoy(sv.outside + "/x", sid); VR.cls("plant:path-like-id-short"); break;
        case 9: { std::string t = pick(issued, idx, false); if (!t.empty()) v = std::string(t[0] == 'I' ? "C" : "I") + t.substr(1); VR.cls("plant:kind-confusion"); break; }
        case 10: { std::string t = pick(issued, idx, false); if (ccookie_form(t) && t.size() > 12) { size_t p = 4 + (size_t)(idx < 0 ? -idx : idx) % (t.size() - 8); t[p] = t[p] == 'B' ? 'C' : 'B'; v = t; } VR.cls("plant:tampered-cookie"); break; }
        case 11: { static const char *G[] = {"", "I", "C", "x", "I0123", "Czzzz", "IIIIIIIIIIIIIIIIIIIIIIIIIIIIIIIII", "C\xff\xfe", "I0123456789abcdef0123456789abcdeg"}; v = G[(size_t)(idx < 0 ? -idx : idx) % 9]; VR.cls("plant:garbage"); break; }
        case 12: v = "I" + std::string(32, "0123456789abcdef"[(size_t)(idx < 0 ? -idx : idx) % 16]); VR.cls("plant:well-formed-unknown-id"); break;
        default: { std::string t = pick(issued, idx + 1, false); v = t; VR.cls("plant:issued-token"); break; }
        }
        jars[b]->plant(v);
    }

    long long target(int b, int mode, int off) {
        std::string t = jars[b]->session(); auto p = tokens.find(t);
        if (p == tokens.end()) return now() + 1;
        Snap const &sn = p->second; int age = sn.st.has_age ? sn.st.age : cfg.timeout;
        if (mode == 2) return sn.deadline - age + (age + 9) / 10 + off;    // the 10 % renew threshold
        return sn.deadline + off;
    }
};

static Outcome run_case(Case const &c0) {
    Case c = c0; c.cfg.fix();
    g_now = T0;
    VR.eval();
    World w(c);
    VR.cls(std::string("cfg:location=") + LOC[c.cfg.loc]);
    if (c.cfg.loc != L_CLIENT) VR.cls(std::string("cfg:storage=") + STOR[c.cfg.stor] + (c.cfg.spy && c.cfg.stor != S_NET ? "+spy" : ""));
    VR.cls(std::string("cfg:expire=") + HOW[c.cfg.expire]);
    long requests = 0;
    for (auto &m : c.cmds) {
        int b = ((m.b % c.cfg.nb) + c.cfg.nb) % c.cfg.nb;
        switch (((m.kind % C_NKINDS) + C_NKINDS) % C_NKINDS) {
        case C_REQ: { requests++; Outcome o = w.request(b, m.ops); if (!o.ok()) return o; break; }
        case C_ADV: {
            long long t;
            int mode = ((m.a1 % 5) + 5) % 5; long long a2 = m.a2 < 0 ? 0 : m.a2;
            static const int OFF[6] = {-1, 0, 1, -1, 0, 2};
            if (mode == 0) t = now() + a2 % 12;
            else if (mode == 1) t = now() + a2 % 1500;
            else if (mode == 4) t = now() + a2 % 200000;
            else t = w.target(b, mode, OFF[a2 % 6]);
            if (t > now()) g_now = t;
            VR.cls(mode <= 1 || mode == 4 ? "adv:absolute" : mode == 2 ? "adv:to-renew-threshold" : "adv:to-deadline");
            for (auto &j : w.jars) j->tick();
            break; }
        case C_RESTART: w.jars[b]->restart(); VR.cls("browser-restart"); break;
        case C_GC: {
            try { w.sv.gc(); } catch (std::exception const &e) { return bad("gc:exception", std::string("gc threw: ") + e.what()); }
            VR.cls("gc");
            Outcome o = w.check_storage(" after gc | cfg={" + c.cfg.describe() + "}"); if (!o.ok()) return o;
            break; }
        case C_PLANT: w.plant(b, m.a1, m.a2); break;
        }
    }
    VR.cls("requests", requests);
    if (w.f_read_after_advance) VR.cls("nt:read-after-clock-advance");
    if (w.f_switch) VR.cls("nt:client<->server-switch");
    if (w.f_replay_dead) VR.cls("nt:dead-identifier-replayed");
    if (w.f_boundary) VR.cls("nt:boundary-length-entry");
    if (w.f_read_after_advance || w.f_switch || w.f_replay_dead || w.f_boundary) { vr::CaseWriter cw; c.encode(cw); VR.nontrivial(vr::fnv(cw.str())); }
    if (VR.want_sample()) VR.sample(c.pretty());
    return ok();
}

// ---- generators ---------------------------------------------------------------------------------------------------------------
static rc::Gen<std::string> genValue(int limit) {
    using namespace rc;
    return gen::oneOf(
        gen::map(gen::container<std::vector<char>>(gen::elementOf(std::string("abcXYZ019 %+;=&/-_.~\"'<>"))), [](std::vector<char> v) { if (v.size() > 12) v.resize(12); return std::string(v.begin(), v.end()); }),
        vr::bytes(10),
        gen::map(gen::tuple(vr::range<int>(-24, 70), gen::elementOf(std::string("qZ7\xc3 "))), [limit](std::tuple<int, char> t) { int n = limit + std::get<0>(t); if (n < 0) n = 0; if (n > 4200) n = 4200; return std::string((size_t)n, std::get<1>(t)); }),
        gen::just(std::string()), gen::just(std::string("1")));
}
static rc::Gen<SubOp> genSubOp(int limit) {
    using namespace rc;
    // keys: mostly the short table, a share of synthesized keys of every length 1..1023 and a deliberate share at the boundary
    Gen<int> key = gen::weightedOneOf<int>({{48, vr::range<int>(0, NKEYS)},
                                            {1, gen::map(gen::tuple(vr::range<int>(1, 1024), vr::range<int>(0, 8)), [](std::tuple<int, int> t) { return key_code(std::get<0>(t), std::get<1>(t)); })},
                                            {1, gen::map(gen::tuple(gen::element(1022, 1023, 1023, 1024, 1024, 1025), vr::range<int>(0, 8)), [](std::tuple<int, int> t) { return key_code(std::get<0>(t), std::get<1>(t)); })}});
    long big_w = vr::envl("C06_BIG_WEIGHT", 1);     // 2 MiB values are expensive: about one operation in 6000 (the grid unit guarantees them)
    return gen::mapcat(gen::weightedElement<int>({{2400, O_SET}, {600, O_ERASE}, {200, O_CLEAR}, {600, O_EXPOSE}, {200, O_HIDE}, {400, O_AGE}, {200, O_DEF_AGE}, {400, O_EXPIRATION}, {200, O_DEF_EXP}, {400, O_ON_SERVER}, {400, O_RESET}, {(size_t)big_w, O_SET_BIG}}), [limit, key](int kind) {
        Gen<int> num = kind == O_AGE ? gen::element(1, 2, 5, 7, 10, 20, 30, 100, 1000, 86400) : kind == O_SET_BIG ? vr::range<int>(0, 12) : vr::range<int>(0, 6);
        Gen<std::string> val = kind == O_SET ? genValue(limit) : gen::just(std::string());
        return gen::map(gen::tuple(key, num, val), [kind](std::tuple<int, int, std::string> t) { SubOp o; o.kind = kind; o.key = std::get<0>(t); o.num = std::get<1>(t); o.val = std::get<2>(t); return o; });
    });
}
static rc::Gen<Cmd> genCmd(int limit) {
    using namespace rc;
    return gen::mapcat(gen::weightedElement<int>({{16, C_REQ}, {5, C_ADV}, {1, C_RESTART}, {1, C_GC}, {3, C_PLANT}}), [limit](int kind) -> Gen<Cmd> {
        if (kind == C_REQ)
            return gen::map(gen::tuple(vr::range<int>(0, 3), gen::mapcat(gen::weightedElement<int>({{1, 0}, {4, 1}, {5, 2}, {4, 4}, {2, 8}}), [limit](int n) { return gen::resize(n, gen::container<std::vector<SubOp>>(genSubOp(limit))); })),
                            [](std::tuple<int, std::vector<SubOp>> t) { Cmd c; c.kind = C_REQ; c.b = std::get<0>(t); c.ops = std::get<1>(t); return c; });
        if (kind == C_ADV)
            return gen::map(gen::tuple(vr::range<int>(0, 3), gen::weightedElement<int>({{3, 0}, {2, 1}, {4, 2}, {4, 3}, {1, 4}}), vr::range<int>(0, 400000)),
                            [](std::tuple<int, int, int> t) { Cmd c; c.kind = C_ADV; c.b = std::get<0>(t); c.a1 = std::get<1>(t); c.a2 = std::get<2>(t); return c; });
        if (kind == C_PLANT)
            return gen::map(gen::tuple(vr::range<int>(0, 3), gen::weightedElement<int>({{3, 0}, {5, 1}, {2, 2}, {2, 3}, {1, 4}, {1, 5}, {2, 6}, {1, 7}, {1, 8}, {1, 9}, {1, 10}, {1, 11}, {1, 12}}), vr::range<int>(0, 64)),
                            [](std::tuple<int, int, int> t) { Cmd c; c.kind = C_PLANT; c.b = std::get<0>(t); c.a1 = std::get<1>(t); c.a2 = std::get<2>(t); return c; });
        return gen::map(vr::range<int>(0, 3), [kind](int b) { Cmd c; c.kind = kind; c.b = b; return c; });
    });
}
static rc::Gen<Case> genCase() {
    using namespace rc;
    int maxlen = (int)vr::envl("C06_MAXLEN", 30);
    int strict = 1;      // case-file field kept for the regression case (2 = do not assert cookie life times of unchanged exposed keys)
    std::string only_stor = vr::env("C06_STORAGE", "");
    Gen<int> stor = only_stor == "network" ? gen::just((int)S_NET) : only_stor == "local" ? gen::element((int)S_MEM, (int)S_FILES) : gen::weightedElement<int>({{3, S_MEM}, {3, S_FILES}, {2, S_NET}});
    Gen<Cfg> cfg = gen::map(gen::tuple(gen::weightedElement<int>({{2, L_CLIENT}, {3, L_SERVER}, {4, L_BOTH}}), stor, vr::range<int>(0, 3),
                                       gen::element(40, 64, 100, 200, 2048), gen::element(10, 20, 30, 100, 1000, 86400), vr::range<int>(0, 3), vr::range<int>(0, 3), vr::range<int>(0, 2), gen::weightedElement<int>({{5, 1}, {4, 2}, {2, 3}})),
                            [](std::tuple<int, int, int, int, int, int, int, int, int> t) {
                                Cfg c; c.loc = std::get<0>(t); c.stor = std::get<1>(t); c.expire = std::get<2>(t); c.limit = std::get<3>(t); c.timeout = std::get<4>(t);
                                c.enc = std::get<5>(t); c.method = std::get<6>(t); c.spy = std::get<7>(t); c.nb = std::get<8>(t); c.fix(); return c; });
    return gen::mapcat(cfg, [maxlen, strict](Cfg c) {
        return gen::map(gen::scale(2.0, gen::container<std::vector<Cmd>>(genCmd(c.limit))),
                        [c, strict, maxlen](std::vector<Cmd> v) { Case k; k.cfg = c; k.strict = strict; if ((int)v.size() > maxlen) v.resize(maxlen); k.cmds = v; return k; });
    });
}

// Safety net only: a case that makes no progress for minutes (a mutated library can dead-lock, e.g. lock/unlock of different
// mutexes for a malformed identifier) ends the process.  A failure recorded before the hang stays the result (exit 1); a hang
// alone is counted as inconclusive, never as a violation.
static void watchdog(long limit_s) {
    long last = -1, idle = 0;
    for (;;) {
        std::this_thread::sleep_for(std::chrono::seconds(1));
        long p = g_progress.load();
        if (p != last) { last = p; idle = 0; continue; }
        if (++idle < limit_s) continue;
        bool failed = !VR.failures.empty();
        if (!failed) VR.inconclusive++;
        fprintf(stderr, "c06_sessions: no progress for %ld s, giving up (%s)\n", limit_s, failed ? "a failure was recorded before" : "inconclusive");
        VR.finish();
        _exit(failed ? 1 : 0);
    }
}

// ---- the boundary grid: {key 1023, 1024, 1025} x {value 0, 2 MiB - 1, 2 MiB, 2 MiB + 1} x every location / storage, once per run.
// History: create a session (a=alice), add the boundary entry, read, advance, change another key, read.  Key and value bytes are
// themselves well-formed packed entries (user=root, _t=7, ...), so a header that wrapped would make the next load read those.
static int run_grid() {
    int failed = 0;
    static const int KL[3] = {1023, 1024, 1025};
    struct LS { int loc, stor, spy; } const CF[11] = {{L_CLIENT, 0, 0}, {L_SERVER, S_MEM, 0}, {L_SERVER, S_MEM, 1}, {L_SERVER, S_FILES, 0}, {L_SERVER, S_FILES, 1}, {L_SERVER, S_NET, 1},
                                                     {L_BOTH, S_MEM, 0}, {L_BOTH, S_MEM, 1}, {L_BOTH, S_FILES, 0}, {L_BOTH, S_FILES, 1}, {L_BOTH, S_NET, 1}};
    for (auto const &cf : CF) for (int kl : KL) for (int vi = -2; vi < 4; vi++) {     // vi: -2 empty value + plain key, -1 empty value, 0..3 = 2 MiB - 2 + vi ... see BIG_LEN; 0 is skipped
        if (vi == 0) continue;
        Case c; c.cfg.loc = cf.loc; c.cfg.stor = cf.stor; c.cfg.spy = cf.spy; c.cfg.expire = RENEW; c.cfg.limit = 64; c.cfg.timeout = 100; c.cfg.enc = 0; c.cfg.method = 0; c.cfg.nb = 1; c.strict = 1;
        auto req = [](std::vector<SubOp> ops) { Cmd m; m.kind = C_REQ; m.ops = ops; return m; };
        SubOp a; a.kind = O_SET; a.key = 0; a.val = "alice";
        SubOp e; e.key = key_code(kl, vi == -2 ? 0 : 3);
        if (vi < 0) { e.kind = O_SET; e.val = ""; } else { e.kind = O_SET_BIG; e.num = vi + 6; }      // + 6: adversarial content
        SubOp b; b.kind = O_SET; b.key = 1; b.val = "1";
        Cmd adv; adv.kind = C_ADV; adv.a1 = 0; adv.a2 = 1;
        c.cmds = {req({a}), req({e}), req({}), adv, req({b}), req({})};
        if (!vr::run_direct(std::string("sessions"), c, run_case)) failed++;
        VR.cls("grid:cases");
    }
    VR.finish();
    return failed ? 1 : 0;
}

int main(int argc, char **argv) {
    for (int i = 1; i < argc; i++) if (!strcmp(argv[i], "--grid")) { vr::install_crash_hooks(); int rc = run_grid(); fflush(stdout); _exit(rc); }
    if (!vr::replay_arg(argc, argv)) std::thread(watchdog, vr::envl("C06_WATCHDOG", 300)).detach();
    std::vector<std::unique_ptr<vr::PropBase>> props;
    props.push_back(vr::prop<Case>("sessions", genCase(), run_case));
    for (int i = 1; i + 1 < argc; i++) if (!strcmp(argv[i], "--regress")) {       // hand-kept cases (replays/C06/*.case): failures keep their own signature
        vr::install_crash_hooks();
        vr::CaseReader r(vr::read_file(argv[i + 1])); r.w();
        Case c = Case::decode(r);
        bool good = vr::run_direct(std::string("sessions"), c, run_case);
        VR.finish();
        return good ? 0 : 1;
    }
    int rc = vr::rc_main(argc, argv, props);
    fflush(stdout);
    _exit(rc);       // the in-process session server's threads are not joined
}
