// C01 — every front-end (embedded HTTP, SCGI, FastCGI) delivers the request the peer encoded, however the byte stream is
// segmented, for sync and async applications and for every request of a kept-alive connection.
// Oracle: the echo reply decoded by the harness equals the abstract request the generator encoded — field by field, for
// each front-end (hence the three agree), under a generated read schedule (caps on successive library reads via --wrap=readv).
#define VIO_DEFINE_WRAPPERS
#include "vrc.h"
#include "vservice.h"
#include <set>

using vr::Outcome; using vr::ok; using vr::bad;

typedef std::vector<std::pair<std::string, std::string>> Pairs;

struct Expect {
    std::string method, script, path, query, ctype, body;
    Pairs http_env;      // CGI variable name (HTTP_*) -> value
    Pairs cookies, get, post;
    void encode(vr::CaseWriter &w) const {
        w.s(method).s(script).s(path).s(query).s(ctype).s(body);
        for (Pairs const *p : {&http_env, &cookies, &get, &post}) { w.i((long)p->size()); for (auto &kv : *p) w.s(kv.first).s(kv.second); }
    }
    static Expect decode(vr::CaseReader &r) {
        Expect e; e.method = r.s(); e.script = r.s(); e.path = r.s(); e.query = r.s(); e.ctype = r.s(); e.body = r.s();
        for (Pairs *p : {&e.http_env, &e.cookies, &e.get, &e.post}) { long n = r.i(); for (long i = 0; i < n; i++) { std::string a = r.s(), b = r.s(); p->push_back({a, b}); } }
        return e;
    }
};
struct OneReq {
    Expect ex;
    std::string http, scgi, fcgi;   // the three encodings of the same abstract request
    int fcgi_id = 1;
    bool keep = false;               // client asked for keep-alive (http) / keep-conn (fastcgi)
};
struct Case {
    int mount = 0;                   // 0 sync ("/sync"), 1 async ("/async"), 2 default mount (empty script name, sync)
    bool pipelined = false;
    std::vector<OneReq> reqs;
    std::vector<int> caps_h, caps_s, caps_f;
    int only_fe = 0;                 // 0 all, else 'h','s','f' (used by the split enumeration)
    void encode(vr::CaseWriter &w) const {
        w.i(mount).i(pipelined).i(only_fe).i((long)reqs.size()).nl();
        for (auto &q : reqs) { q.ex.encode(w); w.nl(); w.s(q.http).nl(); w.s(q.scgi).nl(); w.s(q.fcgi).nl(); w.i(q.fcgi_id).i(q.keep).nl(); }
        for (auto *c : {&caps_h, &caps_s, &caps_f}) { w.i((long)c->size()); for (int v : *c) w.i(v); w.nl(); }
    }
    static Case decode(vr::CaseReader &r) {
        Case c; c.mount = (int)r.i(); c.pipelined = r.i(); c.only_fe = (int)r.i(); long n = r.i();
        for (long i = 0; i < n; i++) { OneReq q; q.ex = Expect::decode(r); q.http = r.s(); q.scgi = r.s(); q.fcgi = r.s(); q.fcgi_id = (int)r.i(); q.keep = r.i(); c.reqs.push_back(q); }
        for (auto *v : {&c.caps_h, &c.caps_s, &c.caps_f}) { long k = r.i(); for (long i = 0; i < k; i++) v->push_back((int)r.i()); }
        return c;
    }
};

static vs::Fixture *g_fx;
static const char *SCRIPTS[3] = {"/sync", "/async", ""};

// ---------------------------------------------------------------------------------------------------------------
// comparison of an echo with the expectation
static std::string show_pairs(Pairs const &p) { std::string s; for (auto &kv : p) s += vr::show(kv.first, 40) + "=" + vr::show(kv.second, 40) + ";"; return s; }
static Pairs sorted(Pairs p) { std::stable_sort(p.begin(), p.end()); return p; }

static Outcome compare(const char *fe, vs::Echo const &e, Expect const &x, int idx) {
    std::string where = std::string(fe) + " request#" + std::to_string(idx) + ": ";
    std::string sig = std::string(fe) + ":";
    V_CHECK(e.ok, sig + "echo-unparsable", where + e.why);
    V_CHECK(e.method == x.method, sig + "method", where + "method " + vr::show(e.method) + " expected " + vr::show(x.method));
    V_CHECK(e.script == x.script, sig + "script_name", where + "script " + vr::show(e.script) + " expected " + vr::show(x.script));
    V_CHECK(e.path == x.path, sig + "path_info", where + "path_info " + vr::show(e.path) + " expected " + vr::show(x.path));
    V_CHECK(e.query == x.query, sig + "query_string", where + "query " + vr::show(e.query) + " expected " + vr::show(x.query));
    V_CHECK(e.ctype == x.ctype, sig + "content_type", where + "content type " + vr::show(e.ctype) + " expected " + vr::show(x.ctype));
    V_CHECK(e.clen == std::to_string(x.body.size()), sig + "content_length", where + "content length " + e.clen + " expected " + std::to_string(x.body.size()));
    Pairs got_http;
    for (auto &kv : e.env) if (kv.first.compare(0, 5, "HTTP_") == 0) got_http.push_back(kv);
    V_CHECK(sorted(got_http) == sorted(x.http_env), sig + "headers", where + "HTTP_* variables {" + show_pairs(sorted(got_http)) + "} expected {" + show_pairs(sorted(x.http_env)) + "}");
    V_CHECK(sorted(e.cookies) == sorted(x.cookies), sig + "cookies", where + "cookies {" + show_pairs(e.cookies) + "} expected {" + show_pairs(x.cookies) + "}");
    V_CHECK(sorted(e.get) == sorted(x.get), sig + "get", where + "GET fields {" + show_pairs(e.get) + "} expected {" + show_pairs(x.get) + "}");
    V_CHECK(sorted(e.post) == sorted(x.post), sig + "post", where + "POST fields {" + show_pairs(e.post) + "} expected {" + show_pairs(x.post) + "}");
    V_CHECK(e.raw == x.body, sig + "raw_body", where + "raw body " + vr::show(e.raw, 80) + " (" + std::to_string(e.raw.size()) + "B) expected " + vr::show(x.body, 80) + " (" + std::to_string(x.body.size()) + "B)");
    V_CHECK(e.files.empty(), sig + "files", where + "unexpected uploaded files");
    return ok();
}

static std::shared_ptr<vio::Sched> mk_sched(std::vector<int> const &caps) { auto s = std::make_shared<vio::Sched>(); s->reads = caps; return s; }

// split offsets implied by the read returns (prefix sums) -> classification of non-trivial segmentation
struct SplitInfo { bool nontrivial = false; };

static Outcome run_http(Case const &c, SplitInfo &si) {
    // The server may decline keep-alive (e.g. HTTP/1.0 with a reply too long to know its length up front): then the client
    // continues on a fresh connection, as any HTTP client does.  A connection that *is* kept alive must deliver faithfully.
    size_t i = 0, n = c.reqs.size();
    std::string all; for (auto &q : c.reqs) all += q.http;
    std::shared_ptr<vio::Sched> first_sched;
    while (i < n) {
        vc::Conn conn; auto sched = mk_sched(i == 0 ? c.caps_h : std::vector<int>());
        if (i == 0) first_sched = sched;
        V_CHECK(g_fx->connect(conn, 'h', sched), "harness:connect", "cannot connect http");
        size_t start = i;
        if (c.pipelined) { std::string rest; for (size_t j = i; j < n; j++) rest += c.reqs[j].http; V_CHECK(conn.send_all(rest), "http:send-failed", "send failed (pipelined)"); }
        for (; i < n;) {
            OneReq const &q = c.reqs[i];
            if (!c.pipelined) V_CHECK(conn.send_all(q.http), "http:send-failed", "send failed for request#" + std::to_string(i));
            vc::HttpReply r = vc::read_http_reply(conn);
            V_CHECK(r.complete, "http:no-reply", "request#" + std::to_string(i) + (i > start ? " (kept-alive connection)" : "") + ": " + r.why + " got=" + vr::show(conn.buf, 120));
            V_CHECK(r.status == 200, "http:status", "request#" + std::to_string(i) + " status " + std::to_string(r.status));
            Outcome o = compare("http", vs::echo_parse(r.body), q.ex, (int)i);
            if (!o.ok()) return o;
            if (i > start) { VR.cls("http.served_on_kept_alive_connection"); si.nontrivial = true; }
            i++;
            if (!r.keep_alive) { if (i < n) VR.cls("http.keep_alive_declined_by_server"); break; }
        }
    }
    // classification: where did the reads split the stream?
    size_t pos = 0, hdr_end = c.reqs[0].http.find("\r\n\r\n");
    size_t first_len = c.reqs[0].http.size();
    for (int rn : first_sched->read_returns) {
        pos += (size_t)rn;
        if (pos < all.size() && (pos <= hdr_end + 8)) si.nontrivial = true;
        if (pos > first_len) break;
    }
    return ok();
}
static Outcome run_scgi(Case const &c, SplitInfo &si) {
    size_t i = 0;
    for (auto &q : c.reqs) {
        vc::Conn conn; auto sched = mk_sched(c.caps_s);
        V_CHECK(g_fx->connect(conn, 's', sched), "harness:connect", "cannot connect scgi");
        V_CHECK(conn.send_all(q.scgi), "scgi:send-failed", "send failed");
        V_CHECK(conn.drain(), "scgi:no-close", "timeout waiting for the reply / close");
        vc::CgiReply r = vc::parse_cgi_reply(conn.buf);
        V_CHECK(r.complete, "scgi:no-reply", "request#" + std::to_string(i) + ": " + r.why + " got=" + vr::show(conn.buf, 120));
        V_CHECK(r.status == 200, "scgi:status", "status " + std::to_string(r.status));
        Outcome o = compare("scgi", vs::echo_parse(r.body), q.ex, (int)i);
        if (!o.ok()) return o;
        size_t pos = 0, blk_end = q.scgi.size() - q.ex.body.size();
        for (int n : sched->read_returns) { pos += (size_t)n; if (pos < q.scgi.size() && pos <= blk_end + 4 && !(pos == 16)) si.nontrivial = true; }
        i++;
    }
    return ok();
}
static Outcome run_fcgi(Case const &c, SplitInfo &si) {
    vc::Conn conn; auto sched = mk_sched(c.caps_f);
    V_CHECK(g_fx->connect(conn, 'f', sched), "harness:connect", "cannot connect fastcgi");
    size_t i = 0;
    std::string all; for (auto &q : c.reqs) all += q.fcgi;
    if (c.pipelined) V_CHECK(conn.send_all(all), "fcgi:send-failed", "send failed (pipelined)");
    for (auto &q : c.reqs) {
        if (!c.pipelined) V_CHECK(conn.send_all(q.fcgi), "fcgi:send-failed", "send failed");
        vc::FcgiReply r = vc::read_fcgi_reply(conn, q.fcgi_id);
        V_CHECK(r.complete, "fcgi:no-reply", "request#" + std::to_string(i) + ": " + r.why);
        V_CHECK(r.protocol_status == 0, "fcgi:protocol-status", "END_REQUEST protocol status " + std::to_string(r.protocol_status));
        vc::CgiReply cr = vc::parse_cgi_reply(r.out);
        V_CHECK(cr.complete, "fcgi:bad-stdout", cr.why);
        V_CHECK(cr.status == 200, "fcgi:status", "status " + std::to_string(cr.status));
        Outcome o = compare("fcgi", vs::echo_parse(cr.body), q.ex, (int)i);
        if (!o.ok()) return o;
        i++;
    }
    size_t pos = 0;
    for (int n : sched->read_returns) { pos += (size_t)n; if (pos < all.size()) { si.nontrivial = true; break; } }
    if (c.reqs.size() > 1) si.nontrivial = true;
    return ok();
}

// Known finding (known_findings.json: C01 http:path_info:plus-in-path-decoded-as-blank): the embedded HTTP server decodes the URI
// *path* with the form decoder, so a raw '+' arrives as a blank while SCGI/FastCGI deliver '+'.  The repository's own
// file_server_test.py expects that behaviour, so it is recorded, not repaired.  Excluded by construction so that the search
// continues behind it: a raw '+' in the path part of an HTTP request line is sent as %2B (counted); p_plus below is the one place
// that still sends it raw and reports the finding under its own signature.
static Case without_raw_plus_in_http_path(Case c, long &n) {
    for (auto &q : c.reqs) {
        size_t eol = q.http.find("\r\n"), sp = q.http.find(' ');
        if (sp == std::string::npos || eol == std::string::npos || sp > eol) continue;
        size_t end = q.http.find_first_of(" ?", sp + 1);
        for (size_t p = sp + 1; p < end && p < q.http.size(); p++) if (q.http[p] == '+') { q.http.replace(p, 1, "%2B"); end += 2; p += 2; n++; }
    }
    return c;
}
static Outcome p_frontends(Case const &c0) {
    long nplus = 0;
    Case const c = without_raw_plus_in_http_path(c0, nplus);
    if (nplus) VR.excl("http.raw_plus_in_path_sent_as_%2B(known finding)", nplus);
    VR.eval();
    V_CHECK(g_fx->alive(), "service-died", "service::run() returned: " + g_fx->loop_exception);
    SplitInfo si;
    Outcome o;
    if (!c.only_fe || c.only_fe == 'h') { o = run_http(c, si); if (!o.ok()) return o; VR.cls("fe.http"); }
    if (!c.only_fe || c.only_fe == 's') { o = run_scgi(c, si); if (!o.ok()) return o; VR.cls("fe.scgi"); }
    if (!c.only_fe || c.only_fe == 'f') { o = run_fcgi(c, si); if (!o.ok()) return o; VR.cls("fe.fcgi"); }
    V_CHECK(g_fx->alive(), "service-died", "service::run() returned: " + g_fx->loop_exception);
    VR.cls(c.mount == 0 ? "mount.sync" : c.mount == 1 ? "mount.async" : "mount.default");
    if (c.reqs.size() > 1) VR.cls("multi_request_case");
    if (c.pipelined) VR.cls("pipelined");
    if (!c.reqs[0].ex.body.empty()) VR.cls("with_body");
    if (si.nontrivial) {
        vr::CaseWriter w; c.encode(w); VR.nontrivial(vr::fnv(w.str())); VR.cls("nontrivial.split_in_headers_or_keepalive");
    }
    if (VR.want_sample()) VR.sample("mount=" + std::string(SCRIPTS[c.mount]) + " n=" + std::to_string(c.reqs.size()) + " http[0]=" + vr::show(c.reqs[0].http, 200) +
                                     " caps_h=" + std::to_string(c.caps_h.size()) + (c.caps_h.empty() ? "" : "[" + std::to_string(c.caps_h[0]) + ",..]"));
    return ok();
}

// ---------------------------------------------------------------------------------------------------------------
// generators
static bool unreserved(unsigned char c) { return isalnum(c) || c == '-' || c == '_' || c == '.' || c == '~'; }
static const char *HEXU = "0123456789ABCDEF", *HEXL = "0123456789abcdef";

// percent-encode; `form`: blank may become '+'.  Choices drawn from rapidcheck.  `keep` = extra characters that may stay raw.
static std::string pct_encode(std::string const &s, bool form, const char *keep) {
    std::string o;
    // long strings: one draw seeds the per-character choices (tens of thousands of individual draws make shrinking crawl)
    bool cheap = s.size() > 48; unsigned lcg = cheap ? (unsigned)*vr::range<int>(1, 1 << 30) : 0;
    for (unsigned char c : s) {
        bool raw_ok = unreserved(c) || (c && strchr(keep, c));
        if (c == '/' && strchr(keep, '/')) { o += '/'; continue; }   // path separators are never escaped (%2F is not '/')
        int choice;
        if (cheap) { lcg = lcg * 1103515245u + 12345u; choice = (int)((lcg >> 16) % 10); } else choice = *vr::range<int>(0, 10);
        if (form && c == ' ' && choice < 5) { o += '+'; continue; }
        if (raw_ok && choice < 8) { o += char(c); continue; }
        const char *H = choice & 1 ? HEXU : HEXL;
        o += '%'; o += H[c >> 4]; o += H[c & 15];
    }
    return o;
}
static std::string gen_token(int maxlen, const char *alphabet) {
    int n = *vr::range<int>(1, maxlen + 1); std::string s;
    size_t al = strlen(alphabet);
    for (int i = 0; i < n; i++) s += alphabet[*vr::range<int>(0, (int)al)];
    return s;
}
static std::string gen_bytes_no_nul(int maxlen, bool printable_bias) {
    int n = *vr::range<int>(0, maxlen + 1); std::string s;
    for (int i = 0; i < n; i++) {
        int k = *vr::range<int>(0, 10);
        unsigned char c;
        if (printable_bias && k < 7) c = (unsigned char)*vr::range<int>(32, 127);
        else c = (unsigned char)*vr::range<int>(1, 256);
        s += char(c);
    }
    return s;
}
static const char TOK[] = "abcdefghijklmnopqrstuvwxyzABCDEFGHIJKLMNOPQRSTUVWXYZ0123456789-";
static const char TOKX[] = "abcdefghijklmnopqrstuvwxyzABCDEFGHIJKLMNOPQRSTUVWXYZ0123456789-!#$%&'*.^_`|~";

static std::string cgi_name(std::string const &h) { std::string r = "HTTP_"; for (char c : h) r += c == '-' ? '_' : (char)toupper((unsigned char)c); return r; }

// header value atoms; returns the unfolded value and appends the wire form (possibly folded) to `wire`
static bool g_small_values = false;     // many-header requests: keep the block well below the 16 KiB cap
static std::string gen_header_value(std::string &wire) {
    std::string val; wire.clear();
    int atoms = g_small_values ? *vr::range<int>(0, 2) : *vr::range<int>(0, 5);
    for (int a = 0; a < atoms; a++) {
        int kind = *vr::range<int>(0, 10);
        std::string v, w;
        if (kind < 6) {          // plain text without quotes/parens/CR/LF, no leading/trailing blank handled below
            int n = *vr::range<int>(1, 20);
            for (int i = 0; i < n; i++) {
                int k = *vr::range<int>(0, 20);
                unsigned char ch = k == 0 ? (unsigned char)*vr::range<int>(128, 256) : k == 1 ? ' ' : k == 2 ? '\t' : k == 3 ? ')' : (unsigned char)*vr::range<int>(33, 127);
                if (ch == '"' || ch == '(') ch = 'q';
                v += char(ch);
            }
            w = v;
        } else if (kind < 8) {   // quoted-string with escapes
            v = "\""; int n = *vr::range<int>(0, 12);
            for (int i = 0; i < n; i++) {
                int k = *vr::range<int>(0, 8);
                if (k == 0) { v += '\\'; v += char(*vr::range<int>(32, 127)); }
                else { unsigned char ch = (unsigned char)*vr::range<int>(32, 127); if (ch == '"' || ch == '\\') ch = '('; v += char(ch); }
            }
            v += '"'; w = v;
        } else {                 // comment
            v = "("; int n = *vr::range<int>(0, 12);
            for (int i = 0; i < n; i++) {
                int k = *vr::range<int>(0, 8);
                if (k == 0) { v += '\\'; v += char(*vr::range<int>(32, 127)); }
                else { unsigned char ch = (unsigned char)*vr::range<int>(32, 127); if (ch == '(' || ch == ')' || ch == '\\') ch = '"'; v += char(ch); }
            }
            v += ')'; w = v;
        }
        if (a > 0) {
            // separator between atoms: a blank, optionally as folding (CRLF in front of the blank)
            char sp = *vr::range<int>(0, 2) ? ' ' : '\t';
            bool fold = *vr::range<int>(0, 3) == 0;
            val += sp; if (fold) wire += "\r\n"; wire += sp;
        }
        val += v; wire += w;
    }
    // no leading / trailing blanks (a web server trims them before building CGI variables; cppcms keeps trailing ones)
    while (!val.empty() && (val.back() == ' ' || val.back() == '\t')) { val.pop_back(); }
    while (!wire.empty() && (wire.back() == ' ' || wire.back() == '\t' || wire.back() == '\n' || wire.back() == '\r')) wire.pop_back();
    size_t lead = 0; while (lead < val.size() && (val[lead] == ' ' || val[lead] == '\t')) lead++;
    val.erase(0, lead);
    size_t wl = 0; while (wl < wire.size() && (wire[wl] == ' ' || wire[wl] == '\t' || wire[wl] == '\r' || wire[wl] == '\n')) wl++;
    wire.erase(0, wl);
    return val;
}

static std::vector<int> gen_caps(size_t stream_len, size_t focus) {
    std::vector<int> caps;
    int mode = *vr::range<int>(0, 10);
    if (mode == 0) return caps;                                   // unrestricted
    if (mode == 1) { caps.assign(std::min<size_t>(stream_len + 8, 6000), 1); return caps; }   // byte by byte
    if (mode <= 3 && focus > 0) {                                 // one or two splits around the focus (header/body hand-over)
        int a = std::max<int>(1, (int)focus + *vr::range<int>(-6, 7));
        caps.push_back(a);
        if (mode == 3) caps.push_back(*vr::range<int>(1, 9));
        return caps;
    }
    int n = *vr::range<int>(1, 60);
    for (int i = 0; i < n; i++) {
        int k = *vr::range<int>(0, 10);
        caps.push_back(k < 4 ? 1 : k < 6 ? *vr::range<int>(2, 9) : k < 8 ? *vr::range<int>(9, 200) : *vr::range<int>(200, 17000));
    }
    return caps;
}

static OneReq gen_request(int mount, bool keep, int index, bool force_http11) {
    OneReq q; Expect &x = q.ex;
    q.keep = keep;
    static const char *methods[] = {"GET", "POST", "PUT", "DELETE", "HEAD-X", "OPTIONS", "PATCH"};
    x.method = *vr::range<int>(0, 8) == 0 ? gen_token(10, TOKX) : methods[*vr::range<int>(0, 7)];
    x.script = SCRIPTS[mount];
    // path info: decoded bytes, no NUL
    {
        int segs = *vr::range<int>(0, 4);
        for (int i = 0; i < segs; i++) {
            x.path += '/';
            std::string seg = gen_bytes_no_nul(8, true);
            for (auto &ch : seg) { if (ch == '/') ch = '_'; else if (ch == 'p') ch = '+'; else if (ch == 'o') ch = '('; else if (ch == 'c') ch = ')'; }
            x.path += seg;
        }
        if (x.script.empty() && x.path.empty()) x.path = "/";
        // default mount: the path must not begin with one of the configured script names
        if (x.script.empty() && (x.path.compare(0, 5, "/sync") == 0 || x.path.compare(0, 6, "/async") == 0)) x.path[1] = 'x';
    }
    if (x.path.find('+') != std::string::npos) VR.cls("path.has_plus");
    if (x.path.find('(') != std::string::npos) VR.cls("path.has_open_paren");
    // query
    std::string wire_query; bool has_query = *vr::range<int>(0, 3) != 0;
    if (has_query) {
        if (*vr::range<int>(0, 4) != 0) {
            int n = *vr::range<int>(1, 5);
            for (int i = 0; i < n; i++) {
                std::string k = gen_bytes_no_nul(6, true), v = gen_bytes_no_nul(10, true);
                if (k.empty()) k = "k";
                x.get.push_back({k, v});
                if (i) wire_query += '&';
                wire_query += pct_encode(k, true, "!$'()*,;:@/?") + "=" + pct_encode(v, true, "!$'()*,;:@/?");
            }
        } else wire_query = gen_token(12, "abcdefXYZ019-._~%25");   // opaque, no '=' / '&': no form fields
        x.query = wire_query;
    }
    wire_query += (has_query && !wire_query.empty() ? "&" : "");
    // tag so that the ledger can tell requests apart; also exercises a plain field
    {
        std::string tag = "tag" + std::to_string(index);
        if (has_query && x.get.empty() && !x.query.empty()) { /* opaque query: leave as is */ wire_query = x.query; }
        else { wire_query += "t=" + tag; x.get.push_back({"t", tag}); x.query = wire_query; has_query = true; }
    }
    // headers
    std::set<std::string> used;
    std::vector<std::pair<std::string, std::string>> wire_headers;    // (name as sent, wire value)
    // usually a handful of headers; occasionally so many that the per-connection environment table has to grow several times
    // (and shrink again when the connection is re-used)
    int nh = *vr::range<int>(0, 14) == 0 ? *vr::range<int>(45, 140) : *vr::range<int>(0, 6); bool have_long = false;
    if (nh > 40) { VR.cls("headers.many"); have_long = true; }
    g_small_values = nh > 40;
    for (int i = 0; i < nh; i++) {
        std::string name = gen_token(12, TOK);
        if (name[0] == '-') name[0] = 'X';
        std::string cg = cgi_name(name);
        if (cg == "HTTP_CONTENT_LENGTH" || cg == "HTTP_CONTENT_TYPE" || cg == "HTTP_CONNECTION" || cg == "HTTP_COOKIE" || cg == "HTTP_ACCEPT_ENCODING" ||
            cg == "HTTP_HOST" || cg == "HTTP_TRANSFER_ENCODING" || cg == "HTTP_EXPECT" || used.count(cg)) continue;
        used.insert(cg);
        std::string wire, val = gen_header_value(wire);
        if (!have_long && *vr::range<int>(0, 6) == 0) {       // occasionally one long value, so that header blocks of several KiB (below the 16 KiB cap) occur
            have_long = true;
            int n = *vr::range<int>(300, 5000); std::string longv; for (int j = 0; j < n; j++) longv += char('a' + (j * 7 + n) % 26);
            val = val.empty() ? longv : val + " " + longv; wire = wire.empty() ? longv : wire + " " + longv;
        }
        x.http_env.push_back({cg, val});
        wire_headers.push_back({name, wire});
    }
    if (*vr::range<int>(0, 2)) { x.http_env.push_back({"HTTP_HOST", "example.org"}); wire_headers.push_back({"Host", "example.org"}); }
    // cookies
    int nc = *vr::range<int>(0, 4);
    if (nc) {
        std::string hdr; std::set<std::string> names;
        for (int i = 0; i < nc; i++) {
            std::string n = gen_token(8, TOK), v, wv;
            if (names.count(n)) continue;
            names.insert(n);
            if (*vr::range<int>(0, 3) == 0) {
                v = gen_token(8, " abc;=,\"\\xyz"); wv = "\"";
                for (char ch : v) { if (ch == '"' || ch == '\\') wv += '\\'; wv += ch; }
                wv += '"';
            } else { v = gen_token(10, TOK); wv = v; }
            if (!hdr.empty()) hdr += *vr::range<int>(0, 2) ? "; " : ";";
            hdr += n + "=" + wv;
            x.cookies.push_back({n, v});
        }
        x.http_env.push_back({"HTTP_COOKIE", hdr});
        wire_headers.push_back({"Cookie", hdr});
    }
    // body
    int bk = *vr::range<int>(0, 10);
    bool send_cl_for_empty = false;
    if (bk >= 4) {
        if (bk < 7) {
            x.ctype = "application/x-www-form-urlencoded";
            int n = *vr::range<int>(1, 6);
            for (int i = 0; i < n; i++) {
                std::string k = gen_bytes_no_nul(6, true), v;
                if (k.empty()) k = "f";
                int vk = *vr::range<int>(0, 10);
                if (vk < 8) v = gen_bytes_no_nul(12, true);
                else { int len = *vr::range<int>(100, vk == 8 ? 3000 : 40000); v.resize(len); for (int j = 0; j < len; j++) v[j] = char(1 + ((j * 131 + len) % 255)); }
                x.post.push_back({k, v});
                if (i) x.body += '&';
                x.body += pct_encode(k, true, "") + "=" + pct_encode(v, true, "");
            }
        } else {
            x.ctype = *vr::range<int>(0, 2) ? "application/octet-stream" : "text/plain; charset=utf-8";
            int lk = *vr::range<int>(0, 10);
            int len = lk < 6 ? *vr::range<int>(1, 64) : lk < 8 ? *vr::range<int>(64, 2000) : lk == 8 ? *vr::range<int>(16000, 17000) : *vr::range<int>(17000, 66000);
            x.body.resize(len);
            int salt = *vr::range<int>(0, 256);
            for (int j = 0; j < len; j++) x.body[j] = char((j * 7 + salt + (j >> 8)) & 255);
        }
    } else if (bk == 3) { send_cl_for_empty = true; if (*vr::range<int>(0, 2)) x.ctype = "text/plain"; }

    // ---- HTTP encoding
    {
        bool http11 = force_http11 || *vr::range<int>(0, 2);
        std::string uri = x.script + pct_encode(x.path, false, "/:@!$&'()*+,;=") ;
        if (uri.empty()) uri = "/";
        if (has_query) uri += "?" + wire_query;
        std::string h = x.method + " " + uri + (http11 ? " HTTP/1.1" : " HTTP/1.0") + "\r\n";
        std::vector<std::pair<std::string, std::string>> lines = wire_headers;
        if (!x.ctype.empty()) lines.push_back({"Content-Type", x.ctype});
        if (!x.body.empty() || send_cl_for_empty) lines.push_back({"Content-Length", std::to_string(x.body.size())});
        if (keep) { lines.push_back({"Connection", "keep-alive"}); x.http_env.push_back({"HTTP_CONNECTION", "keep-alive"}); }
        else if (*vr::range<int>(0, 3) == 0) { lines.push_back({"Connection", "close"}); x.http_env.push_back({"HTTP_CONNECTION", "close"}); }
        // shuffle the order of header lines
        for (size_t i = lines.size(); i > 1; i--) std::swap(lines[i - 1], lines[*vr::range<int>(0, (int)i)]);
        for (auto &l : lines) {
            std::string name = l.first;
            int cs = *vr::range<int>(0, 4);
            for (auto &ch : name) ch = cs == 0 ? (char)tolower((unsigned char)ch) : cs == 1 ? (char)toupper((unsigned char)ch) : ch;
            h += name; h += ':';
            int blanks = *vr::range<int>(0, 4); if (blanks == 3) h += " \t "; else h.append((size_t)blanks, ' ');
            h += l.second; h += "\r\n";
        }
        h += "\r\n";
        q.http = h + x.body;
    }
    // ---- CGI environment for SCGI / FastCGI (as a web server builds it)
    Pairs env;
    env.push_back({"CONTENT_LENGTH", std::to_string(x.body.size())});
    env.push_back({"SCGI", "1"});
    env.push_back({"REQUEST_METHOD", x.method});
    env.push_back({"SCRIPT_NAME", x.script});
    env.push_back({"PATH_INFO", x.path});
    env.push_back({"QUERY_STRING", x.query});
    if (!x.ctype.empty()) env.push_back({"CONTENT_TYPE", x.ctype});
    env.push_back({"SERVER_PROTOCOL", "HTTP/1.1"});
    env.push_back({"REMOTE_ADDR", "127.0.0.1"});
    {
        Pairs he = x.http_env;
        for (size_t i = he.size(); i > 1; i--) std::swap(he[i - 1], he[*vr::range<int>(0, (int)i)]);
        for (auto &kv : he) env.push_back(kv);
    }
    q.scgi = vc::scgi_encode(env, x.body);
    // ---- FastCGI: BEGIN, PARAMS cut arbitrarily (also inside length prefixes), 1/4-byte lengths, padding, STDIN cut arbitrarily
    {
        q.fcgi_id = *vr::range<int>(0, 4) == 0 ? *vr::range<int>(1, 65536) : *vr::range<int>(1, 4);
        Pairs fenv = env;
        fenv.erase(fenv.begin() + 1);                 // no SCGI=1
        if (x.body.empty() && *vr::range<int>(0, 2)) fenv.erase(fenv.begin());   // CONTENT_LENGTH optional without body
        std::vector<int> force4; for (size_t i = 0; i < fenv.size(); i++) force4.push_back(*vr::range<int>(0, 8) == 0 ? *vr::range<int>(1, 4) : 0);
        std::string params = vc::fcgi_pairs(fenv, &force4);
        auto cuts = [](size_t total) { std::vector<int> c; int mode = *vr::range<int>(0, 4);
            if (mode == 0) return c; int n = *vr::range<int>(1, 12);
            for (int i = 0; i < n; i++) c.push_back(mode == 1 ? *vr::range<int>(1, 5) : *vr::range<int>(1, (int)std::max<size_t>(2, total)));
            return c; };
        auto pads = []() { std::vector<int> p; int n = *vr::range<int>(0, 8); for (int i = 0; i < n; i++) p.push_back(*vr::range<int>(0, 3) == 0 ? *vr::range<int>(0, 256) : *vr::range<int>(0, 8)); return p; };
        std::string f;
        if (*vr::range<int>(0, 6) == 0) { Pairs gv; gv.push_back({"FCGI_MAX_CONNS", ""}); gv.push_back({"FCGI_MPXS_CONNS", ""}); f += vc::fcgi_record(vc::FCGI_GET_VALUES, 0, vc::fcgi_pairs(gv)); VR.cls("fcgi.get_values_first"); }
        f += vc::fcgi_begin(q.fcgi_id, 1, keep ? 1 : 0, *vr::range<int>(0, 3) == 0 ? *vr::range<int>(0, 20) : 0);
        f += vc::fcgi_stream(vc::FCGI_PARAMS, q.fcgi_id, params, cuts(params.size()), pads());
        f += vc::fcgi_stream(vc::FCGI_STDIN, q.fcgi_id, x.body, cuts(x.body.size()), pads());
        q.fcgi = f;
    }
    return q;
}

static rc::Gen<Case> gen_case() {
    return rc::gen::exec([]() {
        Case c;
        c.mount = *vr::range<int>(0, 3);
        int k = *rc::gen::weightedElement<int>({{6, 1}, {2, 2}, {1, 3}, {1, 4}});
        c.pipelined = k > 1 && *vr::range<int>(0, 2);
        for (int i = 0; i < k; i++) c.reqs.push_back(gen_request(c.mount, i + 1 < k, i, c.pipelined && i + 1 < k));
        size_t hl = c.reqs[0].http.find("\r\n\r\n") + 4, total_h = 0, total_s = c.reqs[0].scgi.size(), total_f = 0;
        for (auto &q : c.reqs) { total_h += q.http.size(); total_f += q.fcgi.size(); }
        c.caps_h = gen_caps(total_h, hl);
        c.caps_s = gen_caps(total_s, c.reqs[0].scgi.size() - c.reqs[0].ex.body.size());
        c.caps_f = gen_caps(total_f, 16);
        return c;
    });
}

// The known finding itself: GET <script>/<a>+<b> with the '+' raw.
struct PlusCase { int mount = 0; std::string a = "a", b = "b";
    void encode(vr::CaseWriter &w) const { w.i(mount).s(a).s(b); }
    static PlusCase decode(vr::CaseReader &r) { PlusCase c; c.mount = (int)(((r.i() % 3) + 3) % 3); c.a = r.s(); c.b = r.s(); return c; } };
static Outcome p_plus(PlusCase const &pc) {
    VR.eval();
    Case c; c.mount = pc.mount; c.only_fe = 'h';
    OneReq q; q.ex.method = "GET"; q.ex.script = SCRIPTS[pc.mount]; q.ex.path = "/" + pc.a + "+" + pc.b;
    q.http = "GET " + q.ex.script + q.ex.path + " HTTP/1.0\r\n\r\n";
    c.reqs.push_back(q);
    SplitInfo si; Outcome o = run_http(c, si);
    VR.cls("plus.raw_plus_in_http_path");
    if (!o.ok() && o.sig == "http:path_info") return bad("http:path_info:plus-in-path-decoded-as-blank", o.msg);
    if (o.ok()) VR.nontrivial(vr::fnv(q.http, 77));
    return o;
}

// Exhaustive split enumeration for one short request: every single split point, and every pair of split points whose
// first element lies in [lo,hi) (around the header/body hand-over), for one front-end.
static bool enumerate_splits(Case base, char fe, bool pairs) {
    base.only_fe = fe;
    std::string const &stream = fe == 'h' ? base.reqs[0].http : fe == 's' ? base.reqs[0].scgi : base.reqs[0].fcgi;
    size_t n = stream.size();
    std::vector<int> &caps = fe == 'h' ? base.caps_h : fe == 's' ? base.caps_s : base.caps_f;
    for (size_t a = 1; a < n; a++) {
        caps = {(int)a};
        if (!vr::run_direct("frontends", base, p_frontends)) return false;
        VR.cls("enum.single_split");
    }
    if (pairs) {
        size_t focus = fe == 'h' ? stream.find("\r\n\r\n") + 4 : fe == 's' ? n - base.reqs[0].ex.body.size() : 16;
        size_t lo = focus > 12 ? focus - 12 : 1, hi = std::min(n, focus + 6);
        for (size_t a = lo; a < hi; a++) for (size_t b = 1; a + b < n && b < 24; b++) {
            caps = {(int)a, (int)b};
            if (!vr::run_direct("frontends", base, p_frontends)) return false;
            VR.cls("enum.double_split");
        }
    }
    return true;
}

static void mount_apps(cppcms::service &srv) {
    srv.applications_pool().mount(cppcms::create_pool<vs::EchoApp>(), cppcms::mount_point("/sync"));
    srv.applications_pool().mount(cppcms::create_pool<vs::EchoApp>(), cppcms::mount_point("/async"), cppcms::app::asynchronous);
    srv.applications_pool().mount(cppcms::create_pool<vs::EchoApp>(), cppcms::mount_point(""));
}

int main(int argc, char **argv) {
    vs::Fixture fx; g_fx = &fx;
    if (!fx.start("{\"http\":{\"script_names\":[\"/sync\",\"/async\"]}}", mount_apps)) { fprintf(stderr, "cannot start the service fixture\n"); return 3; }
    std::vector<std::unique_ptr<vr::PropBase>> props;
    props.push_back(vr::prop<Case>("frontends", gen_case(), p_frontends));
    if (vr::replay_arg(argc, argv)) props.push_back(vr::prop<PlusCase>("plus", rc::gen::just(PlusCase()), p_plus));   // random units do not repeat it
    int rc = 0;
    if (!vr::replay_arg(argc, argv) && vr::envl("C01_ENUM", 0)) {
        // enumeration mode: a few short requests drawn deterministically from the generator
        vr::install_crash_hooks();
        long nreq = vr::envl("C01_ENUM", 1);
        bool good = true;
        rc::detail::Configuration dummy; (void)dummy;
        for (int m = 0; m < 3; m++) { PlusCase pc; pc.mount = m; pc.a = m ? "x" : "file"; pc.b = m == 1 ? "y" : m == 2 ? "q" : "with"; vr::run_direct("plus", pc, p_plus); }     // a failure is recorded in the report; the enumeration goes on
        for (long i = 0; i < nreq && good; i++) {
            Case c;
            bool got = false;
            for (int t = 0; t < 200 && !got; t++) {
                auto sh = gen_case()(rc::Random((uint64_t)(vr::seed() * 7919 + i * 131 + t)), 30);
                c = sh.value();
                got = c.reqs.size() == 1 && c.reqs[0].http.size() < (size_t)vr::envl("C01_ENUM_MAXLEN", 260) && c.reqs[0].fcgi.size() < 420;
            }
            if (!got) continue;
            c.reqs[0].keep = false;
            for (char fe : {'h', 's', 'f'}) good = good && enumerate_splits(c, fe, true);
        }
        VR.finish();
        rc = good && VR.failures.empty() ? 0 : 1;
    } else rc = vr::rc_main(argc, argv, props);
    fx.stop();
    if (!fx.loop_exception.empty()) { fprintf(stderr, "%s\n", fx.loop_exception.c_str()); return 1; }
    return rc;
}
