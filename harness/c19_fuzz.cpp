// C19 — libFuzzer part: arbitrary bytes loaded as each type of the universe (coverage guided), with the differential
// oracle of c19_universe.h inside the target.  Input layout: [type id][mode][payload]
//   mode odd  : payload is the archive; loaded as type id
//   mode even : payload drives the value constructor (same as the rapidcheck harness); the value is saved, the archive
//               round-trips and is then damaged at a position / with a length chosen by two more bytes
#include "vfuzz.h"
#include "c19_universe.h"
#include <cstdint>

using namespace c19;

// vf::begin registers its atexit flush before the Report singleton exists; construct the singleton first so that it outlives the flush
static long long c19_touch_report = (VR.flush(), VR.evaluations);   // also leaves a report behind if libFuzzer _Exit()s (timeout under load)

template <class T> static void fuzz_raw(std::string const &D, const char *name) {
    DmgStat st; bool nt = false;
    Res r = check_load<T>(D, name, "fuzz-bytes", st, &nt);
    if (!r.ok()) vf::fail(r.sig, r.msg);
    VR.nontrivial(vr::fnv(D, 900 + (uint64_t)name[0]));
    if (st.accept) VR.cls("fuzz.raw.accepted"); else if (st.excluded) VR.cls("fuzz.raw.excluded-known"); else VR.cls("fuzz.raw.rejected");
    if (nt) VR.cls("fuzz.raw.near-edge(+-4)");
    if (st.accept && VR.want_sample()) VR.sample(std::string("fuzz bytes accepted as ") + name + ": " + vr::hex(D.substr(0, 80)));
}
template <class T> static void fuzz_structured(const uint8_t *p, size_t n, const char *name) {
    if (n < 3) return;
    unsigned k1 = p[0], k2 = p[1], k3 = p[2];
    Src s(p + 3, n - 3);
    T v; U<T>::make(v, s, 0);
    std::string ref = canon(v);
    cppcms::archive a; a << v;
    std::string A = a.str();
    VF_CHECK(A.size() == ref.size(), "archive:save-size", name);
    { T l; cppcms::archive b; b.str(A); std::string what;
      VF_CHECK(cppcms_load(b, l, &what) == L_OK, "roundtrip:load-throws", std::string(name) + " " + what + " archive=" + vr::hex(A.substr(0, 400)));
      VF_CHECK(canon(l) == ref, "roundtrip:value-differs", std::string(name) + " archive=" + vr::hex(A.substr(0, 400))); }
    { T r; Rd rd(A); VF_CHECK(U<T>::dec(r, rd) && rd.pos == A.size() && canon(r) == ref, "archive:save-format", std::string(name) + " archive=" + vr::hex(A.substr(0, 400))); }
    VR.cls("fuzz.structured");
    if (A.empty()) return;
    std::vector<size_t> hs = chunk_headers(A);
    std::string D = A;
    switch (k1 % 3) {
    case 0: D.resize(k2 % 8 < 5 ? A.size() - 1 - (k2 / 8) % std::min<size_t>(A.size(), 12) : (k2 * 256u + k3) % A.size()); break;
    case 1: { size_t h = hs[(k2) % hs.size()]; uint32_t L; memcpy(&L, &A[h], 4); long long R = (long long)A.size() - (long long)h - 4;
              long long nl = (k3 & 1) ? R + (int)((k3 >> 1) % 11) - 5 : (long long)L + (int)((k3 >> 1) % 11) - 5;
              if (nl < 0) nl = 0xFFFFFFFFLL + nl + 1;
              uint32_t n32 = (uint32_t)nl; memcpy(&D[h], &n32, 4); break; }
    default: D[(k2 * 256u + k3) % A.size()] ^= char(1u << (k1 / 3 % 8)); break;
    }
    DmgStat st; bool nt = false;
    Res r = check_load<T>(D, name, "fuzz-damage", st, &nt);
    if (!r.ok()) vf::fail(r.sig, r.msg);
    if (nt) VR.nontrivial(vr::fnv(D, 901));
}

extern "C" int LLVMFuzzerTestOneInput(const uint8_t *data, size_t size) {
    vf::begin(data, size);
    VR.max_samples = 2;
    if (size < 2) return 0;
    int type = data[0] % NTYPES; bool raw = data[1] & 1;
    try {
        with_type(type, [&](auto tag, const char *name) {
            typedef typename decltype(tag)::type T;
            if (raw) fuzz_raw<T>(std::string((const char *)data + 2, size - 2), name);
            else fuzz_structured<T>(data + 2, size - 2, name);
        });
    } catch (std::exception const &e) {
        vf::fail("exception:fuzz", std::string("unexpected exception escaped: ") + e.what());
    }
    return 0;
}
