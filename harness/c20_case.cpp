// C20 — part 2 (included by c20_routing.cpp): the serialisable test case (configuration + inputs).
#pragma once
#include "vreport.h"
#include "c20_rx.cpp"

namespace c20 {

using rx::Pat;
using rx::Piece;

enum { A_ASSIGN = 0, A_RGEN = 1, A_GEN = 2, A_TYPED = 3, A_MOUNT = 4 };
enum { T_S0 = 0, T_S1, T_S2, T_I1, T_IS2 };

struct Handler {
    int api = A_ASSIGN;
    Pat pat;
    int has_meth = 0;
    Pat meth;
    std::vector<int> sel;   // A_ASSIGN: 0..6 group numbers; A_TYPED: per parameter; A_MOUNT: sel[0] = selected group
    int typed = 0;          // A_TYPED: T_*
    int reject = 0;         // A_GEN: 0 never, 1 when group 1 is empty, 2 when the whole match has odd length
    int child = -1;         // A_MOUNT: node index (> own index)
    int attach = 0;         // A_MOUNT: 0 attach(owned), 1 add(app,...), 2 add(app)+dispatcher().mount()+mapper().mount()
    // url_mapper side
    int has_key = 0;        // non-mount: mapper().assign(key,murl) (key "" = default url); mount: mapper mount under name `key`
    std::string key, murl;
};
struct Node {
    std::vector<Handler> hs;
    int slash = 1;          // sub-urls of this node start with '/'
};
struct MountP {
    int ctor = 0;           // 0 mount_point(); 1 (path,group); 2 (script); 3 (script,path,group); 4 (sel,selected,group);
                            // 5 (sel,non_selected); 6 (sel,non,selected,group); 7 (sel,host,script,path,group) with empty regex objects
                            // for the has_*==0 parts; 8 default + setters
    int sel = 0;            // 0 path_info, 1 script_name
    int has_host = 0, has_script = 0, has_path = 0;
    Pat host, script, path;
    int group = 0;
    int root = 0;           // node index of the application mounted there
};
struct Req {
    std::string method, host, script, path;
    int origin = 0;         // 0 drawn from a pattern language, 1 one edit away from it, 2 unrelated
};
struct MapQ {
    int from = 0;                       // node whose mapper is asked
    std::string key;                    // full key path incl. ";keywords"
    std::vector<std::string> params;    // keyword values first, then positional
    int int_mask = 0;                   // bit i: pass params[i] as int
    // what the generator aimed at (the reference resolves the key on its own; this is only for the by-construction round trip)
    int t_node = -1, t_idx = -1;
    std::string method;                 // request method for the round trip
};
struct Value { std::string key, val; int node = 0, early = 0; };   // set_value(key,val) on `node`, early: before it is mounted

struct Case {
    int mode = 0;           // 0 routing through mount points + application trees (context), 1 stand-alone dispatcher without context, 2 mapper
    int throws = 1;         // which service (misc.invalid_url_throws)
    std::vector<MountP> mps;
    std::vector<Node> nodes;
    std::vector<Req> reqs;
    std::vector<MapQ> qs;
    std::vector<Value> values;
    std::string mroot;      // url_mapper::root of the root node (mode 2)
    std::string script;     // SCRIPT_NAME used for the round trip (mode 2)

    void encode(vr::CaseWriter &w) const;
    static Case decode(vr::CaseReader &r);
};

// ---- serialisation --------------------------------------------------------------------------------------
inline void enc_pieces(vr::CaseWriter &w, std::vector<Piece> const &v) { w.i(v.size()); for (auto &p : v) { w.i(p.kind).s(p.lit); } }
inline void dec_pieces(vr::CaseReader &r, std::vector<Piece> &v) { size_t n = r.i(); v.resize(n); for (auto &p : v) { p.kind = (int)r.i(); p.lit = r.s(); } }
inline void enc(vr::CaseWriter &w, Pat const &p) { enc_pieces(w, p.pc); w.i(p.has_alt); if (p.has_alt) enc_pieces(w, p.alt); w.i(p.icase); }
inline void dec(vr::CaseReader &r, Pat &p) { dec_pieces(r, p.pc); p.has_alt = (int)r.i(); if (p.has_alt) dec_pieces(r, p.alt); p.icase = (int)r.i(); p.build(); }
inline void enc_ints(vr::CaseWriter &w, std::vector<int> const &v) { w.i(v.size()); for (int x : v) w.i(x); }
inline void dec_ints(vr::CaseReader &r, std::vector<int> &v) { size_t n = r.i(); v.resize(n); for (auto &x : v) x = (int)r.i(); }

inline void Case::encode(vr::CaseWriter &w) const {
    w.w("c20v1").i(mode).i(throws).s(mroot).s(script).nl();
    w.w("mps").i(mps.size()).nl();
    for (auto &m : mps) {
        w.i(m.ctor).i(m.sel).i(m.group).i(m.root).i(m.has_host).i(m.has_script).i(m.has_path);
        enc(w, m.host); enc(w, m.script); enc(w, m.path); w.nl();
    }
    w.w("nodes").i(nodes.size()).nl();
    for (auto &n : nodes) {
        w.w("node").i(n.slash).i(n.hs.size()).nl();
        for (auto &h : n.hs) {
            w.i(h.api); enc(w, h.pat); w.i(h.has_meth); if (h.has_meth) enc(w, h.meth);
            enc_ints(w, h.sel); w.i(h.typed).i(h.reject).i(h.child).i(h.attach).i(h.has_key).s(h.key).s(h.murl).nl();
        }
    }
    w.w("reqs").i(reqs.size()).nl();
    for (auto &q : reqs) w.s(q.method).s(q.host).s(q.script).s(q.path).i(q.origin).nl();
    w.w("qs").i(qs.size()).nl();
    for (auto &q : qs) {
        w.i(q.from).s(q.key).i(q.params.size());
        for (auto &p : q.params) w.s(p);
        w.i(q.int_mask).i(q.t_node).i(q.t_idx).s(q.method).nl();
    }
    w.w("values").i(values.size()).nl();
    for (auto &v : values) w.s(v.key).s(v.val).i(v.node).i(v.early).nl();
}
inline Case Case::decode(vr::CaseReader &r) {
    Case c;
    if (r.w() != "c20v1") throw std::runtime_error("not a c20 case");
    c.mode = (int)r.i(); c.throws = (int)r.i(); c.mroot = r.s(); c.script = r.s();
    r.w(); c.mps.resize(r.i());
    for (auto &m : c.mps) {
        m.ctor = (int)r.i(); m.sel = (int)r.i(); m.group = (int)r.i(); m.root = (int)r.i();
        m.has_host = (int)r.i(); m.has_script = (int)r.i(); m.has_path = (int)r.i();
        dec(r, m.host); dec(r, m.script); dec(r, m.path);
    }
    r.w(); c.nodes.resize(r.i());
    for (auto &n : c.nodes) {
        r.w(); n.slash = (int)r.i(); n.hs.resize(r.i());
        for (auto &h : n.hs) {
            h.api = (int)r.i(); dec(r, h.pat); h.has_meth = (int)r.i(); if (h.has_meth) dec(r, h.meth);
            dec_ints(r, h.sel); h.typed = (int)r.i(); h.reject = (int)r.i(); h.child = (int)r.i(); h.attach = (int)r.i();
            h.has_key = (int)r.i(); h.key = r.s(); h.murl = r.s();
        }
    }
    r.w(); c.reqs.resize(r.i());
    for (auto &q : c.reqs) { q.method = r.s(); q.host = r.s(); q.script = r.s(); q.path = r.s(); q.origin = (int)r.i(); }
    r.w(); c.qs.resize(r.i());
    for (auto &q : c.qs) {
        q.from = (int)r.i(); q.key = r.s(); q.params.resize(r.i());
        for (auto &p : q.params) p = r.s();
        q.int_mask = (int)r.i(); q.t_node = (int)r.i(); q.t_idx = (int)r.i(); q.method = r.s();
    }
    r.w(); c.values.resize(r.i());
    for (auto &v : c.values) { v.key = r.s(); v.val = r.s(); v.node = (int)r.i(); v.early = (int)r.i(); }
    return c;
}

// validity of a decoded (possibly hand-edited) case: indices in range, tree shape
inline bool well_formed(Case const &c, std::string &why) {
    int n = (int)c.nodes.size();
    std::vector<int> parents(n, 0);
    for (int i = 0; i < n; i++) for (auto &h : c.nodes[i].hs) {
        if (h.api == A_MOUNT) {
            if (h.child <= i || h.child >= n) { why = "child index"; return false; }
            if (h.sel.size() != 1) { why = "mount sel"; return false; }
            parents[h.child]++;
        }
        if (h.api == A_ASSIGN && h.sel.size() > 6) { why = "assign arity"; return false; }
        if (h.api == A_TYPED) {
            size_t need = h.typed == T_S0 ? 0 : (h.typed == T_S1 || h.typed == T_I1) ? 1 : 2;
            if (h.sel.size() != need) { why = "typed arity"; return false; }
        }
    }
    for (int i = 0; i < n; i++) if (parents[i] > 1) { why = "node mounted twice"; return false; }
    for (auto &m : c.mps) if (m.root < 0 || m.root >= n || parents[m.root] != 0) { why = "mount root"; return false; }
    for (auto &q : c.qs) if (q.from < 0 || q.from >= n || q.params.size() > 6) { why = "query"; return false; }
    for (auto &v : c.values) if (v.node < 0 || v.node >= n) { why = "value node"; return false; }
    return true;
}

} // namespace c20
