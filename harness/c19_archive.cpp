// C19 — serialized objects round-trip exactly and malformed archives are rejected safely (rapidcheck part).
// Properties (all replayable from bytes):
//   value  : a generated value of one type of the universe: save/load variants must reproduce it (reference codec as judge),
//            then EVERY truncation, every length-field mutation and byte flips of its archive are loaded and compared with
//            the independent reference decoder (see c19_universe.h: check_load)
//   bytes  : arbitrary / type-confused / spliced byte strings loaded as a type (same differential oracle)
//   store  : the value travels through serialization_traits, cache_interface::store_data/fetch_data and
//            session_interface::store_data -> save -> cookie -> load -> fetch_data
#include "vrc.h"
#include "c19_universe.h"
#include <cppcms/service.h>
#include <cppcms/cache_interface.h>
#include <cppcms/session_interface.h>
#include <cppcms/session_pool.h>
#include <cppcms/http_cookie.h>
#include <cppcms/util.h>
#include <algorithm>

using vr::Outcome; using vr::ok; using vr::bad;
using namespace c19;

struct VCase {
    int type = 0; std::string src; unsigned dseed = 0;
    void encode(vr::CaseWriter &w) const { w.i(type).s(src).u(dseed); }
    static VCase decode(vr::CaseReader &r) { VCase c; c.type = (int)r.i(); c.src = r.s(); c.dseed = (unsigned)r.u(); return c; }
};
struct BCase {
    int type = 0; std::string data; int force_known = 0;   // force_known: do not skip the known-defect class (regression cases)
    void encode(vr::CaseWriter &w) const { w.i(type).s(data).i(force_known); }
    static BCase decode(vr::CaseReader &r) { BCase c; c.type = (int)r.i(); c.data = r.s(); c.force_known = (int)r.i(); return c; }
};

static Outcome from(Res const &r) { return r.ok() ? ok() : bad(r.sig, r.msg); }
#define RES(expr) do { Res r__ = (expr); if (!r__.ok()) return bad(r__.sig, r__.msg); } while (0)

static size_t g_trunc_all = 512;     // archives up to this size get every truncation
static size_t g_max_headers = 96;
static size_t g_max_flips = 48;

template <class T> static void make_from(T &v, std::string const &src) { Src s(src); U<T>::make(v, s, 0); }
static std::string reversed(std::string s) { std::reverse(s.begin(), s.end()); for (auto &c : s) c = char(c ^ 0x5a); return s; }

// two archives of the same value may differ in the padding bytes of long double members (save() copies them as they are), so
// "same archive" is judged through the reference decoder: same length, decodes completely, to the expected canonical form
template <class T> static bool same_archive(std::string const &x, std::string const &expect_canon) {
    if (x.size() != expect_canon.size()) return false;
    T r; Rd rd(x);
    return U<T>::dec(r, rd) && rd.pos == x.size() && canon(r) == expect_canon;
}
template <class T> static Outcome value_body(VCase const &c, const char *tname) {
    T v; make_from(v, c.src);
    T w; make_from(w, reversed(c.src));      // an unrelated second value: dirty load target / second object in one archive
    Shape sh; U<T>::shape(v, sh, 0);
    std::string const ref = canon(v), refw = canon(w);
    std::string ctx = std::string(" type=") + tname + " value=" + vr::hex(ref.substr(0, 400));
    VR.eval();
    VR.cls(std::string("type.") + tname);
    VR.cls("val.depth=" + std::to_string(sh.depth > 4 ? 4 : sh.depth) + (sh.depth > 4 ? "+" : ""));
    if (sh.empty_container) VR.cls("val.empty-container");
    if (sh.nul) VR.cls("val.string-with-NUL");
    if (sh.null_ptr) VR.cls("val.null-pointer");
    if (sh.nonnull_ptr) VR.cls("val.nonnull-pointer");
    if (sh.big_string) VR.cls("val.string>255");
    if (sh.depth >= 2 || sh.empty_container || sh.nul) VR.nontrivial(vr::fnv(ref, 1000 + c.type));

    // --- save: the archive is what the format description says (judged by the reference decoder), byte count included
    cppcms::archive a; a << v;
    std::string const A = a.str();
    V_CHECK(A.size() == ref.size(), "archive:save-size", "saved " + std::to_string(A.size()) + " bytes, format needs " + std::to_string(ref.size()) + ctx);
    { T r; Rd rd(A); bool okd = U<T>::dec(r, rd) && rd.pos == A.size();
      V_CHECK(okd, "archive:save-format", std::string("reference decoder cannot read what save() wrote: ") + why_name(rd.why) + " at " + std::to_string(rd.fail_pos) + " archive=" + vr::hex(A.substr(0, 400)) + ctx);
      V_CHECK(canon(r) == ref, "archive:save-content", "saved archive decodes to a different value: " + vr::hex(canon(r).substr(0, 400)) + ctx); }
    cppcms::archive aw; aw << w;
    std::string const AW = aw.str();
    std::string what;
    // --- load into a fresh object, from cppcms' own bytes and from the reference encoding
    for (int k = 0; k < 2; k++) {
        T l; cppcms::archive b; b.str(k ? ref : A);
        V_CHECK(cppcms_load(b, l, &what) == L_OK, "roundtrip:load-throws", "load of a saved archive threw '" + what + "'" + ctx);
        V_CHECK(canon(l) == ref, "roundtrip:value-differs", "loaded " + vr::hex(canon(l).substr(0, 400)) + ctx);
        V_CHECK(b.eof(), "roundtrip:not-at-eof", "eof() is false after the only object was read" + ctx);
    }
    // --- one archive object reused for a second string, target object already holding another value
    { T l; cppcms::archive b; b.str(AW);
      V_CHECK(cppcms_load(b, l, &what) == L_OK && canon(l) == refw, "roundtrip:second-value", "w did not round-trip: " + what + ctx);
      b.str(A);
      V_CHECK(cppcms_load(b, l, &what) == L_OK, "roundtrip:reused-archive-load-throws", "archive::str(new) then load threw '" + what + "'" + ctx);
      V_CHECK(canon(l) == ref, "roundtrip:dirty-target-differs", "loading into an object that held " + vr::hex(refw.substr(0, 200)) + " gave " + vr::hex(canon(l).substr(0, 400)) + ctx);
      b.reset();
      V_CHECK(cppcms_load(b, l, &what) == L_OK && canon(l) == ref, "roundtrip:reset-reread", "reset() then load: " + what + ctx); }
    // --- operator& in both modes, mode() rewinds
    { cppcms::archive m; m & v;
      V_CHECK(same_archive<T>(m.str(), ref), "roundtrip:operator&-save-differs", ctx);
      m.mode(cppcms::archive::load_from_archive);
      T l; make_from(l, reversed(c.src));
      try { m & l; } catch (std::exception const &e) { return bad("roundtrip:operator&-load-throws", e.what() + ctx); }
      V_CHECK(canon(l) == ref, "roundtrip:operator&-value-differs", "loaded " + vr::hex(canon(l).substr(0, 400)) + ctx); }
    // --- two objects in one archive, a copy of the archive taken between them continues at the same place
    { cppcms::archive d; d << v << w; d.mode(cppcms::archive::load_from_archive);
      V_CHECK(d.str().size() == A.size() + AW.size() && same_archive<T>(d.str().substr(0, A.size()), ref) && same_archive<T>(d.str().substr(A.size()), refw), "roundtrip:two-objects-bytes", ctx);
      T l1, l2, l3;
      V_CHECK(cppcms_load(d, l1, &what) == L_OK && canon(l1) == ref, "roundtrip:two-objects-first", what + ctx);
      V_CHECK(!d.eof(), "roundtrip:eof-early", ctx);
      cppcms::archive e(d);
      V_CHECK(cppcms_load(d, l2, &what) == L_OK && canon(l2) == refw, "roundtrip:two-objects-second", what + ctx);
      V_CHECK(d.eof(), "roundtrip:two-objects-not-at-eof", ctx);
      V_CHECK(cppcms_load(e, l3, &what) == L_OK && canon(l3) == refw && e.eof(), "roundtrip:copied-archive", what + ctx);
      T l4; V_CHECK(cppcms_load(d, l4, &what) == L_THROW, "roundtrip:read-past-end-not-rejected", "a third load from a two-object archive did not throw" + ctx); }
    // --- string form (serialization_traits) of a serializable wrapper
    { Box<T> bx; make_from(bx.v, c.src);
      std::string sv; cppcms::serialization_traits<Box<T> >::save(bx, sv);
      V_CHECK(same_archive<T>(sv, ref), "roundtrip:serialization_traits-save-differs", ctx);
      Box<T> by; make_from(by.v, reversed(c.src));
      try { cppcms::serialization_traits<Box<T> >::load(sv, by); } catch (std::exception const &e) { return bad("roundtrip:serialization_traits-load-throws", e.what() + ctx); }
      V_CHECK(canon(by.v) == ref, "roundtrip:serialization_traits-value-differs", ctx); }

    // --- systematic damage ------------------------------------------------------------------------------------
    DmgStat st; bool nt = false;
    std::vector<size_t> hs = chunk_headers(A);
    auto run = [&](std::string const &D, std::string const &tag, const char *cls) -> Res {
        VR.eval(); VR.cls(cls);
        Res r = check_load<T>(D, tname, tag, st, &nt);
        if (nt) VR.nontrivial(vr::fnv(D, 77 + c.type));
        return r;
    };
    // truncations
    {
        std::vector<size_t> cuts;
        if (A.size() <= g_trunc_all) for (size_t k = 0; k < A.size(); k++) cuts.push_back(k);
        else {
            std::set<size_t> s;
            for (size_t k = 1; k <= 32 && k <= A.size(); k++) s.insert(A.size() - k);
            for (size_t i = 0; i < hs.size() && i < g_max_headers; i++) for (size_t d = 0; d <= 8; d++) if (hs[i] + d < A.size()) s.insert(hs[i] + d);
            unsigned x = c.dseed | 1;
            for (int i = 0; i < 128; i++) { x = x * 1664525u + 1013904223u; s.insert((x >> 8) % A.size()); }
            cuts.assign(s.begin(), s.end());
            VR.cls("dmg.trunc.sampled-archive");
        }
        for (size_t k : cuts) RES(run(A.substr(0, k), "truncate-to-" + std::to_string(k) + "-of-" + std::to_string(A.size()), "dmg.trunc"));
    }
    // every length field
    {
        std::vector<size_t> sel;
        for (size_t i = 0; i < hs.size(); i++) if (i < g_max_headers || i + 8 >= hs.size()) sel.push_back(hs[i]);
        for (size_t h : sel) {
            uint32_t L; memcpy(&L, A.data() + h, 4);
            long long R = (long long)A.size() - (long long)h - 4;
            std::set<long long> cand;
            cand.insert(0);
            for (int d = 1; d <= 4; d++) { cand.insert((long long)L + d); cand.insert((long long)L - d); cand.insert(R + d); cand.insert(R - d); }
            cand.insert(R);
            cand.insert(0x7FFFFFFFLL); cand.insert(0xFFFFFFFFLL); cand.insert(0x80000000LL); cand.insert(0xFFFFFFFFLL - (long long)h); cand.insert(0xFFFFFFFCLL - (long long)h);
            for (long long nl : cand) {
                if (nl < 0 || nl > 0xFFFFFFFFLL || nl == (long long)L) continue;
                uint32_t n32 = (uint32_t)nl; std::string D = A; memcpy(&D[h], &n32, 4);
                RES(run(D, "length@" + std::to_string(h) + ":" + std::to_string(L) + "->" + std::to_string(nl), "dmg.length"));
            }
        }
    }
    // byte flips
    {
        unsigned x = c.dseed * 2654435761u + 12345u;
        size_t n = std::min(A.size(), g_max_flips);
        for (size_t i = 0; i < n; i++) {
            size_t pos = i;
            if (A.size() > g_max_flips) { x = x * 1664525u + 1013904223u; pos = (x >> 8) % A.size(); }
            x = x * 1664525u + 1013904223u;
            std::string D = A; D[pos] = char(D[pos] ^ (1u << ((x >> 13) & 7)));
            RES(run(D, "flip-bit@" + std::to_string(pos), "dmg.flip"));
            if ((x >> 20) & 1) { std::string E = A; E[pos] = char((x >> 24) & 1 ? 0xff : 0x00); if (E != A) RES(run(E, "set-byte@" + std::to_string(pos), "dmg.flip")); }
        }
    }
    if (VR.want_sample()) VR.sample(std::string(tname) + " depth=" + std::to_string(sh.depth) + " archive(" + std::to_string(A.size()) + "B)=" + vr::hex(A.substr(0, 100)) +
                                    " | round trip ok; damaged loads: " + std::to_string(st.accept) + " accepted with the reference value, " + std::to_string(st.reject) + " rejected, " +
                                    std::to_string(st.excluded) + " skipped (known classes)");
    VR.cls("dmg.out.accepted", st.accept); VR.cls("dmg.out.rejected", st.reject); VR.cls("dmg.near-edge(+-4)", st.near_edge);
    VR.cls("dmg.out.rejected-noncanonical", st.noncanon);
    return ok();
}
static Outcome p_value(VCase const &c) {
    Outcome o = bad("harness:bad-type-id", "type id out of range");
    with_type(c.type, [&](auto tag, const char *name) { typedef typename decltype(tag)::type T; o = value_body<T>(c, name); });
    return o;
}

static Outcome p_bytes(BCase const &c) {
    Outcome o = bad("harness:bad-type-id", "type id out of range");
    with_type(c.type, [&](auto tag, const char *name) {
        typedef typename decltype(tag)::type T;
        VR.eval(); VR.cls("bytes.as-type");
        DmgStat st; bool nt = false;
        Res r;
        if (c.force_known) known_included().overrun = true;   // regression cases: same oracle, known class not skipped
        r = check_load<T>(c.data, name, c.force_known ? "regression" : "arbitrary-bytes", st, &nt);
        VR.nontrivial(vr::fnv(c.data, 500 + c.type));
        VR.cls("bytes.out.accepted", st.accept); VR.cls("bytes.out.rejected", st.reject); VR.cls("bytes.near-edge(+-4)", st.near_edge);
        if (VR.want_sample()) VR.sample(std::string("bytes as ") + name + ": " + vr::hex(c.data.substr(0, 100)) + (st.accept ? " -> accepted" : " -> rejected"));
        o = from(r);
    });
    return o;
}

// ---- session / cache fixture ------------------------------------------------------------------------------------
struct Jar : public cppcms::session_interface_cookie_adapter {
    std::string value; std::string name;
    void set_cookie(cppcms::http::cookie const &c) override {
        if (c.name() != name) return;
        if (c.max_age_defined() && c.max_age() == 0) value.clear(); else value = cppcms::util::urldecode(c.value());
    }
    std::string get_session_cookie(std::string const &) override { return value; }
    std::set<std::string> get_cookie_names() override { return std::set<std::string>(); }
};
struct Fixture {
    std::unique_ptr<cppcms::service> srv;
    std::unique_ptr<cppcms::cache_interface> cache;
    Fixture() {
        cppcms::json::value cfg;
        cfg["cache"]["backend"] = "thread_shared";
        cfg["cache"]["limit"] = 64;
        cfg["session"]["location"] = "client";
        cfg["session"]["expire"] = "fixed";
        cfg["session"]["timeout"] = 1000000;
        cfg["session"]["client"]["hmac"] = "sha1";
        cfg["session"]["client"]["hmac_key"] = "3891bbf7f845fd4277008a63d72640fc13bb9a31";
        cfg["session"]["cookies"]["prefix"] = "c19";
        srv.reset(new cppcms::service(cfg));
        srv->session_pool().init();
        cache.reset(new cppcms::cache_interface(*srv));
    }
};
static Fixture &fx() { static Fixture f; return f; }

template <class T> static Outcome store_body(VCase const &c, const char *tname) {
    Box<T> v; make_from(v.v, c.src);
    std::string const ref = canon(v);
    std::string ctx = std::string(" type=") + tname + " value=" + vr::hex(ref.substr(0, 400));
    Shape sh; U<T>::shape(v.v, sh, 0);
    VR.eval(); VR.cls("store.values");
    if (sh.depth >= 2 || sh.empty_container || sh.nul) VR.nontrivial(vr::fnv(ref, 2000 + c.type));
    std::string key = "k" + std::to_string(c.dseed % 7);
    // cache
    {
        cppcms::cache_interface &ch = *fx().cache;
        if (c.dseed & 8) ch.store_data(key, v, 100000, true); else ch.store_data(key, v, std::set<std::string>(), -1, true);
        Box<T> l; make_from(l.v, reversed(c.src));
        bool found;
        try { found = ch.fetch_data(key, l, true); } catch (std::exception const &e) { return bad("cache:fetch_data-throws", e.what() + ctx); }
        V_CHECK(found, "cache:fetch_data-not-found", "entry stored a moment ago is missing" + ctx);
        V_CHECK(canon(l) == ref, "cache:fetch_data-differs", "fetched " + vr::hex(canon(l).substr(0, 400)) + ctx);
        Box<T> l2; V_CHECK(!ch.fetch_data("absent-key", l2, true), "cache:fetch_data-found-absent", ctx);
        VR.cls("store.cache");
    }
    // session: request 1 stores and saves, request 2 (new interface object, same cookie) fetches
    {
        Jar jar; jar.name = "c19";
        {
            cppcms::session_interface s1(fx().srv->session_pool(), jar);
            s1.load();
            s1.store_data(key, v);
            s1.set("other", "x");
            s1.save();
        }
        V_CHECK(!jar.value.empty(), "session:no-cookie", "save() produced no session cookie" + ctx);
        {
            cppcms::session_interface s2(fx().srv->session_pool(), jar);
            V_CHECK(s2.load(), "session:load-failed", "the cookie written by save() was not accepted" + ctx);
            Box<T> l; make_from(l.v, reversed(c.src));
            try { s2.fetch_data(key, l); } catch (std::exception const &e) { return bad("session:fetch_data-throws", e.what() + ctx); }
            V_CHECK(canon(l) == ref, "session:fetch_data-differs", "fetched " + vr::hex(canon(l).substr(0, 400)) + ctx);
            V_CHECK(s2.get("other") == "x", "session:other-key-lost", ctx);
        }
        VR.cls("store.session");
    }
    if (VR.want_sample()) VR.sample(std::string("store ") + tname + " via cache+session, " + std::to_string(ref.size()) + "B");
    return ok();
}
static Outcome p_store(VCase const &c) {
    Outcome o = bad("harness:bad-type-id", "type id out of range");
    with_type(c.type, [&](auto tag, const char *name) { typedef typename decltype(tag)::type T; o = store_body<T>(c, name); });
    return o;
}

// ---- generators -------------------------------------------------------------------------------------------------------
static rc::Gen<std::string> gen_src(int maxlen) {
    auto byte = rc::gen::weightedOneOf<unsigned char>({{7, rc::gen::map(vr::range<int>(0, 256), [](int c) { return (unsigned char)c; })},
                                                        {1, rc::gen::just((unsigned char)0)}, {1, rc::gen::just((unsigned char)255)}});
    auto len = rc::gen::weightedOneOf<int>({{3, vr::range<int>(0, 24)}, {4, vr::range<int>(24, 120)}, {2, vr::range<int>(120, 400)}, {1, vr::range<int>(400, maxlen)}});
    return rc::gen::mapcat(len, [byte](int n) {
        return rc::gen::map(rc::gen::container<std::vector<unsigned char> >(n, byte), [](std::vector<unsigned char> v) { return std::string(v.begin(), v.end()); });
    });
}
static rc::Gen<VCase> gen_vcase(int maxlen) {
    return rc::gen::map(rc::gen::tuple(vr::range<int>(0, NTYPES), gen_src(maxlen), rc::gen::arbitrary<unsigned>()),
                        [](std::tuple<int, std::string, unsigned> t) { VCase c; c.type = std::get<0>(t); c.src = std::get<1>(t); c.dseed = std::get<2>(t); return c; });
}
// bytes: a valid archive of type X (reference encoder) possibly cut / extended / spliced, read as type Y; or chunk soup; or raw bytes
static std::string ref_archive_of(int type, std::string const &src) {
    std::string out;
    with_type(type, [&](auto tag, const char *) { typedef typename decltype(tag)::type T; T v; make_from(v, src); out = canon(v); });
    return out;
}
static rc::Gen<BCase> gen_bcase() {
    auto confused = rc::gen::map(rc::gen::tuple(vr::range<int>(0, NTYPES), vr::range<int>(0, NTYPES), gen_src(300), vr::range<int>(0, 12), vr::bytes(12)),
        [](std::tuple<int, int, std::string, int, std::string> t) {
            BCase c; c.type = std::get<1>(t);
            std::string a = ref_archive_of(std::get<0>(t), std::get<2>(t));
            int cut = std::get<3>(t);
            if (cut >= 6 && a.size() >= (size_t)(cut - 5)) a.resize(a.size() - (cut - 5));     // drop 1..6 bytes
            else if (cut >= 3) a += std::get<4>(t);                                             // trailing bytes
            c.data = a; return c;
        });
    // chunk soup: plausible chunk sizes with occasional lies in the header
    auto soup = rc::gen::map(rc::gen::tuple(vr::range<int>(0, NTYPES), rc::gen::container<std::vector<std::pair<int, std::string> > >(rc::gen::pair(vr::range<int>(0, 40), vr::bytes(17)))),
        [](std::tuple<int, std::vector<std::pair<int, std::string> > > t) {
            BCase c; c.type = std::get<0>(t);
            static const int sizes[] = {1, 1, 4, 8, 8, 8, 2, 16, 0, 3};
            for (auto const &p : std::get<1>(t)) {
                int k = p.first; std::string body = p.second;
                if (k < 30) body.resize(sizes[k % 10], char(k < 10 ? 0 : k));
                uint32_t l = (uint32_t)body.size();
                if (k >= 36) l += (k - 35);          // header lies: 1..4 more than there is
                if (k == 35 && l) l -= 1;
                c.data.append((char *)&l, 4); c.data += body;
            }
            return c;
        });
    auto raw = rc::gen::map(rc::gen::pair(vr::range<int>(0, NTYPES), vr::bytes(64)), [](std::pair<int, std::string> p) { BCase c; c.type = p.first; c.data = p.second; return c; });
    return rc::gen::weightedOneOf<BCase>({{5, confused}, {4, soup}, {1, raw}});
}

int main(int argc, char **argv) {
    std::vector<std::unique_ptr<vr::PropBase> > props;
    bool th = vr::thorough();
    VR.max_samples = 2;
    if (th) { g_trunc_all = 4096; g_max_headers = 400; g_max_flips = 160; }
    props.push_back(vr::prop<VCase>("value", gen_vcase(th ? 2400 : 900), p_value));
    props.push_back(vr::prop<BCase>("bytes", gen_bcase(), p_bytes));
    props.push_back(vr::prop<VCase>("store", gen_vcase(600), p_store));
    // --emit-corpus DIR: write reference-encoded archives as libFuzzer seeds ([type][mode=1][archive])
    for (int i = 1; i + 1 < argc; i++) if (!strcmp(argv[i], "--emit-corpus")) {
        std::string dir = argv[i + 1];
        for (int t = 0; t < NTYPES; t++) for (int k = 0; k < 3; k++) {
            std::string src; unsigned x = 1234567u * (t + 1) + k * 777u;
            for (int j = 0; j < (k == 0 ? 4 : 40 * k); j++) { x = x * 1664525u + 1013904223u; src += char(x >> 24); }
            std::string a = ref_archive_of(t, src);
            std::string f; f += char(t); f += char(1); f += a;
            vr::write_file(dir + "/seed-t" + std::to_string(t) + "-" + std::to_string(k), f);
        }
        return 0;
    }
    // --regress FILE: run one saved case as part of a normal run (known-finding regression); a failure is recorded with the file itself as replay
    for (int i = 1; i + 1 < argc; i++) if (!strcmp(argv[i], "--regress")) {
        vr::install_crash_hooks();
        vr::CaseReader r(vr::read_file(argv[i + 1]));
        std::string pname = r.w();
        Outcome o = bad("harness:unknown-property", pname);
        for (auto &p : props) if (p->name == pname) o = p->replay(r);
        VR.eval(); VR.cls("regression-cases");
        if (!o.ok()) VR.failures.push_back({o.sig, argv[i + 1], o.msg});
        VR.finish();
        return o.ok() ? 0 : 1;
    }
    return vr::rc_main(argc, argv, props);
}
