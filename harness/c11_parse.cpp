// C11 (a) — libFuzzer target: any byte string given to the cppcms JSON parser.
// Oracle (c11_ref.h, check_document): language equivalence with an independent RFC 8259 reference parser (modulo the three tolerated
// leniencies), equal trees, target untouched after a failed load, range/stream/prefix/locale variants agree, accepted trees can be
// written and read back.  ASan/UBSan are part of the oracle.
// The custom mutator mixes libFuzzer's byte mutations with grammar-generated documents (nesting 0..600, every escape form, surrogate
// pairs, numbers across the double range) and JSON-aware single-byte edits; its only randomness is the seed libFuzzer passes in.
#include "vfuzz.h"
#include "c11_ref.h"

extern "C" size_t LLVMFuzzerMutate(uint8_t *data, size_t size, size_t max_size);

extern "C" size_t LLVMFuzzerCustomMutator(uint8_t *data, size_t size, size_t max_size, unsigned int seed) {
    c11::PrngSrc src(seed);
    int k = src.range(0, 15);
    if (k <= 2 || size == 0) {             // a fresh document from the grammar, sometimes with one byte changed
        c11::GenDoc d = c11::make_document(src);
        if (k == 2) c11::byte_edit(d.text, src.range(0, 2), (size_t)src.next(), src.range(0, 1) ? c11::json_byte(src.range(0, 255)) : (unsigned char)src.range(0, 255));
        if (d.text.size() > max_size) d.text.resize(max_size);
        if (d.text.empty()) d.text = "0";
        memcpy(data, d.text.data(), d.text.size());
        return d.text.size();
    }
    if (k <= 6) {                          // one JSON-relevant byte replaced / inserted / deleted in the current input
        std::string s((const char *)data, size);
        c11::byte_edit(s, src.range(0, 2), (size_t)src.next(), c11::json_byte(src.range(0, 255)));
        if (s.size() > max_size) s.resize(max_size);
        if (s.empty()) return LLVMFuzzerMutate(data, size, max_size);
        memcpy(data, s.data(), s.size());
        return s.size();
    }
    return LLVMFuzzerMutate(data, size, max_size);
}

static void classify(c11::DocInfo const &i, std::string const &doc) {
    c11::Parsed const &f = i.full;
    std::string v = c11::verdict_name(f.v);
    if (f.v == c11::V_ACCEPT) v = f.lenient ? "accept-lenient" : "accept-strict";
    if (f.v == c11::V_REJECT) v += ":" + f.why;
    VR.cls("doc." + v);
    if (i.accepted_full) VR.cls("cppcms.accepted"); else VR.cls("cppcms.rejected");
    if (f.v == c11::V_ACCEPT || f.v == c11::V_NONFINITE) {
        c11::Stats const &s = f.st;
        if (s.pair) VR.cls("ok.surrogate-pair");
        if (s.uesc) VR.cls("ok.u-escape"); else if (s.esc) VR.cls("ok.short-escape");
        if (s.nonascii) VR.cls("ok.non-ascii");
        if (s.frac || s.exp) VR.cls("ok.fraction-or-exponent");
        if (s.comment) VR.cls("ok.comment");
        if (s.trailing_comma) VR.cls("ok.trailing-comma");
        if (s.lenient_number) VR.cls("ok.lenient-number");
        VR.cls(s.maxdepth == 0 ? "ok.depth0" : s.maxdepth == 1 ? "ok.depth1" : s.maxdepth <= 8 ? "ok.depth2-8" : s.maxdepth < 500 ? "ok.depth9-499" : s.maxdepth < 512 ? "ok.depth500-511" : "ok.depth512");
    }
    if (i.prefix.v == c11::V_ACCEPT && f.v == c11::V_REJECT) VR.cls("prefix-only.accept");
    // non-trivial: a well-formed document (accepted, duplicate key, too deep, out-of-range number) or a text in which the reference read
    // at least three tokens before it found the malformation
    if (f.v != c11::V_REJECT || f.st.tokens >= 3) VR.nontrivial(vr::fnv(doc, 1101));
    if (VR.want_sample()) VR.sample(v + " <- " + vr::show(doc, 120));
}

extern "C" int LLVMFuzzerTestOneInput(const uint8_t *data, size_t size) {
    VR.max_samples = 2;
    vf::begin(data, size);
    std::string doc((const char *)data, size);
    c11::DocInfo info;
    c11::Fail f = c11::check_document(doc, info);
    classify(info, doc);
    if (!f.ok()) vf::fail(f.sig, f.msg);
    return 0;
}
