// C15 — HTML escaping neutralises markup; URL and base64url codecs are exact inverses.
// Exhaustive over all byte strings of length 0..2 (0..3 for base64url), every length 0..1024 for the size formulas,
// rapidcheck for long strings, failing stream buffers and arbitrary decoder input.
#include "vrc.h"
#include <cppcms/util.h>
#include <cppcms/base64.h>
#include <cppcms/filters.h>
#include <cppcms/form.h>
#include <sstream>
#include <streambuf>

using vr::Outcome; using vr::ok; using vr::bad;

struct SCase {
    std::string s; int k = 0;
    void encode(vr::CaseWriter &w) const { w.s(s).i(k); }
    static SCase decode(vr::CaseReader &r) { SCase c; c.s = r.s(); c.k = (int)r.i(); return c; }
};

// ---- independent reference pieces -------------------------------------------------------------------
static bool ref_unescape(std::string const &in, std::string &out, std::string &why) {
    out.clear();
    for (size_t i = 0; i < in.size(); i++) {
        char c = in[i];
        if (c == '<' || c == '>' || c == '"' || c == '\'') { why = std::string("raw markup character '") + c + "' in output"; return false; }
        if (c != '&') { out += c; continue; }
        size_t e = in.find(';', i);
        if (e == std::string::npos || e - i > 8) { why = "bare '&' in output"; return false; }
        std::string n = in.substr(i + 1, e - i - 1);
        if (n == "lt") out += '<'; else if (n == "gt") out += '>'; else if (n == "amp") out += '&';
        else if (n == "quot") out += '"'; else if (n == "apos") out += '\'';
        else if (n.size() >= 2 && n[0] == '#') {
            long v; char *end = 0;
            if (n[1] == 'x' || n[1] == 'X') v = strtol(n.c_str() + 2, &end, 16); else v = strtol(n.c_str() + 1, &end, 10);
            if (!end || *end || v <= 0 || v > 127) { why = "bad numeric entity &" + n + ";"; return false; }
            out += char(v);
        } else { why = "bare '&' (unknown entity &" + n + ";)"; return false; }
        i = e;
    }
    return true;
}
static bool unreserved(unsigned char c) { return (c >= 'a' && c <= 'z') || (c >= 'A' && c <= 'Z') || (c >= '0' && c <= '9') || c == '-' || c == '_' || c == '.' || c == '~'; }
static int hexv(char c) { if (c >= '0' && c <= '9') return c - '0'; if (c >= 'a' && c <= 'f') return c - 'a' + 10; if (c >= 'A' && c <= 'F') return c - 'A' + 10; return -1; }
static bool ref_pct_decode_strict(std::string const &in, std::string &out, std::string &why) {
    out.clear();
    for (size_t i = 0; i < in.size(); i++) {
        unsigned char c = in[i];
        if (unreserved(c)) { out += char(c); continue; }
        if (c == '%' && i + 2 < in.size() + 0 && hexv(in[i + 1]) >= 0 && hexv(in[i + 2]) >= 0) { out += char(hexv(in[i + 1]) * 16 + hexv(in[i + 2])); i += 2; continue; }
        why = "character outside unreserved/%XX in urlencode output"; return false;
    }
    return true;
}
static const char B64[] = "ABCDEFGHIJKLMNOPQRSTUVWXYZabcdefghijklmnopqrstuvwxyz0123456789-_";
static std::string ref_b64(std::string const &s) {
    std::string r; size_t i = 0;
    for (; i + 3 <= s.size(); i += 3) {
        unsigned v = ((unsigned char)s[i] << 16) | ((unsigned char)s[i + 1] << 8) | (unsigned char)s[i + 2];
        r += B64[v >> 18]; r += B64[(v >> 12) & 63]; r += B64[(v >> 6) & 63]; r += B64[v & 63];
    }
    if (s.size() - i == 1) { unsigned v = (unsigned char)s[i] << 16; r += B64[v >> 18]; r += B64[(v >> 12) & 63]; }
    else if (s.size() - i == 2) { unsigned v = ((unsigned char)s[i] << 16) | ((unsigned char)s[i + 1] << 8); r += B64[v >> 18]; r += B64[(v >> 12) & 63]; r += B64[(v >> 6) & 63]; }
    return r;
}

// a stream buffer that accepts only k bytes
struct limited_buf : std::streambuf {
    std::string got; size_t cap;
    explicit limited_buf(size_t k) : cap(k) {}
    int_type overflow(int_type c) override { if (c == traits_type::eof()) return 0; if (got.size() >= cap) return traits_type::eof(); got += char(c); return c; }
    std::streamsize xsputn(const char *p, std::streamsize n) override { std::streamsize i = 0; for (; i < n && got.size() < cap; i++) got += p[i]; return i; }
};

static bool needs_escape(std::string const &s) { return s.find_first_of("<>&\"'") != std::string::npos; }

// ---- properties ---------------------------------------------------------------------------------------
static Outcome p_escape(SCase const &c) {
    VR.eval();
    std::string const &s = c.s;
    if (needs_escape(s)) VR.nontrivial(vr::fnv(s, 11));
    std::string a = cppcms::util::escape(s), un, why;
    V_CHECK(ref_unescape(a, un, why), "escape:markup-survives", why + " input=" + vr::show(s) + " out=" + vr::show(a));
    V_CHECK(un == s, "escape:not-invertible", "un-escape(out)!=input input=" + vr::show(s) + " out=" + vr::show(a));
    { std::ostringstream o; cppcms::util::escape(s.data(), s.data() + s.size(), o); V_CHECK(o.str() == a && o.good(), "escape:ostream-differs", vr::show(s)); }
    { std::stringbuf b; int r = cppcms::util::escape(s.data(), s.data() + s.size(), b); V_CHECK(r == 0 && b.str() == a, "escape:streambuf-differs", vr::show(s)); }
    { std::ostringstream o; o << cppcms::filters::escape(s); V_CHECK(o.str() == a, "escape:filter-differs", "filters::escape gives " + vr::show(o.str()) + " for " + vr::show(s)); }
    { std::ostringstream o; o << cppcms::filters::escape(cppcms::filters::streamable(s)) << cppcms::filters::escape(s); V_CHECK(o.str() == a + a, "escape:filter-twice-differs", vr::show(s)); }
    {
        cppcms::widgets::text t; t.value(s);
        std::ostringstream o; cppcms::form_context ctx(o);
        t.render_value(ctx);
        V_CHECK(o.str() == " value=\"" + a + "\"", "escape:widget-differs", "widgets::text renders " + vr::show(o.str()) + " for " + vr::show(s));
    }
    // failing stream buffer: reports failure, wrote a prefix of the right answer
    size_t k = c.k < 0 ? 0 : (size_t)c.k;
    {
        limited_buf lb(k);
        int r = cppcms::util::escape(s.data(), s.data() + s.size(), lb);
        V_CHECK(a.compare(0, lb.got.size(), lb.got) == 0, "escape:failing-buf-not-prefix", vr::show(s) + " k=" + std::to_string(k));
        if (a.size() <= k) V_CHECK(r == 0 && lb.got == a, "escape:failing-buf-spurious-error", vr::show(s));
        else { V_CHECK(r != 0, "escape:failing-buf-error-unreported", vr::show(s) + " k=" + std::to_string(k)); VR.cls("escape.failing_buf_hit"); }
        limited_buf lb2(k); std::ostream os(&lb2);
        cppcms::util::escape(s.data(), s.data() + s.size(), os);
        V_CHECK((a.size() > k) == os.fail(), "escape:ostream-failbit-wrong", vr::show(s) + " k=" + std::to_string(k));
        V_CHECK(a.compare(0, lb2.got.size(), lb2.got) == 0, "escape:ostream-failing-not-prefix", vr::show(s));
    }
    if (VR.want_sample()) VR.sample("escape " + vr::show(s, 60) + " -> " + vr::show(a, 80));
    return ok();
}

static Outcome p_url(SCase const &c) {
    VR.eval();
    std::string const &s = c.s;
    bool nt = false; for (unsigned char ch : s) if (!unreserved(ch)) nt = true;
    if (nt) VR.nontrivial(vr::fnv(s, 12));
    std::string a = cppcms::util::urlencode(s), un, why;
    V_CHECK(ref_pct_decode_strict(a, un, why), "urlencode:alphabet", why + " input=" + vr::show(s) + " out=" + vr::show(a));
    V_CHECK(un == s, "urlencode:wrong", "reference decode of output != input: " + vr::show(s) + " -> " + vr::show(a));
    V_CHECK(cppcms::util::urldecode(a) == s, "urldecode:not-inverse", "urldecode(urlencode(x))!=x for " + vr::show(s) + " enc=" + vr::show(a));
    V_CHECK(cppcms::util::urldecode(a.data(), a.data() + a.size()) == s, "urldecode:ptr-form", vr::show(s));
    { std::ostringstream o; cppcms::util::urlencode(s.data(), s.data() + s.size(), o); V_CHECK(o.str() == a, "urlencode:ostream-differs", vr::show(s)); }
    { std::stringbuf b; int r = cppcms::util::urlencode(s.data(), s.data() + s.size(), b); V_CHECK(r == 0 && b.str() == a, "urlencode:streambuf-differs", vr::show(s)); }
    { std::ostringstream o; o << cppcms::filters::urlencode(s); V_CHECK(o.str() == a, "urlencode:filter-differs", vr::show(s) + " -> " + vr::show(o.str())); }
    size_t k = c.k < 0 ? 0 : (size_t)c.k;
    { limited_buf lb(k); int r = cppcms::util::urlencode(s.data(), s.data() + s.size(), lb);
      V_CHECK(a.compare(0, lb.got.size(), lb.got) == 0, "urlencode:failing-buf-not-prefix", vr::show(s));
      // NOTE: the property does not state that urlencode reports stream failure (it does not: the output iterator is passed
      // by value, so failed() is lost).  Only "wrote a prefix of the right answer" is required here; see DESIGN.md section 6.
      if (a.size() <= k) V_CHECK(r == 0 && lb.got == a, "urlencode:failing-buf-spurious-error", vr::show(s));
      (void)r; }
    // upper-case hex and '+' are decoded too (metamorphic: same result)
    { std::string up = a; for (size_t i = 0; i + 2 < up.size(); i++) if (up[i] == '%') { up[i + 1] = toupper(up[i + 1]); up[i + 2] = toupper(up[i + 2]); }
      V_CHECK(cppcms::util::urldecode(up) == s, "urldecode:uppercase-hex", vr::show(s)); }
    if (VR.want_sample()) VR.sample("url " + vr::show(s, 60) + " -> " + vr::show(a, 80));
    return ok();
}

static Outcome p_b64(SCase const &c) {
    VR.eval();
    std::string const &s = c.s;
    if (!s.empty()) VR.nontrivial(vr::fnv(s, 13));
    std::string ref = ref_b64(s);
    std::string a = cppcms::b64url::encode(s);
    V_CHECK(a == ref, "b64:encode-wrong", "encode(" + vr::show(s) + ")=" + a + " reference=" + ref);
    for (char ch : a) V_CHECK(strchr(B64, ch) && ch, "b64:alphabet", "character outside URL-safe alphabet in " + a);
    int es = cppcms::b64url::encoded_size(s.size());
    V_CHECK(es == (int)ref.size(), "b64:encoded_size", "encoded_size(" + std::to_string(s.size()) + ")=" + std::to_string(es) + " real=" + std::to_string(ref.size()));
    {   // pointer form into a buffer of exactly encoded_size bytes (ASan guards the next byte)
        std::unique_ptr<unsigned char[]> buf(new unsigned char[es ? es : 1]);
        unsigned char const *b = (unsigned char const *)s.data();
        unsigned char *e = cppcms::b64url::encode(b, b + s.size(), buf.get());
        V_CHECK(e == buf.get() + es, "b64:encode-ptr-end", "returned pointer != target+encoded_size for len " + std::to_string(s.size()));
        V_CHECK(std::string((char *)buf.get(), es) == ref, "b64:encode-ptr-wrong", vr::show(s));
        std::ostringstream o; cppcms::b64url::encode(b, b + s.size(), o);
        V_CHECK(o.str() == ref, "b64:encode-stream-wrong", vr::show(s));
        std::ostringstream o2; o2 << cppcms::filters::base64_urlencode(s);
        V_CHECK(o2.str() == ref, "b64:filter-wrong", vr::show(s) + " -> " + o2.str());
    }
    int ds = cppcms::b64url::decoded_size(a.size());
    V_CHECK(ds == (int)s.size(), "b64:decoded_size", "decoded_size(" + std::to_string(a.size()) + ")=" + std::to_string(ds) + " real=" + std::to_string(s.size()));
    {
        std::unique_ptr<unsigned char[]> buf(new unsigned char[ds ? ds : 1]);
        unsigned char const *b = (unsigned char const *)a.data();
        unsigned char *e = cppcms::b64url::decode(b, b + a.size(), buf.get());
        V_CHECK(e == buf.get() + ds, "b64:decode-ptr-end", "returned pointer != target+decoded_size for len " + std::to_string(a.size()));
        V_CHECK(std::string((char *)buf.get(), ds) == s, "b64:decode-ptr-wrong", vr::show(s));
    }
    { std::string out; bool r = cppcms::b64url::decode(a, out); V_CHECK(r && out == s, "b64:decode-not-inverse", "decode(encode(x))!=x for " + vr::show(s)); }
    { std::string out = "previous-content"; bool r = cppcms::b64url::decode(a, out);
      V_CHECK(r && out == s, s.empty() ? "b64:decode-empty-keeps-old-output" : "b64:decode-nonempty-target", "decode into a non-empty string gives " + vr::show(out) + " for x=" + vr::show(s)); }
    if (VR.want_sample()) VR.sample("b64 " + vr::show(s, 60) + " -> " + a.substr(0, 80));
    return ok();
}

// arbitrary (malformed) input to the decoders: clean result, never a crash, string form agrees with size rule
static Outcome p_decoders(SCase const &c) {
    VR.eval();
    std::string const &s = c.s;
    VR.nontrivial(vr::fnv(s, 14));
    {
        std::string out = "zz"; bool r = cppcms::b64url::decode(s, out);
        int ds = cppcms::b64url::decoded_size(s.size());
        V_CHECK(r == (ds >= 0), "b64:decode-arbitrary-status", "len=" + std::to_string(s.size()));
        if (r) V_CHECK((int)out.size() == ds, s.empty() ? "b64:decode-empty-keeps-old-output" : "b64:decode-arbitrary-size", "len=" + std::to_string(s.size()) + " out=" + std::to_string(out.size()));
        if (ds >= 0) {
            std::unique_ptr<unsigned char[]> buf(new unsigned char[ds ? ds : 1]);
            unsigned char const *b = (unsigned char const *)s.data();
            unsigned char *e = cppcms::b64url::decode(b, b + s.size(), buf.get());
            V_CHECK(e == buf.get() + ds, "b64:decode-arbitrary-ptr-end", "len=" + std::to_string(s.size()));
        }
    }
    {
        std::string d = cppcms::util::urldecode(s);
        V_CHECK(d.size() <= s.size(), "urldecode:grows", vr::show(s));
        V_CHECK(cppcms::util::urldecode(s.data(), s.data() + s.size()) == d, "urldecode:forms-differ", vr::show(s));
        // reference: '+'->' ', %XX with two hex digits -> byte, a '%' not followed by two hex digits is dropped (documented
        // behaviour is only "decodes"; the oracle here is restricted to inputs without a malformed '%')
        bool malformed = false; std::string ref;
        for (size_t i = 0; i < s.size(); i++) {
            if (s[i] == '+') ref += ' ';
            else if (s[i] == '%') { if (i + 2 < s.size() + 0 && hexv(s[i + 1]) >= 0 && hexv(s[i + 2]) >= 0) { ref += char(hexv(s[i + 1]) * 16 + hexv(s[i + 2])); i += 2; } else malformed = true; }
            else ref += s[i];
        }
        if (!malformed) { V_CHECK(d == ref, "urldecode:wrong", vr::show(s) + " -> " + vr::show(d)); VR.cls("urldecode.wellformed"); }
        else VR.cls("urldecode.malformed_pct");
    }
    return ok();
}

// ---- enumeration driver ----------------------------------------------------------------------------------
template <class F> static bool enumerate(const char *name, int maxlen, F body, long stride = 1, long offset = 0) {
    std::string s; long idx = 0;
    for (int len = 0; len <= maxlen; len++) {
        s.assign(len, '\0');
        unsigned long long total = 1; for (int i = 0; i < len; i++) total *= 256;
        for (unsigned long long v = 0; v < total; v++, idx++) {
            if (stride > 1 && (idx % stride) != offset) continue;
            unsigned long long t = v; for (int i = len - 1; i >= 0; i--) { s[i] = char(t & 255); t >>= 8; }
            SCase c; c.s = s; c.k = (int)(v % 7);
            if (!vr::run_direct(name, c, body)) return false;
        }
    }
    return true;
}

static rc::Gen<std::string> gen_text(int maxlen) {
    // biased to characters that must be transformed
    auto ch = rc::gen::weightedOneOf<unsigned char>({
        {4, rc::gen::arbitrary<unsigned char>()},
        {3, vr::byte_of(std::string("<>&\"'%+ /=?#;:\x7f\x80\xff\0", 18))},
        {3, rc::gen::map(vr::range<int>(32, 127), [](int c) { return (unsigned char)c; })}});
    return rc::gen::mapcat(rc::gen::weightedOneOf<int>({{6, vr::range<int>(0, 64)}, {3, vr::range<int>(100, 400)}, {1, vr::range<int>(1000, maxlen)}}), [ch](int n) {
        return rc::gen::map(rc::gen::container<std::vector<unsigned char>>(n, ch), [](std::vector<unsigned char> v) { return std::string(v.begin(), v.end()); });
    });
}
static rc::Gen<SCase> gen_case(int maxlen) {
    return rc::gen::map(rc::gen::pair(gen_text(maxlen), vr::range<int>(0, 700)), [](std::pair<std::string, int> p) { SCase c; c.s = p.first; c.k = p.second; return c; });
}
static rc::Gen<SCase> gen_dec_case() {
    auto ch = rc::gen::weightedOneOf<unsigned char>({{5, vr::byte_of(std::string("ABCZaz019-_%+=/.*"))}, {2, rc::gen::arbitrary<unsigned char>()}, {2, vr::byte_of(std::string("0123456789abcdefABCDEFg%"))}});
    return rc::gen::map(rc::gen::mapcat(vr::range<int>(0, 80), [ch](int n) { return rc::gen::container<std::vector<unsigned char>>(n, ch); }),
                        [](std::vector<unsigned char> v) { SCase c; c.s.assign(v.begin(), v.end()); return c; });
}

int main(int argc, char **argv) {
    std::vector<std::unique_ptr<vr::PropBase>> props;
    int maxlen = vr::thorough() ? 65536 : 8192;
    props.push_back(vr::prop<SCase>("escape", gen_case(maxlen), p_escape));
    props.push_back(vr::prop<SCase>("url", gen_case(maxlen), p_url));
    props.push_back(vr::prop<SCase>("b64", gen_case(maxlen), p_b64));
    props.push_back(vr::prop<SCase>("decoders", gen_dec_case(), p_decoders));
    if (!vr::replay_arg(argc, argv)) {
        vr::install_crash_hooks();
        std::string mode = vr::env("C15_MODE", "all");
        long stride = vr::envl("C15_STRIDE", 1), off = vr::envl("C15_OFFSET", 0);
        bool good = true;
        if (mode == "enum" || mode == "all") {
            VR.disjoint = true;
            good = enumerate("escape", 2, p_escape, stride, off) && good;
            good = enumerate("url", 2, p_url, stride, off) && good;
            good = enumerate("b64", (int)vr::envl("C15_B64_LEN", 2), p_b64, stride, off) && good;
            good = enumerate("decoders", 2, p_decoders, stride, off) && good;
            // every length 0..1024 for the size formulas (content: counter bytes)
            if (off == 0) for (int n = 0; n <= 1024 && good; n++) {
                SCase c; c.s.resize(n); for (int i = 0; i < n; i++) c.s[i] = char(i * 7 + n);
                VR.cls("b64.length_grid");
                good = vr::run_direct("b64", c, p_b64);
            }
            VR.flush();
            if (mode == "enum") { VR.finish(); return good ? 0 : 1; }
        }
        int r = vr::rc_main(argc, argv, props);
        return (good && r == 0) ? 0 : 1;
    }
    return vr::rc_main(argc, argv, props);
}
