// C17 — every scheduled handler runs exactly once: posts, timers, I/O waits, pool jobs.
//
// Three properties in one binary (built twice: ThreadSanitizer and ASan+UBSan):
//   loop   generated programs of k producer threads (post / set_timer_event / cancel_timer_event / set_io_event /
//          cancel_io_events / readiness creation / deadline_timer and stream_socket operations carried onto the loop thread /
//          throwing handlers / stop racing with posts) against one running booster::aio::io_service; exactly-once ledger.
//   pool   j threads posting / cancelling against cppcms::thread_pool, throwing jobs, stop racing with posts.
//   fdops  dedicated, deterministic-by-rendezvous scenarios for the ordering of deferred descriptor operations
//          (cancel_io_events queued behind the poll, a later set_io_event executed directly, descriptor numbers re-used meanwhile);
//          regression of the defect repaired by /repo 4a502e5.  The loop property searches the same classes with generated programs:
//          descriptor operations take effect in the order in which the calls were made (calls that overlap in time: either order).
//
// Liveness ("the handler is eventually invoked") is never decided by a clock.  The poll primitives of the three reactors are
// interposed (--wrap=epoll_wait/poll/select): when the loop thread is about to block indefinitely (time-out >= 30 s, i.e. no
// near timer and an empty dispatch queue), every other harness thread is blocked waiting for a handler, and a zero-time-out
// poll reports nothing, the system is quiescent: nothing can ever wake the loop, so a handler that is still owed is lost.
// A wall-clock watchdog exists only as a safety net and yields `inconclusive`.
#include "vrc.h"
#include <booster/aio/io_service.h>
#include <booster/aio/reactor.h>
#include <booster/aio/deadline_timer.h>
#include <booster/aio/stream_socket.h>
#include <booster/aio/buffer.h>
#include <booster/aio/aio_category.h>
#include <booster/posix_time.h>
#include <cppcms/thread_pool.h>
#include <array>
#include <atomic>
#include <climits>
#include <csignal>
#include <chrono>
#include <condition_variable>
#include <deque>
#include <thread>
#include <dirent.h>
#include <fcntl.h>
#include <poll.h>
#include <pthread.h>
#include <sched.h>
#include <sys/epoll.h>
#include <sys/select.h>
#include <sys/socket.h>

using vr::Outcome; using vr::ok; using vr::bad;
namespace aio = booster::aio;
typedef booster::system::error_code error_code;

static bool g_replay = false;
static int g_watchdog_s = 90;

// ======================================================================================================================
// quiescence detector shared by the wrappers and the scenario
// ======================================================================================================================
struct Idle {
    std::mutex m;                       // also guards the ledger of the running scenario
    std::condition_variable cv;
    int active = 0;                     // harness threads that are running (not blocked waiting for the loop)
    std::vector<std::function<bool()> const *> waiting;
    std::function<void()> snapshot;     // called (m held) when quiescence is declared: records what is still owed at that moment
    bool armed = false, abort = false, deadlock = false, watchdog = false, loop_exited = false, stopped = false, stop_called = false, deadlock_after_stop = false;
    bool loop_sleeping = false;         // the loop thread is inside an indefinite reactor wait (polling_ is set in the library)
    int cmd = 0; long epoch_started = 0; // loop thread after run() returned: 1 = reset() and run() again on this thread, 2 = leave
    void reset(int act) { active = act; waiting.clear(); armed = true; abort = deadlock = watchdog = loop_exited = stopped = stop_called = deadlock_after_stop = loop_sleeping = false; }
};
static Idle I;
static thread_local bool t_is_loop = false;

static bool idle_candidate() {
    std::lock_guard<std::mutex> l(I.m);
    if (!I.armed || I.abort || I.active != 0) return false;
    for (auto p : I.waiting) if (!(*p)()) return true;
    return false;
}
static bool idle_aborting() { std::lock_guard<std::mutex> l(I.m); return I.abort; }
static void declare_deadlock() { std::lock_guard<std::mutex> l(I.m); if (!I.deadlock) { I.deadlock_after_stop = I.stop_called; if (I.snapshot) I.snapshot(); } I.deadlock = I.abort = true; I.cv.notify_all(); }

// real: int(int timeout_ms).  Only the loop thread's indefinite waits are sliced.
template <class Real> static int sliced(Real real, int timeout) {
    if (!t_is_loop || (timeout >= 0 && timeout < 30000)) return real(timeout);
    struct Sleeping {
        Sleeping() { std::lock_guard<std::mutex> l(I.m); I.loop_sleeping = true; I.cv.notify_all(); }
        ~Sleeping() { std::lock_guard<std::mutex> l(I.m); I.loop_sleeping = false; }
    } sleeping;
    for (;;) {
        if (idle_aborting()) return real(20);
        bool cand = idle_candidate();       // read BEFORE the zero-time-out poll: everything the blocked threads issued is visible to it
        int r = real(0);
        if (r != 0) return r;
        if (cand) { declare_deadlock(); return 0; }
        r = real(10);
        if (r != 0) return r;
    }
}
extern "C" {
int __real_epoll_wait(int, struct epoll_event *, int, int);
int __real_poll(struct pollfd *, nfds_t, int);
int __real_select(int, fd_set *, fd_set *, fd_set *, struct timeval *);
int __wrap_epoll_wait(int ep, struct epoll_event *ev, int n, int timeout) {
    return sliced([&](int t) { return __real_epoll_wait(ep, ev, n, t); }, timeout);
}
int __wrap_poll(struct pollfd *fds, nfds_t n, int timeout) {
    return sliced([&](int t) { return __real_poll(fds, n, t); }, timeout);
}
int __wrap_select(int n, fd_set *r, fd_set *w, fd_set *e, struct timeval *tv) {
    if (!t_is_loop) return __real_select(n, r, w, e, tv);
    long long ms = tv ? (long long)tv->tv_sec * 1000 + tv->tv_usec / 1000 : -1;
    if (ms >= 0 && ms < 30000) return __real_select(n, r, w, e, tv);
    fd_set r0, w0, e0;
    if (r) r0 = *r; if (w) w0 = *w; if (e) e0 = *e;
    return sliced([&](int t) {
        if (r) *r = r0; if (w) *w = w0; if (e) *e = e0;
        struct timeval x; x.tv_sec = t / 1000; x.tv_usec = (t % 1000) * 1000;
        return __real_select(n, r, w, e, &x);
    }, ms < 0 ? -1 : 3600000);
}
}

// ======================================================================================================================
// loop programs
// ======================================================================================================================
enum PK { P_POST, P_TIMER, P_TCANCEL, P_IO, P_IOCANCEL, P_MAX };
static const char *PKN[] = {"post", "timer", "timer+cancel", "io+ready", "io+cancel"};
enum { O_STOPSELF = 100 };       // internal: carried onto the loop thread, calls stop() from a handler
enum OpK { O_POST, O_THROW, O_TIMER, O_TCANCEL, O_ARM, O_IOCANCEL, O_READY, O_HUP, O_FLUSH, O_YIELD, O_DT, O_DTCANCEL, O_SSREAD, O_SSWRITE, O_SSCANCEL, O_CLOSE, O_MAX };
static const char *OPN[] = {"post", "throw", "timer", "tcancel", "arm", "iocancel", "ready", "hup", "flush", "yield", "dt", "dtcancel", "ssread", "sswrite", "sscancel", "close"};
struct Op { int k = 0, a = 0, b = 0, c = 0; };
// One io_service lives through 1..3 epochs: run() ... everything drained ... stop() ... run() returns ... reset() ... run() again.
//   stop_mode     how the epoch's run() is ended: 0 stop() from another thread while the loop sleeps in the reactor, 1 stop() from a
//                 handler on the loop thread, 2 stop() from another thread at once (the only mode of old case files)
//   restart_mode  who runs the next epoch: 0 the same thread calls reset() and run() again, 1 the thread is joined, reset(), a new thread
//   probes        (epochs after the first) operations issued one at a time from a non-loop thread while the loop sleeps in the reactor,
//                 each waited for before the next one; rerun: the producer programs run again in this epoch after the probes
// O_CLOSE (a = scenario index, b = packed spec): a wait is armed on a descriptor of its own, then the descriptor is closed the documented
// way (stream_socket::close(), or cancel_io_events(fd) followed by ::close(fd) - exactly what basic_io_device::close() does), at once a
// new socket pair is created (it normally receives the number just freed), made ready and a wait is armed on it.
//   mode 0: closed by the producer thread while the loop sleeps in the reactor        (the cancel is queued, ::close comes first)
//   mode 1: closed by a handler on the loop thread while descriptor operations are queued behind it
//   mode 2: closed by a handler on the loop thread, nothing arranged to be queued    (control)
// kind 0 raw descriptor / 1 stream_socket object (used by one thread at a time, never concurrently); olddir, newdir: 0 in, 1 out, (newdir) 2 both
struct CloseSpec { int mode, kind, olddir, newdir; };
static CloseSpec unpack_close(int b) { b = (b % 36 + 36) % 36; return CloseSpec{b % 3, (b / 3) % 2, (b / 6) % 2, (b / 12) % 3}; }
static int pack_close(int mode, int kind, int olddir, int newdir) { return mode + 3 * kind + 6 * olddir + 12 * newdir; }
static std::string close_text(int b) {
    CloseSpec x = unpack_close(b);
    return std::string(x.mode == 0 ? "other-thread-while-sleeping" : x.mode == 1 ? "loop-handler-ops-queued" : "loop-handler") + (x.kind ? ",stream_socket" : ",raw") + (x.olddir ? ",old=out" : ",old=in") +
           (x.newdir == 0 ? ",new=in" : x.newdir == 1 ? ",new=out" : ",new=both");
}
static const int MAXCS = 6;       // scenario indices 0..5 from the programs, 6 = the prelude issued before run() is called for the first time
struct Epoch { int stop_mode = 2, restart_mode = 0, rerun = 0; std::vector<int> probes; };
struct LCase {
    int reactor = 3, fin = 0, npairs = 1, nblocked = 0, nstream = 0, ndt = 0, stop_yield = 0;
    std::vector<std::vector<Op>> progs;
    std::vector<Epoch> eps = std::vector<Epoch>(1);
    int prelude = -1;                // packed close spec (mode 1) issued before the loop thread exists: every operation is queued, deterministically
    void encode(vr::CaseWriter &w) const {
        w.i(reactor).i(fin).i(npairs).i(nblocked).i(nstream).i(ndt).i(stop_yield).i(progs.size()).nl();
        for (auto &p : progs) { w.i(p.size()); for (auto &o : p) w.i(o.k).i(o.a).i(o.b).i(o.c); w.nl(); }
        w.i(eps.size()).nl();
        for (auto &e : eps) { w.i(e.stop_mode).i(e.restart_mode).i(e.rerun).i(e.probes.size()); for (int k : e.probes) w.i(k); w.nl(); }
        w.i(prelude).nl();
    }
    bool has_close() const { if (prelude >= 0) return true; for (auto &p : progs) for (auto &o : p) if (o.k == O_CLOSE) return true; return false; }
    int nprobe_slots() const { int n = 0; for (auto &e : eps) for (int k : e.probes) if (k == P_IO || k == P_IOCANCEL) n++; return n; }
    static LCase decode(vr::CaseReader &r) {
        LCase c; c.reactor = r.i(); c.fin = r.i(); c.npairs = r.i(); c.nblocked = r.i(); c.nstream = r.i(); c.ndt = r.i(); c.stop_yield = r.i();
        int k = r.i(); c.progs.resize(k);
        for (auto &p : c.progs) { int n = r.i(); p.resize(n); for (auto &o : p) { o.k = r.i(); o.a = r.i(); o.b = r.i(); o.c = r.i(); } }
        if (r.more()) {          // case files written before epochs existed end here: one epoch, stop at once
            int ne = r.i(); if (ne < 1) ne = 1; c.eps.assign(ne, Epoch());
            for (auto &e : c.eps) { e.stop_mode = r.i(); e.restart_mode = r.i(); e.rerun = r.i(); int n = r.i(); e.probes.resize(n); for (auto &k : e.probes) k = ((int)r.i() % P_MAX + P_MAX) % P_MAX; }
            if (r.more()) c.prelude = (int)r.i();
        }
        return c;
    }
    int nslots() const { return 2 * npairs + nblocked; }
    std::string text() const {
        std::ostringstream s;
        s << (reactor == 1 ? "select" : reactor == 2 ? "poll" : "epoll") << " fin=" << (fin ? "stop-race" : "drain") << " pairs=" << npairs << "+" << nblocked
          << "b streams=" << nstream << " dt=" << ndt;
        for (size_t i = 0; i < progs.size(); i++) {
            s << " | P" << i << ":";
            for (auto &o : progs[i]) {
                s << " " << OPN[o.k];
                if (o.k == O_TIMER) s << "(" << (o.a == 0 ? "past" : o.a == 1 ? "now" : o.a == 2 ? "+" + std::to_string(o.b) + "ms" : o.a == 3 ? "slot" + std::to_string(o.b) : "far") << ")";
                else if (o.k == O_ARM) s << "(s" << o.a << (o.b ? ",out" : ",in") << (o.c ? ",loop" : "") << ")";
                else if (o.k == O_IOCANCEL || o.k == O_READY) s << "(s" << o.a << (o.k == O_READY ? (o.b ? ",out" : ",in") : (o.c ? ",loop" : o.b & 1 ? ",check" : "")) << ")";
                else if (o.k == O_TCANCEL) s << "(P" << o.a << "#" << o.b << ")";
                else if (o.k == O_CLOSE) s << "(#" << o.a % MAXCS << "," << close_text(o.b) << ")";
            }
        }
        if (prelude >= 0) s << " || before run(): close(" << close_text(prelude) << ")";
        if (eps.size() > 1 || eps[0].stop_mode != 2) {
            s << " || epochs=" << eps.size();
            for (size_t e = 0; e < eps.size(); e++) {
                s << " [E" << e << ":";
                if (e) { s << " probes:"; for (int k : eps[e].probes) s << " " << PKN[k]; if (eps[e].rerun) s << " +programs"; }
                if (!(e + 1 == eps.size() && fin)) s << " stop=" << (eps[e].stop_mode == 0 ? "other-thread-while-sleeping" : eps[e].stop_mode == 1 ? "from-handler" : "other-thread-at-once");
                if (e + 1 < eps.size()) s << " restart=" << (eps[e].restart_mode ? "new-thread" : "same-thread");
                s << "]";
            }
        }
        return s.str();
    }
};

enum HK { K_POST, K_POSTE, K_POSTIO, K_THROW, K_TIMER, K_IO, K_MARK, K_CMARK, K_CARRIER, K_DT, K_SS };
static const char *HKN[] = {"post", "post", "post", "post", "timer", "io", "post", "post", "post", "deadline_timer", "stream"};
struct HRec {
    int kind = 0, count = 0, owner = 0;
    int slot = -1, dir = 0;
    booster::ptime deadline; int tid = -1; long arm_tick = 0; bool is_far = false, cancel_claimed = false, deferred_cancel_check = false;
    long cancels_at_arm = 0; long arm_end = 0;        // arm_end: tick taken after set_io_event returned (0: still inside the call)
    int evalue = 0; size_t nvalue = 0;
    int obj = -1;
    Op op;                      // carrier: the operation to perform on the loop thread
    char buf[8];
};
struct HThrow { int id; };
struct CancelRec { long start, end; };

struct Scn;
struct F0 { Scn *s; int id; void operator()() const; };
struct FE { Scn *s; int id; void operator()(error_code const &e) const; };
struct FIO { Scn *s; int id; void operator()(error_code const &e, size_t n) const; };

static bool is_canceled(error_code const &e) { return e.value() == aio::aio_error::canceled && e.category() == aio::aio_error_cat; }

struct Scn {
    LCase const &c;
    std::unique_ptr<aio::io_service> srv;
    std::deque<HRec> hs;                                  // guarded by I.m
    std::vector<int> fds, peer;                            // per slot: the armable end and its peer
    std::vector<std::array<bool, 2>> ready; std::vector<bool> hup;
    std::vector<std::array<int, 2>> busy;                 // outstanding handler id per (slot, dir) or -1
    std::vector<long> cancels_started, cancel_inflight, last_cancel_end, last_done_cancel_start;   // per slot, ticks
    std::vector<std::vector<int>> my_timers;              // per producer: handler ids of timers armed
    std::map<int, std::deque<CancelRec>> tcancels;        // per timer id (deque: stable references)
    long tick = 1; long raw_cancel_last_end = 0; int raw_cancel_open_n = 0; long dt_cancel_last_tick = 0;
    std::vector<std::unique_ptr<aio::deadline_timer>> dts; std::vector<int> dt_busy; std::vector<long> dt_cancels;
    std::vector<std::unique_ptr<aio::stream_socket>> sss; std::vector<int> ss_busy, ss_fd, ss_peer; std::vector<long> ss_cancels, ss_written, ss_read;
    std::vector<int> allfds;
    booster::ptime t0;
    pthread_t loop_tid; bool loop_tid_set = false;
    std::string vsig, vmsg, owed_sig, owed_msg;
    int restarts = 0;
    std::map<std::string, long> cls;

    explicit Scn(LCase const &cc) : c(cc) {}

    // ---- ledger helpers (I.m held) ----
    void viol(std::string const &sig, std::string const &msg) {
        if (vsig.empty()) { vsig = sig; vmsg = msg; }
        I.abort = true; I.cv.notify_all();
    }
    int newh(int kind, int owner) { hs.emplace_back(); hs.back().kind = kind; hs.back().owner = owner; return (int)hs.size() - 1; }
    bool timer_cancel_justified(HRec const &h) {
        auto it = tcancels.find(h.tid);
        if (it == tcancels.end()) return false;
        for (auto &r : it->second) if (r.end > h.arm_tick) return true;
        return false;
    }
    bool any_raw_cancel_after(long t) { return raw_cancel_open_n > 0 || raw_cancel_last_end > t; }
    std::string hdesc(int id) {
        HRec &h = hs[id]; std::ostringstream s; s << HKN[h.kind] << " handler #" << id << " (producer " << h.owner;
        if (h.kind == K_IO) s << ", slot " << h.slot << (h.dir ? " out" : " in");
        if (h.kind == K_TIMER) s << ", timer id " << h.tid << (h.is_far ? " far" : "");
        s << ")"; return s.str();
    }
    // common entry of every handler; returns false when the invocation is already a violation
    bool enter(int id) {
        HRec &h = hs[id];
        h.count++;
        if (loop_tid_set && !pthread_equal(pthread_self(), loop_tid)) viol("handler:wrong-thread", hdesc(id) + " invoked on a thread that does not run the loop");
        if (h.count > 1) { viol(std::string(HKN[h.kind]) + ":invoked-twice", hdesc(id) + " invoked " + std::to_string(h.count) + " times"); return false; }
        return true;
    }
    void done() { I.cv.notify_all(); }

    // ---- waiting ----
    // returns true when pred became true; false when the scenario is being aborted / the loop has gone
    bool wait_until(std::function<bool()> const &pred, bool for_exit = false) {
        std::unique_lock<std::mutex> l(I.m);
        if (pred()) return true;
        auto over = [for_exit] { return I.abort || (!for_exit && (I.loop_exited || I.stopped)); };
        if (over()) return false;
        I.waiting.push_back(&pred); I.active--;
        auto dl = std::chrono::steady_clock::now() + std::chrono::seconds(g_watchdog_s);
        bool r = false;
        for (;;) {
            if (pred()) { r = true; break; }
            if (over()) break;
            if (I.cv.wait_until(l, dl) == std::cv_status::timeout && !pred() && !I.abort) { I.watchdog = I.abort = true; I.cv.notify_all(); }
        }
        for (size_t i = 0; i < I.waiting.size(); i++) if (I.waiting[i] == &pred) { I.waiting.erase(I.waiting.begin() + i); break; }
        I.active++;
        return r;
    }
    bool aborted() { std::lock_guard<std::mutex> l(I.m); return I.abort || I.loop_exited; }

    // ---- handler bodies (loop thread) ----
    void run0(int id) {
        Op op; int kind;
        {
            std::lock_guard<std::mutex> l(I.m);
            if (!enter(id)) return;
            HRec &h = hs[id]; kind = h.kind; op = h.op;
            done();
        }
        if (kind == K_THROW) throw HThrow{id};
        if (kind == K_CARRIER) exec_on_loop(op, hs_owner(id));
    }
    int hs_owner(int id) { std::lock_guard<std::mutex> l(I.m); return hs[id].owner; }
    void runE(int id, error_code const &e) {
        std::lock_guard<std::mutex> l(I.m);
        if (!enter(id)) return;
        HRec &h = hs[id];
        switch (h.kind) {
        case K_POSTE:
            if (e.value() != h.evalue || !(e.category() == std::system_category())) viol("post:arguments-altered", hdesc(id) + " posted with error value " + std::to_string(h.evalue) + ", received " + std::to_string(e.value()));
            break;
        case K_TIMER:
            if (!e) {
                cls[h.cancel_claimed ? "timer.fired_despite_cancel" : "timer.fired"]++;
                if (booster::ptime::now() < h.deadline) viol("timer:fired-before-deadline", hdesc(id) + " invoked with success before its deadline");
            } else if (is_canceled(e)) {
                cls["timer.canceled"]++;
                if (h.tid < 0) h.deferred_cancel_check = true;       // set_timer_event has not returned yet: checked there
                else if (timer_cancel_justified(h)) {}
                else if (dt_cancel_last_tick > h.arm_tick) VR.excl("timer.canceled-possibly-by-deadline_timer-cancel-of-recycled-id");
                else viol("timer:canceled-without-cancel", hdesc(id) + " received aio_error::canceled although cancel_timer_event was never called with its id after it was armed");
            } else viol("timer:unexpected-error", hdesc(id) + " received " + e.message());
            break;
        case K_DT:
            dt_busy[h.obj] = -1;
            if (!e) { cls["dt.fired"]++; if (booster::ptime::now() < h.deadline) viol("timer:fired-before-deadline", hdesc(id) + " (deadline_timer) invoked with success before expires_at()"); }
            else if (is_canceled(e)) {
                cls["dt.canceled"]++;
                if (dt_cancels[h.obj] > h.cancels_at_arm) {}
                else if (any_raw_cancel_after(h.arm_tick) || dt_cancel_last_tick > h.arm_tick) VR.excl("dt.canceled-possibly-by-recycled-timer-id");
                else viol("timer:canceled-without-cancel", hdesc(id) + " (deadline_timer) received canceled although cancel() was not called after async_wait()");
            } else viol("timer:unexpected-error", hdesc(id) + " received " + e.message());
            break;
        case K_IO:
            if (busy[h.slot][h.dir] == id) busy[h.slot][h.dir] = -1;
            if (!e) {
                cls[cancels_started[h.slot] > h.cancels_at_arm ? "io.fired_despite_cancel" : "io.fired"]++;
                if (!ready[h.slot][h.dir]) viol("io:success-without-readiness", hdesc(id) + " invoked with success although nothing had made the descriptor " + (h.dir ? "writable" : "readable"));
            } else if (is_canceled(e)) {
                cls["io.canceled"]++;
                // justified by a cancel_io_events call that had not returned before this handler's set_io_event call began
                // (calls that overlap may take effect in either order; a cancel that returned earlier must not touch it)
                if (cancel_inflight[h.slot] > 0 || last_cancel_end[h.slot] > h.arm_tick) {}
                else viol("io:canceled-without-cancel", hdesc(id) + " received aio_error::canceled although every cancel_io_events call for its descriptor had returned before it was armed");
            } else {
                cls["io.error"]++;
                if (!hup[h.slot]) viol("io:unexpected-error", hdesc(id) + " received error '" + e.message() + "' on a healthy descriptor");
            }
            break;
        default: viol("harness:kind", "event handler of unexpected kind");
        }
        done();
    }
    void runIO(int id, error_code const &e, size_t n) {
        std::lock_guard<std::mutex> l(I.m);
        if (!enter(id)) return;
        HRec &h = hs[id];
        if (h.kind == K_POSTIO) {
            if (e.value() != h.evalue || n != h.nvalue) viol("post:arguments-altered", hdesc(id) + " posted with (" + std::to_string(h.evalue) + "," + std::to_string(h.nvalue) + "), received (" + std::to_string(e.value()) + "," + std::to_string(n) + ")");
        } else if (h.kind == K_SS) {
            int i = h.obj; ss_busy[i] = -1;
            if (!e) {
                cls["stream.read"]++;
                bool good = n >= 1 && n <= sizeof h.buf && ss_read[i] + (long)n <= ss_written[i];
                for (size_t j = 0; good && j < n; j++) if ((unsigned char)h.buf[j] != (unsigned char)((ss_read[i] + j) * 7 + i * 13)) good = false;
                if (!good) viol("stream:read-wrong-data", hdesc(id) + " async_read_some completed with n=" + std::to_string(n) + " at stream offset " + std::to_string(ss_read[i]) + " of " + std::to_string(ss_written[i]) + " written, or with wrong bytes");
                ss_read[i] += n;
            } else if (is_canceled(e)) {
                cls["stream.canceled"]++;
                if (!(ss_cancels[i] > h.cancels_at_arm)) viol("io:canceled-without-cancel", hdesc(id) + " (stream_socket) received canceled although cancel() was not called after async_read_some()");
                if (n != 0) viol("stream:read-wrong-data", "canceled read reports n=" + std::to_string(n));
            } else viol("io:unexpected-error", hdesc(id) + " (stream_socket) received " + e.message());
        } else viol("harness:kind", "io handler of unexpected kind");
        done();
    }

    // ---- operations ----
    void flush(int p) {
        int id;
        { std::lock_guard<std::mutex> l(I.m); id = newh(K_MARK, p); }
        srv->post(F0{this, id});
        wait_until([this, id] { return hs[id].count > 0; });
    }
    void do_arm(int slot, int dir, int p, aio::basic_io_device *dev = nullptr) {
        int id;
        {
            std::lock_guard<std::mutex> l(I.m);
            int old = busy[slot][dir];
            if (old != -1) {
                // one handler per (descriptor, direction) at a time - unless the outstanding one is doomed: its set_io_event had returned
                // before a cancel_io_events call began, and that cancel call has returned.  Operations take effect in call order, so the
                // old handler is detached (or has fired) before this registration is stored.
                HRec &o = hs[old];
                if (o.arm_end > 0 && last_done_cancel_start[slot] > o.arm_end) cls["arm.after_cancel_of_outstanding"]++;
                else { cls["arm.skipped_busy"]++; return; }
            }
            id = newh(K_IO, p); HRec &h = hs[id];
            h.slot = slot; h.dir = dir; h.cancels_at_arm = cancels_started[slot]; h.arm_tick = tick++;
            busy[slot][dir] = id; cls[dir ? "arm.out" : "arm.in"]++; if (t_is_loop) cls["arm.on_loop"]++;
            if (cancel_inflight[slot] > 0) cls["arm.during_cancel_call"]++;
            else if (last_cancel_end[slot] > 0) cls["arm.after_earlier_cancel"]++;
        }
        if (dev) { if (dir) dev->on_writeable(FE{this, id}); else dev->on_readable(FE{this, id}); }
        else srv->set_io_event(fds[slot], dir ? aio::io_service::out : aio::io_service::in, FE{this, id});
        std::lock_guard<std::mutex> l(I.m); hs[id].arm_end = tick++;
    }
    // check: after the cancel returned, flush twice and require every handler whose registration call had returned before the cancel call
    // began to have been invoked (the cancel - queued or direct - puts it into the dispatch queue before the first marker runs, the second
    // marker is queued behind it).
    void do_iocancel(int slot, int p, bool check) {
        std::vector<int> owed; long start;
        {
            std::lock_guard<std::mutex> l(I.m);
            cancels_started[slot]++; cancel_inflight[slot]++; start = tick++; cls["iocancel"]++;
            for (int d = 0; d < 2; d++) if (busy[slot][d] != -1 && hs[busy[slot][d]].arm_end > 0) owed.push_back(busy[slot][d]);
            if (busy[slot][0] != -1 || busy[slot][1] != -1) cls["iocancel.with_outstanding"]++;
        }
        srv->cancel_io_events(fds[slot]);
        {
            std::lock_guard<std::mutex> l(I.m);
            cancel_inflight[slot]--; last_cancel_end[slot] = tick++;
            if (start > last_done_cancel_start[slot]) last_done_cancel_start[slot] = start;
        }
        if (!check || t_is_loop || owed.empty()) return;
        for (int i = 0; i < 2; i++) {
            int id; { std::lock_guard<std::mutex> l(I.m); id = newh(K_MARK, p); }
            srv->post(F0{this, id});
            if (!wait_until([this, id] { return hs[id].count > 0; })) return;
        }
        std::lock_guard<std::mutex> l(I.m);
        cls["iocancel.checked"]++;
        for (int id : owed) if (hs[id].count == 0) viol("io:cancel-misses-registration", hdesc(id) + " was registered (set_io_event had returned) before cancel_io_events was called for its descriptor; the cancel returned and two "
                                                        "handlers posted afterwards have run, but it has not been invoked");
    }
    void do_ready(int slot, int dir) {
        {
            std::lock_guard<std::mutex> l(I.m);
            ready[slot][dir] = true; cls[dir ? "ready.out" : "ready.in"]++;
            if (busy[slot][dir] != -1) cls["ready.with_waiter"]++;
        }
        if (dir == 0) { char ch = 'r'; ssize_t r = ::send(peer[slot], &ch, 1, MSG_DONTWAIT | MSG_NOSIGNAL); (void)r; }
        else if (slot >= 2 * c.npairs) { char b[4096]; while (::recv(peer[slot], b, sizeof b, MSG_DONTWAIT) > 0) {} }   // only blocked ends are drained (plain ends stay readable)
    }
    void do_hup(int pair) {
        int s0, s1;
        if (pair < c.npairs) { s0 = 2 * pair; s1 = 2 * pair + 1; } else { s0 = s1 = 2 * c.npairs + (pair - c.npairs); }
        {
            std::lock_guard<std::mutex> l(I.m);
            for (int s : {s0, s1}) { ready[s][0] = ready[s][1] = true; hup[s] = true; }
            cls["hup"]++;
        }
        ::shutdown(peer[s0], SHUT_RDWR);
    }
    int do_timer(Op const &o, int p) {
        int id; booster::ptime dl;
        {
            std::lock_guard<std::mutex> l(I.m);
            id = newh(K_TIMER, p); HRec &h = hs[id];
            booster::ptime now = booster::ptime::now();
            switch (o.a) {
            case 0: dl = now - booster::ptime::milliseconds(3); cls["timer.past"]++; break;
            case 1: dl = now; cls["timer.now"]++; break;
            case 2: dl = now + booster::ptime::milliseconds(o.b); cls["timer.soon"]++; break;
            case 3: dl = t0 + booster::ptime::milliseconds(2 + 3 * o.b); cls["timer.shared_deadline"]++; break;
            default: dl = now + booster::ptime::hours(1); h.is_far = true; cls["timer.far"]++; break;
            }
            h.deadline = dl; h.arm_tick = tick++;
        }
        int tid = srv->set_timer_event(dl, FE{this, id});
        std::lock_guard<std::mutex> l(I.m);
        HRec &h = hs[id]; h.tid = tid;
        if (tid < 0) viol("timer:bad-id", "set_timer_event returned " + std::to_string(tid));
        else if (h.deferred_cancel_check && !timer_cancel_justified(h) && !(dt_cancel_last_tick > h.arm_tick)) viol("timer:canceled-without-cancel", hdesc(id) + " received canceled before set_timer_event even returned, no cancel of that id was in flight");
        my_timers[p].push_back(id);
        return id;
    }
    void cancel_timer_handler(int id) {      // id chosen and claimed under the lock by the caller
        int tid; CancelRec *rec;
        {
            std::lock_guard<std::mutex> l(I.m);
            tid = hs[id].tid;
            auto &v = tcancels[tid]; v.push_back(CancelRec{tick++, LONG_MAX}); rec = &v.back();
            raw_cancel_open_n++;
            cls[hs[id].count ? "tcancel.after_fired" : "tcancel.pending"]++;
        }
        srv->cancel_timer_event(tid);
        std::lock_guard<std::mutex> l(I.m);
        rec->end = tick++; raw_cancel_last_end = rec->end;
        raw_cancel_open_n--;
    }
    void do_tcancel(Op const &o, int /*p*/) {
        int id = -1;
        {
            std::lock_guard<std::mutex> l(I.m);
            size_t k = my_timers.size(), q = o.a % k, n = 0;
            while (n < k && my_timers[(q + n) % k].empty()) n++;      // the named producer has no timer yet: take the next one that has
            if (n == k) { cls["tcancel.skipped_none"]++; return; }
            auto &v = my_timers[(q + n) % k];
            id = v[o.b % v.size()];
            if (hs[id].cancel_claimed) { cls["tcancel.skipped_claimed"]++; return; }
            hs[id].cancel_claimed = true;
        }
        cancel_timer_handler(id);
    }
    void post_carrier(Op const &o, int p) {
        int id;
        { std::lock_guard<std::mutex> l(I.m); id = newh(K_CARRIER, p); hs[id].op = o; cls["carrier"]++; }
        srv->post(F0{this, id});
    }
    // executed on the loop thread
    void exec_on_loop(Op const &o, int p) {
        switch (o.k) {
        case O_CLOSE: close_core(o.a, p); break;
        case O_STOPSELF: { { std::lock_guard<std::mutex> l(I.m); I.stop_called = true; } srv->stop(); break; }
        case O_ARM: do_arm(o.a % c.nslots(), o.b & 1, p); break;
        case O_IOCANCEL: do_iocancel(o.a % c.nslots(), p, false); break;
        case O_DT: {
            if (!c.ndt) break;
            int i = o.a % c.ndt, id;
            {
                std::lock_guard<std::mutex> l(I.m);
                if (dt_busy[i] != -1) { cls["dt.skipped_busy"]++; break; }
                id = newh(K_DT, p); dt_busy[i] = id;
            }
            if (o.c & 1) dts[i]->expires_at(booster::ptime::now() + booster::ptime::milliseconds(o.b)); else dts[i]->expires_from_now(booster::ptime::milliseconds(o.b));
            {
                std::lock_guard<std::mutex> l(I.m);
                HRec &h = hs[id]; h.obj = i; h.deadline = dts[i]->expires_at(); h.cancels_at_arm = dt_cancels[i]; h.arm_tick = tick++; cls["dt.wait"]++;
            }
            dts[i]->async_wait(FE{this, id});
            break; }
        case O_DTCANCEL: {
            if (!c.ndt) break;
            int i = o.a % c.ndt;
            { std::lock_guard<std::mutex> l(I.m); dt_cancels[i]++; dt_cancel_last_tick = tick++; cls[dt_busy[i] != -1 ? "dt.cancel_pending" : "dt.cancel_idle"]++; }
            dts[i]->cancel();
            break; }
        case O_SSREAD: {
            if (!c.nstream) break;
            int i = o.a % c.nstream, id; char *bp;
            {
                std::lock_guard<std::mutex> l(I.m);
                if (ss_busy[i] != -1) { cls["stream.skipped_busy"]++; break; }
                id = newh(K_SS, p); ss_busy[i] = id; HRec &h = hs[id]; h.obj = i; h.cancels_at_arm = ss_cancels[i]; cls["stream.async_read"]++; bp = h.buf;
            }
            sss[i]->async_read_some(aio::buffer(bp, sizeof hs[0].buf), FIO{this, id});
            break; }
        case O_SSCANCEL: {
            if (!c.nstream) break;
            int i = o.a % c.nstream;
            { std::lock_guard<std::mutex> l(I.m); ss_cancels[i]++; cls["stream.cancel"]++; }
            sss[i]->cancel();
            break; }
        default: break;
        }
    }
    void exec(Op const &o, int p) {
        switch (o.k) {
        case O_POST: {
            int id;
            {
                std::lock_guard<std::mutex> l(I.m);
                id = newh(o.a == 1 ? K_POSTE : o.a == 2 ? K_POSTIO : K_POST, p); hs[id].evalue = o.b; hs[id].nvalue = (size_t)o.c * 977; cls["post"]++;
            }
            if (o.a == 1) srv->post(aio::event_handler(FE{this, id}), error_code(o.b, std::system_category()));
            else if (o.a == 2) srv->post(aio::io_handler(FIO{this, id}), error_code(o.b, std::system_category()), (size_t)o.c * 977);
            else srv->post(F0{this, id});
            break; }
        case O_THROW: { int id; { std::lock_guard<std::mutex> l(I.m); id = newh(K_THROW, p); cls["post.throwing"]++; } srv->post(F0{this, id}); break; }
        case O_TIMER: do_timer(o, p); break;
        case O_TCANCEL: do_tcancel(o, p); break;
        case O_ARM: if (o.c & 1) post_carrier(o, p); else do_arm(o.a % c.nslots(), o.b & 1, p); break;
        case O_IOCANCEL: if (o.c & 1) post_carrier(o, p); else do_iocancel(o.a % c.nslots(), p, (o.b & 1) != 0); break;
        case O_READY: do_ready(o.a % c.nslots(), o.b & 1); break;
        case O_HUP: do_hup(o.a % (c.npairs + c.nblocked)); break;
        case O_FLUSH: { { std::lock_guard<std::mutex> l(I.m); cls["flush"]++; } flush(p); break; }
        case O_CLOSE: close_scenario(o.a % MAXCS, p, false); break;
        case O_YIELD: for (int i = 0; i < o.a; i++) sched_yield(); break;
        case O_DT: case O_DTCANCEL: case O_SSREAD: case O_SSCANCEL: post_carrier(o, p); break;
        case O_SSWRITE: {
            if (!c.nstream) break;
            int i = o.a % c.nstream, n = 1 + o.b % 12; char b[16]; long off;
            { std::lock_guard<std::mutex> l(I.m); off = ss_written[i]; ss_written[i] += n; cls["stream.peer_write"]++; }
            for (int j = 0; j < n; j++) b[j] = char((off + j) * 7 + i * 13);
            // one writer at a time per stream (offsets must hit the socket in order): serialised by a per-stream mutex
            { std::lock_guard<std::mutex> l(ss_wm[i]); wq[i][off] = std::string(b, n); while (!wq[i].empty() && wq[i].begin()->first == wnext[i]) { std::string &d = wq[i].begin()->second; ssize_t r = ::send(ss_peer[i], d.data(), d.size(), MSG_NOSIGNAL); (void)r; wnext[i] += d.size(); wq[i].erase(wq[i].begin()); } }
            break; }
        default: break;
        }
    }
    std::deque<std::mutex> ss_wm; std::vector<std::map<long, std::string>> wq; std::vector<long> wnext;

    void producer(int p) {
        for (auto &o : c.progs[p]) { if (aborted()) break; exec(o, p); }
        std::lock_guard<std::mutex> l(I.m); I.active--; I.cv.notify_all();
    }
    void loop_main() {
        t_is_loop = true;
        { std::lock_guard<std::mutex> l(I.m); loop_tid = pthread_self(); loop_tid_set = true; }
        for (;;) {
            for (;;) {
                try { srv->run(); break; }
                catch (HThrow const &) { std::lock_guard<std::mutex> l(I.m); restarts++; continue; }
                catch (std::exception const &e) { std::lock_guard<std::mutex> l(I.m); viol("loop:run-threw", std::string("io_service::run() threw ") + e.what()); break; }
            }
            std::unique_lock<std::mutex> l(I.m);
            I.loop_exited = true; I.cv.notify_all();
            I.cv.wait(l, [] { return I.cmd != 0; });
            int cmd = I.cmd; I.cmd = 0;
            if (cmd == 2) break;
            l.unlock();
            srv->reset();                 // nobody else touches the service now: the driver waits for epoch_started
            l.lock(); I.epoch_started++; I.cv.notify_all();
        }
        t_is_loop = false;
    }
    // ---- probes: one operation at a time from this (non-loop) thread while the loop sleeps in the reactor ----
    bool wait_sleeping() { return wait_until([] { return I.loop_sleeping; }); }
    bool wait_invoked(int id) { return wait_until([this, id] { return hs[id].count > 0; }); }
    bool probe(int kind) {
        if (!wait_sleeping()) return false;
        { std::lock_guard<std::mutex> l(I.m); cls[std::string("probe.") + PKN[kind]]++; }
        switch (kind) {
        case P_POST: { int id; { std::lock_guard<std::mutex> l(I.m); id = newh(K_POST, -1); } srv->post(F0{this, id}); return wait_invoked(id); }
        case P_TIMER: { Op o; o.k = O_TIMER; o.a = 2; o.b = 2; int id = do_timer(o, 0); return wait_invoked(id); }
        case P_TCANCEL: {
            Op o; o.k = O_TIMER; o.a = 4; int id = do_timer(o, 0);
            if (!wait_sleeping()) return false;
            { std::lock_guard<std::mutex> l(I.m); hs[id].cancel_claimed = true; }
            cancel_timer_handler(id);
            return wait_invoked(id); }
        case P_IO: case P_IOCANCEL: {
            int slot = probe_slot_next++, id;
            do_arm(slot, 0, -1);
            { std::lock_guard<std::mutex> l(I.m); id = busy[slot][0]; }
            if (id < 0) return false;
            if (!wait_sleeping()) return false;
            if (kind == P_IO) do_ready(slot, 0); else do_iocancel(slot, -1, false);
            return wait_invoked(id); }
        }
        return true;
    }
    void do_stop(int mode) {
        if (mode == 0 || mode == 1) wait_sleeping();
        if (mode == 1 && !aborted()) {
            { std::lock_guard<std::mutex> l(I.m); cls["stop_from_handler"]++; }
            Op o; o.k = O_STOPSELF; post_carrier(o, -1);
        } else {
            { std::lock_guard<std::mutex> l(I.m); I.stop_called = true; cls[mode == 0 ? "stop_from_other_thread_while_sleeping" : "stop_from_other_thread_at_once"]++; }
            srv->stop();
        }
        wait_until([] { return I.loop_exited; }, true);      // a stop() the sleeping loop never notices shows up as quiescence
    }
    int probe_slot_next = 0;
    // ---- descriptor closed while its wait is armed, number re-used ----
    struct CS { CloseSpec sp; int s_old = -1, s_new = -1, s_aux = -1; std::unique_ptr<aio::stream_socket> sock; bool used = false, armed = false; int h_old = -1; std::vector<int> h_new; };
    std::vector<std::unique_ptr<CS>> css = std::vector<std::unique_ptr<CS>>(MAXCS + 1);
    // the part that closes and re-uses: on the producer thread (mode 0) or carried onto the loop thread (modes 1, 2)
    void close_core(int i, int p) {
        CS &x = *css[i];
        int oldfd, so = x.s_old, sn = x.s_new;
        {
            std::lock_guard<std::mutex> l(I.m);
            oldfd = fds[so];
            // from here on the number may name another socket: whatever the old wait reports (canceled, or an event of the new owner of the
            // number seen by poll/select before the queued removal) is accepted - once
            ready[so][0] = ready[so][1] = true; hup[so] = true; cancels_started[so]++; cancel_inflight[so]++;
            cls[std::string("close.") + (x.sp.mode == 0 ? "other_thread_while_sleeping" : x.sp.mode == 1 ? "loop_handler_ops_queued" : "loop_handler")]++;
            cls[x.sp.kind ? "close.stream_socket" : "close.raw_cancel_then_close"]++;
        }
        if (x.sp.kind) { error_code e; x.sock->close(e); }
        else { srv->cancel_io_events(oldfd); ::close(oldfd); }
        int sv[2];
        if (mkpair(sv)) { std::lock_guard<std::mutex> l(I.m); x.armed = true; fds[so] = -1; I.cv.notify_all(); return; }
        int a = sv[1] == oldfd ? 1 : 0;
        {
            std::lock_guard<std::mutex> l(I.m);
            cancel_inflight[so]--; last_cancel_end[so] = tick++;
            fds[so] = -1; for (auto &f : allfds) if (f == oldfd) f = -1;
            bool reused = sv[a] == oldfd;
            cls[reused ? "fd_number_reused" : "fd_number_not_reused"]++;
            fds[sn] = sv[a]; peer[sn] = sv[1 - a]; allfds.push_back(sv[1 - a]); if (!x.sp.kind) allfds.push_back(sv[a]);
        }
        if (x.sp.kind) x.sock->assign(sv[a]);
        if (x.sp.newdir != 1) do_ready(sn, 0);            // readable: a byte from the peer; writable: from the start
        for (int d = 0; d < 2; d++) if (x.sp.newdir == 2 || x.sp.newdir == d) {
            do_arm(sn, d, p, x.sp.kind ? x.sock.get() : nullptr);
            std::lock_guard<std::mutex> l(I.m); if (busy[sn][d] >= 0) x.h_new.push_back(busy[sn][d]); cls[d == x.sp.olddir ? "close.new_wait_same_direction" : "close.new_wait_other_direction"]++;
        }
        std::lock_guard<std::mutex> l(I.m); x.armed = true; I.cv.notify_all();
    }
    bool wait_closed(int i) {
        CS *x = css[i].get();
        return wait_until([this, x] { if (!x->armed || (x->h_old >= 0 && hs[x->h_old].count == 0)) return false; for (int id : x->h_new) if (hs[id].count == 0) return false; return true; });
    }
    void close_scenario(int i, int p, bool before_run) {
        if (!css[i]) return;
        CS &x = *css[i];
        { std::lock_guard<std::mutex> l(I.m); if (x.used) { cls["close.skipped_used"]++; return; } x.used = true; cls["close.scenarios"]++; }
        do_arm(x.s_old, x.sp.olddir, p, x.sp.kind ? x.sock.get() : nullptr);
        { std::lock_guard<std::mutex> l(I.m); x.h_old = busy[x.s_old][x.sp.olddir]; }
        Op o; o.k = O_CLOSE; o.a = i;
        if (before_run) { post_carrier(o, p); do_arm(x.s_aux, 0, p); return; }      // all queued: the registration, the closing handler, one more descriptor operation
        flush(p);                                                                    // the registration has been carried out
        if (x.sp.mode == 0) { wait_sleeping(); close_core(i, p); }
        else if (x.sp.mode == 1) { wait_sleeping(); do_arm(x.s_aux, 0, p); post_carrier(o, p); do_arm(x.s_aux, 1, p); }
        else post_carrier(o, p);
        wait_closed(i);
    }

    static int mkpair(int sv[2]) { return ::socketpair(AF_UNIX, SOCK_STREAM | SOCK_CLOEXEC, 0, sv); }
    bool setup(std::string &why) {
        std::vector<std::pair<int, int>> wanted;        // (scenario index, packed spec); the first O_CLOSE naming an index decides
        { std::set<int> seen; for (auto &pr : c.progs) for (auto &o : pr) if (o.k == O_CLOSE && seen.insert(o.a % MAXCS).second) wanted.push_back({o.a % MAXCS, o.b}); }
        if (c.prelude >= 0) wanted.push_back({MAXCS, c.prelude});
        int ns0 = c.nslots() + c.nprobe_slots(), ns = ns0 + 3 * (int)wanted.size(); probe_slot_next = c.nslots();
        fds.assign(ns, -1); peer.assign(ns, -1); ready.assign(ns, {{false, true}}); hup.assign(ns, false); busy.assign(ns, {{-1, -1}});
        cancels_started.assign(ns, 0); cancel_inflight.assign(ns, 0); last_cancel_end.assign(ns, 0); last_done_cancel_start.assign(ns, 0);
        for (int i = 0; i < c.npairs; i++) {
            int sv[2]; if (mkpair(sv)) { why = "socketpair"; return false; }
            allfds.push_back(sv[0]); allfds.push_back(sv[1]);
            fds[2 * i] = sv[0]; peer[2 * i] = sv[1]; fds[2 * i + 1] = sv[1]; peer[2 * i + 1] = sv[0];
        }
        for (int i = 0; i < c.nblocked; i++) {
            int sv[2]; if (mkpair(sv)) { why = "socketpair"; return false; }
            allfds.push_back(sv[0]); allfds.push_back(sv[1]);
            int s = 2 * c.npairs + i; fds[s] = sv[0]; peer[s] = sv[1];
            int sz = 2048; setsockopt(sv[0], SOL_SOCKET, SO_SNDBUF, &sz, sizeof sz);
            char b[1024]; memset(b, 'f', sizeof b);
            for (int n = 0; n < 4096; n++) if (::send(sv[0], b, sizeof b, MSG_DONTWAIT | MSG_NOSIGNAL) < 0) break;
            struct pollfd pf = {sv[0], POLLOUT, 0};
            bool writable = __real_poll(&pf, 1, 0) > 0;
            ready[s][1] = writable; VR.cls(writable ? "setup.blocked_end_still_writable" : "setup.blocked_end");
        }
        for (int i = 0; i < c.nstream; i++) {
            int sv[2]; if (mkpair(sv)) { why = "socketpair"; return false; }
            allfds.push_back(sv[0]); allfds.push_back(sv[1]); ss_fd.push_back(sv[0]); ss_peer.push_back(sv[1]);
        }
        for (int s = c.nslots(); s < ns0; s++) {       // a pair of its own for every descriptor probe of the later epochs
            int sv[2]; if (mkpair(sv)) { why = "socketpair"; return false; }
            allfds.push_back(sv[0]); allfds.push_back(sv[1]); fds[s] = sv[0]; peer[s] = sv[1];
        }
        for (int fd : allfds) if (fd >= FD_SETSIZE) { why = "fd too large for select"; return false; }
        ss_busy.assign(c.nstream, -1); ss_cancels.assign(c.nstream, 0); ss_written.assign(c.nstream, 0); ss_read.assign(c.nstream, 0);
        ss_wm.resize(c.nstream); wq.resize(c.nstream); wnext.assign(c.nstream, 0);
        dt_busy.assign(c.ndt, -1); dt_cancels.assign(c.ndt, 0);
        my_timers.resize(c.progs.size());
        srv.reset(new aio::io_service(c.reactor));
        for (int i = 0; i < c.ndt; i++) dts.emplace_back(new aio::deadline_timer(*srv));
        for (int i = 0; i < c.nstream; i++) { sss.emplace_back(new aio::stream_socket(*srv)); sss.back()->attach(ss_fd[i]); }
        for (size_t j = 0; j < wanted.size(); j++) {
            std::unique_ptr<CS> x(new CS); x->sp = unpack_close(wanted[j].second); if (wanted[j].first == MAXCS) x->sp.mode = 1;
            x->s_old = ns0 + 3 * (int)j; x->s_new = x->s_old + 1; x->s_aux = x->s_old + 2;
            int sa[2], sb[2]; if (mkpair(sa) || mkpair(sb)) { why = "socketpair"; return false; }
            fds[x->s_aux] = sa[0]; peer[x->s_aux] = sa[1]; allfds.push_back(sa[0]); allfds.push_back(sa[1]);
            fds[x->s_old] = sb[0]; peer[x->s_old] = sb[1]; allfds.push_back(sb[1]);
            if (x->sp.olddir == 1) {       // a write wait stays pending only on a full send buffer
                int sz = 2048; setsockopt(sb[0], SOL_SOCKET, SO_SNDBUF, &sz, sizeof sz);
                char b[1024]; memset(b, 'f', sizeof b);
                for (int n = 0; n < 4096; n++) if (::send(sb[0], b, sizeof b, MSG_DONTWAIT | MSG_NOSIGNAL) < 0) break;
                struct pollfd pf = {sb[0], POLLOUT, 0};
                ready[x->s_old][1] = __real_poll(&pf, 1, 0) > 0;
            }
            if (x->sp.kind) { x->sock.reset(new aio::stream_socket(*srv)); x->sock->assign(sb[0]); } else allfds.push_back(sb[0]);
            for (int fd : {sa[0], sa[1], sb[0], sb[1]}) if (fd >= FD_SETSIZE) { why = "fd too large for select"; return false; }
            css[wanted[j].first] = std::move(x);
        }
        return true;
    }
    void teardown() {
        for (auto &x : css) x.reset();
        sss.clear(); dts.clear(); srv.reset();
        for (int fd : allfds) if (fd >= 0) ::close(fd);
        allfds.clear();
        std::lock_guard<std::mutex> l(I.m); I.armed = false; I.snapshot = nullptr;
    }

    Outcome run() {
        std::string why;
        if (!setup(why)) { teardown(); VR.inconclusive++; return ok(); }
        std::string want = c.reactor == 1 ? "select" : c.reactor == 2 ? "poll" : "epoll";
        if (srv->reactor_name() != want) { teardown(); return bad("harness:reactor-unavailable", "asked for " + want + ", got " + srv->reactor_name()); }
        int k = (int)c.progs.size(), E = (int)c.eps.size();
        bool complete = true, lt_running = false;
        std::thread lt;
        { std::lock_guard<std::mutex> l(I.m); I.cmd = 0; I.epoch_started = 0; }
        for (int e = 0; e < E; e++) {
            Epoch const &ep = c.eps[e];
            bool last = e + 1 == E;
            size_t hs0;
            long want_epoch;
            { std::lock_guard<std::mutex> l(I.m); I.reset(1); I.snapshot = [this] { for (size_t i = 0; i < hs.size(); i++) if (hs[i].count == 0) { owed_sig = std::string(HKN[hs[i].kind]) + ":never-invoked"; owed_msg = hdesc((int)i); return; } };  hs0 = hs.size(); want_epoch = I.epoch_started + 1; if (lt_running) { I.cmd = 1; I.cv.notify_all(); } }
            t0 = booster::ptime::now();
            if (e == 0 && c.prelude >= 0) close_scenario(MAXCS, -1, true);           // before run() exists: everything is queued
            if (!lt_running) { lt = std::thread([this] { loop_main(); }); lt_running = true; }
            else {      // same thread: it calls reset() and run() again; nothing may touch the service before reset() is over
                std::unique_lock<std::mutex> l(I.m);
                if (!I.cv.wait_for(l, std::chrono::seconds(g_watchdog_s), [&] { return I.epoch_started >= want_epoch; })) { I.watchdog = I.abort = true; }
            }
            if (e == 0 && c.prelude >= 0 && css[MAXCS]) wait_closed(MAXCS);
            if (e > 0) for (int pk : ep.probes) if (!probe(pk)) break;
            std::vector<std::thread> ps;
            if ((e == 0 || ep.rerun) && !aborted()) {
                { std::lock_guard<std::mutex> l(I.m); I.active += k; }
                for (int p = 0; p < k; p++) ps.emplace_back([this, p] { producer(p); });
            }
            if (last && c.fin == 1) {
                for (int i = 0; i < c.stop_yield; i++) sched_yield();
                srv->stop();
                { std::lock_guard<std::mutex> l(I.m); I.stop_called = true; I.stopped = true; I.cv.notify_all(); }
                for (auto &t : ps) t.join();
                wait_until([] { return I.loop_exited; }, true);
            } else {
                { std::lock_guard<std::mutex> l(I.m); I.active--; }          // joining: not waiting for the loop, the producers count
                for (auto &t : ps) t.join();
                bool registered;
                { std::lock_guard<std::mutex> l(I.m); I.active++; registered = hs.size() > hs0; }
                if (registered) complete = drain() && complete;              // nothing registered in this epoch: stop is the first operation
                do_stop(ep.stop_mode);
            }
            bool more, exited;
            { std::lock_guard<std::mutex> l(I.m); more = !last && !I.abort; exited = I.loop_exited; }
            if (!exited) srv->stop();                                         // aborted scenario: get the loop out
            if (!more || ep.restart_mode == 1) {
                { std::lock_guard<std::mutex> l(I.m); I.cmd = 2; I.cv.notify_all(); }
                lt.join(); lt_running = false;
                if (more) { srv->reset(); std::lock_guard<std::mutex> l(I.m); cls["restart_new_thread"]++; }
            } else { std::lock_guard<std::mutex> l(I.m); cls["restart_same_thread"]++; }
            if (!more) break;
        }
        Outcome o = verdict(complete);
        teardown();
        return o;
    }
    // fin == 0: everything that was scheduled must come back exactly once
    bool drain() {
        auto queued_done = [this] { for (auto &h : hs) if (h.kind != K_TIMER && h.kind != K_IO && h.kind != K_DT && h.kind != K_SS && h.count == 0) return false; return true; };
        // 1. everything posted (including operations carried onto the loop thread, which may post carriers' effects) has run; twice,
        //    because a handler that ran may have been a carrier that posted nothing but armed something: arming is synchronous there
        if (!wait_until(queued_done)) return false;
        flush(-1); if (aborted()) return false;
        // 2. cancel what cannot complete by itself: loop-side objects on the loop thread, descriptors and far timers from here
        int id; { std::lock_guard<std::mutex> l(I.m); id = newh(K_POST, -1); }
        srv->post([this] {
            for (size_t i = 0; i < sss.size(); i++) { { std::lock_guard<std::mutex> l(I.m); ss_cancels[i]++; } sss[i]->cancel(); }
            for (size_t i = 0; i < dts.size(); i++) { { std::lock_guard<std::mutex> l(I.m); dt_cancels[i]++; dt_cancel_last_tick = tick++; } dts[i]->cancel(); }
        });
        srv->post(F0{this, id});
        if (!wait_until([this, id] { return hs[id].count > 0; })) return false;
        for (int s = 0; s < (int)fds.size(); s++) if (fds[s] >= 0) do_iocancel(s, -1, false);
        std::vector<int> fars;
        { std::lock_guard<std::mutex> l(I.m); for (size_t i = 0; i < hs.size(); i++) if (hs[i].kind == K_TIMER && hs[i].is_far && !hs[i].cancel_claimed) { hs[i].cancel_claimed = true; fars.push_back((int)i); } }
        for (int f : fars) cancel_timer_handler(f);
        // 3. every handler ever registered has been invoked
        return wait_until([this] { for (auto &h : hs) if (h.count == 0) return false; return true; });
    }
    Outcome verdict(bool complete) {
        std::lock_guard<std::mutex> l(I.m);
        for (auto &kv : cls) VR.cls("loop." + kv.first, kv.second);
        if (restarts) VR.cls("loop.run_restarted_after_throw", restarts);
        if (!vsig.empty()) return bad(vsig, vmsg + "\n  case: " + c.text());
        for (size_t i = 0; i < hs.size(); i++) if (hs[i].count > 1) return bad(std::string(HKN[hs[i].kind]) + ":invoked-twice", hdesc(i) + "\n  case: " + c.text());
        if (I.deadlock && I.deadlock_after_stop)
            return bad("stop:loop-not-woken", "stop() returned but run() does not: the loop thread stays blocked in " + srv->reactor_name() + " with nothing ready\n  case: " + c.text());
        if (I.deadlock) {
            if (!owed_sig.empty())
                return bad(owed_sig, owed_msg + " was not invoked: the loop thread blocked indefinitely in " + srv->reactor_name() +
                           " with nothing ready while every other thread was waiting for it (lost wake-up or lost handler)\n  case: " + c.text());
            return bad("loop:stalled", "quiescent loop with unsatisfied waiters\n  case: " + c.text());
        }
        if (I.watchdog) { VR.inconclusive++; VR.cls("loop.watchdog"); return ok(); }
        if (c.fin == 0 && !complete) return bad("loop:exited-early", "io_service::run() returned although stop() was not called\n  case: " + c.text());
        if (c.fin == 0) for (size_t i = 0; i < hs.size(); i++) if (hs[i].count != 1) return bad(std::string(HKN[hs[i].kind]) + ":never-invoked", hdesc(i) + "\n  case: " + c.text());
        if (c.fin == 1) { long lost = 0; for (auto &h : hs) if (!h.count) lost++; VR.cls("loop.pending_at_stop", lost); }
        return ok();
    }
};
void F0::operator()() const { s->run0(id); }
void FE::operator()(error_code const &e) const { s->runE(id, e); }
void FIO::operator()(error_code const &e, size_t n) const { s->runIO(id, e, n); }

static bool loop_nontrivial(LCase const &c) {
    if (c.fin == 1 || c.eps.size() > 1 || c.has_close()) return true;
    std::map<int, int> toucher; bool shared = false, cancel = false;
    for (size_t p = 0; p < c.progs.size(); p++) for (auto &o : c.progs[p]) {
        if (o.k == O_TCANCEL || o.k == O_IOCANCEL || o.k == O_DTCANCEL || o.k == O_SSCANCEL) cancel = true;
        if (o.k == O_ARM || o.k == O_IOCANCEL || o.k == O_READY) { int s = o.a % c.nslots(); if (toucher.count(s) && toucher[s] != (int)p) shared = true; toucher[s] = (int)p; }
    }
    return cancel || shared;
}
// Two threads may die at the same moment (two workers throwing): vr::on_death is not re-entrant across threads, so serialise.
#include <sys/syscall.h>
static void serial_signal(int sig) {
    static std::atomic<long> owner(0);
    long me = (long)syscall(SYS_gettid), exp = 0;
    if (!owner.compare_exchange_strong(exp, me) && exp != me) for (;;) pause();
    vr::on_signal(sig);
}
#if defined(__has_feature)
#if __has_feature(thread_sanitizer)
#define C17_TSAN 1
#endif
#endif
static void noop_death() {}
// ThreadSanitizer also tracks descriptors: ::close(fd) on one thread and the library's epoll_ctl(fd) on the loop thread without a
// happens-before edge are reported as a race on "file descriptor N".  With cancel_io_events() documented as asynchronous and
// basic_io_device::close() = cancel + ::close, that pair is inherent to closing from another thread (the kernel calls are atomic, either order
// is handled: EPOLL_CTL_DEL on a closed number fails harmlessly).  Only reports whose stack has the epoll_ctl interceptor itself are
// suppressed; memory races inside the reactor or the io_service are still reported.
extern "C" const char *__tsan_default_suppressions() { return "race:^epoll_ctl$\n"; }
// ThreadSanitizer build: the shared death callback (files, mutexes, allocation) runs inside TSan's report path and has been seen to
// dead-lock there.  Nothing is done at death time instead: the case being executed is written to the replay directory *before* it
// runs (note_case) and the report names it as current_case, so lib/verif.py attributes the abnormal exit (rc 79 / signal) to it.
static void serial_hooks() {
#ifdef C17_TSAN
    if (__sanitizer_set_death_callback) __sanitizer_set_death_callback(noop_death);
    signal(SIGABRT, SIG_DFL); signal(SIGSEGV, SIG_DFL); signal(SIGBUS, SIG_DFL); signal(SIGILL, SIG_DFL); signal(SIGFPE, SIG_DFL);
#else
    signal(SIGABRT, serial_signal); signal(SIGSEGV, serial_signal); signal(SIGBUS, serial_signal); signal(SIGILL, serial_signal); signal(SIGFPE, serial_signal);
#endif
}
static std::string g_running_path;
template <class C> static void note_case(const char *prop, C const &c) {
    serial_hooks();
    if (g_replay) return;
    vr::CaseWriter w; w.w(prop).nl(); c.encode(w);
    if (g_running_path.empty()) { std::string u = vr::env("VERIF_UNIT", "unit"); for (auto &ch : u) if (ch == '/' || ch == ' ') ch = '_'; g_running_path = VR.replay_dir() + "/crash-" + u + "-running.case"; }
    vr::write_file(g_running_path, w.str());
    if (VR.current_case != g_running_path) { VR.current_case = g_running_path; }
    VR.flush();
}

static Outcome p_loop(LCase const &c) {
    note_case("loop", c);
    VR.eval();
    { vr::CaseWriter w; c.encode(w); if (loop_nontrivial(c)) VR.nontrivial(vr::fnv(w.str(), 171)); }
    VR.cls(std::string("loop.case.") + (c.fin ? "stop_race" : "drain")); VR.cls("loop.case.producers=" + std::to_string(c.progs.size()));
    VR.cls("loop.epochs=" + std::to_string(c.eps.size()));
    if (c.has_close()) VR.cls(std::string("loop.close_case.reactor=") + (c.reactor == 1 ? "select" : c.reactor == 2 ? "poll" : "epoll"));
    if (c.eps.size() > 1) VR.cls(std::string("loop.multi_epoch.reactor=") + (c.reactor == 1 ? "select" : c.reactor == 2 ? "poll" : "epoll"));
    VR.cls(std::string("loop.case.reactor=") + (c.reactor == 1 ? "select" : c.reactor == 2 ? "poll" : "epoll"));
    if (VR.want_sample()) VR.sample("loop: " + c.text().substr(0, 600));
    int reps = g_replay ? (int)vr::envl("C17_REPLAY_REPS", 120) : (int)vr::envl("C17_REPS", 1);
    for (int i = 0; i < reps; i++) { Scn s(c); Outcome o = s.run(); if (!o.ok()) return o; }
    return ok();
}
static rc::Gen<LCase> gen_loop(int reactor) {
    return rc::gen::exec([reactor]() {
        LCase c; c.reactor = reactor ? reactor : *vr::range<int>(1, 4);
        c.fin = *rc::gen::weightedElement<int>({{5, 0}, {1, 1}});
        int k = *rc::gen::weightedElement<int>({{2, 1}, {3, 2}, {3, 3}, {2, 4}, {1, 5}, {1, 6}});
        c.npairs = *vr::range<int>(1, 3); c.nblocked = *vr::range<int>(0, 2); c.nstream = *vr::range<int>(0, 2); c.ndt = *vr::range<int>(0, 3);
        c.stop_yield = *vr::range<int>(0, 300);
        auto kind = rc::gen::weightedElement<int>({{10, O_POST}, {1, O_THROW}, {12, O_TIMER}, {9, O_TCANCEL}, {12, O_ARM}, {7, O_IOCANCEL}, {8, O_READY}, {1, O_HUP},
                                                  {3, O_FLUSH}, {4, O_YIELD}, {3, O_CLOSE}, {3, O_DT}, {2, O_DTCANCEL}, {3, O_SSREAD}, {3, O_SSWRITE}, {1, O_SSCANCEL}});
        int E = *rc::gen::weightedElement<int>({{5, 1}, {3, 2}, {2, 3}});
        c.eps.assign(E, Epoch());
        for (int e = 0; e < E; e++) {
            Epoch &ep = c.eps[e];
            ep.stop_mode = e + 1 < E ? *vr::range<int>(0, 2) : *vr::range<int>(0, 3);
            ep.restart_mode = *vr::range<int>(0, 2);
            if (e > 0) {
                ep.rerun = *vr::range<int>(0, 2);
                ep.probes = {P_POST, P_TIMER, P_TCANCEL, P_IO, P_IOCANCEL};          // every kind, in a generated order, plus a few repeats
                for (int i = 0; i < P_MAX; i++) std::swap(ep.probes[i], ep.probes[*vr::range<int>(i, (int)P_MAX)]);
                int extra = *vr::range<int>(0, 3);
                for (int i = 0; i < extra; i++) ep.probes.push_back(*vr::range<int>(0, (int)P_MAX));
            }
        }
        if (*vr::range<int>(0, 5) == 0) c.prelude = pack_close(1, *vr::range<int>(0, 2), *vr::range<int>(0, 2), *vr::range<int>(0, 3));
        c.progs.resize(k);
        for (int p = 0; p < k; p++) {
            int n = *vr::range<int>(1, 15);
            for (int i = 0; i < n; i++) {
                Op o; o.k = *kind;
                switch (o.k) {
                case O_POST: o.a = *vr::range<int>(0, 3); o.b = *vr::range<int>(0, 120); o.c = *vr::range<int>(0, 1000); break;
                case O_TIMER: o.a = *rc::gen::weightedElement<int>({{2, 0}, {2, 1}, {4, 2}, {3, 3}, {2, 4}}); o.b = o.a == 3 ? *vr::range<int>(0, 4) : *vr::range<int>(1, 13); break;
                case O_TCANCEL: o.a = *rc::gen::weightedElement<int>({{3, p}, {1, *vr::range<int>(0, k)}}); o.b = *vr::range<int>(0, 16); break;
                case O_ARM: o.a = *vr::range<int>(0, 6); o.b = *vr::range<int>(0, 2); o.c = *rc::gen::weightedElement<int>({{3, 0}, {1, 1}}); break;
                case O_IOCANCEL: o.a = *vr::range<int>(0, 6); o.b = *vr::range<int>(0, 2); o.c = *rc::gen::weightedElement<int>({{3, 0}, {1, 1}}); break;
                case O_READY: o.a = *vr::range<int>(0, 6); o.b = *vr::range<int>(0, 2); break;
                case O_HUP: o.a = *vr::range<int>(0, 4); break;
                case O_YIELD: o.a = *vr::range<int>(1, 40); break;
                case O_CLOSE: o.a = *vr::range<int>(0, MAXCS); o.b = *vr::range<int>(0, 36); break;
                case O_DT: o.a = *vr::range<int>(0, 3); o.b = *vr::range<int>(0, 10); o.c = *vr::range<int>(0, 2); break;
                case O_DTCANCEL: case O_SSREAD: case O_SSCANCEL: o.a = *vr::range<int>(0, 3); break;
                case O_SSWRITE: o.a = *vr::range<int>(0, 3); o.b = *vr::range<int>(0, 12); break;
                default: break;
                }
                c.progs[p].push_back(o);
            }
        }
        return c;
    });
}

// ======================================================================================================================
// thread pool
// ======================================================================================================================
struct PCase {
    int workers = 1, fin = 0, stop_yield = 0;
    std::vector<std::vector<Op>> progs;        // k: 0 job(a = 0 plain, 1 throws std::exception, 2 throws int, 3 yields b times)  1 cancel(a = producer, b = index)  2 yield(a)
    void encode(vr::CaseWriter &w) const {
        w.i(workers).i(fin).i(stop_yield).i(progs.size()).nl();
        for (auto &p : progs) { w.i(p.size()); for (auto &o : p) w.i(o.k).i(o.a).i(o.b); w.nl(); }
    }
    static PCase decode(vr::CaseReader &r) {
        PCase c; c.workers = r.i(); c.fin = r.i(); c.stop_yield = r.i(); int k = r.i(); c.progs.resize(k);
        for (auto &p : c.progs) { int n = r.i(); p.resize(n); for (auto &o : p) { o.k = r.i(); o.a = r.i(); o.b = r.i(); } }
        return c;
    }
    std::string text() const {
        std::ostringstream s; s << "workers=" << workers << " fin=" << (fin ? "stop-race" : "drain");
        for (size_t i = 0; i < progs.size(); i++) { s << " | T" << i << ":"; for (auto &o : progs[i]) s << " " << (o.k == 0 ? (o.a == 1 ? "job!std" : o.a == 2 ? "job!int" : o.a == 3 ? "job~" : "job") : o.k == 1 ? "cancel" : o.k == 3 ? "wait-idle" : "yield"); }
        return s.str();
    }
};
static int count_threads() {
    int n = 0; DIR *d = opendir("/proc/self/task"); if (!d) return -1;
    while (struct dirent *e = readdir(d)) if (e->d_name[0] != '.') n++;
    closedir(d); return n;
}
static std::set<int> list_tids() {
    std::set<int> r; DIR *d = opendir("/proc/self/task"); if (!d) return r;
    while (struct dirent *e = readdir(d)) if (e->d_name[0] != '.') r.insert(atoi(e->d_name));
    closedir(d); return r;
}
static bool slurp(std::string const &path, std::string &out) {
    int fd = ::open(path.c_str(), O_RDONLY | O_CLOEXEC); if (fd < 0) return false;
    char b[4096]; out.clear(); ssize_t n;
    while ((n = ::read(fd, b, sizeof b)) > 0) out.append(b, n);
    ::close(fd); return !out.empty();
}
// context switches (voluntary + involuntary) of one thread of this process; -1 when unreadable
static long task_switches(int tid) {
    std::string t; if (!slurp("/proc/self/task/" + std::to_string(tid) + "/status", t)) return -1;
    size_t a = t.find("\nvoluntary_ctxt_switches:"), b = t.find("\nnonvoluntary_ctxt_switches:");
    if (a == std::string::npos || b == std::string::npos) return -1;
    return atol(t.c_str() + a + 25) + atol(t.c_str() + b + 28);
}
static char task_state(int tid) {
    std::string t; if (!slurp("/proc/self/task/" + std::to_string(tid) + "/stat", t)) return 0;
    size_t p = t.rfind(')'); return p == std::string::npos || p + 2 >= t.size() ? 0 : t[p + 2];
}
// Pool liveness without a clock.  The worker threads are known (the threads that appeared while the pool was constructed).  When every
// producer has finished or is blocked waiting for results, the driver only observes, and a job whose post() has returned is still owed:
// if every worker is in kernel state 'S' (blocked) with the same context-switch count before and after the state was read, in three
// consecutive samples with identical counts and no progress recorded in between, each worker has been blocked without interruption
// (a woken thread is 'R', one that ran and blocked again has switched).  Nobody is left who could wake them - condition waits of the pool
// have no time-out, the producers wait for job bodies, the driver posts nothing - so the job can never run.  Anything else: keep waiting;
// the wall-clock watchdog only yields inconclusive.
struct PScn {
    PCase const &c;
    struct J { int count = 0, pid = -1, variant = 0, spin = 0, owner = 0; bool cancel_ok = false, after_idle = false; };
    std::mutex m; std::condition_variable cv;
    std::deque<J> js; std::vector<std::vector<int>> mine; std::set<int> ids;
    std::string vsig, vmsg; bool abort = false, stopped = false; int arrived = 0, rdv_target = 0; bool rdv_release = false;
    int live = 0, waiting = 0; long progress = 0;
    std::vector<int> workers; bool detector = false;
    std::unique_ptr<cppcms::thread_pool> pool;
    std::map<std::string, long> cls;
    explicit PScn(PCase const &cc) : c(cc) {}
    void viol(std::string const &s, std::string const &msg) { if (vsig.empty()) { vsig = s; vmsg = msg; } abort = true; cv.notify_all(); }
    void job(int j) {
        int variant, spin;
        {
            std::lock_guard<std::mutex> l(m);
            J &x = js[j]; x.count++; variant = x.variant; spin = x.spin; progress++;
            if (x.count > 1) viol("pool:job-ran-twice", "job #" + std::to_string(j) + " executed " + std::to_string(x.count) + " times");
            if (x.cancel_ok) viol("pool:ran-after-successful-cancel", "job #" + std::to_string(j) + " executed although cancel() had returned true for it");
            cv.notify_all();
        }
        for (int i = 0; i < spin; i++) sched_yield();
        if (variant == 1) throw std::runtime_error("job failure");
        if (variant == 2) throw 42;
    }
    bool workers_asleep() { for (int t : workers) if (task_state(t) != 'S') return false; return true; }
    // all workers blocked, no context switch while looking; cur = their switch counts
    bool sample_quiet(std::vector<long> &cur) {
        cur.clear();
        for (int t : workers) {
            long c1 = task_switches(t); char st = task_state(t); long c2 = task_switches(t);
            if (c1 < 0 || c2 < 0 || st != 'S' || c1 != c2) return false;
            cur.push_back(c1);
        }
        return true;
    }
    std::string owed_job() {       // m held
        for (size_t j = 0; j < js.size(); j++) if (js[j].pid >= 0 && !js[j].cancel_ok && js[j].count == 0) {
            int st = 0, in = 0; for (auto &x : js) if (x.count) { if (x.variant == 1) st++; if (x.variant == 2) in++; }
            return "job #" + std::to_string(j) + " (posted by T" + std::to_string(js[j].owner) + (js[j].after_idle ? " after it had seen the results of all its earlier jobs" : "") + ", post() returned id " +
                   std::to_string(js[j].pid) + ") has not been started; before it " + std::to_string(st) + " job(s) threw a std::exception and " + std::to_string(in) + " threw an int";
        }
        return "";
    }
    // waits (m held on entry and exit) until done(); false: aborted, verdict reached or watchdog
    bool monitor(std::unique_lock<std::mutex> &l, std::function<bool()> const &done, std::function<std::string()> const &owed, bool &inconclusive, int base_threads = -1) {
        auto dl = std::chrono::steady_clock::now() + std::chrono::seconds(g_watchdog_s);
        for (;;) {
            if (done()) return true;
            if (abort) return false;
            if (detector && waiting == live && !owed().empty()) {
                long p0 = progress; std::vector<long> ref, cur; bool quiet = true;
                for (int k = 0; k < 3 && quiet; k++) {
                    l.unlock(); quiet = sample_quiet(cur); l.lock();           // no lock held while looking: a worker blocked on m would have been released
                    if (progress != p0 || abort || done()) { quiet = false; break; }
                    if (k == 0) ref = cur; else if (cur != ref) quiet = false;
                    if (quiet && k < 2) { cv.wait_for(l, std::chrono::milliseconds(3)); if (progress != p0) quiet = false; }
                }
                if (quiet && progress == p0 && !abort && !done()) {
                    cls["liveness_verdicts"]++;
                    viol("pool:job-never-run", owed() + "; every posting thread has finished or waits for results and all " + std::to_string(workers.size()) +
                         " worker thread(s) stay blocked (state S, no context switch over three samples): nothing can wake them, the pool keeps running without ever executing it");
                    return false;
                }
            }
            if (base_threads > 0) { int now = count_threads(); if (now >= 0 && now < base_threads) { viol("pool:worker-thread-exited", "the process has " + std::to_string(now) + " threads, " + std::to_string(base_threads) + " before the jobs ran: a worker ended"); return false; } }
            if (cv.wait_for(l, std::chrono::milliseconds(10)) == std::cv_status::timeout && std::chrono::steady_clock::now() > dl) { inconclusive = true; return false; }
        }
    }
    void producer(int p) {
        bool after_idle = false;
        for (auto &o : c.progs[p]) {
            { std::lock_guard<std::mutex> l(m); if (abort) break; }
            if (o.k == 0) {
                int j;
                { std::lock_guard<std::mutex> l(m); js.emplace_back(); j = (int)js.size() - 1; js[j].variant = o.a; js[j].spin = o.a == 3 ? o.b : 0; js[j].owner = p; js[j].after_idle = after_idle;
                  cls[o.a == 1 || o.a == 2 ? "job.throwing" : "job"]++; if (after_idle) cls["post_after_idle"]++; }
                int id = pool->post([this, j] { job(j); });
                std::lock_guard<std::mutex> l(m);
                js[j].pid = id; mine[p].push_back(j); progress++;
                if (!ids.insert(id).second) viol("pool:duplicate-job-id", "post() returned id " + std::to_string(id) + " twice within one short run");
            } else if (o.k == 1) {
                int j, id;
                {
                    std::lock_guard<std::mutex> l(m);
                    auto &v = mine[o.a % mine.size()]; if (v.empty()) { cls["cancel.skipped"]++; continue; }
                    j = v[o.b % v.size()]; id = js[j].pid;
                }
                bool r = pool->cancel(id);
                std::lock_guard<std::mutex> l(m);
                cls[r ? "cancel.true" : "cancel.false"]++; progress++;
                if (r) {
                    if (js[j].cancel_ok) viol("pool:cancel-true-twice", "cancel() returned true twice for job #" + std::to_string(j));
                    if (js[j].count > 0) viol("pool:ran-after-successful-cancel", "cancel() returned true for job #" + std::to_string(j) + " which had already been started");
                    js[j].cancel_ok = true; cv.notify_all();
                }
            } else if (o.k == 3) {
                // results of all own earlier jobs seen, then give the workers the chance to go to sleep (state-based pacing, no verdict depends on it)
                {
                    std::unique_lock<std::mutex> l(m);
                    auto seen = [this, p] { for (int j : mine[p]) if (!js[j].cancel_ok && js[j].count == 0) return false; return true; };
                    waiting++; progress++; cls["wait_idle"]++;
                    while (!seen() && !abort && !stopped) cv.wait(l);
                    waiting--; progress++;
                    if (abort || stopped) continue;
                }
                for (int i = 0; i < 200 && !workers_asleep(); i++) { struct timespec ts = {0, 100000}; nanosleep(&ts, nullptr); }
                after_idle = true;
            } else for (int i = 0; i < o.a; i++) sched_yield();
        }
        std::lock_guard<std::mutex> l(m); live--; progress++; cv.notify_all();
    }
    Outcome run() {
        std::set<int> before = list_tids();
        int base0 = count_threads();
        pool.reset(new cppcms::thread_pool(c.workers));
        int base = count_threads();
        for (int t : list_tids()) if (!before.count(t)) workers.push_back(t);
        detector = !before.empty() && (int)workers.size() == c.workers && task_switches(workers[0]) >= 0 && task_state(workers[0]) != 0;
        if (!detector) VR.cls("pool.liveness_detector_unavailable");
        mine.resize(c.progs.size());
        std::vector<std::thread> ps;
        { std::lock_guard<std::mutex> l(m); live = (int)c.progs.size(); }
        for (size_t p = 0; p < c.progs.size(); p++) ps.emplace_back([this, p] { producer((int)p); });
        bool inconclusive = false;
        if (c.fin == 0) {
            {
                std::unique_lock<std::mutex> l(m);
                auto owed = [this] { return owed_job(); };
                // 1. the producers run their programs (they may wait for results on the way)   2. every job not cancelled has been started
                if (monitor(l, [this] { return live == 0; }, owed, inconclusive))
                    monitor(l, [this] { for (auto &x : js) if (!x.cancel_ok && x.count == 0) return false; return true; }, owed, inconclusive);
                if (inconclusive) { abort = true; cv.notify_all(); }
            }
            for (auto &t : ps) t.join();
            // a throwing job must not cost a worker: all workers can still be occupied at the same time
            bool run_rdv; { std::lock_guard<std::mutex> l(m); run_rdv = !abort && !inconclusive && base0 > 0 && base == base0 + c.workers; rdv_target = c.workers; }
            if (run_rdv) {
                for (int i = 0; i < c.workers; i++) { pool->post([this] {
                    std::unique_lock<std::mutex> l(m); arrived++; progress++; cv.notify_all();
                    while (arrived < rdv_target && !rdv_release) cv.wait(l);
                }); std::lock_guard<std::mutex> l(m); progress++; }
                std::unique_lock<std::mutex> l(m);
                monitor(l, [this] { return arrived >= rdv_target; },
                        [this] { return arrived < rdv_target ? "only " + std::to_string(arrived) + " of " + std::to_string(rdv_target) + " jobs posted one after the other to an idle pool of " + std::to_string(rdv_target) +
                                 " workers have been started (each of them waits for the others)" : std::string(); }, inconclusive, base);
                rdv_release = true; cv.notify_all();
                cls["rendezvous"]++;
            }
            pool->stop();
        } else {
            for (int i = 0; i < c.stop_yield; i++) sched_yield();
            pool->stop();
            { std::lock_guard<std::mutex> l(m); stopped = true; cv.notify_all(); }
            for (auto &t : ps) t.join();
        }
        pool.reset();
        std::lock_guard<std::mutex> l(m);
        for (auto &kv : cls) VR.cls("pool." + kv.first, kv.second);
        if (!vsig.empty()) return bad(vsig, vmsg + "\n  case: " + c.text());
        for (size_t j = 0; j < js.size(); j++) {
            if (js[j].count > 1) return bad("pool:job-ran-twice", "job #" + std::to_string(j) + "\n  case: " + c.text());
            if (js[j].cancel_ok && js[j].count) return bad("pool:ran-after-successful-cancel", "job #" + std::to_string(j) + "\n  case: " + c.text());
        }
        if (inconclusive) { VR.inconclusive++; VR.cls("pool.watchdog"); return ok(); }
        if (c.fin == 0) for (size_t j = 0; j < js.size(); j++) if (js[j].pid >= 0 && !js[j].cancel_ok && js[j].count != 1) return bad("pool:job-never-run", "job #" + std::to_string(j) + "\n  case: " + c.text());
        if (c.fin == 1) { long lost = 0; for (auto &x : js) if (!x.count && !x.cancel_ok) lost++; VR.cls("pool.pending_at_stop", lost); }
        return ok();
    }
};
static int pool_throwing(PCase const &c) { int n = 0; for (auto &p : c.progs) for (auto &o : p) if (o.k == 0 && (o.a == 1 || o.a == 2)) n++; return n; }
static Outcome p_pool(PCase const &c) {
    note_case("pool", c);
    VR.eval();
    bool nt = c.fin == 1 || c.progs.size() > 1;
    for (auto &p : c.progs) for (auto &o : p) if (o.k == 1 || o.k == 3 || (o.k == 0 && (o.a == 1 || o.a == 2))) nt = true;
    { vr::CaseWriter w; c.encode(w); if (nt) VR.nontrivial(vr::fnv(w.str(), 172)); }
    VR.cls(std::string("pool.case.") + (c.fin ? "stop_race" : "drain")); VR.cls("pool.case.workers=" + std::to_string(c.workers));
    if (pool_throwing(c) >= c.workers) VR.cls("pool.throwing_jobs>=workers");
    if (VR.want_sample()) VR.sample("pool: " + c.text().substr(0, 400));
    int reps = g_replay ? (int)vr::envl("C17_REPLAY_REPS", 120) : (int)vr::envl("C17_REPS", 1);
    if (g_replay && reps > 30) reps = 30;
    for (int i = 0; i < reps; i++) { PScn s(c); Outcome o = s.run(); if (!o.ok()) return o; }
    return ok();
}
static rc::Gen<PCase> gen_pool() {
    return rc::gen::exec([]() {
        PCase c; c.workers = *vr::range<int>(1, 5); c.fin = *rc::gen::weightedElement<int>({{4, 0}, {1, 1}}); c.stop_yield = *vr::range<int>(0, 200);
        int k = *vr::range<int>(1, 5); c.progs.resize(k);
        int shaped = *vr::range<int>(0, 3) == 0;       // a third of the cases: >= workers throwing jobs, wait until idle, post again
        for (int p = 0; p < k; p++) {
            if (shaped && p == 0) {
                int nthrow = c.workers + *vr::range<int>(0, c.workers + 1);
                for (int i = 0; i < nthrow; i++) { Op o; o.k = 0; o.a = *vr::range<int>(1, 3); c.progs[p].push_back(o); }
                int rounds = *vr::range<int>(1, 3);
                for (int r = 0; r < rounds; r++) {
                    Op w; w.k = 3; c.progs[p].push_back(w);
                    int more = *vr::range<int>(1, 5);
                    for (int i = 0; i < more; i++) { Op o; o.k = 0; o.a = *rc::gen::weightedElement<int>({{4, 0}, {1, 1}, {1, 2}, {2, 3}}); o.b = *vr::range<int>(1, 20); c.progs[p].push_back(o); }
                }
                continue;
            }
            int n = *vr::range<int>(1, 25);
            for (int i = 0; i < n; i++) {
                Op o; o.k = *rc::gen::weightedElement<int>({{6, 0}, {4, 1}, {1, 2}, {1, 3}});
                if (o.k == 0) { o.a = *rc::gen::weightedElement<int>({{5, 0}, {1, 1}, {1, 2}, {3, 3}}); o.b = *vr::range<int>(1, 30); }
                else if (o.k == 1) { o.a = *rc::gen::weightedElement<int>({{3, p}, {1, *vr::range<int>(0, k)}}); o.b = *vr::range<int>(0, 32); }
                else if (o.k == 2) o.a = *vr::range<int>(1, 30);
                c.progs[p].push_back(o);
            }
        }
        return c;
    });
}

// ======================================================================================================================
// fdops: ordering of deferred descriptor operations (dedicated scenarios, own signatures)
// ======================================================================================================================
struct FCase {
    int reactor = 3, variant = 0, rounds = 50;
    void encode(vr::CaseWriter &w) const { w.i(reactor).i(variant).i(rounds); }
    static FCase decode(vr::CaseReader &r) { FCase c; c.reactor = r.i(); c.variant = r.i(); c.rounds = r.i(); return c; }
};
struct FScn {
    std::mutex m; std::condition_variable cv;
    std::map<int, std::pair<int, int>> got;   // handler -> (count, 1 ok / 2 canceled / 3 error)
    int marks = 0; bool gate_started = false, gate_release = false;
    aio::io_service srv;
    explicit FScn(int r) : srv(r) {}
    aio::event_handler h(int id) { return [this, id](error_code const &e) { std::lock_guard<std::mutex> l(m); got[id].first++; got[id].second = !e ? 1 : is_canceled(e) ? 2 : 3; cv.notify_all(); }; }
    bool flush() {          // false: watchdog
        int want; { std::lock_guard<std::mutex> l(m); want = marks + 1; }
        srv.post([this] { std::lock_guard<std::mutex> l(m); marks++; cv.notify_all(); });
        std::unique_lock<std::mutex> l(m);
        return cv.wait_for(l, std::chrono::seconds(g_watchdog_s), [&] { return marks >= want; });
    }
    void post_gate() {
        { std::lock_guard<std::mutex> l(m); gate_started = gate_release = false; }
        srv.post([this] { std::unique_lock<std::mutex> l(m); gate_started = true; cv.notify_all(); cv.wait_for(l, std::chrono::seconds(g_watchdog_s), [this] { return gate_release; }); });
    }
    bool wait_gate() { std::unique_lock<std::mutex> l(m); return cv.wait_for(l, std::chrono::seconds(g_watchdog_s), [this] { return gate_started; }); }
    void release() { std::lock_guard<std::mutex> l(m); gate_release = true; cv.notify_all(); }
    std::pair<int, int> st(int id) { std::lock_guard<std::mutex> l(m); return got[id]; }
};
static Outcome p_fdops(FCase const &c) {
    VR.eval(); VR.nontrivial(vr::fnv(std::string("fdops"), 173 + c.reactor * 10 + c.variant));
    FScn s(c.reactor);
    std::thread lt([&] { s.srv.run(); });
    Outcome res = ok(); int hit = 0, deferred_seen = 0;
    int next = 1;
    for (int round = 0; round < c.rounds && res.ok(); round++) {
        int sv[2], sv2[2] = {-1, -1};
        if (::socketpair(AF_UNIX, SOCK_STREAM, 0, sv)) break;
        int fd = sv[0], h1 = next++, h2 = next++;
        bool wd = false;
        if (c.variant == 0 || c.variant == 2 || c.variant == 3) {
            // arm h1, let the loop go idle, then: [slow handler] cancel (queued behind the poll) ; re-arm h2 (executed directly) -> the queued cancel hits h2
            s.srv.set_io_event(fd, aio::io_service::in, s.h(h1));
            wd |= !s.flush(); wd |= !s.flush();
            s.post_gate();
            s.srv.cancel_io_events(fd);
            wd |= !s.wait_gate();
            if (c.variant == 2) { if (::socketpair(AF_UNIX, SOCK_STREAM, 0, sv2)) { s.release(); break; } ::dup2(sv2[0], fd); }   // the number now names another socket
            if (c.variant == 3) {       // close, then a new socket pair: the kernel hands out the lowest free number, i.e. the one just closed (checked)
                ::close(fd); sv[0] = -1;
                if (::socketpair(AF_UNIX, SOCK_STREAM, 0, sv2)) { s.release(); break; }
                if (sv2[0] != fd && sv2[1] != fd) { VR.cls("fdops.variant3.number_not_reused"); s.release(); s.flush(); s.flush(); ::close(sv[1]); ::close(sv2[0]); ::close(sv2[1]); continue; }
            }
            s.srv.set_io_event(fd, aio::io_service::in, s.h(h2));
            s.release();
            wd |= !s.flush(); wd |= !s.flush(); wd |= !s.flush();
            auto a = s.st(h1), b = s.st(h2);
            if (!wd) {
                if (b.first != 0) { hit++; res = bad("io:deferred-cancel-hits-later-registration", std::string("cancel_io_events(fd) returned, then set_io_event(fd,in,h2) was called") + (c.variant >= 2 ? " for a new socket that received the same descriptor number" : "") +
                                     ": h2 was invoked with " + (b.second == 2 ? "aio_error::canceled" : "a result") + " although nothing cancelled it and the descriptor is not readable; h1 invoked " + std::to_string(a.first) + " time(s) (round " + std::to_string(round) + ")"); }
                else if (a.first != 1 || a.second != 2) res = bad("io:cancelled-handler-not-invoked", "h1 count=" + std::to_string(a.first) + " status=" + std::to_string(a.second));
            }
        } else {
            // [slow handler] arm h1 (queued behind the poll) ; cancel (executed directly, finds nothing) -> h1 stays armed for ever
            wd |= !s.flush(); wd |= !s.flush();
            s.post_gate();
            s.srv.set_io_event(fd, aio::io_service::in, s.h(h1));
            wd |= !s.wait_gate();
            s.srv.cancel_io_events(fd);
            s.release();
            wd |= !s.flush(); wd |= !s.flush(); wd |= !s.flush();
            auto a = s.st(h1);
            if (!wd && a.first == 0) { hit++; res = bad("io:cancel-misses-queued-registration", "set_io_event(fd,in,h1) returned, then cancel_io_events(fd) was called and returned: h1 was never invoked (it is still armed; round " + std::to_string(round) + ")"); }
            else if (!wd && (a.first != 1 || a.second != 2)) res = bad("io:cancelled-handler-not-invoked", "h1 count=" + std::to_string(a.first) + " status=" + std::to_string(a.second));
        }
        (void)deferred_seen;
        s.srv.cancel_io_events(fd); s.flush(); s.flush();
        if (sv[0] >= 0) ::close(sv[0]);
        ::close(sv[1]); if (sv2[0] >= 0) { if (sv2[0] != sv[0]) ::close(sv2[0]); ::close(sv2[1]); }
        if (wd) { VR.inconclusive++; break; }
    }
    s.srv.stop(); lt.join();
    VR.cls("fdops.variant" + std::to_string(c.variant) + (hit ? ".reproduced" : ".not_reproduced"));
    return res;
}

// ======================================================================================================================
// many pending timers: N timers armed at once on one loop (N beyond the 1000-slot timer-id table), then all cancelled (variant 0: in order, 1: in reverse,
// 2: every second one, the others fire at a near deadline): distinct ids, every handler exactly once, canceled iff cancelled
static Outcome p_manytimers(FCase const &c) {
    VR.eval(); VR.nontrivial(vr::fnv(std::string("manytimers"), 977 + c.reactor * 10 + c.variant + c.rounds * 100));
    FScn s(c.reactor);
    std::thread lt([&] { s.srv.run(); });
    Outcome res = ok(); bool wd = false;
    int n = c.rounds; std::vector<int> ids(n); std::set<int> distinct;
    booster::ptime far = booster::ptime::now() + booster::ptime::seconds(3600), near = booster::ptime::now() + booster::ptime::milliseconds(300);
    for (int i = 0; i < n; i++) { bool fires = c.variant == 2 && (i & 1); ids[i] = s.srv.set_timer_event(fires ? near : far, s.h(i + 1)); distinct.insert(ids[i]); }
    wd |= !s.flush();
    if (c.variant == 1) { for (int i = n - 1; i >= 0; i--) s.srv.cancel_timer_event(ids[i]); }
    else for (int i = 0; i < n; i++) if (c.variant == 0 || !(i & 1)) s.srv.cancel_timer_event(ids[i]);
    wd |= !s.flush(); wd |= !s.flush();
    if (c.variant == 2) { std::this_thread::sleep_for(std::chrono::milliseconds(400)); for (int k = 0; k < 50 && !wd; k++) { wd |= !s.flush(); bool all = true; for (int i = 1; i < n && all; i += 2) all = s.st(i + 1).first > 0; if (all) break; std::this_thread::sleep_for(std::chrono::milliseconds(100)); } }
    if (!wd) {
        if ((int)distinct.size() != n) res = bad("timer:id-reused-while-pending", std::to_string(n) + " timers pending at once got only " + std::to_string(distinct.size()) + " distinct ids");
        for (int i = 0; i < n && res.ok(); i++) {
            auto a = s.st(i + 1); bool fires = c.variant == 2 && (i & 1);
            if (a.first != 1) res = bad(a.first == 0 ? "timer:handler-never-invoked" : "timer:handler-invoked-twice", "timer " + std::to_string(i) + " of " + std::to_string(n) + " pending at once (" + (fires ? "near deadline, not cancelled" : "far deadline, cancelled") + "): invoked " + std::to_string(a.first) + " time(s)");
            else if (a.second != (fires ? 1 : 2)) res = bad("timer:wrong-status", "timer " + std::to_string(i) + " of " + std::to_string(n) + (fires ? " expired but was reported with status " : " was cancelled an hour before its deadline but was reported with status ") + std::to_string(a.second));
        }
    } else VR.inconclusive++;
    s.srv.stop(); lt.join();
    VR.cls("manytimers.variant" + std::to_string(c.variant) + ".n" + std::to_string(n));
    return res;
}
int main(int argc, char **argv) {
    g_replay = vr::replay_arg(argc, argv) != nullptr;
    g_watchdog_s = (int)vr::envl("C17_WATCHDOG", 90);
    signal(SIGPIPE, SIG_IGN);
    int reactor = (int)vr::envl("C17_REACTOR", 3);
    std::vector<std::unique_ptr<vr::PropBase>> props;
    props.push_back(vr::prop<LCase>("loop", gen_loop(reactor), p_loop));
    props.push_back(vr::prop<PCase>("pool", gen_pool(), p_pool));
    props.push_back(vr::prop<FCase>("fdops-rearm", rc::gen::just(FCase()), p_fdops));
    props.push_back(vr::prop<FCase>("fdops-queued", rc::gen::just(FCase()), p_fdops));
    props.push_back(vr::prop<FCase>("manytimers", rc::gen::just(FCase()), p_manytimers));
    std::string mode = vr::env("C17_MODE", "");
    if (!g_replay && (mode == "fdops" || mode == "fixed")) {
        vr::install_crash_hooks();
        bool good = true;
        // pool grid: workers x throwing jobs {0, w-1, w, w+1, 2w} x exception kind x {post at once, post after the pool went idle}
        if (mode == "fixed") for (int w = 1; w <= 4; w++) for (int ti = 0; ti < 5; ti++) for (int kind = 1; kind <= 2; kind++) for (int idle = 0; idle < 2; idle++) {
            int nthrow = ti == 0 ? 0 : ti == 1 ? w - 1 : ti == 2 ? w : ti == 3 ? w + 1 : 2 * w;
            PCase c; c.workers = w; c.progs.resize(1);
            for (int i = 0; i < nthrow; i++) { Op o; o.k = 0; o.a = kind; c.progs[0].push_back(o); }
            if (idle) { Op o; o.k = 3; c.progs[0].push_back(o); }
            for (int i = 0; i < 3; i++) { Op o; o.k = 0; o.a = 0; c.progs[0].push_back(o); }
            VR.cls("grid.pool.cases");
            good = vr::run_direct("pool", c, p_pool) && good;
        }
        // close + number re-use grid: reactor x close mode x direction of the closed wait x direction(s) of the new wait x raw / stream_socket
        if (mode == "fixed") for (int r = 1; r <= 3; r++) for (int m = 0; m < 4; m++) for (int od = 0; od < 2; od++) for (int nd = 0; nd < 3; nd++) for (int kd = 0; kd < 2; kd++) {
            LCase c; c.reactor = r; c.progs.resize(1); c.progs[0].resize(1);
            if (m == 1) { c.progs[0][0].k = O_POST; c.prelude = pack_close(1, kd, od, nd); }            // deterministic: issued before run()
            else { c.progs[0][0].k = O_CLOSE; c.progs[0][0].b = pack_close(m == 3 ? 1 : m, kd, od, nd); }    // m == 3: mode 1 inside a running loop
            VR.cls("grid.close.cases");
            good = vr::run_direct("loop", c, p_loop) && good;
        }
        // restart grid: reactor x how the first run() was stopped x who runs the second one x first operation after reset()
        if (mode == "fixed") for (int r = 1; r <= 3; r++) for (int sm = 0; sm < 2; sm++) for (int rm = 0; rm < 2; rm++) for (int first = 0; first <= P_MAX; first++) {
            LCase c; c.reactor = r; c.progs.resize(1); c.progs[0].resize(1); c.progs[0][0].k = O_POST;
            c.eps.assign(2, Epoch()); c.eps[0].stop_mode = sm; c.eps[0].restart_mode = rm; c.eps[1].stop_mode = 0;
            if (first < P_MAX) c.eps[1].probes.push_back(first);          // first == P_MAX: stop() is the first operation
            VR.cls("grid.restart.cases");
            good = vr::run_direct("loop", c, p_loop) && good;
        }
        // many-timers grid: reactor x cancel pattern x number of timers pending at once (around and beyond the 1000-slot id table)
        if (mode == "fixed") for (int r = 1; r <= 3; r++) for (int v = 0; v < 3; v++) for (int n : {10, 999, 1000, 1001, 1500, 2500}) {
            FCase c; c.reactor = r; c.variant = v; c.rounds = n;
            VR.cls("grid.manytimers.cases");
            good = vr::run_direct("manytimers", c, p_manytimers) && good;
        }
        for (int r = 1; r <= 3; r++) for (int v = 0; v < 4; v++) { FCase c; c.reactor = r; c.variant = v; c.rounds = (int)vr::envl("C17_FDOPS_ROUNDS", 200); good = vr::run_direct(v == 1 ? "fdops-queued" : "fdops-rearm", c, p_fdops) && good; }
        VR.finish();
        if (!g_running_path.empty()) ::unlink(g_running_path.c_str());
        return good ? 0 : 1;
    }
    int rc = vr::rc_main(argc, argv, props);
    if (!g_running_path.empty()) ::unlink(g_running_path.c_str());     // ended normally: nothing was running when the process ended
    return rc;
}
