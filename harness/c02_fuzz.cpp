// C02 — no request, however malformed, crashes the service or disturbs other requests.
// libFuzzer target over the in-process service (front-end chosen by C02_FE = h | s | f).  The fuzz input is decoded into
// (mode, read schedule, disconnect behaviour, payload); raw mode sends the bytes as they are, structured mode builds protocol
// elements with independently chosen, possibly inconsistent fields.  Oracle inside the target:
//  (1) sanitizers / asserts, service::run() still running, nothing escaped the event loop;
//  (2) a well-formed probe on a second connection while the malformed one is open, and one on a fresh connection of the same
//      front-end afterwards, get exactly the expected echo;
//  (3) ledger: handler invocations carrying this iteration's tag <= number of requests the bytes can contain; a content filter
//      gets on_error at most once and never after on_end_of_content;
//  (4) whatever comes back on the malformed connection starts like a response of that protocol (status line 100..599 / CGI header /
//      well-framed FastCGI records).
#define VIO_DEFINE_WRAPPERS
#include "vfuzz.h"
#include "vservice.h"
#include <fuzzer/FuzzedDataProvider.h>

static vs::Fixture *g_fx;
static char g_fe = 'h';
static long g_iter = 0;

static void mount_apps(cppcms::service &srv) {
    srv.applications_pool().mount(cppcms::create_pool<vs::EchoApp>(), cppcms::mount_point("/sync"));
    srv.applications_pool().mount(cppcms::create_pool<vs::EchoApp>(), cppcms::mount_point("/async"), cppcms::app::asynchronous);
    srv.applications_pool().mount(cppcms::create_pool<vs::UploadApp>(), cppcms::mount_point("/up"), cppcms::app::asynchronous | cppcms::app::content_filter);
}

static void ensure_fixture() {
    if (g_fx) return;
    g_fe = vr::env("C02_FE", "h")[0];
    g_fx = new vs::Fixture();
    if (!g_fx->start("{\"http\":{\"script_names\":[\"/sync\",\"/async\",\"/up\"]}, \"security\":{\"content_length_limit\":64, \"multipart_form_data_limit\":64}}", mount_apps)) {
        fprintf(stderr, "cannot start fixture\n"); _exit(3);
    }
    ::mkdir((vr::env("VERIF_SCRATCH", "/verif/build/scratch/tmp") + "/uploads").c_str(), 0777);
}

static void debug_dump(const char *what) {
    if (!vr::envl("C02_DEBUG_HANG", 0)) return;
    std::string cmd = "gdb -p " + std::to_string(getpid()) + " -batch -ex 'thread apply all bt 25' > " + vr::env("VERIF_SCRATCH", ".") + "/hang-" + what + ".txt 2>&1";
    if (system(cmd.c_str())) {}
    std::string cmd2 = "(ss -tanpi 2>&1 | grep -E 'State|:" + std::to_string(g_fx->http_port) + "'; ss -xanp 2>&1 | grep " + std::to_string(getpid()) + "; ls -la /proc/" + std::to_string(getpid()) + "/fd; for f in /proc/" + std::to_string(getpid()) + "/fdinfo/*; do echo == $f; cat $f; done) >> " + vr::env("VERIF_SCRATCH", ".") + "/hang-" + what + ".txt 2>&1";
    if (system(cmd2.c_str())) {}
}
// ---- probe: a well-formed request whose echo must come back exactly
static bool probe_inner(char fe, int n, std::string &why, vc::Conn &c);
static bool probe(char fe, int n, std::string &why) {
    vc::Conn c; c.timeout_ms = 20000;
    bool r = probe_inner(fe, n, why, c);
    if (!r) { fprintf(stderr, "probe failed: fd=%d key=%s buf=%zu eof=%d timed_out=%d\n", c.fd, c.key.c_str(), c.buf.size(), (int)c.eof, (int)c.timed_out); debug_dump("inprobe"); }
    return r;
}
static bool probe_inner(char fe, int n, std::string &why, vc::Conn &c) {
    std::string tag = "probe" + std::to_string(n);
    std::string body = "a=1&b=" + tag;
    typedef std::vector<std::pair<std::string, std::string>> Pairs;
    if (!g_fx->connect(c, fe)) { why = "probe: cannot connect (" + std::string(1, fe) + ")"; return false; }
    std::string reply_body;
    if (fe == 'h') {
        std::string rq = "POST /sync/p/" + tag + "?x=" + tag + " HTTP/1.0\r\nHost: probe\r\nX-Probe: " + tag + "\r\nContent-Type: application/x-www-form-urlencoded\r\nContent-Length: " + std::to_string(body.size()) + "\r\n\r\n" + body;
        if (!c.send_all(rq)) { why = "probe: send failed"; return false; }
        vc::HttpReply r = vc::read_http_reply(c);
        if (!r.complete || r.status != 200) { why = "probe(http): " + (r.complete ? "status " + std::to_string(r.status) : r.why); return false; }
        reply_body = r.body;
    } else {
        Pairs env = {{"CONTENT_LENGTH", std::to_string(body.size())}, {"SCGI", "1"}, {"REQUEST_METHOD", "POST"}, {"SCRIPT_NAME", "/sync"}, {"PATH_INFO", "/p/" + tag},
                     {"QUERY_STRING", "x=" + tag}, {"CONTENT_TYPE", "application/x-www-form-urlencoded"}, {"HTTP_HOST", "probe"}, {"HTTP_X_PROBE", tag}};
        if (fe == 's') {
            if (!c.send_all(vc::scgi_encode(env, body))) { why = "probe: send failed"; return false; }
            if (!c.drain()) { why = "probe(scgi): timeout"; return false; }
            vc::CgiReply r = vc::parse_cgi_reply(c.buf);
            if (!r.complete || r.status != 200) { why = "probe(scgi): " + (r.complete ? "status " + std::to_string(r.status) : r.why); return false; }
            reply_body = r.body;
        } else {
            env.erase(env.begin() + 1);
            std::string f = vc::fcgi_begin(7, 1, 0) + vc::fcgi_stream(vc::FCGI_PARAMS, 7, vc::fcgi_pairs(env), {}, {}) + vc::fcgi_stream(vc::FCGI_STDIN, 7, body, {}, {});
            if (!c.send_all(f)) { why = "probe: send failed"; return false; }
            vc::FcgiReply r = vc::read_fcgi_reply(c, 7);
            if (!r.complete) { why = "probe(fcgi): " + r.why; return false; }
            vc::CgiReply cr = vc::parse_cgi_reply(r.out);
            if (!cr.complete || cr.status != 200) { why = "probe(fcgi): bad stdout"; return false; }
            reply_body = cr.body;
        }
    }
    vs::Echo e = vs::echo_parse(reply_body);
    if (!e.ok) { why = "probe: echo unparsable: " + e.why; return false; }
    bool good = e.method == "POST" && e.script == "/sync" && e.path == "/p/" + tag && e.query == "x=" + tag && e.raw == body &&
                e.env["HTTP_X_PROBE"] == tag && e.post.size() == 2 && e.get.size() == 1 && e.get[0].second == tag;
    if (!good) { why = "probe: echo differs from the request sent (fe=" + std::string(1, fe) + " path=" + vr::show(e.path) + " query=" + vr::show(e.query) + " raw=" + vr::show(e.raw) + ")"; return false; }
    return true;
}

// ---- structured payload builders ---------------------------------------------------------------------------------
// set by a builder when the byte stream it produced can in no reading be a request the application may see (reset per input)
static std::string g_must_reject;
static std::string pick_cl(FuzzedDataProvider &fdp, size_t actual) {
    switch (fdp.ConsumeIntegralInRange<int>(0, 13)) {
    case 0: return std::to_string(actual);
    case 1: return std::to_string(actual + 1);
    case 2: return actual ? std::to_string(actual - 1) : "0";
    case 3: return "-1";
    case 4: return "-9223372036854775808";
    case 5: return "9223372036854775807";
    case 6: return "18446744073709551616";
    case 7: return "4294967296";
    case 8: return "2147483648";
    case 9: return "0";
    case 10: return "abc";
    case 11: return " " + std::to_string(actual) + " ";
    case 12: return "0x10";
    default: return std::to_string(fdp.ConsumeIntegralInRange<long long>(-70000, 70000000));
    }
}
static std::string mp_body(FuzzedDataProvider &fdp, std::string const &boundary) {
    std::string b; int parts = fdp.ConsumeIntegralInRange<int>(0, 3);
    for (int i = 0; i < parts; i++) {
        int flaw = fdp.ConsumeIntegralInRange<int>(0, 9);
        b += "--" + (flaw == 1 ? boundary.substr(0, boundary.size() / 2) : boundary) + "\r\n";
        if (flaw != 2) b += "Content-Disposition: form-data; name=\"f" + std::to_string(i) + "\"" + (fdp.ConsumeBool() ? "; filename=\"x.bin\"" : "") + "\r\n";
        if (fdp.ConsumeBool()) b += "Content-Type: application/octet-stream\r\n";
        if (flaw == 3) b += fdp.ConsumeRandomLengthString(40);
        b += (flaw == 4 ? "\r\n\r\n\r\n" : "\r\n");
        b += fdp.ConsumeRandomLengthString(200);
        b += flaw == 5 ? "\n" : "\r\n";
    }
    int endf = fdp.ConsumeIntegralInRange<int>(0, 5);
    if (endf != 1) b += "--" + boundary + (endf == 2 ? "-" : "--") + (endf == 3 ? "" : "\r\n");
    if (endf == 4) b += fdp.ConsumeRandomLengthString(20);
    return b;
}
static const char *URIS[] = {"/sync", "/async", "/up", "/up?f=raw", "/up?f=mp", "/up?f=plain", "/up?f=mp&fm=10", "/up?f=raw&cl=10", "/up?f=mp&ml=30", "/up?abort=1", "/nomount", "/sync/a/b", "/up?f=mp&bs=1", "/up?f=raw&bs=3"};

// Cookie header values from a small grammar of well-formed and malformed pairs (quoted strings open or closed, separators in odd
// places, empty names, '@'-style junk, comments): the request cookie parser runs in the event loop thread for all three front-ends
static std::string gen_cookie(FuzzedDataProvider &fdp) {
    static const char *pieces[] = {"a=b", "name=\"quoted; v\"", "=x", "a=@x", "\"", "=\"", "a=\"open", "; ", ", ", ";", "=", "$Version=1", "$Path=\"/\"", "b=c", "(\")", "@", "x=\"\\\"\"", "\\", " ", "k=v;k2=\"v2\",k3=v3", "\"; b=c"};
    std::string c; int n = fdp.ConsumeIntegralInRange<int>(1, 6);
    for (int i = 0; i < n; i++) { int k = fdp.ConsumeIntegralInRange<int>(0, 22); c += k < 21 ? std::string(pieces[k]) : fdp.ConsumeRandomLengthString(8); }
    return c;
}
static std::string build_request_meta(FuzzedDataProvider &fdp, std::string const &tag, std::string &script, std::string &query) {
    std::string uri = URIS[fdp.ConsumeIntegralInRange<int>(0, 13)];
    size_t q = uri.find('?');
    script = uri.substr(0, q);
    query = (q == std::string::npos ? "" : uri.substr(q + 1) + "&") + "it=" + tag;
    return script + "?" + query;
}

static std::string build_http(FuzzedDataProvider &fdp, std::string const &tag) {
    std::string out; int nreq = fdp.ConsumeIntegralInRange<int>(1, 3);
    // a kept-alive connection whose requests all carry very many header lines: per-connection tables grow for one request and
    // are re-used by the next; the leading requests are well-formed so that the connection really is kept alive
    bool many_conn = fdp.ConsumeIntegralInRange<int>(0, 11) == 0;
    if (many_conn) {
        nreq = fdp.ConsumeIntegralInRange<int>(2, 4);
        for (int r = 0; r + 1 < nreq; r++) {
            int many = fdp.ConsumeIntegralInRange<int>(30, 150);
            out += std::string(fdp.ConsumeBool() ? "GET /sync?it=" : "GET /async?it=") + tag + " HTTP/1.1\r\nHost: x\r\nConnection: keep-alive\r\n";
            for (int i = 0; i < many; i++) out += "X-H" + std::to_string(i) + ": v" + std::to_string(i % 7) + "\r\n";
            out += "\r\n";
        }
        nreq = 1;      // followed by one more request built like any other (possibly malformed), also with many headers
    }
    for (int r = 0; r < nreq; r++) {
        static const char *methods[] = {"GET", "POST", "PUT", "", "G E T", "POST\x01", "HEAD", "OPTIONS"};
        std::string script, query, uri = build_request_meta(fdp, tag, script, query);
        if (fdp.ConsumeIntegralInRange<int>(0, 15) == 0) uri = fdp.ConsumeRandomLengthString(30);
        // the other request-target forms of RFC 7230 5.3 (absolute, authority, asterisk) and degenerate relatives
        else if (fdp.ConsumeIntegralInRange<int>(0, 11) == 1) {
            static const char *forms[] = {"http://localhost", "http://localhost/", "http://h?x=1", "https://h", "http://", "http:", "http://h:80/sync?it=", "https://user@h:1/async?it=", "//h/sync", "*",
                                          "localhost:80", "?", "?it=", "#", "/sync#frag", "http://h#f", "ftp://h", "HTTP://H", "/%", "/%zz", "/sync/%00", "/\x7f", ""};
            uri = forms[fdp.ConsumeIntegralInRange<int>(0, 22)];
            if (!uri.empty() && uri.back() == '=') uri += tag;
        }
        static const char *vers[] = {"HTTP/1.0", "HTTP/1.1", "HTTP/2.0", "", "HTTP/1.1 extra"};
        out += std::string(methods[fdp.ConsumeIntegralInRange<int>(0, 7)]) + " " + uri + " " + vers[fdp.ConsumeIntegralInRange<int>(0, 4)] + (fdp.ConsumeIntegralInRange<int>(0, 20) ? "\r\n" : "\n");
        std::string body, ctype;
        int bk = fdp.ConsumeIntegralInRange<int>(0, 5);
        std::string boundary = "BoUnD" + std::to_string(fdp.ConsumeIntegralInRange<int>(0, 9));
        if (bk == 1) { ctype = "application/x-www-form-urlencoded"; body = fdp.ConsumeRandomLengthString(100); }
        else if (bk == 2 || bk == 3) { ctype = "multipart/form-data; boundary=" + (fdp.ConsumeBool() ? boundary : "\"" + boundary + "\""); body = mp_body(fdp, boundary); }
        else if (bk == 4) { ctype = fdp.ConsumeBool() ? "text/plain" : "multipart/form-data"; body = fdp.ConsumeRandomLengthString(300); }
        else if (bk == 5) { ctype = "application/octet-stream"; body.assign((size_t)fdp.ConsumeIntegralInRange<int>(0, 70000), 'x'); }
        // occasionally a large number of (well-formed) header lines: tables keyed by header count grow and, on a kept-alive
        // connection, are re-used by the next request
        if (many_conn || fdp.ConsumeIntegralInRange<int>(0, 9) == 0) {
            int many = fdp.ConsumeIntegralInRange<int>(40, 150);
            for (int i = 0; i < many; i++) out += "X-H" + std::to_string(i) + ": v" + std::to_string(i % 7) + "\r\n";
            out += "Connection: keep-alive\r\n";
        }
        // a header section beyond the 16 KiB cap (plus one full read): must be refused, see oversize_header below
        if (fdp.ConsumeIntegralInRange<int>(0, 15) == 1) out += "X-Huge: " + std::string((size_t)fdp.ConsumeIntegralInRange<int>(32768, 50000), 'H') + "\r\n";
        int nh = fdp.ConsumeIntegralInRange<int>(0, 4);
        for (int i = 0; i < nh; i++) {
            switch (fdp.ConsumeIntegralInRange<int>(0, 7)) {
            case 0: out += "Connection: keep-alive\r\n"; break;
            case 1: out += "X-A: \"unterminated\r\n"; break;
            case 2: out += "X-B: (comment\r\n"; break;
            case 3: out += "X-C: v\r\n folded\r\n"; break;
            case 4: out += fdp.ConsumeRandomLengthString(40) + "\r\n"; break;
            case 5: out += "Cookie: " + (fdp.ConsumeBool() ? gen_cookie(fdp) : fdp.ConsumeRandomLengthString(40)) + "\r\n"; break;
            case 6: out += "X-Long: " + std::string((size_t)fdp.ConsumeIntegralInRange<int>(0, 40000), 'h') + "\r\n"; break;
            default: out += "Accept-Encoding: gzip\r\n"; break;
            }
        }
        if (!ctype.empty()) out += "Content-Type: " + ctype + "\r\n";
        if (bk || fdp.ConsumeBool()) out += "Content-Length: " + pick_cl(fdp, body.size()) + "\r\n";
        if (fdp.ConsumeIntegralInRange<int>(0, 10) == 0) out += "Content-Length: " + pick_cl(fdp, body.size()) + "\r\n";
        out += fdp.ConsumeIntegralInRange<int>(0, 15) ? "\r\n" : "\r\r\n";
        out += body;
    }
    return out;
}
static std::string build_scgi(FuzzedDataProvider &fdp, std::string const &tag) {
    std::string script, query; build_request_meta(fdp, tag, script, query);
    std::string body; std::string ctype;
    int bk = fdp.ConsumeIntegralInRange<int>(0, 3);
    std::string boundary = "BoUnD1";
    if (bk == 1) { ctype = "application/x-www-form-urlencoded"; body = fdp.ConsumeRandomLengthString(100); }
    else if (bk == 2) { ctype = "multipart/form-data; boundary=" + boundary; body = mp_body(fdp, boundary); }
    else if (bk == 3) { ctype = "text/plain"; body = fdp.ConsumeRandomLengthString(300); }
    std::string blk;
    auto add = [&](std::string const &k, std::string const &v) { blk += k; if (fdp.ConsumeIntegralInRange<int>(0, 25)) blk += '\0'; blk += v; if (fdp.ConsumeIntegralInRange<int>(0, 25)) blk += '\0'; };
    if (fdp.ConsumeIntegralInRange<int>(0, 8)) add("CONTENT_LENGTH", pick_cl(fdp, body.size()));
    add("SCGI", "1"); add("REQUEST_METHOD", fdp.ConsumeBool() ? "POST" : "GET"); add("SCRIPT_NAME", script); add("PATH_INFO", fdp.ConsumeBool() ? "" : "/x");
    add("QUERY_STRING", query);
    if (!ctype.empty()) add("CONTENT_TYPE", ctype);
    int extra = fdp.ConsumeIntegralInRange<int>(0, 3);
    for (int i = 0; i < extra; i++) add("HTTP_X" + std::to_string(i), fdp.ConsumeRandomLengthString(fdp.ConsumeBool() ? 30 : 3000));
    if (fdp.ConsumeIntegralInRange<int>(0, 3) == 1) add("HTTP_COOKIE", gen_cookie(fdp));
    std::string lentxt;
    switch (fdp.ConsumeIntegralInRange<int>(0, 9)) {
    case 0: lentxt = std::to_string(blk.size() + 1); break; case 1: lentxt = blk.size() ? std::to_string(blk.size() - 1) : "0"; break;
    case 2: lentxt = "-5"; break; case 3: lentxt = "16385"; break; case 4: lentxt = "99999999999999999999"; break; case 5: lentxt = "0"; break;
    case 6: lentxt = "1" + std::string(20, '0'); break;
    case 7: { static const char *absurd[] = {"2147483647", "2147483000", "1073741825", "1500000000"}; lentxt = absurd[fdp.ConsumeIntegralInRange<int>(0, 3)]; break; }   // must not drive an allocation
    default: lentxt = std::to_string(blk.size());
    }
    std::string out = lentxt + (fdp.ConsumeIntegralInRange<int>(0, 12) ? ":" : ";") + blk + (fdp.ConsumeIntegralInRange<int>(0, 12) ? "," : ".") + body;
    return out;
}
static std::string build_fcgi(FuzzedDataProvider &fdp, std::string const &tag) {
    std::string out; int nrec = fdp.ConsumeIntegralInRange<int>(1, 8);
    std::string script, query; build_request_meta(fdp, tag, script, query);
    std::string body = fdp.ConsumeRandomLengthString(120);
    typedef std::vector<std::pair<std::string, std::string>> Pairs;
    Pairs env = {{"CONTENT_LENGTH", pick_cl(fdp, body.size())}, {"REQUEST_METHOD", "POST"}, {"SCRIPT_NAME", script}, {"PATH_INFO", ""}, {"QUERY_STRING", query},
                 {"CONTENT_TYPE", fdp.ConsumeBool() ? "text/plain" : "application/x-www-form-urlencoded"}};
    if (fdp.ConsumeIntegralInRange<int>(0, 3) == 1) env.push_back({"HTTP_COOKIE", gen_cookie(fdp)});
    std::string params = vc::fcgi_pairs(env);
    int id = fdp.ConsumeIntegralInRange<int>(0, 3);
    if (fdp.ConsumeIntegralInRange<int>(0, 9) == 1) {
        // a request that is well-formed except that a record of another type (same request id, non-empty) sits inside its STDIN
        // stream while body bytes are still owed: invalid framing, the application must not see the request
        std::string b = fdp.ConsumeRandomLengthString(120); if (b.size() < 2) b = "0123456789abcdef";
        std::string inj = fdp.ConsumeRandomLengthString(40); if (inj.empty()) inj = "XYZ";
        static const int types[] = {vc::FCGI_PARAMS, 8 /*FCGI_DATA*/, vc::FCGI_ABORT, 50, 6 /*FCGI_STDOUT*/};
        int t = types[fdp.ConsumeIntegralInRange<int>(0, 4)]; int rid = 1 + id % 3;
        size_t cut = 1 + fdp.ConsumeIntegralInRange<size_t>(0, b.size() - 2);
        Pairs env2 = env; env2[0].second = std::to_string(b.size());
        out = vc::fcgi_begin(rid, 1, fdp.ConsumeBool() ? 1 : 0) + vc::fcgi_record(vc::FCGI_PARAMS, rid, vc::fcgi_pairs(env2)) + vc::fcgi_record(vc::FCGI_PARAMS, rid, "") +
              vc::fcgi_record(vc::FCGI_STDIN, rid, b.substr(0, cut)) + vc::fcgi_record(t, rid, inj) + vc::fcgi_record(vc::FCGI_STDIN, rid, b.substr(cut)) + vc::fcgi_record(vc::FCGI_STDIN, rid, "");
        g_must_reject = "fcgi:stdin-interrupted-by-other-record-reaches-handler";
        return out;
    }
    if (fdp.ConsumeBool()) {
        // a complete request in the right order; each element may be damaged, dropped or duplicated
        std::vector<std::string> seq = {vc::fcgi_begin(id, 1, fdp.ConsumeBool() ? 1 : 0), vc::fcgi_record(vc::FCGI_PARAMS, id, params), vc::fcgi_record(vc::FCGI_PARAMS, id, ""),
                                        vc::fcgi_record(vc::FCGI_STDIN, id, body), vc::fcgi_record(vc::FCGI_STDIN, id, "")};
        for (auto &rec : seq) {
            int flaw = fdp.ConsumeIntegralInRange<int>(0, 11);
            if (flaw == 0) continue;                       // dropped
            if (flaw == 1) out += rec;                     // duplicated
            if (flaw == 2 && rec.size() > 8) { size_t at = fdp.ConsumeIntegralInRange<size_t>(0, rec.size() - 1); rec[at] = (char)fdp.ConsumeIntegral<uint8_t>(); }
            if (flaw == 3) rec.resize(fdp.ConsumeIntegralInRange<size_t>(0, rec.size()));
            out += rec;
        }
        nrec = fdp.ConsumeIntegralInRange<int>(0, 3);      // followed by arbitrary records (second request, garbage)
    }
    for (int i = 0; i < nrec; i++) {
        int kind = fdp.ConsumeIntegralInRange<int>(0, 11);
        int rid = fdp.ConsumeIntegralInRange<int>(0, 9) ? id : fdp.ConsumeIntegralInRange<int>(0, 65535);
        int pad = fdp.ConsumeIntegralInRange<int>(0, 5) ? 0 : fdp.ConsumeIntegralInRange<int>(0, 255);
        switch (kind) {
        case 0: out += vc::fcgi_begin(rid, fdp.ConsumeIntegralInRange<int>(0, 4), fdp.ConsumeIntegralInRange<int>(0, 3), pad); break;
        case 1: out += vc::fcgi_begin(rid, 1, fdp.ConsumeBool() ? 1 : 0, pad); break;
        case 2: out += vc::fcgi_record(vc::FCGI_PARAMS, rid, params, pad); break;
        case 3: out += vc::fcgi_record(vc::FCGI_PARAMS, rid, "", pad); break;
        case 4: out += vc::fcgi_record(vc::FCGI_STDIN, rid, body, pad); break;
        case 5: out += vc::fcgi_record(vc::FCGI_STDIN, rid, "", pad); break;
        case 6: { std::string p2 = params; if (!p2.empty()) { size_t at = fdp.ConsumeIntegralInRange<size_t>(0, p2.size() - 1); p2[at] = (char)fdp.ConsumeIntegral<uint8_t>(); } out += vc::fcgi_record(vc::FCGI_PARAMS, rid, p2, pad); break; }
        case 7: out += vc::fcgi_record(fdp.ConsumeIntegralInRange<int>(0, 255), rid, fdp.ConsumeRandomLengthString(40), pad, fdp.ConsumeIntegralInRange<int>(0, 8) ? 1 : fdp.ConsumeIntegralInRange<int>(0, 255)); break;
        case 8: { Pairs gv = {{"FCGI_MAX_CONNS", ""}, {"FCGI_MPXS_CONNS", ""}, {fdp.ConsumeRandomLengthString(10), ""}}; out += vc::fcgi_record(vc::FCGI_GET_VALUES, fdp.ConsumeBool() ? 0 : rid, vc::fcgi_pairs(gv), pad); break; }
        case 9: { std::string r = vc::fcgi_record(vc::FCGI_PARAMS, rid, params, pad); size_t cut = fdp.ConsumeIntegralInRange<size_t>(0, r.size()); out += r.substr(0, cut); break; }
        case 10: { std::string big = "\x80\xff\xff\xff\x85" "AAAAA"; big += fdp.ConsumeRandomLengthString(20); out += vc::fcgi_record(vc::FCGI_PARAMS, rid, big, pad); break; }
        default: out += vc::fcgi_record(vc::FCGI_ABORT, rid, "", pad); break;
        }
    }
    return out;
}

static size_t count_sub(std::string const &s, std::string const &sub) { size_t n = 0, p = 0; while ((p = s.find(sub, p)) != std::string::npos) { n++; p++; } return n; }

extern "C" int LLVMFuzzerTestOneInput(const uint8_t *data, size_t size) {
    (void)VR;
    ensure_fixture();
    vf::begin(data, size);
    g_iter++;
    std::string tag = "T" + std::to_string(g_iter) + "T";
    FuzzedDataProvider fdp(data, size);
    int mode = fdp.ConsumeIntegralInRange<int>(0, 3);            // 0: raw, else structured
    int ncaps = fdp.ConsumeIntegralInRange<int>(0, 6);
    auto sched = std::make_shared<vio::Sched>();
    for (int i = 0; i < ncaps; i++) sched->reads.push_back(fdp.ConsumeIntegralInRange<int>(0, 4) ? fdp.ConsumeIntegralInRange<int>(1, 12) : fdp.ConsumeIntegralInRange<int>(1, 5000));
    int nw = fdp.ConsumeIntegralInRange<int>(0, 4);
    for (int i = 0; i < nw; i++) sched->writes.push_back(fdp.ConsumeIntegralInRange<int>(0, 64));
    int after = fdp.ConsumeIntegralInRange<int>(0, 3);            // 0: keep open, 1: half-close, 2: close, 3: reset
    size_t cut_percent = fdp.ConsumeIntegralInRange<size_t>(0, 100);   // how much is sent before the mid-probe
    int truncate_at = fdp.ConsumeIntegralInRange<int>(0, 6) == 0 ? fdp.ConsumeIntegralInRange<int>(0, 4000) : -1;  // peer disconnects inside the payload
    std::string payload; g_must_reject.clear();
    if (mode == 0) {
        payload = fdp.ConsumeRemainingBytesAsString();
        size_t p; while ((p = payload.find("@@")) != std::string::npos) payload.replace(p, 2, tag);
        VR.cls("mode.raw");
    } else {
        payload = g_fe == 'h' ? build_http(fdp, tag) : g_fe == 's' ? build_scgi(fdp, tag) : build_fcgi(fdp, tag);
        VR.cls("mode.structured");
    }
    if (truncate_at >= 0 && (size_t)truncate_at < payload.size()) payload.resize((size_t)truncate_at);

    // upper bound on the number of requests these bytes can contain
    size_t bound = g_fe == 'h' ? count_sub(payload, "\r\n\r\n") : g_fe == 's' ? 1 : count_sub(payload, std::string("\x01\x01", 2));
    size_t ledger_before = vs::Ledger::get().snapshot().size();
    // embedded HTTP: the header section is capped at 16 KiB, tested whenever the parser runs dry; one read takes at most 16 KiB,
    // so a connection whose first 32 KiB hold no end-of-headers can never be accepted ("oversized ... answered with an error
    // status or closed"): none of its bytes may reach the application
    bool oversize_header = false;
    if (g_fe == 'h') { size_t eoh = payload.find("\r\n\r\n"); oversize_header = payload.size() >= 32768 && (eoh == std::string::npos || eoh >= 32768); }
    if (oversize_header) VR.cls("malformed.http_header_over_32k");

    std::string why;
    {
        vc::Conn m; m.timeout_ms = 10000;
        VF_CHECK(g_fx->connect(m, g_fe, sched), "harness:connect", "cannot connect the malformed connection");
        size_t first = payload.size() * cut_percent / 100;
        bool sent = m.send_all(payload.data(), first);
        bool p1 = probe("hsf"[g_iter % 3], (int)g_iter * 2, why);
        VF_CHECK(g_fx->alive(), "service-died", "service::run() returned: " + g_fx->loop_exception);
        if (!p1) debug_dump("p1");
        VF_CHECK(p1, "probe-during-malformed:" + std::string(1, "hsf"[g_iter % 3]), why);
        if (sent) sent = m.send_all(payload.data() + first, payload.size() - first);
        if (after == 1) m.shut_wr();
        VF_CHECK(g_fx->alive(), "service-died", "service::run() returned: " + g_fx->loop_exception);
        // second probe gives the server time to act on the malformed connection; then look at what came back
        bool p2 = probe(g_fe, (int)g_iter * 2 + 1, why);
        VF_CHECK(g_fx->alive(), "service-died", "service::run() returned: " + g_fx->loop_exception);
        if (!p2) debug_dump("p2");
        VF_CHECK(p2, "probe-after-malformed:" + std::string(1, g_fe), why);
        while (m.fill(0) > 0) {}
        std::string const &got = m.buf;
        if (!got.empty()) {
            VR.cls("malformed.got_reply_bytes");
            if (g_fe == 'h') {
                VF_CHECK(got.size() < 12 || (got.compare(0, 7, "HTTP/1.") == 0 && isdigit((unsigned char)got[9]) && got[9] >= '1' && got[9] <= '5'), "http:reply-not-a-status-line", vr::show(got, 100));
                if (got.size() >= 12) { int st = atoi(got.c_str() + 9); VR.cls("malformed.http_status_" + std::to_string(st / 100) + "xx"); if (st >= 400) VR.nontrivial(vr::fnv(payload)); }
            } else if (g_fe == 'f') {
                size_t p = 0; bool okf = true; int ends = 0;
                while (p + 8 <= got.size()) { unsigned char const *h = (unsigned char const *)got.data() + p; if (h[0] != 1 || h[1] < 1 || h[1] > 11) { okf = false; break; } if (h[1] == 3) ends++; p += 8 + ((h[4] << 8) | h[5]) + h[6]; }
                VF_CHECK(okf, "fcgi:reply-bad-framing", vr::show(got.substr(p, 32), 100));
                VF_CHECK((size_t)ends <= bound + 1, "fcgi:more-end-requests-than-requests", std::to_string(ends) + " END_REQUEST records for at most " + std::to_string(bound) + " requests");
            } else {
                vc::CgiReply r = vc::parse_cgi_reply(got);
                if (m.eof) VF_CHECK(r.complete, "scgi:reply-without-header-block", vr::show(got, 100));
                if (r.complete && r.status >= 400) VR.nontrivial(vr::fnv(payload));
            }
        }
        if (after == 3) m.reset_hard(); else m.close();
    }
    VF_CHECK(g_fx->alive(), "service-died", "service::run() returned: " + g_fx->loop_exception);

    // ledger checks for events carrying this iteration's tag (late events of earlier iterations are checked when they are seen)
    {
        std::vector<vs::LedgerEntry> ev = vs::Ledger::get().snapshot();
        std::map<std::string, std::vector<std::string>> per_filter; size_t handlers_this = 0;
        for (size_t i = ledger_before > 200 ? ledger_before - 200 : 0; i < ev.size(); i++) {
            auto &e = ev[i];
            if (e.tag.find("probe") != std::string::npos) continue;
            if (e.what == "handler" && e.tag.find("it=" + tag) != std::string::npos) handlers_this++;
            if (e.what.compare(0, 7, "filter.") == 0) per_filter[e.tag.substr(0, e.tag.find('|'))].push_back(e.what);
        }
        VF_CHECK(handlers_this <= bound, "handler-called-more-often-than-requests", std::to_string(handlers_this) + " handler calls tagged " + tag + " but the bytes hold at most " + std::to_string(bound) + " requests");
        if (!g_must_reject.empty()) { VR.cls("malformed.must_reject." + g_must_reject); VF_CHECK(handlers_this == 0, g_must_reject, std::to_string(handlers_this) + " handler call(s) for a byte stream that holds no acceptable request"); }
        VF_CHECK(!(oversize_header && handlers_this), "http:oversized-header-reaches-handler", "no end of headers within 32 KiB, yet the handler ran " + std::to_string(handlers_this) + " time(s)");
        if (handlers_this) { VR.cls("malformed.reached_handler"); VR.nontrivial(vr::fnv(payload)); }
        for (auto &kv : per_filter) {
            int errs = 0; bool ended = false;
            for (auto &w : kv.second) { if (w == "filter.error") { errs++; VF_CHECK(!ended, "filter:on_error-after-on_end_of_content", "filter " + kv.first); } if (w == "filter.end") ended = true; }
            VF_CHECK(errs <= 1, "filter:on_error-twice", "filter " + kv.first + " got on_error " + std::to_string(errs) + " times");
            if (errs) { VR.cls("malformed.filter_on_error"); VR.nontrivial(vr::fnv(payload)); }
        }
        if (ev.size() > 4000) vs::Ledger::get().clear();
    }
    if ((g_iter % 1000) == 0 && vr::envl("C02_DEBUG_FDS", 0)) {
        int n = 0; for (int fd = 0; fd < 4096; fd++) if (fcntl(fd, F_GETFD) != -1) n++;
        fprintf(stderr, "FDS iter=%ld open=%d\n", g_iter, n);
    }
    if (VR.want_sample()) VR.sample(std::string(1, g_fe) + " mode=" + std::to_string(mode) + " after=" + std::to_string(after) + " payload=" + vr::show(payload, 160));
    return 0;
}
