// Shared by the C07 / C08 harnesses (c07_cache.cpp, c07_evict.cpp):
//   * virtual clock (link-time interposition of time(), -Wl,--wrap=time)
//   * key / trigger / value alphabets, the Op / Case serialisation
//   * SimpleModel  — C07 reference: key -> (value, T u {k}, deadline); entries that *may* have been evicted are flagged
//   * BranchModel  — C08 reference: set of possible states, each an LRU-ordered list of entries
// Nothing in here is derived from the code under test: the rules come from the property statements (properties.jsonl),
// the documentation in cppcms/cache_interface.h and DESIGN.md section 6a.
#pragma once
#include "vrc.h"
#include "base_cache.h"
#include "cache_storage.h"
#include <booster/intrusive_ptr.h>
#include <map>
#include <set>
#include <memory>
#include <algorithm>
#include <time.h>

namespace cm {

// ---------------------------------------------------------------------------------------------- virtual clock
static const time_t T0 = 1000000;
static time_t g_now = T0;
extern "C" time_t __wrap_time(time_t *t) { if (t) *t = g_now; return g_now; }

typedef booster::intrusive_ptr<cppcms::impl::base_cache> cache_ptr;
typedef std::set<std::string> sset;

// class counters keyed by static strings (cheap in the enumeration's inner loop); flushed into the report by the harness
struct FastCls {
    std::map<std::pair<const char *, const char *>, long long> c;
    void add(const char *a, const char *b = "") { c[std::make_pair(a, b)]++; }
    void addn(const char *a, const char *b, long long n) { c[std::make_pair(a, b)] += n; }
    void flush() { for (auto &kv : c) VR.cls(std::string(kv.first.first) + kv.first.second, kv.second); c.clear(); }
};
static FastCls FC;
static bool g_enum = false;     // enumeration mode: cases are distinct by construction, counters are flushed in batches

// ---------------------------------------------------------------------------------------------- alphabets
// Keys and triggers share one name space on purpose (a key is always also a trigger of its own entry).
inline std::string name(int i) {
    static const std::string sp[] = {
        "a", "b", "t", "", std::string("x\0y", 3), std::string("x\0z", 3), "x",
        "a-long-key-name-beyond-the-small-string-buffer", "_U:a", "_Z:a", "_U:b", "a\xff\x80"};
    const int nsp = sizeof(sp) / sizeof(sp[0]);
    if (i >= 0 && i < nsp) return sp[i];
    std::string r = "k" + std::to_string(i);
    if (i % 5 == 0) r += "-0123456789abcdefghij";   // beyond the SSO buffer: allocates in the shared segment
    return r;
}
inline std::string value(int seed, int len) {
    std::string s((size_t)len, '\0');
    uint64_t x = (uint64_t)(uint32_t)seed * 0x9E3779B97F4A7C15ULL + (uint64_t)len * 40503u + 12345u;
    int j = 0;
    for (; j + 8 <= len; j += 8) { x = x * 6364136223846793005ULL + 1442695040888963407ULL; uint64_t y = x ^ (x >> 29); memcpy(&s[j], &y, 8); }
    for (; j < len; j++) { x = x * 6364136223846793005ULL + 1442695040888963407ULL; s[j] = char(x >> 56); }
    return s;
}
inline std::string show_set(sset const &s) {
    std::string r = "{"; bool f = true;
    for (auto &t : s) { r += (f ? "" : ",") + vr::show(t, 40); f = false; }
    return r + "}";
}

// ---------------------------------------------------------------------------------------------- operations
enum Kind { STORE, FETCH, RISE, REMOVE, CLEAR, TICK, STATS,
            // cache_interface level
            PAGE_BEGIN, WRITE, ADD_TRIGGER, FETCH_FRAME, STORE_FRAME, REC_PUSH, REC_POP_STORE, REC_DROP, RESET, PAGE_STORE, PAGE_END,
            // C08 long fill/empty runs: one operation = `dl` cycles of (fill `key` fresh entries, empty them by method `flag`)
            PHASE,
            NKINDS };
static const char *kind_names[] = {"store", "fetch", "rise", "remove", "clear", "tick", "stats",
                                   "page_begin", "write", "add_trigger", "fetch_frame", "store_frame", "rec_push", "rec_pop_store",
                                   "rec_drop", "reset", "page_store", "page_end", "phase"};

struct Op {
    int kind = FETCH;
    int key = 0;        // key index (STORE/FETCH/REMOVE/..), trigger index (RISE/ADD_TRIGGER), recorder selector (REC_*)
    int flag = 0;       // notriggers / gzip / recorder index
    long long dl = 0;   // STORE: deadline relative to now; *_FRAME/PAGE_STORE: timeout (-1 = infinite); TICK: dt
    int vlen = 0, vseed = 0;
    std::vector<int> trigs;
    void encode(vr::CaseWriter &w) const {
        w.w(kind_names[kind]).i(key).i(flag).i(dl).i(vlen).i(vseed).i((long long)trigs.size());
        for (int t : trigs) w.i(t);
        w.nl();
    }
    static Op decode(vr::CaseReader &r) {
        Op o; std::string k = r.w(); o.kind = -1;
        for (int i = 0; i < NKINDS; i++) if (k == kind_names[i]) o.kind = i;
        if (o.kind < 0) throw std::runtime_error("unknown op " + k);
        o.key = (int)r.i(); o.flag = (int)r.i(); o.dl = r.i(); o.vlen = (int)r.i(); o.vseed = (int)r.i();
        int n = (int)r.i(); for (int i = 0; i < n; i++) o.trigs.push_back((int)r.i());
        return o;
    }
    std::string str() const {
        std::string s = kind_names[kind];
        switch (kind) {
        case STORE: case STORE_FRAME: case REC_POP_STORE: {
            s += "(" + vr::show(name(key), 24) + ",v" + std::to_string(vseed) + "/" + std::to_string(vlen) + "B,{";
            for (size_t i = 0; i < trigs.size(); i++) s += (i ? "," : "") + vr::show(name(trigs[i]), 24);
            s += "}," + std::string(kind == STORE ? "now" : "t=") + (kind == STORE && dl >= 0 ? "+" : "") + std::to_string(dl) + (flag ? ",flag" + std::to_string(flag) : "") + ")";
            break; }
        case FETCH: case REMOVE: case RISE: case ADD_TRIGGER: case FETCH_FRAME: case PAGE_BEGIN: case PAGE_STORE:
            s += "(" + vr::show(name(key), 24) + (flag ? ",flag" + std::to_string(flag) : "") + (kind == PAGE_STORE ? ",t=" + std::to_string(dl) : "") + ")"; break;
        case TICK: s += "(" + std::to_string(dl) + ")"; break;
        case PHASE: s += "(" + std::to_string(dl) + " cycles x " + std::to_string(key) + " fresh entries of " + std::to_string(vlen) + "B, empty_by=" + std::to_string(flag) +
                         ", names=" + std::to_string(vseed) + ", extra/shared triggers=" + (trigs.size() > 0 ? std::to_string(trigs[0]) : "0") + "/" + (trigs.size() > 1 ? std::to_string(trigs[1]) : "0") + ")"; break;
        case WRITE: s += "(" + std::to_string(vlen) + "B)"; break;
        default: break;
        }
        return s;
    }
};

struct Case {
    int backend = 0;       // 0 thread_shared, 1 process_shared
    int seg_kib = 0;       // size of the shared segment (process_shared); fixed per process by the first factory call
    int limit = 0;
    int nkeys = 2;         // informational (alphabet the generator drew from)
    int mode = 0;          // harness specific (0 base interface, 1 cache_interface / fill-cycle parameters ...)
    std::vector<Op> ops;
    void encode(vr::CaseWriter &w) const {
        w.i(backend).i(seg_kib).i(limit).i(nkeys).i(mode).i((long long)ops.size()).nl();
        for (auto &o : ops) o.encode(w);
    }
    static Case decode(vr::CaseReader &r) {
        Case c; c.backend = (int)r.i(); c.seg_kib = (int)r.i(); c.limit = (int)r.i(); c.nkeys = (int)r.i(); c.mode = (int)r.i();
        int n = (int)r.i(); for (int i = 0; i < n; i++) c.ops.push_back(Op::decode(r));
        return c;
    }
    std::string str(size_t max_ops = 12) const {
        std::string s = std::string(backend ? "process_shared/" + std::to_string(seg_kib) + "KiB" : "thread_shared") + " limit=" + std::to_string(limit) + " K=" + std::to_string(nkeys) + ":";
        for (size_t i = 0; i < ops.size() && i < max_ops; i++) s += " " + ops[i].str();
        if (ops.size() > max_ops) s += " ...(" + std::to_string(ops.size()) + " ops)";
        return s;
    }
    uint64_t hash() const { vr::CaseWriter w; encode(w); return vr::fnv(w.str()); }
};

// ---------------------------------------------------------------------------------------------- back-ends
// thread_shared: a fresh cache per case.  process_shared: the segment is a per-process singleton whose size is fixed by the
// first factory call and whose cache objects are never freed -> one cache per limit, clear()ed before every case.
inline cache_ptr get_cache(int backend, int seg_kib, int limit) {
    if (backend == 0) return cppcms::impl::thread_cache_factory((unsigned)limit);
    static std::map<int, cache_ptr> per_limit;
    static int seg = 0;
    if (seg == 0) seg = seg_kib;
    if (seg != seg_kib) throw std::runtime_error("process_shared segment size is fixed per process (" + std::to_string(seg) + " KiB), case wants " + std::to_string(seg_kib));
    for (auto &kv : per_limit) kv.second->clear();     // entries of earlier cases (other limits) would occupy the segment
    auto it = per_limit.find(limit);
    if (it == per_limit.end()) it = per_limit.insert(std::make_pair(limit, cppcms::impl::process_cache_factory((size_t)seg_kib * 1024, (unsigned)limit))).first;
    return it->second;
}

// what a fetch through the base interface returned
struct Fetched {
    bool hit = false; std::string val; sset trigs; time_t deadline = 0;
};
inline Fetched do_fetch(cache_ptr const &c, std::string const &k) {
    Fetched f; f.val = "<untouched>"; f.deadline = -777;
    f.hit = c->fetch(k, &f.val, &f.trigs, &f.deadline);
    return f;
}

// ---------------------------------------------------------------------------------------------- C07: simple model
struct SEntry {
    std::string val; bool gz = false;     // gz: the stored bytes are a gzip stream of val (pages built for a gzip client)
    sset trigs; time_t deadline = 0; bool inf = false;
    bool maybe = false;                    // a size limit / memory pressure may have evicted it since it was stored
};
static const long long FAR_FUTURE = 1LL << 40;   // "infinite" timeouts must lie at least this far ahead

struct SimpleModel {
    unsigned limit = 0;
    bool pressure = false;                 // shared-memory pressure cannot be excluded: every store may evict
    std::map<std::string, SEntry> m;
    std::map<std::string, const char *> why_gone;     // key -> reason of the last invalidation (signature / classes)
    std::map<std::string, SEntry> superseded;         // key -> entry replaced by the latest store (signature only)
    std::map<std::string, const char *> pending;      // key -> event since its last fetch (non-triviality rule); static strings
    bool exact = true;                     // no eviction can have happened since the last clear: stats are implied exactly

    bool live(SEntry const &e, time_t now) const { return e.inf || e.deadline >= now; }
    void forget(std::string const &k, const char *why) { m.erase(k); why_gone[k] = why; pending[k] = why; superseded.erase(k); }

    // returns true when the key being stored is a trigger of another live entry (non-triviality rule)
    bool store(std::string const &k, SEntry e, time_t now) {
        e.trigs.insert(k); e.maybe = false;
        bool key_is_trigger_elsewhere = false;
        for (auto &kv : m) if (kv.first != k && kv.second.trigs.count(k) && live(kv.second, now)) key_is_trigger_elsewhere = true;
        auto it = m.find(k);
        if (it != m.end()) { superseded[k] = it->second; pending[k] = "restore"; }
        else superseded.erase(k);
        size_t others = m.size() - (it != m.end() ? 1 : 0);
        if (pressure || (limit > 0 && others >= limit)) { for (auto &kv : m) kv.second.maybe = true; exact = false; }
        if (pressure) e.maybe = true;      // shared memory may be short: the store itself can be refused (the key is then absent)
        m[k] = e;
        why_gone.erase(k);
        return key_is_trigger_elsewhere;
    }
    void rise(std::string const &t) {
        std::vector<std::string> kill;
        for (auto &kv : m) if (kv.second.trigs.count(t)) kill.push_back(kv.first);
        for (auto &k : kill) forget(k, "rise");
    }
    void remove(std::string const &k) { if (m.count(k)) forget(k, "remove"); }
    void clear() { std::vector<std::string> ks; for (auto &kv : m) ks.push_back(kv.first); for (auto &k : ks) forget(k, "clear"); exact = true; }
    void tick(time_t before, time_t after) { for (auto &kv : m) if (live(kv.second, before) && !live(kv.second, after)) pending[kv.first] = "expiry"; }
    unsigned keys() const { return (unsigned)m.size(); }
    unsigned triggers() const { unsigned n = 0; for (auto &kv : m) n += (unsigned)kv.second.trigs.size(); return n; }

    // Compare one observed fetch with the model.  value_eq lets the caller compare gzip pages after inflating.
    template <class Eq>
    vr::Outcome check_fetch(std::string const &k, Fetched const &f, time_t now, bool full, Eq value_eq) {
        auto it = m.find(k);
        std::string ks = vr::show(k, 40);
        if (it == m.end() || !live(it->second, now)) {
            if (f.hit) {
                std::string why = it != m.end() ? "expiry" : (why_gone.count(k) ? why_gone[k] : "never-stored");
                return vr::bad("cache:hit-after-" + why, "fetch(" + ks + ") returned " + vr::show(f.val, 40) + " although the entry is gone (" + why + ")" +
                               (it != m.end() ? " deadline=" + std::to_string((long long)it->second.deadline) + " now=" + std::to_string((long long)now) : ""));
            }
            if (it != m.end() && it->second.maybe) { /* cannot tell whether it is still counted */ }
            return vr::ok();
        }
        SEntry const &e = it->second;
        if (!f.hit) {
            if (e.maybe) { m.erase(it); why_gone[k] = "evicted"; return vr::ok(); }
            return vr::bad("cache:miss-on-live-entry", "fetch(" + ks + ") missed although a live entry exists and no size limit is in play (deadline=" +
                           std::to_string((long long)e.deadline) + " now=" + std::to_string((long long)now) + ")");
        }
        if (!value_eq(e, f.val)) {
            auto sp = superseded.find(k);
            if (sp != superseded.end() && value_eq(sp->second, f.val))
                return vr::bad(pressure ? "shm:failed-store-keeps-old-value" : "cache:superseded-value-served", "fetch(" + ks + ") returned the value of an older store: " + vr::show(f.val, 40) + " expected " + vr::show(e.val, 40));
            return vr::bad("cache:wrong-value", "fetch(" + ks + ") returned " + vr::show(f.val, 40) + " (" + std::to_string(f.val.size()) + "B) expected " + vr::show(e.val, 40) + " (" + std::to_string(e.val.size()) + "B)");
        }
        if (full) {
            if (f.trigs != e.trigs) return vr::bad("cache:wrong-triggers", "fetch(" + ks + ") trigger set " + show_set(f.trigs) + " expected " + show_set(e.trigs));
            if (e.inf ? (long long)f.deadline < (long long)now + FAR_FUTURE : f.deadline != e.deadline)
                return vr::bad("cache:wrong-deadline", "fetch(" + ks + ") deadline " + std::to_string((long long)f.deadline) + " expected " + (e.inf ? "infinite" : std::to_string((long long)e.deadline)));
        }
        return vr::ok();
    }
    vr::Outcome check_fetch(std::string const &k, Fetched const &f, time_t now, bool full = true) {
        return check_fetch(k, f, now, full, [](SEntry const &e, std::string const &v) { return e.val == v; });
    }
    vr::Outcome check_stats(unsigned keys_seen, unsigned trig_seen) {
        if (limit > 0 && keys_seen > limit)
            return vr::bad("cache:limit-exceeded", "stats reports " + std::to_string(keys_seen) + " keys with limit " + std::to_string(limit));
        if (exact) {
            if (keys_seen != keys()) return vr::bad("cache:stats-keys", "stats keys=" + std::to_string(keys_seen) + " history implies " + std::to_string(keys()));
            if (trig_seen != triggers()) return vr::bad("cache:stats-triggers", "stats triggers=" + std::to_string(trig_seen) + " history implies " + std::to_string(triggers()));
        } else {
            if (keys_seen > keys()) return vr::bad("cache:stats-keys", "stats keys=" + std::to_string(keys_seen) + " but at most " + std::to_string(keys()) + " entries can exist");
            if (trig_seen > triggers()) return vr::bad("cache:stats-triggers", "stats triggers=" + std::to_string(trig_seen) + " but at most " + std::to_string(triggers()) + " links can exist");
        }
        return vr::ok();
    }
    // takes and clears the pending event of a key; null when the fetch is trivial
    const char *take_pending(std::string const &k) { auto it = pending.find(k); if (it == pending.end()) return nullptr; const char *r = it->second; pending.erase(it); return r; }
};

// ---------------------------------------------------------------------------------------------- C08: set-of-states model
struct BEntry { std::string key; uint64_t vhash = 0; size_t vlen = 0; sset trigs; time_t deadline = 0; };
typedef std::shared_ptr<const BEntry> BE;
struct BState {
    std::vector<BE> lru;     // front = most recently stored or fetched
    int find(std::string const &k) const { for (size_t i = 0; i < lru.size(); i++) if (lru[i]->key == k) return (int)i; return -1; }
    std::string canon() const { std::string s; for (auto &e : lru) { s += std::to_string(e->key.size()) + ":" + e->key + ","; } return s; }
    unsigned triggers() const { unsigned n = 0; for (auto &e : lru) n += (unsigned)e->trigs.size(); return n; }
};

struct BranchModel {
    unsigned limit = 1;
    bool pressure = false;            // shared memory may run low: a store may evict more than the limit demands, be refused (which
                                      // still removes the entry it was to replace), or clear everything (bad_alloc)
    std::vector<BState> states;
    std::map<std::string, BE> superseded;
    bool overflow = false;
    static const size_t CAP = 1024;
    // non-triviality bookkeeping
    bool nt_mixed = false, nt_tail = false, tail_moved = false;
    long evictions = 0;

    BranchModel() { states.push_back(BState()); }
    static bool expired(BE const &e, time_t now) { return e->deadline < now; }

    void dedupe(std::vector<BState> &v) {
        std::set<std::string> seen; std::vector<BState> r;
        for (auto &s : v) if (seen.insert(s.canon()).second) r.push_back(std::move(s));
        v.swap(r);
        if (v.size() > CAP) overflow = true;
    }
    // one eviction step: an expired entry (any of them) before a live one, otherwise the least recently used
    static void evict_one(BState const &s, time_t now, std::vector<BState> &out) {
        std::vector<size_t> ex;
        for (size_t i = 0; i < s.lru.size(); i++) if (expired(s.lru[i], now)) ex.push_back(i);
        if (ex.empty()) ex.push_back(s.lru.size() - 1);
        for (size_t i : ex) { BState t = s; t.lru.erase(t.lru.begin() + i); out.push_back(std::move(t)); }
    }
    void room(BState const &s, time_t now, std::set<std::string> &seen, std::vector<BState> &out) {
        if (!seen.insert(s.canon()).second || overflow) return;
        if (seen.size() > 4096) { overflow = true; return; }
        bool forced = limit > 0 && s.lru.size() >= limit;
        if (!forced) out.push_back(s);
        if (!s.lru.empty() && (forced || pressure)) {
            std::vector<BState> tmp; evict_one(s, now, tmp);
            for (auto &t : tmp) room(t, now, seen, out);
        }
    }
    void store(BE const &e, time_t now) {
        // bookkeeping for the non-triviality rule, on the first surviving state
        {
            BState s = states[0]; int i = s.find(e->key); if (i >= 0) s.lru.erase(s.lru.begin() + i);
            if (limit > 0 && s.lru.size() >= limit) {
                bool anyexp = false, anylive = false;
                for (auto &x : s.lru) (expired(x, now) ? anyexp : anylive) = true;
                evictions++;
                if (anyexp && anylive) nt_mixed = true;
                if (!anyexp && tail_moved) nt_tail = true;
            }
        }
        std::vector<BState> out;
        for (auto &s0 : states) {
            BState s = s0; int i = s.find(e->key);
            bool had = i >= 0;
            if (had) { if (&s0 == &states[0]) superseded[e->key] = s.lru[i]; s.lru.erase(s.lru.begin() + i); }
            std::set<std::string> seen; std::vector<BState> roomy;
            room(s, now, seen, roomy);
            for (auto &t : roomy) { t.lru.insert(t.lru.begin(), e); out.push_back(std::move(t)); }
            if (pressure) {
                out.push_back(BState());              // bad_alloc while linking the entry: documented full clear
                out.push_back(s);                     // value could not be copied: refused; the entry it was to replace is gone
            }
        }
        dedupe(out); states.swap(out);
    }
    void rise(std::string const &t) {
        for (auto &s : states) { std::vector<BE> k; for (auto &e : s.lru) if (!e->trigs.count(t)) k.push_back(e); s.lru.swap(k); }
        dedupe(states); superseded.clear();
    }
    void remove(std::string const &key) {
        for (auto &s : states) { int i = s.find(key); if (i >= 0) s.lru.erase(s.lru.begin() + i); }
        dedupe(states); superseded.erase(key);
    }
    void clear() { states.clear(); states.push_back(BState()); superseded.clear(); tail_moved = false; }

    // observation of a fetch: keeps the states that explain it (and applies the LRU move)
    vr::Outcome fetch(std::string const &key, Fetched const &f, time_t now) {
        std::vector<BState> out; bool any_hit_pred = false, any_miss_pred = false, data_mismatch = false;
        uint64_t h = f.hit ? vr::fnv(f.val) : 0;
        for (auto &s : states) {
            int i = s.find(key);
            bool pred = i >= 0 && !expired(s.lru[i], now);
            (pred ? any_hit_pred : any_miss_pred) = true;
            if (pred != f.hit) continue;
            if (pred) {
                BE e = s.lru[i];
                if (e->vlen != f.val.size() || e->vhash != h || e->trigs != f.trigs || e->deadline != f.deadline) { data_mismatch = true; continue; }
                BState t = s; t.lru.erase(t.lru.begin() + i); t.lru.insert(t.lru.begin(), e);
                out.push_back(std::move(t));
            } else out.push_back(s);
        }
        std::string ks = vr::show(key, 40);
        if (out.empty()) {
            if (f.hit && data_mismatch) {
                auto sp = superseded.find(key);
                if (sp != superseded.end() && sp->second->vlen == f.val.size() && sp->second->vhash == h)
                    return vr::bad(pressure ? "shm:failed-store-keeps-old-value" : "cache:superseded-value-served", "fetch(" + ks + ") returned the value of an older store (" + std::to_string(f.val.size()) + "B) after a newer store under the same key");
                return vr::bad("evict:wrong-data", "fetch(" + ks + ") hit but value/triggers/deadline differ from the most recent store (" + std::to_string(f.val.size()) + "B, triggers " + show_set(f.trigs) + ", deadline " + std::to_string((long long)f.deadline) + ")");
            }
            if (f.hit) {
                auto sp = superseded.find(key);
                if (sp != superseded.end() && sp->second->vlen == f.val.size() && sp->second->vhash == h)
                    return vr::bad(pressure ? "shm:failed-store-keeps-old-value" : "cache:superseded-value-served", "fetch(" + ks + ") returned the value of an older store (" + std::to_string(f.val.size()) + "B) after a newer store under the same key");
                return vr::bad("evict:unexpected-hit", "fetch(" + ks + ") hit, but under the expired-then-LRU rule this entry cannot be present/live in any state explaining the history (" + describe(now) + ")");
            }
            return vr::bad("evict:unexpected-miss", "fetch(" + ks + ") missed, but under the expired-then-LRU rule the entry is present and live in every state explaining the history (" + describe(now) + ")");
        }
        if (f.hit) {
            BState const &s = states[0];
            if (s.lru.size() >= 2 && s.lru.back()->key == key) tail_moved = true;
        }
        dedupe(out); states.swap(out);
        (void)any_hit_pred; (void)any_miss_pred;
        return vr::ok();
    }
    vr::Outcome stats(unsigned keys, unsigned trigs, time_t now) {
        if (limit > 0 && keys > limit) return vr::bad("evict:limit-exceeded", "stats reports " + std::to_string(keys) + " keys with limit " + std::to_string(limit));
        std::vector<BState> out; bool keys_ok = false;
        for (auto &s : states) { if (s.lru.size() == keys) { keys_ok = true; if (s.triggers() == trigs) out.push_back(s); } }
        if (out.empty()) {
            if (!keys_ok) return vr::bad("evict:stats-keys", "stats keys=" + std::to_string(keys) + " but the history implies " + describe(now));
            return vr::bad("evict:stats-triggers", "stats triggers=" + std::to_string(trigs) + " (keys=" + std::to_string(keys) + ") but the history implies " + describe(now));
        }
        states.swap(out);
        return vr::ok();
    }
    std::string describe(time_t now) const {
        std::string r;
        for (size_t i = 0; i < states.size() && i < 4; i++) {
            r += (i ? " | " : "") + std::string("[");
            for (auto &e : states[i].lru) r += vr::show(e->key, 16) + (expired(e, now) ? "(expired) " : " ");
            r += "] keys=" + std::to_string(states[i].lru.size()) + " triggers=" + std::to_string(states[i].triggers());
        }
        if (states.size() > 4) r += " | ... " + std::to_string(states.size()) + " states";
        return r + " (MRU first)";
    }
};

} // namespace cm
